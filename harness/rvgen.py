"""Generators for RISC-V programs (instruction-object level), shared by C01, C02, C07, C08, C09, C11, C13, C16."""
from __future__ import annotations
from core import Case

POOL = [0, 1, 2, 5, 10, 17]          # x0, x1, x2(base), x5, a0, a7 — small so RAW/WAW at distance 1..3 are constant
DATA = 2**14
BND32 = [0, 1, 2, 0xFFFFFFFF, 0x80000000, 0x7FFFFFFF, 31, 32, 0x7FF, 0x800, 0xFFF, DATA, DATA + 4, DATA + 1, 0xFFFFFFFE, 4, 8]
IMM12 = [0, 1, -1, 2047, -2048, 4, 8, -4, 3, 31, 32, 255, -256, 1000]

R_OPS = ["add", "sub", "sll", "slt", "sltu", "xor", "srl", "sra", "or", "and", "mul", "mulh", "mulhu", "mulhsu", "div", "divu", "rem", "remu"]
I_OPS = ["addi", "slti", "sltiu", "xori", "ori", "andi"]
SH_OPS = ["slli", "srli", "srai"]
LD_OPS = ["lb", "lh", "lw", "lbu", "lhu"]
ST_OPS = ["sb", "sh", "sw"]
B_OPS = ["beq", "bne", "blt", "bge", "bltu", "bgeu"]


def tok(op, rd=0, rs1=0, rs2=0, imm=0, aux=0):
    """Protocol token of an instruction object; fields the instruction class does not store are 0."""
    if op in ("ecall",):
        rd = rs1 = rs2 = imm = aux = 0
    elif op in R_OPS:
        imm = aux = 0
    elif op in I_OPS or op in SH_OPS or op in LD_OPS or op == "jalr":
        rs2 = aux = 0
    elif op in ST_OPS or op in B_OPS:
        rd = aux = 0
    elif op in ("lui", "auipc"):
        rs1 = rs2 = aux = 0
    elif op == "jal":
        rs1 = rs2 = 0
    return f"{op},{rd},{rs1},{rs2},{imm},{aux}"


def reg(rng, wide=False):
    return rng.randrange(32) if wide and rng.random() < 0.3 else rng.choice(POOL)


def dreg(rng, wide=False):
    """destination: avoid clobbering the base register x2 too often"""
    r = reg(rng, wide)
    return r if r != 2 or rng.random() < 0.15 else rng.choice([1, 5, 10, 17])


def gen_instr(rng, k, n, opts):
    """instruction number k of n; returns a token."""
    r = rng.random()
    w = opts.get("wide", False)
    if r < 0.30:
        return tok(rng.choice(R_OPS), dreg(rng, w), reg(rng, w), reg(rng, w))
    if r < 0.48:
        return tok(rng.choice(I_OPS), dreg(rng, w), reg(rng, w), 0, rng.choice(IMM12 + [rng.randrange(-2048, 2048)]))
    if r < 0.54:
        return tok(rng.choice(SH_OPS), dreg(rng, w), reg(rng, w), 0, rng.choice([0, 1, 31, 16, rng.randrange(32)]))
    if r < 0.64 and opts.get("mem", True):
        off = rng.choice([0, 4, 8, 0, 4, 1, 2, 3, -4, 16, 64, 2044] if not opts.get("aligned") else [0, 4, 8, 12, 16, 64])
        op = rng.choice(LD_OPS)
        if opts.get("aligned"):
            off += rng.choice([0] if op == "lw" else ([0, 2] if op in ("lh", "lhu") else [0, 1, 2, 3]))
        return tok(op, dreg(rng, w), 2 if rng.random() < 0.9 else reg(rng, w), 0, off)
    if r < 0.74 and opts.get("mem", True):
        off = rng.choice([0, 4, 8, 0, 4, 1, 2, 3, -4, 16, 64, 2044] if not opts.get("aligned") else [0, 4, 8, 12, 16, 64])
        op = rng.choice(ST_OPS)
        if opts.get("aligned"):
            off += rng.choice([0] if op == "sw" else ([0, 2] if op == "sh" else [0, 1, 2, 3]))
        return tok(op, 0, 2 if rng.random() < 0.9 else reg(rng, w), reg(rng, w), off)
    if r < 0.84 and opts.get("ctl", True):
        # branches: mostly forward by 1..3 instructions, sometimes backward (bounded by the step limit), rarely wild
        d = rng.choice([2, 2, 3, 4, 1, -1, -2, 0, 5]) * 4 if rng.random() < 0.93 else rng.choice([-4096, 4094, 2 * (n + 3) * 2, -8 * (k + 2)])
        return tok(rng.choice(B_OPS), 0, reg(rng, w), reg(rng, w), d)
    if r < 0.89 and opts.get("ctl", True):
        d = rng.choice([2, 3, 4, 1, -1, 0, 6]) * 4 if rng.random() < 0.93 else rng.choice([-(2**20), 2**20 - 2, 4 * (n + 2)])
        return tok("jal", dreg(rng, w), 0, 0, d, 4 * k + d)
    if r < 0.93 and opts.get("ctl", True):
        # jalr through a register: targets are set up by the initial register values (see gen_program)
        return tok("jalr", dreg(rng, w), rng.choice([1, 5, 0, 10]), 0, rng.choice([0, 4, 8, 1, 9, -4, 12, 5]))
    if r < 0.96:
        return tok(rng.choice(["lui", "auipc"]), dreg(rng, w), 0, 0, rng.choice([0, 1, -1, 4, 2**19 - 1, -(2**19), 5, rng.randrange(-(2**19), 2**19)]))
    if opts.get("ecall", True):
        return tok("ecall")
    return tok("addi", 0, 0, 0, 0)


def gen_program(rng, opts=None):
    opts = dict(opts or {})
    n = opts.get("n") or rng.choice([1, 2, 3, 4, 6, 8, 12, 20])
    prog = [gen_instr(rng, k, n, opts) for k in range(n)]
    regs = {}
    for r_ in POOL[1:]:
        regs[r_] = rng.choice(BND32 + [rng.randrange(2**32)])
    regs[2] = DATA + rng.choice([0, 0, 4, 8, 64, 2048])       # base register
    # a7 = ecall code: mostly valid
    regs[17] = rng.choice([1, 2, 4, 11, 34, 35, 36, 10, 93, 1, 36, 34, 0, 5, 12]) if rng.random() < 0.9 else rng.randrange(2**32)
    if regs[17] == 4:
        regs[10] = DATA + rng.choice([0, 4, 100])
    # jalr targets: x1/x5 mostly point into the program (also via wrap-around: finding F2)
    for r_ in (1, 5):
        t = rng.random()
        if t < 0.5:
            regs[r_] = 4 * rng.randrange(n + 1)
        elif t < 0.6:
            regs[r_] = (4 * rng.randrange(n + 1) - rng.choice([4, 8, 9])) % 2**32   # + imm wraps into the program
    pokes = []
    for _ in range(rng.choice([0, 2, 6])):
        a = DATA + rng.choice([0, 1, 2, 3, 4, 5, 8, 64, 100, 101, 102, 2048])
        pokes.append((a, rng.choice([0, 1, 0x80, 0xFF, 65, 66, rng.randrange(256)])))
    if opts.get("wide"):
        for _ in range(4):
            regs[rng.randrange(1, 32)] = rng.choice(BND32 + [rng.randrange(2**32)])
    return prog, regs, pokes


def chain_program(rng, n=None):
    """Dense data-flow chains: values produced by every kind of instruction (all five loads, lui, slt, mul…) are used as
    BOTH operands of later instructions, stored back (all three widths) and reloaded — over a four-register pool, so
    width/sign/type mistakes of one instruction show in the next."""
    pool = [1, 5, 10, 6]
    n = n or rng.choice([4, 6, 9, 14])
    prog = []
    for k in range(n):
        r = rng.random()
        rd = rng.choice(pool)
        if r < 0.3:
            op = rng.choice(LD_OPS)
            off = rng.choice([0, 4, 8, 12]) + (rng.choice([0, 1, 2, 3]) if op in ("lb", "lbu") else (rng.choice([0, 2]) if op in ("lh", "lhu") else 0))
            prog.append(tok(op, rd, 2, 0, off))
        elif r < 0.7:
            prog.append(tok(rng.choice(R_OPS), rd, rng.choice(pool), rng.choice(pool)))
        elif r < 0.8:
            op = rng.choice(ST_OPS)
            off = rng.choice([0, 4, 8, 12]) + (rng.choice([0, 1, 2, 3]) if op == "sb" else (rng.choice([0, 2]) if op == "sh" else 0))
            prog.append(tok(op, 0, 2, rng.choice(pool), off))
        elif r < 0.9:
            op = rng.choice(I_OPS + SH_OPS)
            prog.append(tok(op, rd, rng.choice(pool), 0, rng.choice([1, 31, 7, 0, 16]) if op in SH_OPS else rng.choice([1, 31, -1, 255, 7, -2048])))
        else:
            prog.append(tok(rng.choice(B_OPS), 0, rng.choice(pool), rng.choice(pool), 8))
    regs = {2: DATA, 1: rng.choice(BND32), 5: rng.choice(BND32), 10: rng.randrange(2**32), 6: rng.choice([0, 1, 0xFF, 0x8000])}
    pokes = [(DATA + i, rng.choice([0, 1, 0x7F, 0x80, 0xFF, 0xC8, 3, rng.randrange(256)])) for i in range(16)]
    return prog, regs, pokes


def chain_case(rng, mode, hazard=True, trace=30, run=300, dspec="-", ispec="-", suite="sim-chain"):
    prog, regs, pokes = chain_program(rng)
    lines = header(mode, hazard, dspec, ispec, prog, regs, pokes)
    lines.append("sim.snap")
    for _ in range(trace):
        lines += ["sim.step", "sim.snap"]
    lines += [f"sim.run {run}", "sim.snap"]
    return Case(suite, lines, None, {"mode": mode, "hazard": hazard, "prog": prog, "regs": regs, "pokes": pokes, "d": dspec, "i": ispec})


def ecall_program(rng):
    """Programs made of environment calls of every documented code (print int / string / char / hex / bin / unsigned,
    exit with and without status) with their arguments set up in the program itself; the print-string argument is a
    string poked into data memory (1..9 characters, at a word boundary or not, possibly across cache blocks); loads and
    stores near the string in between, so that parts of it are cached when it is printed. Ends with an exit call."""
    prog, pokes = [], []
    soff = rng.choice([0, 1, 3, 4, 6, 13, 30])
    slen = rng.choice([1, 2, 4, 5, 9])
    # characters: plain ASCII, and bytes above 127 (printed as their low seven bits; only a zero BYTE ends the string —
    # 0x80 has zero low bits but is not a terminator)
    hi = rng.random() < 0.5
    for j in range(slen):
        pokes.append((DATA + soff + j, rng.choice([65, 66, 97, 48, 126, 32] + ([0x80, 0x80, 0x81, 0xFF, 0xC1, 1, 127] if hi else []))))
    if hi and slen >= 2:
        j = len(pokes) - slen + rng.randrange(slen - 1)
        pokes[j] = (pokes[j][0], 0x80)
    pokes.append((DATA + soff + slen, 0))
    k = rng.choice([1, 2, 3, 4])
    for _ in range(k):
        code = rng.choice([4, 4, 4, 1, 11, 34, 35, 36, 4, 2])
        if rng.random() < 0.4:
            op = rng.choice(["lw", "lbu", "sw", "sb", "lh"])
            off = rng.choice([0, 4, 8, 12, 16, 32])
            prog.append(tok(op, 5, 2, 0, off) if op[0] == "l" else tok(op, 0, 2, 5, off))
        prog.append(tok("addi", 17, 0, 0, code))
        if code == 4:
            prog.append(tok("addi", 10, 2, 0, soff + rng.choice([0, 0, 0, 1])))
        elif rng.random() < 0.7:
            prog.append(tok("addi", 10, 0, 0, rng.choice([65, -1, 0, 2047, 10])))
        prog.append(tok("ecall"))
    prog.append(tok("addi", 17, 0, 0, rng.choice([10, 93, 93])))
    prog.append(tok("ecall"))
    if rng.random() < 0.5:
        prog.append(tok("addi", 5, 5, 0, 1))          # younger than the exiting ecall: must not execute
    regs = {2: DATA, 5: rng.choice([0, 0x41424344, 0xFFFFFFFF]), 10: rng.choice([0, 7, 0x80000000])}
    return prog, regs, pokes


def ecall_case(rng, mode, hazard=True, trace=40, run=400, dspec="-", ispec="-", suite="sim-ecall"):
    prog, regs, pokes = ecall_program(rng)
    lines = header(mode, hazard, dspec, ispec, prog, regs, pokes)
    lines.append("sim.snap")
    for _ in range(trace):
        lines += ["sim.step", "sim.snap"]
    lines += [f"sim.run {run}", "sim.snap"]
    return Case(suite, lines, None, {"mode": mode, "hazard": hazard, "prog": prog, "regs": regs, "pokes": pokes, "d": dspec, "i": ispec})


def x0_dest_program(rng):
    """Instructions whose result is discarded (destination x0) — loads of every width, jumps, ALU operations — each
    followed by an ordinary instruction that shows whether it still had its other effects (the memory access of a load is
    made and counted, a jal/jalr still jumps)."""
    prog = []
    for _ in range(rng.choice([2, 3, 5])):
        r = rng.random()
        off = rng.choice([0, 4, 8, 16, 32, 64])
        if r < 0.6:
            op = rng.choice(LD_OPS)
            prog.append(tok(op, 0, 2, 0, off + (rng.choice([0, 1, 2, 3]) if op in ("lb", "lbu") else rng.choice([0, 2]) if op in ("lh", "lhu") else 0)))
            if rng.random() < 0.6:
                prog.append(tok("lw", rng.choice([5, 10]), 2, 0, off))
        elif r < 0.8:
            prog.append(tok(rng.choice(R_OPS), 0, rng.choice([1, 5, 10]), rng.choice([1, 5, 10])))
        else:
            prog.append(tok("sw", 0, 2, rng.choice([1, 5]), off))
    prog.append(tok("jal", 0, 0, 0, 8, 4 * len(prog) + 8))
    prog.append(tok("addi", 10, 10, 0, 1))          # skipped
    prog.append(tok("add", 6, 5, 10))
    regs = {2: DATA, 1: rng.choice(BND32), 5: rng.choice(BND32), 10: rng.randrange(2**32)}
    pokes = [(DATA + i, rng.randrange(256)) for i in range(0, 72, rng.choice([1, 3]))]
    return prog, regs, pokes


def x0_dest_case(rng, mode, hazard=True, trace=30, run=300, dspec="-", ispec="-", suite="sim-x0"):
    prog, regs, pokes = x0_dest_program(rng)
    lines = header(mode, hazard, dspec, ispec, prog, regs, pokes)
    lines.append("sim.snap")
    for _ in range(trace):
        lines += ["sim.step", "sim.snap"]
    lines += [f"sim.run {run}", "sim.snap"]
    return Case(suite, lines, None, {"mode": mode, "hazard": hazard, "prog": prog, "regs": regs, "pokes": pokes, "d": dspec, "i": ispec})


def reg_sweep_programs():
    """EVERY register x1..x31 as the register of a dependency: written and then read through rs1 / rs2 / as store data /
    as a load or jalr base at distance 1 and 2 (and at distance 3, where no interlock is due), and as a second destination
    (WAW). Independent of the seed: a decode interlock, a bypass table or a bit mask that mishandles ONE register number
    shows here whatever the random programs use."""
    for r in range(1, 32):
        t, u = (6 if r != 6 else 7), (28 if r != 28 else 29)
        for dist in (1, 2, 3):
            pad = [tok("addi", u, u, 0, 1)] * (dist - 1)
            prog = [tok("addi", r, 0, 0, 21 + r)] + pad + [tok("add", t, r, 0)]                    # read through rs1
            prog += [tok("addi", r, r, 0, 3)] + pad + [tok("sub", t, t, r)]                         # read through rs2
            prog += [tok("lui", r, 0, 0, 4)] + pad + [tok("sw", 0, r, t, 8)]                        # store base (0x4000)
            prog += [tok("addi", r, 0, 0, 77)] + pad + [tok("sw", 0, 2, r, 12)]                      # store data
            prog += [tok("lui", r, 0, 0, 4)] + pad + [tok("lw", t, r, 0, 12)]                        # load base
            prog += [tok("xori", r, t, 0, 5)] + [tok("addi", r, 0, 0, 9)] + pad + [tok("or", t, r, r)]   # WAW then read
            prog += [tok("addi", u, u, 0, 1)]
            yield prog, {2: DATA, t: 1000, u: 5}


def fault_schedule_programs():
    """Every kind of run-time fault (load / store at an illegal or crossing address, invalid ecall code) placed in every
    pipeline situation: alone, behind a producer it depends on or not, in front of a consumer of its result or of an older
    result at distance 1 and 2 (decode stalled while it is in EX / MEM), behind and in front of an ecall (drain), behind a
    taken branch (must NOT fault), as last instruction. Deterministic; yields (program, registers)."""
    faulters = [tok("lw", 1, 0, 0, 0), tok("sw", 0, 0, 0, 8), tok("lbu", 1, 6, 0, 0), tok("sh", 0, 6, 5, 2), tok("lw", 1, 2, 0, 1), tok("ecall")]
    nop = tok("addi", 0, 0, 0, 0)
    for f in faulters:
        regs = {2: DATA, 6: 0xFFFFFFF0, 5: 7, 17: 5 if f.startswith("ecall") else 10, 3: 1}
        for before in ([], [tok("addi", 3, 3, 0, 1)], [tok("addi", 6, 6, 0, 4)], [tok("addi", 3, 3, 0, 1), nop], [tok("addi", 17, 0, 0, 1), tok("ecall")]):
            for after in ([], [tok("addi", 4, 1, 0, 1)], [tok("addi", 4, 3, 0, 1)], [nop, tok("addi", 4, 3, 0, 1)], [tok("add", 4, 1, 3)],
                          [tok("ecall")], [tok("beq", 0, 0, 0, 8), nop]):
                yield before + [f] + after, regs
        # squashed behind a taken branch / jump: no fault may be reported
        yield [tok("beq", 0, 0, 0, 8), f, tok("addi", 4, 0, 0, 1)], regs
        yield [tok("jal", 0, 0, 0, 8, 8), f, tok("addi", 4, 0, 0, 1)], regs


def wrap_program(rng):
    """Aligned loads and stores whose address computation leaves the 32-bit range: negative offsets from x0, a base just
    below 2^32 with offsets that stay below / reach / cross 2^32, plus ordinary accesses to the same cache sets. A store
    through one spelling of an address is read back through another (x0 - 4 vs 0xFFFFFFF0 + 12)."""
    prog = []
    spell = {0xFFFFFFFC: [(0, -4), (6, 12)], 0xFFFFFFF8: [(0, -8), (6, 8)], 0xFFFFFFF0: [(0, -16), (6, 0)], 0xFFFFF800: [(0, -2048)],
             DATA: [(2, 0)], DATA + 8: [(2, 8)], 0x100000000 + 4: [(6, 20)]}          # the last one wraps to 4: illegal in every configuration
    addrs = [a for a in spell if a < 2**32]
    for _ in range(rng.choice([4, 6, 9])):
        a = rng.choice(addrs if rng.random() < 0.93 else list(spell))
        base, off = rng.choice(spell[a])
        if rng.random() < 0.5:
            op = rng.choice(ST_OPS)
            prog.append(tok(op, 0, base, rng.choice([5, 10, 1]), off + (rng.choice([0, 1, 2, 3]) if op == "sb" else rng.choice([0, 2]) if op == "sh" else 0)))
        else:
            op = rng.choice(LD_OPS)
            prog.append(tok(op, rng.choice([1, 5, 10]), base, 0, off + (rng.choice([0, 1, 2, 3]) if op in ("lb", "lbu") else rng.choice([0, 2]) if op in ("lh", "lhu") else 0)))
    regs = {2: DATA, 6: 0xFFFFFFF0, 5: rng.randrange(2**32), 10: rng.choice(BND32), 1: 0x01020304}
    return prog, regs, []


def wrap_case(rng, mode, hazard=True, trace=0, run=300, dspec="-", ispec="-", suite="sim-wrap"):
    prog, regs, pokes = wrap_program(rng)
    lines = header(mode, hazard, dspec, ispec, prog, regs, pokes)
    lines.append("sim.snap")
    for _ in range(trace):
        lines += ["sim.step", "sim.snap"]
    lines += [f"sim.run {run}", "sim.snap"]
    return Case(suite, lines, None, {"mode": mode, "hazard": hazard, "prog": prog, "regs": regs, "pokes": pokes, "d": dspec, "i": ispec})


def long_programs(rng, tier="quick"):
    """LONG runs (thousands of steps): effects that need a counter, an address, a history or a structure to grow. A
    straight-line program whose pc passes 4096 and 8192; a loop that walks over more blocks than any cache has and runs more
    iterations than the cache has ways; a loop that re-executes the same instruction objects hundreds of times with
    changing operands; a call/return loop (procedure and branch counters)."""
    n = 1100 if tier == "quick" else 2300
    prog = []
    for k in range(n):
        if k % 16 == 5:
            prog.append(tok("sw", 0, 2, 5, 4 * ((k // 16) % 96)))
        elif k % 16 == 11:
            prog.append(tok("lw", 10, 2, 0, 4 * ((k // 32) % 96)))
        else:
            prog.append(tok("addi", 5, 5, 0, 1 + k % 3))
    # behind more than 1024 instructions (addresses >= 0x1000): every pc-relative and upper-immediate form
    tail = [tok("auipc", 5, 0, 0, 1), tok("auipc", 6, 0, 0, -1), tok("lui", 7, 0, 0, 1), tok("jal", 1, 0, 0, 8, 4 * (n + 3) + 8), tok("addi", 10, 0, 0, 1),
            tok("auipc", 10, 0, 0, 0x7FFFF), tok("beq", 0, 0, 0, 8), tok("addi", 10, 0, 0, 2), tok("jalr", 1, 1, 0, 24), tok("addi", 10, 0, 0, 3),
            tok("auipc", 17, 0, 0, 3), tok("sw", 0, 2, 5, 0), tok("sw", 0, 2, 6, 4), tok("sw", 0, 2, 17, 8)]
    yield prog + tail, {2: DATA, 5: 0xFFFFFF00}
    # the largest program the instruction memory holds: 4096 instructions, the pc runs up to the end of the address range
    yield [tok("addi", 5, 5, 0, 1)] * 4090 + [tok("auipc", 6, 0, 0, 0), tok("sw", 0, 2, 6, 0), tok("jal", 1, 0, 0, 8, 4 * 4092 + 8), tok("addi", 5, 0, 0, 0),
                                             tok("lw", 7, 2, 0, 0), tok("add", 10, 5, 7)], {2: DATA}
    # the SAME instruction objects executed several times: a loop over one instruction of every kind
    body = [tok("auipc", 5, 0, 0, 1), tok("lui", 7, 0, 0, 0x12345), tok("add", 10, 10, 5), tok("sub", 10, 10, 7), tok("slli", 1, 10, 0, 3), tok("srai", 1, 1, 0, 2),
            tok("xori", 1, 1, 0, -1), tok("sw", 0, 2, 1, 0), tok("lh", 17, 2, 0, 2), tok("lbu", 17, 2, 0, 1), tok("mul", 10, 10, 17), tok("divu", 17, 10, 6),
            tok("slt", 17, 1, 10), tok("jal", 1, 0, 0, 8, 4 * 14 + 8), tok("addi", 10, 10, 0, 1), tok("addi", 6, 6, 0, -1), tok("bne", 0, 6, 0, -4 * 16)]
    yield [tok("addi", 6, 0, 0, 4)] + body, {2: DATA, 10: 99}
    it = 400 if tier == "quick" else 1200
    yield [tok("addi", 6, 0, 0, it), tok("lw", 5, 2, 0, 0), tok("addi", 5, 5, 0, 3), tok("sw", 0, 2, 5, 0), tok("lbu", 10, 2, 0, 1),
           tok("addi", 2, 2, 0, 4), tok("addi", 6, 6, 0, -1), tok("bne", 0, 6, 0, -24)], {2: DATA, 5: 0}
    yield [tok("addi", 6, 0, 0, it), tok("add", 5, 5, 6), tok("mul", 10, 5, 5), tok("srai", 10, 10, 0, 3), tok("xor", 5, 5, 10),
           tok("sltu", 1, 5, 10), tok("addi", 6, 6, 0, -1), tok("bne", 0, 6, 0, -24)], {5: 0x1234567, 10: 1}
    yield [tok("addi", 6, 0, 0, it // 2), tok("jal", 1, 0, 0, 16, 20), tok("addi", 6, 6, 0, -1), tok("bne", 0, 6, 0, -8), tok("jal", 0, 0, 0, 16, 32),
           tok("addi", 5, 5, 0, 1), tok("sw", 0, 2, 5, 8), tok("jalr", 0, 1, 0, 0)], {2: DATA, 5: 0}


def long_case(prog, regs, mode, hazard=True, dspec="-", ispec="-", suite="sim-long"):
    lines = header(mode, hazard, dspec, ispec, prog, regs, [])
    lines += ["sim.snap", "sim.run 1000", "sim.snap", "sim.run 20000", "sim.snap"]
    return Case(suite, lines, None, {"mode": mode, "hazard": hazard, "prog": prog, "regs": regs, "pokes": [], "d": dspec, "i": ispec, "long": True})


def store_hit_programs():
    """Every store width, as a HIT into a block a load made resident and as a MISS, at every lane of the word, read back at once,
    then the block is displaced (loads of conflicting blocks) and the location read again. Deterministic; (program, registers)."""
    for st, lanes in (("sb", (0, 1, 2, 3)), ("sh", (0, 2)), ("sw", (0,))):
        for lane in lanes:
            for resident in (True, False):
                prog = ([tok("lw", 5, 2, 0, 0)] if resident else []) + [tok(st, 0, 2, 6, lane), tok("lw", 7, 2, 0, 0), tok("lbu", 10, 2, 0, lane)]
                prog += [tok("lw", 1, 2, 0, 64 * k) for k in (1, 2, 3, 4, 5)]          # conflicting blocks in every small geometry
                prog += [tok("lw", 17, 2, 0, 0), tok("lhu", 5, 2, 0, lane & 2)]
                yield prog, {2: DATA, 6: 0xA1B2C3D4}


def penalty_cache_spec(rng, kind):
    """a cache with a miss penalty > 0 (small geometries, so that evictions happen)"""
    pol = rng.choice(["lru", "plru"])
    assoc = rng.choice([1, 2, 3] if pol == "lru" else [1, 2, 4])
    ib, bb, pen = rng.choice([0, 1]), rng.choice([0, 1, 2]), rng.choice([1, 2, 5, 13])
    if kind == "d":
        return f"{rng.choice(['wt', 'wb'])},{pol},{ib},{bb},{assoc},{pen}"
    return f"{pol},{ib},{bb},{assoc},{pen}"


def cache_spec(rng, kind, prob=0.5):
    if rng.random() > prob:
        return "-"
    pol = rng.choice(["lru", "plru"])
    assoc = rng.choice([1, 2, 3, 4] if pol == "lru" else [1, 2, 4])
    ib, bb, pen = rng.choice([0, 1, 2]), rng.choice([0, 1, 2]), rng.choice([0, 0, 2, 5])
    if kind == "d":
        return f"{rng.choice(['wt', 'wb'])},{pol},{ib},{bb},{assoc},{pen}"
    return f"{pol},{ib},{bb},{assoc},{pen}"


def header(mode, hazard, dspec, ispec, prog, regs, pokes):
    lines = [f"sim.new {mode} {1 if hazard else 0} {dspec} {ispec}", "sim.prog " + " ".join(prog)]
    for r_, v in sorted(regs.items()):
        lines.append(f"sim.reg {r_} {v}")
    for a, v in pokes:
        lines.append(f"sim.poke 8 {a} {v}")
    return lines


def sim_case(rng, mode, hazard=True, opts=None, trace=40, run=400, dprob=0.4, iprob=0.3, suite="sim"):
    prog, regs, pokes = gen_program(rng, opts)
    dspec, ispec = cache_spec(rng, "d", dprob), cache_spec(rng, "i", iprob)
    lines = header(mode, hazard, dspec, ispec, prog, regs, pokes)
    lines.append("sim.snap")
    for _ in range(trace):
        lines += ["sim.step", "sim.snap"]
    lines += [f"sim.run {run}", "sim.snap"]
    return Case(suite, lines, None, {"mode": mode, "hazard": hazard, "prog": prog, "regs": regs, "pokes": pokes, "d": dspec, "i": ispec})


import re as _re
_SNAP_SPLIT = _re.compile(r"\|(?=(?:pc|regs|out|exit|cyc|ins|br|pr|st|fl|mem|ic|L\d|stalled|P\d)=)")


def parse_snap(s):
    d = {}
    for part in _SNAP_SPLIT.split(s):
        k, _, v = part.partition("=")
        if k and k not in d:
            d[k] = v
    return d


def as_text_case(c):
    """The same case with its program additionally LOADED FROM TEXT (the printed forms of the instructions, one per line,
    through `load_program`) right after it was installed as instruction objects — the path the front end takes. The
    `sim.prog` line stays (the oracles read the program off it); what runs is what the loader built."""
    import impl as implmod
    import rvasmgen
    out = []
    for l in c.lines:
        if l.startswith("sim.prog"):
            toks = l.split()[1:]
            text = "\n".join(repr(implmod.make_instr(t)) for t in toks)
            out.append(l)
            out.append("sim.load " + rvasmgen.hx(text))
        else:
            out.append(l)
    c.lines = out
    c.meta = dict(c.meta, from_text=True)
    return c
