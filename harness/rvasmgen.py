"""Generators + oracle for RISC-V assembler texts (C04, C05, C14, C15).

An *abstract program* (labels, real instructions with abstract operands, pseudo-instructions, data
declarations) is rendered to source text under independent spelling choices; `denote` computes, independently of
the model, the instruction list and data image the documented syntax denotes."""
from __future__ import annotations
from core import Case, Failure

ABI = ["zero", "ra", "sp", "gp", "tp", "t0", "t1", "t2", "s0", "s1", "a0", "a1", "a2", "a3", "a4", "a5", "a6", "a7",
       "s2", "s3", "s4", "s5", "s6", "s7", "s8", "s9", "s10", "s11", "t3", "t4", "t5", "t6"]
R_OPS = ["add", "sub", "sll", "slt", "sltu", "xor", "srl", "sra", "or", "and", "mul", "mulh", "mulhu", "mulhsu", "div", "divu", "rem", "remu"]
I_OPS = ["addi", "slti", "sltiu", "xori", "ori", "andi"]
SH_OPS = ["slli", "srli", "srai"]
LD_OPS = ["lb", "lh", "lw", "lbu", "lhu"]
ST_OPS = ["sb", "sh", "sw"]
B_OPS = ["beq", "bne", "blt", "bge", "bltu", "bgeu"]
DATA = 2**14


def hx(s):
    return s.encode("utf-8").hex() if s else "."


def sext(v, n):
    return (v & (2**(n - 1) - 1)) - (v & 2**(n - 1))


# ---------------------------------------------------------------------------------------------
# abstract programs
# ---------------------------------------------------------------------------------------------

def gen_data(rng):
    names = ["v", "arr", "msg", "buf", "_x", "Tbl2", "my_var", "z"]
    rng.shuffle(names)
    decls = []
    for nm in names[:rng.choice([0, 1, 2, 3, 5])]:
        k = rng.random()
        if k < 0.55:
            ty = rng.choice(["byte", "half", "word"])
            vals = [rng.choice([0, 1, -1, 127, -128, 255, 256, 0x1234, -32768, 65535, 65536, 0x12345678, -2**31, 2**32 - 1, 2**32 + 5, rng.randrange(-2**33, 2**33)])
                    for _ in range(rng.choice([1, 1, 2, 3, 5]))]
            decls.append((nm, ty, vals))
        elif k < 0.8:
            s = rng.choice(["Hello, World!", "a", "", "x y", "tab\\tq", "it's", "üé", "A" * rng.randrange(1, 9), "q\\\"w", "a\tb", "\t", "x \t\ty"])   # incl. real tab characters
            decls.append((nm, "string", s))
        else:
            decls.append((nm, "zero", rng.choice([0, 1, 2, 3, 64, 500, 600, 1000])))     # large areas push later variables past 2 KiB (lui carry)
    return decls


def elem_size(d):
    return {"byte": 1, "half": 2, "word": 4, "string": 1, "zero": 4}[d[1]]


def elem_count(d):
    if d[1] == "string":
        return len(d[2].encode("latin-1", "replace")) + 1 if False else len(d[2]) + 1
    if d[1] == "zero":
        return d[2]
    return len(d[2])


def gen_abstract(rng, opts=None):
    opts = opts or {}
    decls = gen_data(rng) if opts.get("data", True) else []
    n = opts.get("n") or rng.choice([1, 2, 3, 5, 8, 14])
    # label names incl. ones spelled like mnemonics / pseudo-instructions / registers (all legal label names)
    labels = ["loop", "end", "L1", "_skip", "foo", "Bar9", "done", "x_1", "mv2", "lix", "mul", "div", "and", "or", "add", "sub", "lw", "li", "mv", "la", "jal", "sp", "t0", "x5"]
    rng.shuffle(labels)
    labels = labels[:rng.choice([0, 1, 2, 3, 4])]
    if rng.random() < 0.04 and not opts.get("no_reserved"):
        labels = labels[:1] + [rng.choice(["nop", "ecall", "ebreak"])]     # legal label names that are also bare instructions (finding F8)
    items = []
    pos = sorted(rng.randrange(n + 1) for _ in labels)
    li = 0
    reg = lambda: rng.randrange(32)
    for k in range(n + 1):
        while li < len(labels) and pos[li] == k:
            items.append(("label", labels[li], rng.random() < 0.5))
            li += 1
        if k == n:
            break
        r = rng.random()
        if r < 0.18:
            items.append(("r", rng.choice(R_OPS), reg(), reg(), reg()))
        elif r < 0.30:
            items.append(("i", rng.choice(I_OPS), reg(), reg(), rng.choice([0, 1, -1, 2047, -2048, 5, 0x7ff, rng.randrange(-2048, 2048)])))
        elif r < 0.35:
            items.append(("i", rng.choice(SH_OPS), reg(), reg(), rng.randrange(32)))
        elif r < 0.43:
            items.append(("mem", rng.choice(LD_OPS + ["jalr"]), reg(), reg(), rng.choice([0, 4, -4, 2047, -2048, rng.randrange(-2048, 2048)]), rng.random() < 0.6))
        elif r < 0.49:
            items.append(("mem", rng.choice(ST_OPS), reg(), reg(), rng.choice([0, 4, -4, 2047, -2048, rng.randrange(-2048, 2048)]), rng.random() < 0.6))
        elif r < 0.57:
            if labels and rng.random() < 0.7:
                items.append(("b", rng.choice(B_OPS), reg(), reg(), ("label", rng.choice(labels), rng.choice([None, None, 0, 4, 8, 0x10, 2, 6, 1, 3]))))
            else:
                items.append(("b", rng.choice(B_OPS), reg(), reg(), ("num", rng.choice([0, 4, 8, -4, -8, 4094, -4096, 2 * rng.randrange(-2048, 2048)]))))
        elif r < 0.63:
            if labels and rng.random() < 0.7:
                items.append(("jal", reg(), ("label", rng.choice(labels), rng.choice([None, None, 0, 4, 0x20, 2, 1, 5]))))
            else:
                items.append(("jal", reg(), ("num", rng.choice([0, 4, 8, 16, 4 * rng.randrange(0, 64), 2 * rng.randrange(0, 2**19)]))))
        elif r < 0.68:
            items.append(("u", rng.choice(["lui", "auipc"]), reg(), rng.choice([0, 1, 5, 2**19 - 1, -(2**19), -1, 2**20 - 1, rng.randrange(-(2**19), 2**20)])))
        elif r < 0.72:
            items.append(("bare", rng.choice(["ecall", "ecall", "nop", "nop"] + ([] if opts.get("no_sys") else ["ebreak"]))))
        elif r < 0.76:
            items.append(("mv", reg(), reg()))
        elif r < 0.86:
            c = rng.choice([0, 1, -1, 2047, 2048, -2048, -2049, 4095, 4096, 0x7FFFF7FF, 0x7FFFF800, 0xFFFFF800, 0xFFFFFFFF, -2**31, 2**31 - 1, 2**32, 2**32 + 7, 100000,
                            (rng.randrange(2**20) << 12) | rng.choice([0, 1, 0x7FF, 0x800, 0x801, 0xFFF]), rng.randrange(-2**31, 2**32)])
            items.append(("li", reg(), c))
        elif r < 0.93 and decls:
            d = rng.choice(decls)
            cnt = elem_count(d)
            idx = rng.choice([None, 0, cnt - 1 if cnt > 0 else 0, rng.randrange(cnt) if cnt > 0 else 0])
            kind = rng.choice(["la", "load", "store"])
            if kind == "la":
                items.append(("la", reg(), d[0], idx))
            elif kind == "load":
                items.append(("loadv", rng.choice(LD_OPS), reg(), d[0], idx))
            else:
                items.append(("storev", rng.choice(ST_OPS), reg(), d[0], idx, reg()))
        elif opts.get("no_sys"):
            items.append(("r", rng.choice(R_OPS), reg(), reg(), reg()))       # CSR/FENCE are not executable (out of scope of C01/C02)
        elif r < 0.96:
            items.append(("csr", rng.choice(["csrrw", "csrrs", "csrrc"]), reg(), rng.choice([0, 0x300, 0xC00, 4095]), reg()))
        elif r < 0.98:
            items.append(("csri", rng.choice(["csrrwi", "csrrsi", "csrrci"]), reg(), rng.choice([0, 0x300, 0xC00]), rng.randrange(32)))
        else:
            items.append(("fence", reg(), reg()))
    return items, decls


# ---------------------------------------------------------------------------------------------
# denotation (independent of the Lean model)
# ---------------------------------------------------------------------------------------------

def layout(decls):
    addr = DATA
    mem = {}
    var = {}
    for d in decls:
        if addr % 4:
            addr += 4 - addr % 4
        var[d[0]] = (addr, elem_size(d))
        if d[1] in ("byte", "half", "word"):
            w = elem_size(d)
            for v in d[2]:
                u = v % (2**(8 * w))
                for i in range(w):
                    mem[addr + i] = (u >> (8 * i)) & 0xFF
                addr += w
        elif d[1] == "string":
            for ch in d[2]:
                mem[addr] = ord(ch) % 256
                addr += 1
            mem[addr] = 0
            addr += 1
        else:
            addr += 4 * d[2]
    return var, mem


def hi_lo(c):
    u = c % 2**32
    lo = u & 0xFFF
    hi = u >> 12
    if lo > 2047:
        hi += 1
    return hi, lo


def expand(items, var):
    """list of ('label', name) / ('ins', tuple) after pseudo expansion; ins tuple = (mnemonic, fields…) with raw operands"""
    out = []
    for it in items:
        k = it[0]
        if k == "label":
            out.append(("label", it[1]))
        elif k == "r":
            out.append(("ins", ("r", it[1], it[2], it[3], it[4])))
        elif k == "i":
            out.append(("ins", ("i", it[1], it[2], it[3], it[4])))
        elif k == "mem":
            out.append(("ins", ("mem", it[1], it[2], it[3], it[4])))
        elif k == "b":
            out.append(("ins", ("b", it[1], it[2], it[3], it[4])))
        elif k == "jal":
            out.append(("ins", ("jal", it[1], it[2])))
        elif k == "u":
            out.append(("ins", ("u", it[1], it[2], it[3])))
        elif k == "bare":
            out.append(("ins", ("i", "addi", 0, 0, 0)) if it[1] == "nop" else ("ins", ("bare", it[1])))
        elif k == "mv":
            out.append(("ins", ("i", "addi", it[1], it[2], 0)))
        elif k == "li":
            rd, c = it[1], it[2]
            if -2048 <= c <= 2047:
                out.append(("ins", ("i", "addi", rd, 0, c)))
            else:
                hi, lo = hi_lo(c)
                out.append(("ins", ("u", "lui", rd, hi)))
                out.append(("ins", ("i", "addi", rd, rd, lo)))
        elif k in ("la", "loadv", "storev"):
            if k == "la":
                rd, name, idx = it[1], it[2], it[3]
            elif k == "loadv":
                mn, rd, name, idx = it[1], it[2], it[3], it[4]
            else:
                mn, rs, name, idx, rd = it[1], it[2], it[3], it[4], it[5]   # rd = address register
            base, size = var[name]
            a = base + size * (idx or 0)
            hi, lo = hi_lo(a)
            out.append(("ins", ("u", "lui", rd, hi)))
            out.append(("ins", ("i", "addi", rd, rd, lo)))
            if k == "loadv":
                out.append(("ins", ("mem", mn, rd, rd, 0)))
            elif k == "storev":
                out.append(("ins", ("mem", mn, rs, rd, 0)))
        elif k == "csr":
            out.append(("ins", ("csr", it[1], it[2], it[3], it[4])))
        elif k == "csri":
            out.append(("ins", ("csri", it[1], it[2], it[3], it[4])))
        elif k == "fence":
            out.append(("ins", ("fence",)))
    return out


def denote(items, decls):
    """expected listing tokens (op,rd,rs1,rs2,imm,aux with stored fields) and data image"""
    var, mem = layout(decls)
    ex = expand(items, var)
    lab = {}
    pc = 0
    for e in ex:
        if e[0] == "label":
            lab[e[1]] = pc
        else:
            pc += 4
    toks = []
    pc = 0
    for e in ex:
        if e[0] == "label":
            continue
        t = e[1]
        if t[0] == "r":
            toks.append(f"{t[1]},{t[2]},{t[3]},{t[4]},0,0")
        elif t[0] == "i":
            imm = t[4] & 31 if t[1] in SH_OPS else sext(t[4], 12)
            toks.append(f"{t[1]},{t[2]},{t[3]},0,{imm},0")
        elif t[0] == "mem":
            mn, r1, r2, imm = t[1], t[2], t[3], t[4]
            if mn in ST_OPS:
                toks.append(f"{mn},0,{r2},{r1},{sext(imm, 12)},0")
            else:
                toks.append(f"{mn},{r1},{r2},0,{sext(imm, 12)},0")
        elif t[0] == "b":
            tgt = t[4]
            d = tgt[1] if tgt[0] == "num" else lab[tgt[1]] + (tgt[2] or 0) - pc
            toks.append(f"{t[1]},0,{t[2]},{t[3]},{sext(d, 13)},0")
        elif t[0] == "jal":
            tgt = t[2]
            d = tgt[1] - pc if tgt[0] == "num" else lab[tgt[1]] + (tgt[2] or 0) - pc
            toks.append(f"jal,{t[1]},0,0,{sext(d, 21)},{d + pc}")
        elif t[0] == "u":
            toks.append(f"{t[1]},{t[2]},0,0,{sext(t[3], 20)},0")
        elif t[0] == "bare":
            toks.append("ecall,0,0,0,0,0" if t[1] == "ecall" else "ebreak,0,0,0,1,0")
        elif t[0] == "csr":
            toks.append(f"{t[1]},{t[2]},{t[4]},0,0,{t[3]}")
        elif t[0] == "csri":
            toks.append(f"{t[1]},{t[2]},0,0,{t[4] & 31},{t[3]}")
        elif t[0] == "fence":
            toks.append("fence,0,0,0,0,0")
        pc += 4
    return toks, mem, var, lab


# ---------------------------------------------------------------------------------------------
# rendering with spelling choices
# ---------------------------------------------------------------------------------------------

class Sp:
    def __init__(self, rng, canonical=False):
        self.rng = rng
        self.canon = canonical

    def reg(self, n):
        if self.canon or self.rng.random() < 0.5:
            return f"x{n}"
        names = [ABI[n]] + (["fp"] if n == 8 else [])
        return self.rng.choice(names)

    def mn(self, m):
        if self.canon:
            return m
        r = self.rng.random()
        return m if r < 0.6 else (m.upper() if r < 0.8 else "".join(c.upper() if self.rng.random() < 0.5 else c for c in m))

    def num(self, v, allow_neg_zero=True):
        if self.canon:
            return str(v)
        r = self.rng.random()
        a = abs(v)
        sign = "-" if v < 0 else ""
        if r < 0.55:
            return str(v)
        if r < 0.8:
            return f"{sign}0x{a:x}" if self.rng.random() < 0.7 else f"{sign}0x{a:X}"
        return f"{sign}0b{a:b}"

    def sep(self):
        return "," + ("" if self.canon else self.rng.choice([" ", "", "  ", " "]))

    def ws(self):
        return " " if self.canon else self.rng.choice([" ", "  ", "\t"])


def render_item(sp, it):
    k = it[0]
    S, W = sp.sep, sp.ws
    if k == "r":
        return f"{sp.mn(it[1])}{W()}{sp.reg(it[2])}{S()}{sp.reg(it[3])}{S()}{sp.reg(it[4])}"
    if k == "i":
        return f"{sp.mn(it[1])}{W()}{sp.reg(it[2])}{S()}{sp.reg(it[3])}{S()}{sp.num(it[4])}"
    if k == "mem":
        mn, r1, r2, imm, paren = it[1], it[2], it[3], it[4], it[5]
        if paren:
            return f"{sp.mn(mn)}{W()}{sp.reg(r1)}{S()}{sp.num(imm)}({sp.reg(r2)})"
        return f"{sp.mn(mn)}{W()}{sp.reg(r1)}{S()}{sp.reg(r2)}{S()}{sp.num(imm)}"
    if k == "b":
        tgt = it[4]
        t = sp.num(tgt[1]) if tgt[0] == "num" else tgt[1] + ("" if tgt[2] is None else f"{sp.rng.choice(['+', ' + ', '+ '])}0x{tgt[2]:x}")
        return f"{sp.mn(it[1])}{W()}{sp.reg(it[2])}{S()}{sp.reg(it[3])}{S()}{t}"
    if k == "jal":
        tgt = it[2]
        t = sp.num(tgt[1]) if tgt[0] == "num" else tgt[1] + ("" if tgt[2] is None else f"+0x{tgt[2]:X}")
        return f"{sp.mn('jal')}{W()}{sp.reg(it[1])}{S()}{t}"
    if k == "u":
        return f"{sp.mn(it[1])}{W()}{sp.reg(it[2])}{S()}{sp.num(it[3])}"
    if k == "bare":
        return sp.mn(it[1])
    if k == "mv":
        return f"{sp.mn('mv')}{W()}{sp.reg(it[1])}{S()}{sp.reg(it[2])}"
    if k == "li":
        return f"{sp.mn('li')}{W()}{sp.reg(it[1])}{S()}{sp.num(it[2])}"
    if k == "la":
        return f"{sp.mn('la')}{W()}{sp.reg(it[1])}{S()}{it[2]}" + ("" if it[3] is None else f"[{it[3]}]")
    if k == "loadv":
        return f"{sp.mn(it[1])}{W()}{sp.reg(it[2])}{S()}{it[3]}" + ("" if it[4] is None else f"[{it[4]}]")
    if k == "storev":
        return f"{sp.mn(it[1])}{W()}{sp.reg(it[2])}{S()}{it[3]}" + ("" if it[4] is None else f"[{it[4]}]") + f"{S()}{sp.reg(it[5])}"
    if k == "csr":
        return f"{sp.mn(it[1])}{W()}{sp.reg(it[2])}{S()}{sp.num(it[3])}{S()}{sp.reg(it[4])}"
    if k == "csri":
        return f"{sp.mn(it[1])}{W()}{sp.reg(it[2])}{S()}{sp.num(it[3])}{S()}{sp.num(it[4])}"
    if k == "fence":
        return f"{sp.mn('fence')}{W()}{sp.reg(it[1])}{S()}{sp.reg(it[2])}"
    raise ValueError(k)


def render_decl(sp, d):
    nm, ty = d[0], d[1]
    c = ":" + ("" if sp.canon else sp.rng.choice([" ", "", "  "]))
    if ty in ("byte", "half", "word"):
        return f"{nm}{c}.{ty} {sp.sep().join(sp.num(v) for v in d[2])}"
    if ty == "string":
        q = '"' if "'" in d[2] or sp.rng.random() < 0.8 else "'"
        return f"{nm}{c}.string {q}{d[2]}{q}"
    return f"{nm}{c}.zero {d[2]}"


def render(rng, items, decls, canonical=False, noise=True):
    sp = Sp(rng, canonical)
    tl = []
    pending = None
    for it in items:
        ind = "" if canonical else rng.choice(["", "", "    ", "\t"])
        if it[0] == "label":
            if it[2]:
                if pending:
                    tl.append(f"{ind}{pending}:")
                pending = it[1]
            else:
                tl.append(f"{ind}{it[1]}:")
            continue
        s = render_item(sp, it)
        if pending:
            s = f"{pending}:{'' if rng.random() < 0.2 else ' '}{s}"
            pending = None
        if noise and not canonical and rng.random() < 0.2:
            s += rng.choice(["  # comment", " #", "\t# li x1, 5", " # größer ≥ 5 — ok ✓", " # label: nop # twice", "# 'quoted' \"text\""])
        tl.append(ind + s)
    if pending:
        tl.append(pending + ":")
    dl = [("" if canonical else rng.choice(["", "  "])) + render_decl(sp, d) for d in decls]

    def sprinkle(ls):
        if canonical or not noise:
            return ls
        out = []
        for l in ls:
            if rng.random() < 0.15:
                out.append(rng.choice(["", "   ", "# a comment line", "\t# nop", "# Kommentar mit Ümläuten ✓", "#", " \t "]))
            out.append(l)
        return out
    tl, dl = sprinkle(tl), sprinkle(dl)
    if dl:
        order = rng.choice(["data-first", "text-first", "text-implicit"])
        if order == "data-first":
            ls = [".data"] + dl + [".text"] + tl
        elif order == "text-first":
            ls = [".text"] + tl + [".data"] + dl
        else:
            ls = tl + [".data"] + dl
            if not tl or any(l.strip().startswith(".") for l in tl[:1]):
                ls = [".text"] + ls
    else:
        ls = ([".text"] if rng.random() < 0.3 else []) + tl
    nl = "\n" if canonical else rng.choice(["\n", "\n", "\r\n"])
    return nl.join(ls) + ("" if canonical else rng.choice(["", "\n"]))


# ---------------------------------------------------------------------------------------------
# fault injection
# ---------------------------------------------------------------------------------------------

FAULT_LINES = [
    "addi x1, x0, 01", "addi x1, x0, 007", "addi x1, x0, -01", "addi x1, x0, 00", "addi x1, x0, 0x", "addi x1, x0, 0b", "addi x1, x0, 0b12",
    "addi x1, x0, 0X10", "addi x1, x0, " + "9" * 4301, "addi x1, x0, " + "9" * 4300, "addi x1, x0, 0x" + "f" * 5000, "li x1, 0123", "beq x0, x0, 08",
    "beq x0, x0, 3", "jal x1, 7", "jal x1, nowhere", "beq x1, x2, nowhere+0x4", "lw x1, nowhere", "sw x1, nowhere, x2", "la x1, v[99999999999999]",
    "la x1, v[" + "1" * 4301 + "]", ".word 5", "v: .word", "v: .word 1,", "v: .word 1 2", "v: .quad 1", "v: .zero", "v: .zero -1", "v: .zero " + "1" * 4301,
    "v: .string abc", "v: .string \"abc", "v: .string \"a\"b\"", "v: .string \"a\\\"", ".bss", ".data 1", ".text x", "foo: bar: nop", "foo:", "foo: .data",
    "ſub x1, x2, x3", "ſlli x1, x1, 1", "addı x1, x0, 1", "ADDİ x1, x0, 1", "lı x1, 5", "Kadd x1,x1,x1", "add x32, x0, x0", "add x1, x2", "add x1, x2, x3, x4",
    "add x1 x2 x3", "addi x1, x0, x2", "lw x1, 4(x2", "lw x1, 4 (x2)", "lw x1,(x2)", "nop nop", "nop:", "ecall:", "ebreak:", "ecall x1", "mv x1", "li x1", "li x1, foo",
    "addi x1, x0, 1", "addi x1, x0, 1 nop", "nop\x0bnop", "nop\x1cnop", "nop\x85nop", "﻿nop", "add x1, x2, x3;", "é: nop", "nop # é", "x: .byte 0x1FF, -129",
    "add  t0,t0,t1", "addt0,t0,t1", "ADD X1, X2, X3", "add x1, x2, X3", "lw x1, sp", "sw x1, t0, x2", "jalr x1, 4(x2)", "jalr x1, x2, 4", "jalr x1, v", "fence x1, x2", "fence",
    "csrrw x1, 0x300, x2", "csrrwi x1, 0x300, 31", "csrrwi x1, 0x300, 32", "lui x1, 1048576", "lui x1, -1", "slli x1, x1, 32", "slli x1, x1, -1", "x 5: nop", "add x 1, x 2, x 3",
    "add x1,x2,x3 extra", "1abc: nop", "a-b: nop", "_: nop", "loop: loop: nop",
]


def inject(rng, text, decls):
    lines = text.split("\n")
    k = rng.randrange(len(lines) + 1)
    r = rng.random()
    f = rng.choice(FAULT_LINES)
    if r < 0.55:
        lines.insert(k, f)
    elif r < 0.7 and lines:
        lines[min(k, len(lines) - 1)] = f
    elif r < 0.85:
        lines.insert(k, rng.choice([".data", ".text", "v: .word 1", "loop:", "end:", "arr: .byte 1", "foo: nop"]))
    else:
        # character-level damage
        if lines:
            j = min(k, len(lines) - 1)
            l = lines[j]
            if l:
                p = rng.randrange(len(l))
                lines[j] = l[:p] + rng.choice([",", "(", ")", ":", ".", "#", "-", "0", "x", " ", "[", "]", "+", "\"", "é", "\t"]) + l[p + rng.choice([0, 1]):]
    return "\n".join(lines)


def asm_case(rng, fault_prob=0.0, opts=None, suite="asm", canonical=False):
    items, decls = gen_abstract(rng, opts)
    text = render(rng, items, decls, canonical)
    meta = {"text": text, "kind": "valid", "abstract": (items, decls)}
    if rng.random() < fault_prob:
        text = inject(rng, text, decls)
        meta = {"text": text, "kind": "fault"}
    return Case(suite, [f"asm {hx(text)}"], None, meta)


def _help_example():
    """The example program of the RISC-V help page, read from /repo's working tree (so the check follows the doc)."""
    import html, re
    from pathlib import Path
    try:
        src = Path("/repo/webgui/src/components/riscv/RiscvHelp.vue").read_text()
        m = re.search(r"<pre[^>]*>\s*(\.data\s+empty_array.*?)</pre", src, flags=re.S)
        if m:
            return html.unescape(re.sub(r"<[^>]+>", "", m.group(1))) + "\n"
    except Exception:
        pass
    return ""


HELP_EXAMPLE = _help_example()
HELP_EXPECT = {1: DATA + 256, 2: 0x1234, 3: 0x1234, 4: 999, 5: 7, 6: ord("!")}


def check_valid(c, prop, what=("listing", "data")):
    """well-formed text rendered from an abstract program: the real assembler's listing / data image vs `denote`."""
    fails = []
    ab = c.meta.get("abstract")
    if not ab or not c.lines or c.lines[0] != f"asm {hx(c.meta['text'])}":
        return fails
    items, decls = ab
    try:
        toks, mem, var, lab = denote(items, decls)
    except KeyError:
        return fails
    out = c.impl_out[0]
    reserved = [it for it in items if it[0] == "label" and it[1] in ("nop", "ecall", "ebreak")]
    if reserved:
        toks_ok = out.startswith("ok ") and (out.partition(" | ")[0].split()[2].split(";") if out.partition(" | ")[0].split()[2] != "." else []) == toks
        if not toks_ok:
            fails.append(Failure("oracle", prop, f"a label named {reserved[0][1]!r} is not treated as a label: {out[:100]} -- text {c.meta['text']!r}", "asm:label-named-like-bare-instruction"))
        return fails
    if any(it[0] in ("b", "jal") and it[-1][0] == "label" and (it[-1][2] or 0) % 2 for it in items):
        # label + odd offset denotes no encodable displacement: the assembler must reject it with the parity error
        out = c.impl_out[0]
        if not out.startswith("PE ParserOddImmediateException"):
            fails.append(Failure("oracle", prop, f"label plus an odd offset was not rejected as an odd immediate: {out[:100]} -- text {c.meta['text']!r}", "asm:odd-label-offset-accepted"))
        return fails
    if not out.startswith("ok "):
        fails.append(Failure("oracle", prop, f"well-formed program rejected: {out[:120]} -- text {c.meta['text']!r}", "asm:valid-rejected:" + out.split()[1]))
        return fails
    head, _, dump = out.partition(" | ")
    got = [] if head.split()[2] == "." else head.split()[2].split(";")
    if "listing" in what and (got != toks or head.split()[1] != "1"):
        k = next((i for i, (a, b) in enumerate(zip(got, toks)) if a != b), min(len(got), len(toks)))
        fails.append(Failure("oracle", prop, f"instruction {k}: assembled `{got[k] if k < len(got) else None}`, the syntax denotes `{toks[k] if k < len(toks) else None}` -- text {c.meta['text']!r}", "asm:listing"))
    gm = {int(p.split(":")[0]): int(p.split(":")[1]) for p in dump.split(",") if p}
    if "data" in what and {k: v for k, v in gm.items() if v} != {k: v for k, v in mem.items() if v}:
        fails.append(Failure("oracle", prop, f"data image differs from the documented layout -- text {c.meta['text']!r}", "asm:data-image"))
    return fails
