"""Tag-only reference caches in Python (timestamp LRU, recursive-tree PLRU). Used only by oracles (C09, C11)."""
from __future__ import annotations

M32 = 2**32


class RefSet:
    def __init__(self, assoc, pol):
        self.tags = [None] * assoc
        self.pol = pol
        self.assoc = assoc
        self.stamp = {}          # way -> time of last access (LRU)
        self.t = 0
        self.hist = []           # PLRU: replay history through the recursive tree

    def touch(self, w):
        self.t += 1
        self.stamp[w] = self.t
        self.hist.append(w)

    def victim(self):
        if self.pol == "lru":
            return min(range(self.assoc), key=lambda w: (1, self.stamp[w]) if w in self.stamp else (0, w))
        # recursive tree PLRU: go away from the half used last; untouched node -> left (bit False)
        lo, hi = 0, self.assoc
        while hi - lo > 1:
            mid = (lo + hi) // 2
            last = None
            for w in self.hist:
                if lo <= w < hi:
                    last = w >= mid
            if last is None or last is True:
                hi = mid
            else:
                lo = mid
        return lo


class RefCache:
    def __init__(self, ib, bb, assoc, pol, wt=False):
        self.ib, self.bb, self.wt = ib, bb, wt
        self.sets = [RefSet(assoc, pol) for _ in range(1 << ib)]
        self.hits = self.accesses = 0
        self.last = False
        self.misses = 0

    def split(self, a):
        a %= M32
        return a >> (self.ib + self.bb + 2), (a >> (self.bb + 2)) & ((1 << self.ib) - 1)

    def _count(self, hit, counted):
        if counted:
            self.accesses += 1
            self.hits += int(hit)
            self.last = hit
            if not hit:
                self.misses += 1

    def read(self, a, counted=True):
        tag, si = self.split(a)
        s = self.sets[si]
        if tag in s.tags:
            s.touch(s.tags.index(tag))
            self._count(True, counted)
            return True
        v = s.victim()
        s.tags[v] = tag
        s.touch(v)
        self._count(False, counted)
        return False

    def write(self, a):
        if not self.wt:
            return self.read(a, True)
        tag, si = self.split(a)
        s = self.sets[si]
        hit = tag in s.tags
        if hit:
            s.touch(s.tags.index(tag))
        self._count(hit, True)
        return hit
