"""Generators and reference models for data-cache cases (shared by C03, C09, C12)."""
from __future__ import annotations
import copy
from core import Case

LO, HI = 2**14, 2**32


def geometry(rng, small=False):
    ib = rng.choice([0, 0, 1, 1, 2, 3] if not small else [0, 1])
    bb = rng.choice([0, 0, 1, 2, 3] if not small else [0, 1])
    pol = rng.choice(["lru", "plru"])
    assoc = rng.choice([1, 2, 3, 4, 5, 8] if pol == "lru" else [1, 2, 4, 8]) if not small else rng.choice([1, 2])
    return ib, bb, assoc, pol


def universe(rng, ib, bb, assoc):
    """Word addresses chosen to collide: assoc+2 tags for two sets, both ends of the address range."""
    blk = 4 << bb
    span = blk << ib
    words = []
    sets = sorted({0, (1 << ib) - 1, rng.randrange(1 << ib)})
    for s in sets[:2]:
        for tag in range(assoc + 2):
            base = LO + tag * span + s * blk
            for w in sorted({0, (1 << bb) - 1}):
                words.append(base + 4 * w)
    top = HI - span
    words += [top, HI - 4]
    return sorted(set(words))


def gen_case(rng, forced, accepted_only=False, n_ops=None, small=False, dump_every=True, penalty=None):
    ib, bb, assoc, pol = geometry(rng, small)
    ty = rng.choice(["wt", "wb"])
    pen = rng.choice([0, 1, 3, 5]) if penalty is None else penalty
    uni = universe(rng, ib, bb, assoc)
    polname = f"forced:{pol}" if forced else pol
    lines = [f"dc.new {ty} {polname} {ib} {bb} {assoc} {pen}"]
    # parser-style preloads below the cache
    for _ in range(rng.choice([0, 2, 5])):
        a = rng.choice(uni) + rng.choice([0, 1, 2, 3])
        bits = rng.choice([8, 16, 32])
        lines.append(f"dc.w {bits} {a} {rng.randrange(2**bits)} 1")
    n = n_ops if n_ops is not None else rng.choice([3, 8, 20, 50])
    for _ in range(n):
        bits = rng.choice([8, 16, 32])
        w = rng.choice(uni)
        if accepted_only:
            off = rng.choice([o for o in (0, 1, 2, 3) if o + bits // 8 <= 4])
        else:
            off = rng.choice([0, 0, 0, 1, 2, 3])
        a = w + off
        r = rng.random()
        if not accepted_only and r < 0.04:
            a = rng.choice([0, 4, LO - 4, LO - 1, HI, HI + LO - 4 * 0, -4, LO - 2])   # mostly invalid
        elif r < 0.12:
            a += rng.choice([HI, -HI, 2 * HI])                                          # aliases
        k = rng.random()
        if k < 0.45:
            lines.append(f"dc.r {bits} {a} {1 if rng.random() < 0.8 else 0}")
        elif k < 0.9:
            v = rng.choice([0, 1, 0xFF, 0xBEEF, 0xDEADBEEF, rng.randrange(2**32)]) % (2**bits)
            lines.append(f"dc.w {bits} {a} {v} 0")
        elif k < 0.95 and not accepted_only:
            # reload: reset, then parser-style preloads (direct writes happen only while nothing is cached)
            lines.append("dc.reset")
            for _ in range(rng.choice([0, 1, 3])):
                lines.append(f"dc.w 8 {rng.choice(uni) + rng.choice([0, 1, 2, 3])} {rng.randrange(256)} 1")
        else:
            lines.append(f"dc.r 8 {rng.choice(uni) + rng.choice([0, 1, 2, 3])} 0")
        if dump_every:
            lines.append("dc.dump")
        else:
            lines.append("dc.stats")
    if not dump_every:
        lines.append("dc.dump")
    return Case("dcache", lines, None, {"ty": ty, "pol": pol, "ib": ib, "bb": bb, "assoc": assoc, "pen": pen, "forced": forced})


def parse_header(line):
    t = line.split()
    pol = t[2].split(":")[-1]
    return {"ty": t[1], "pol": pol, "ib": int(t[3]), "bb": int(t[4]), "assoc": int(t[5]), "pen": int(t[6])}


def accepted(bits, addr):
    a = addr % HI
    return (a % 4) + bits // 8 <= 4 and a >= LO


def logical_bytes(dc, addrs):
    """Logical content at the given byte addresses, read through a deep copy (so nothing is disturbed)."""
    c = copy.deepcopy(dc)
    out = {}
    for a in addrs:
        try:
            out[a] = int(c.read_byte(a, False))
        except Exception as e:
            out[a] = "E"
    return out


def resident_blocks(dc):
    res = []
    for s in dc.cache.sets:
        for b in s.blocks:
            if b.valid_bit:
                res.append((b.decoded_address.block_alinged_address, [int(v) for v in b.values]))
    return res
