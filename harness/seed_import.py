"""Confirm a seeded change produced by a sub-agent and store it under /verif/seeded/<id>/.
Usage: seed_import.py <worktree>/OUT/<PROP> <seed-id> "<what it needs to manifest>"
Confirms in a scratch worktree of /repo: patch applies, 242 tests pass, demo fails (exit 1); reverted: demo passes (exit 0)."""
import json, shutil, subprocess, sys
from pathlib import Path

V = Path(__file__).resolve().parent.parent


def sh(cmd, cwd=None, timeout=1800):
    return subprocess.run(cmd, shell=True, capture_output=True, text=True, cwd=cwd, timeout=timeout)


def main():
    src, sid, needs = Path(sys.argv[1]), sys.argv[2], sys.argv[3]
    prop = src.name
    wt = Path("/tmp/mut/verify_" + sid)
    sh(f"git -C /repo worktree remove --force {wt}")
    assert sh(f"git -C /repo worktree add --detach {wt} HEAD").returncode == 0
    ran = []
    try:
        demo = next(src.glob("demo_*.py"))
        shutil.copy(demo, wt / demo.name)
        r0 = sh(f"/venv/bin/python {demo.name}", cwd=wt)
        ran.append(f"original tree: demo exit {r0.returncode}")
        a = sh(f"git apply {src / 'patch.diff'}", cwd=wt)
        assert a.returncode == 0, a.stderr
        t = sh("/venv/bin/python -m pytest -q -p no:cacheprovider 2>&1 | tail -1", cwd=wt)
        ran.append("changed tree: pytest -> " + t.stdout.strip())
        r1 = sh(f"/venv/bin/python {demo.name}", cwd=wt)
        ran.append(f"changed tree: demo exit {r1.returncode}")
        ok = r0.returncode == 0 and r1.returncode == 1 and "242 passed" in t.stdout
        print("\n".join(ran))
        if not ok:
            print("NOT CONFIRMED", r0.stdout[-300:], r1.stdout[-300:])
            return 1
        d = V / "seeded" / sid
        d.mkdir(parents=True, exist_ok=True)
        shutil.copy(src / "patch.diff", d / "patch.diff")
        shutil.copy(demo, d / demo.name)
        if (src / "notes.md").exists():
            shutil.copy(src / "notes.md", d / "notes.md")
        (d / "meta.json").write_text(json.dumps({
            "id": sid, "property": prop, "needs_to_manifest": needs,
            "confirmed": ran, "base_commit": sh("git -C /repo rev-parse --short HEAD").stdout.strip(),
            "source": "independent sub-agent given only the property text and a scratch worktree",
        }, indent=1))
        print("stored", d)
        return 0
    finally:
        sh(f"git -C /repo worktree remove --force {wt}")


if __name__ == "__main__":
    sys.exit(main())
