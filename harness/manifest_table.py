claim("C10",
      "Lean 4 theorems on the LRU/PLRU model (induction over access histories) + correspondence of the model with replacement_strategies.py",
      "Theorems in lean/ArchSim/Props/C10.lean hold for every associativity and every finite access history; the model is tied to the code by differential runs of random and (thorough) exhaustively enumerated reachable policy states.",
      "Trusted: Lean kernel, the three standard axioms, the correspondence check (differential testing of Model.Repl against the real LRU/PLRU classes), CPython list semantics, math.log2 on powers of two.",
      "DESIGN.md §8 C10")
