TB = ("Trusted: Lean 4.33 kernel (leanchecker re-check in the thorough tier); axioms propext, Classical.choice, Quot.sound only "
      "(audited per theorem on every run); the hand-written model is tied to /repo by the correspondence check of the run "
      "(differential testing through a line protocol: harness/impl.py + the compiled Lean driver), which can only see "
      "divergences its generators reach. ")

claim("C01",
      "Lean 4 refinement proof: single-cycle model (Model.Rv) = independent BitVec-32 ISA specification (Spec.RvSpec), per instruction and for runs of any length; model tied to the code by differential runs",
      "28 theorems (Props/C01.lean): exec_refines for every supported well-formed instruction and every state (registers, memory, pc, output, exit code, faults), x0, run_refines/sim_refines for every number of steps, done_iff, pc_normal, the ecall table clause by clause, print-string termination. Nothing is bounded. The correspondence check runs every mnemonic on boundary x random operands and generated programs with a snapshot after every step against the real single-stage simulation.",
      TB + "Modelled rather than verified: fixedint 0.2.0 arithmetic, int(a/b) as truncated division on 32-bit operands, CPython int; ecall 2 float rendering is an opaque marker; CSR/FENCE/EBREAK execution excluded (as the property does).",
      "DESIGN.md §8 C01, §13")
claim("C02",
      'Lean 4 proof: data path (split implementation = behavior() for every instruction and state) and control refinement by completion functions (pipeline with stalls, flushes, ecall drain = sequential execution), progress and termination; cycle-accurate correspondence of the pipeline model with the real pipeline',
      '29 theorems. Props/C02Split.lean: split_agrees & companions (every supported instruction, every state, faults incl.). Props/C02.lean: shape invariant and its preservation, abs_step (one cycle = one sequential step on the completion-function abstraction or a stutter; interlock, ECALL drain, EX/MEM/WB flushes), pipe_refines_seq for every number of cycles, retire_order, final_state (registers, data memory SYSTEM incl. cache state and counters, output, exit code, retired/branch/procedure counts, pc, retire log = sequential trace, k = first sequential done step), fault_agrees and its converse fault_complete, younger_no_effect, pipe_progress (K = 5) and pipe_terminates. Props/C02Main.lean composes the halves: pipe_equals_single_cycle (a fault-free five-stage run that stops after n cycles <=> the single-cycle loop stops after k <= n steps with equal registers, data memory, output, exit code, instruction/branch/procedure counts, pc and retire log = single-cycle execution order), pipe_terminates_when_single_does, fault_agrees_single_cycle. Correspondence: full latch + stall-bookkeeping snapshot after every cycle on generated programs incl. dense data-flow chains; oracle: real single-cycle vs real five-stage.',
      TB + "As C01. Hypotheses ProgOK (constructor-shaped instructions) and ICoh (instruction memory returns the stored instruction; C11 with an icache). After a fault the modes differ in instruction_count (proved: split_fault_instruction_count); the property claims registers/memory/output there.",
      'DESIGN.md §8 C02, §13')
claim("C03",
      "Lean 4 refinement proof: cached memory system = flat memory for every geometry, write policy and EVERY victim choice (policy-generic invariant proof); correspondence in forced-victim mode",
      "32 theorems. Props/C03Prog.lean (10), program level: rel_init, step_preserves_rel (one single-cycle step on a cached and a flat state related by CacheRel: same fault, related again - every instruction incl. print-string ecall), cached_run_equals_flat_run / cached_sim_equals_flat_sim (whole runs), five_stage_cached_equals_flat, program_same_result_all_modes (from the flat single-cycle run alone: both five-stage loops, with and without cache, stop fault-free within 5(k+2) cycles and all four configurations end with the same registers, output and exit code), plus two proved sharpness witnesses (word-crossing access, rejected print-string error value). Props/C03.lean (22): init/preload/reset invariants, read_refines, write_refines (WB and WT), history_refines for arbitrary operation lists and adversarial policy states, crossing and out-of-range accesses rejected with stored values unchanged, and the proved counterexample for block bits >= 13 (known finding F6). Correspondence: random and (thorough) exhaustive small-scope histories with a full dump of cache and backing store after every operation; the model is fed the victim the real policy chose, so the tie does not depend on LRU/PLRU details.",
      TB + "Geometry hypothesis blkBits <= 12 is necessary (F6). List aliasing inside the Python cache is modelled by value.",
      "DESIGN.md §8 C03")
claim("C04",
      'Lean 4 theorems on the assembler model (Model.Asm = transcription of the pyparsing grammar + the five passes): expansion laws, label binding, displacements, control transfer; correspondence of the whole assembler incl. front end on grammar-derived and fault-injected texts; denotational oracle',
      '34 theorems (Props/C04.lean): expansion_in_context/uniform/identity, documented effect of nop/mv/li groups, label_denotes_next_instruction, inline_label_denotes_first_instruction (incl. expanding pseudo-instructions, bound once), label_at_end, instructions_in_order / instruction_address (instruction j at 4j), branch/jal displacement theorems for label, label+offset (even; odd offsets rejected: *_odd_rejected, label_displacement_even_iff) and numeric operands, *_transfers through singleStep. Front end: the printer->parser round trip is C14; spelling independence (ABI/xN, case, dec/hex/bin, operand forms, comments, blank lines) is tied by correspondence on independently spelled renderings of the same abstract program and checked by the oracle (asm-pair cases), not a theorem.',
      TB + "pyparsing 3.3.2 is modelled for the grammar subset used (Model.PP), not verified. Spelling-independence of the front end is by correspondence + oracle only. Known finding F8 (labels named nop/ecall/ebreak).",
      'DESIGN.md §8 C04, §13')
claim("C05",
      'Lean 4 theorems on the assembler model: li/la value for every constant (omega on the hi/lo split), load/store by name, data layout recurrence with read-back through the C18 memory theorems, segment order; correspondence + execution oracle',
      '33 theorems (Props/C05.lean): hiLo_recombines, li_value / la_value for EVERY constant and register, load_by_name, store_by_name, layout_ok / layout_addresses / layout_table / var_addr / layout_elements(_little_endian) / layout_string / layout_zero / layout_padding, segment_order_image, and the proved necessity of the fits-below-2^32 hypothesis (layout_needs_fit). Correspondence: data images and variable addressing of rendered declaration lists (incl. >2 KiB areas), all li boundary constants executed, the help page example read from /repo at run time.',
      TB + "As C04.",
      'DESIGN.md §8 C05, §13')
claim("C06",
      "Lean 4 refinement proof: TOY model = fetch-execute reference machine over BitVec for runs of any length (IR invariant); correspondence on random self-modifying images",
      "5 theorems (Props/C06.lean): toy_refines / toy_step_refines / toy_refines_program (any number of steps, any memory image), two cycles per instruction, a store into the program area is seen by the next fetch. Thorough tier sweeps all 2^16 instruction words on boundary operands as model validation.",
      TB + "fixedint UInt16/UInt12 wrap-around modelled.",
      "DESIGN.md §8 C06")
claim("C07",
      'Lean 4 theorems on the pipeline model: per-step cycle increment with miss penalties, n+4 for straight-line independent programs, closed forms for interlock / redirect / ecall drain, lock-step simulation of a data-free skeleton; cycle-accurate correspondence; independent documented-schedule reference as oracle',
      '23 theorems (Props/C07.lean): cycle_increment (+ EX/MEM fault variants, no-cache = exactly +1, single_cycle_increment, uncounted re-read free), straight_line_n_plus_4 (done at n+4 and at no smaller k) and straight_line_empty, interlock_condition/recorded/two_bubbles, redirect_three_slots/targets, ecall_drain (under the reachable-shape hypothesis; ecall_drain_needs_exmem shows it is necessary), pipe_sim_skeleton / pipe_run_skeleton (erase (step p) = Skeleton.step (erase p) outcomes, Spec/Skeleton.lean), is_done_skeleton. Retire cycle per instruction on the real code is compared with an independent reference of the documented schedule (harness/pipe_ref.py).',
      TB + "The skeleton is data-free: branch outcomes and exit decisions are inputs. The closed forms are stated on explicit pipeline configurations; 'retire cycle of every instruction of every program = skeleton' follows from pipe_run_skeleton for the model, and from the correspondence for the code.",
      'DESIGN.md §8 C07')
claim("C08",
      'Lean 4 theorems on the pipeline model with the interlock flag off: no ID stall ever, stalls counter counts ecall drains only, ID reads after WB with no forwarding (stale reads), nop-padding yields hazard-free programs, skeleton without interlock; correspondence with hazard detection disabled; independent interlock-free reference + nop-padding oracle',
      "24 theorems (Props/C08.lean, Props/C08Main.lean): no_id_stall_init / no_id_stall / no_id_stall_run, hazard_flag_constant, stalls_count_ex_only, ex_stall_is_ecall_drain, regs_written_by_wb_only, id_reads_after_wb, id_operands_stale, id_output_latched, stale_read_harmless, pad_hazard_free (every program), pad_layout, hazard_free_no_interlock, skeleton_interlock_off. The run-level clause 'a hazard-free program computes single-cycle results with detection off' (hazard_free_refines) re-instantiates the C02 control proof and is being added (DESIGN.md §13); until then it is tied by correspondence and the nop-padding oracle.",
      TB + "As C02 (ProgWF, StOK, no icache for the composed statements).",
      'DESIGN.md §8 C08, §13')
claim("C09",
      "Lean 4 proof: erasing data from the cache model commutes with every accepted operation of a tag-only reference cache (policy-generic), counters and penalties follow by induction; correspondence with the real policies",
      "33 theorems. Props/C09.lean (23): erase_commutes_read/write/op, counters_refine for all histories and prefixes, penalty per counted miss, uncounted reads and direct writes leave counters untouched, reread_neutral (display re-read is a no-op), instances for LRU/PLRU, display_reread_harmless at instruction level; plus the proved necessity of policy idempotence for writes. Props/C09Prog.lean (10), program level: split_agrees_cached (split stages = single-cycle step on cached memory, equal states), dcache_counters_equal_modes (a fault-free five-stage run to completion and the single-cycle run end with the SAME data memory system and hit/access/last-hit counters, also with any instruction cache on), each_memop_counted_once, accesses_count_memops and five_stage_accesses_count_memops (counter growth = number of executed loads/stores; squashed and stalled instructions not double-counted).",
      TB + "blkBits <= 12 (F6).",
      "DESIGN.md §8 C09")
claim("C10",
      "Lean 4 proof by induction over access histories: LRU order = recency order, PLRU heap array = recursive tree; correspondence incl. exhaustive reachable-state enumeration",
      "21 theorems (Props/C10.lean) for every associativity and every finite history: LRU state is a permutation sorted by last-access age, victim = oldest, ages consistent, idempotence; PLRU victim follows the tree, access sets the path bits away, frame, victim != accessed, idempotence; totality facts used by the cache proofs.",
      TB + "math.log2 exact on powers of two, CPython list semantics.",
      "DESIGN.md §8 C10")
claim("C11",
      "Lean 4 invariant proof: every resident block equals the instruction-memory block (transparency), reset clears, fetch accounting = tag-only reference; correspondence with every cached block in the snapshot",
      "18 theorems. Props/C11.lean (13): icache_transparent (all geometries, both policies, any pc), reset_clears, fetch_accounting and fetch_run_accounting, single-cycle accesses = executed instructions. Props/C11Prog.lean (5), program level: ICoh_icache (the cache invariant gives the fetch-coherence hypothesis of the pipeline refinement C02), final_state_icache, icache_single_step_equal / icache_run_equal (single-cycle runs with and without an instruction cache agree on everything but cycles and cache state), icache_five_stage_results (five-stage results and retired addresses independent of the instruction cache).",
      TB,
      "DESIGN.md §8 C11")
claim("C12",
      "Lean 4 invariant proof over arbitrary histories: WT backing = logical contents and resident = backing; WB backing lags only on resident blocks, eviction writes back; correspondence with dumps after every op",
      "21 theorems. Props/C12.lean (7): wt_backing_current, wt_resident_backed, wt_state, wb_backing_lags_only_resident, eviction_preserves, eviction_writes_back, wb_write_not_lost. Props/C12Prog.lean (14), the user-visible clause and the program level: wt_backing_is_flat_memory (under write-through the backing store EQUALS the flat reference memory as a structure after any history), wt_table_current (hence the memory table is the flat run's), wb_table_row_current / wb_flat_row_covered (the table lags only on resident blocks: every row outside a resident block is current, every flat row is listed or resident), the proved negation of the converse inclusion (written-back blocks list words the program never wrote) and of order equality under write-back, and the same statements along single-cycle runs, the simulation loop and at the end of five-stage runs (table_rel_init, step_preserves_table_rel, wt_table_current_along_run, table_lags_only_resident_along_run, table_along_sim, table_five_stage).",
      TB + "blkBits <= 12 (F6).",
      "DESIGN.md §8 C12")
claim("C13",
      'Lean 4 theorems on the API models (Model.Sim, Model.Toy): done is a fixpoint, run = iterated step with fuel independence, reload = fresh load through the assembler model; correspondence on API histories with failing loads and calls after done',
      '14 theorems (Props/C13.lean, Props/C13Toy.lean) for single-cycle, five-stage and TOY: done_stable (step, run, any call sequence), exit_done_stable, step_result, run_eq_iterate (characterisation, fuel independence), empty_done, reload_fresh (load (load s t1) t2 = load s t2 for any state, any list of earlier loads, successful or failing), load_frame.',
      TB,
      'DESIGN.md §8 C13')
claim("C14",
      'Lean 4 round-trip theorem printer -> parser -> instantiation on the models for every instruction, register, immediate and address; listing fix-point through the whole load pipeline; correspondence; oracle = real repr through the real assembler',
      '12 theorems (Props/C14.lean): numeral_roundtrip_dec/hex, register_roundtrip, repr_roundtrip and repr_roundtrip_tree (every Canon instruction except FENCE at every address: parseLine of the printed form instantiates to the same object; all 15 grammar alternatives and longest-match ties handled), grammar_sound (parser soundness), canon_of_instantiate (every instruction the assembler builds is Canon, label forms included), listing_fixpoint, built_listing_fixpoint, loaded_program_built and loaded_listing_fixpoint: re-loading the printed listing of ANY successfully loaded program reproduces the program. The proof attempt first produced a proved counterexample (label + odd offset), repaired in /repo by de456dd.',
      TB + "Side conditions: csr number >= 0, |jal target| < 10^4300 (Python str/int digit limit is not modelled in intToDec).",
      'DESIGN.md §8 C14, §13')
claim("C15",
      'Lean 4 theorems on the assembler and simulation models: every load error is a parser error whose line number exists in the text and whose line text is that line (both assemblers), memory error origins, fuel-independence of the scanners (termination), run-time faults carry address and instruction of the raising stage, latch invariant; correspondence on fault-injected texts, soups and faulting programs',
      '18 theorems (Props/C15.lean): sanitize_spec, riscv_error_line_exists, toy_error_line_exists, load_outcomes_riscv/toy (the model has no ill-typed failure; kinds enumerated), riscv_memory_error_origin, totality (fuel never runs out), single_fault_at_pc, runtime_error_typed_single/five, runtime_error_kind_single, latch invariant (every latch holds the instruction stored at its address) and runtime_error_instr_at_addr_five.',
      TB + "Termination and exception-freedom of pyparsing itself are assumptions; in the model exceptions are values, so ill-typed failures are excluded by the correspondence, not by a theorem about Python.",
      'DESIGN.md §8 C15')
claim("C16",
      "Lean 4 erasure law over API histories + the cache-statistics lemma for display reads; the purity of the real getters is witnessed by the correspondence (model treats every inspection call as a no-op)",
      "3 theorems (Props/C16.lean): inspect_irrelevant, views_repeatable, display_read_keeps_statistics (with C09's reread_neutral). In a functional model purity of views holds by construction, so the weight is carried by the correspondence: all real getters (tables, statistics, SVG update lists, metrics text) are called in random interleavings while the model ignores them; any mutation shows in the next deep snapshot; the oracle compares the run with and without the calls.",
      TB + "Stated honestly: proof of the model-level statement plus differential validation that the implementation's getters are no-ops. Wall-clock fields of the metrics text are excluded.",
      "DESIGN.md §8 C16")
claim("C17",
      "Lean 4 digit-string round-trip proofs for the formatter model, memory-table theorems (C18); correspondence exhaustive for 12/16 bits",
      "14 theorems (Props/C17.lean) for every n >= 1 and every integer: bin/udec/hex/sdec denote the two's-complement value (independent digit evaluation), exact digit counts, upper-case hex, grouping from the right; memory-table keys/values in Props/C18.lean (reprKeys_*, reprEntries_*).",
      TB + "str.format / str(int) of CPython modelled.",
      "DESIGN.md §8 C17")
claim("C18",
      "Lean 4 proof: memory model = history-defined byte map, LE round trip, wrap aliasing, range errors, partial-write semantics; correspondence on histories around both ends of the range",
      "48 theorems (Props/C18.lean) for every configuration, history, address and value, with RISC-V and TOY instances.",
      TB + "fixedint UIntN construction = reduction modulo 2^N; dict as finite map.",
      "DESIGN.md §8 C18")
claim("C19",
      'Lean 4 proofs: encode/decode round trips for all words (omega); TOY assembler placement, label resolution, segment order, numerals, documented examples; correspondence of the TOY assembler model, all 2^16 words in the thorough tier',
      '25 theorems (Props/C19.lean): decode_encode, encode_decode, decode_mod; instr_placement, instr_words_decode, load_is_loadImage, data_placement(_step,_load), labels_resolve, labels_are_instruction_addresses, segment_order*, segment_order_same_image, numerals_denote, numerals_accepted (all 60 case spellings x dec/hex), and the documented example programs evaluated in the model (help example result 1, sum.toy = 55).',
      TB + "pyparsing modelled for the TOY grammar.",
      'DESIGN.md §8 C19')
claim("C20",
      "Lean 4 normal-form theorem for arbitrary call sequences (state = half^k), classification of rejected calls, no-ops when done; correspondence on legal and illegal interleavings",
      "7 theorems (Props/C20.lean): step_eq_halves, single_eq_due, inv_initial, call_classified, calls_normal_form, done_noop, three_styles_agree — state equality covers counters, markers and visualisation values.",
      TB,
      "DESIGN.md §8 C20")
