"""Shared machinery of the checks: Lean build + axiom audit, model driver, correspondence diff,
failing-input search bookkeeping, known findings, evidence, exit codes."""
from __future__ import annotations

import fcntl
import json
import os
import random
import re
import subprocess
import sys
import time
from dataclasses import dataclass, field
from pathlib import Path
from typing import Callable, Iterable, Optional

VERIF = Path(__file__).resolve().parent.parent
LEAN = Path(os.environ.get("VERIF_LEAN_DIR") or VERIF / "lean")      # proof work in a scratch copy can be checked against /repo before it is integrated
DRIVER = LEAN / ".lake" / "build" / "bin" / "archsim-model"
EVIDENCE = Path(os.environ.get("VERIF_EVIDENCE_DIR") or VERIF / "evidence")   # seedtest.py redirects it: evidence is of the unchanged tree only
REPLAYS = VERIF / "replays"
CORPUS = VERIF / "corpus"
KNOWN = VERIF / "known_findings.json"

ALLOWED_AXIOMS = {"propext", "Classical.choice", "Quot.sound"}
FORBIDDEN_RE = re.compile(r"\b(sorry|admit|native_decide|bv_decide|implemented_by|maxHeartbeats 0)\b|^\s*axiom\s|\bunsafe\s")


class Infra(Exception):
    """Infrastructure trouble: exit code 2, never 0 or a VIOLATION."""


# ---------------------------------------------------------------------------------------------
# Lean: build, audit
# ---------------------------------------------------------------------------------------------

def _lake(args: list[str], timeout: int = 3600) -> subprocess.CompletedProcess:
    env = dict(os.environ)
    env.setdefault("LEAN_NUM_THREADS", "16")
    return subprocess.run(["lake"] + args, cwd=LEAN, capture_output=True, text=True, timeout=timeout, env=env)


class _Lock:
    def __enter__(self):
        LEAN.joinpath(".lake").mkdir(exist_ok=True)
        self.f = open(LEAN / ".lake" / "verif.lock", "w")
        fcntl.flock(self.f, fcntl.LOCK_EX)
        return self

    def __exit__(self, *a):
        fcntl.flock(self.f, fcntl.LOCK_UN)
        self.f.close()


def build_driver() -> None:
    with _Lock():
        r = _lake(["build", "archsim-model"])
    if r.returncode != 0 or not DRIVER.exists():
        raise Infra("model driver does not build:\n" + r.stdout[-4000:] + r.stderr[-4000:])


def strip_comments(src: str) -> str:
    # remove /- ... -/ (nested not needed here) and -- comments
    src = re.sub(r"/-.*?-/", "", src, flags=re.S)
    return "\n".join(l.split("--", 1)[0] for l in src.splitlines())


def theorems_in(path: Path) -> list[str]:
    """Fully qualified names of the theorems declared in a Props file (all of them are obligations)."""
    src = strip_comments(path.read_text())
    names = []
    ns: list[str] = []
    for line in src.splitlines():
        m = re.match(r"\s*namespace\s+(\S+)", line)
        if m:
            ns.append(m.group(1))
            continue
        m = re.match(r"\s*end\s+(\S+)", line)
        if m and ns and ns[-1] == m.group(1):
            ns.pop()
            continue
        m = re.match(r"\s*(?:@\[[^\]]*\]\s*)?(?:private\s+|protected\s+)?theorem\s+(\S+)", line)
        if m:
            names.append(".".join(ns + [m.group(1)]))
    return names


def lean_closure(mod: str, seen: Optional[set] = None) -> set:
    """ArchSim.* modules a module imports, transitively (source files to grep)."""
    seen = set() if seen is None else seen
    if mod in seen:
        return seen
    p = LEAN / (mod.replace(".", "/") + ".lean")
    if not p.exists():
        return seen
    seen.add(mod)
    for m in re.findall(r"^import\s+(ArchSim\.\S+)", p.read_text(), flags=re.M):
        lean_closure(m, seen)
    return seen


@dataclass
class ProofReport:
    module: str
    built: bool
    theorems: list[str] = field(default_factory=list)
    clean: list[str] = field(default_factory=list)       # theorems with allowed axioms only
    dirty: dict = field(default_factory=dict)            # theorem -> offending axioms / problem
    forbidden: list[str] = field(default_factory=list)   # grep hits
    log: str = ""
    leanchecker: Optional[bool] = None

    @property
    def ok(self) -> bool:
        return self.built and not self.dirty and not self.forbidden and len(self.clean) == len(self.theorems) \
            and len(self.theorems) > 0 and self.leanchecker is not False


def prove(prop: str, tier: str) -> ProofReport:
    """Build `ArchSim.Props.<prop>`, audit the axioms of every theorem in it, grep its import closure."""
    # every file Props/<prop>.lean and Props/<prop><Suffix>.lean (e.g. C02Split, C13Toy) states obligations of <prop>
    pdir = LEAN / "ArchSim" / "Props"
    paths = sorted(p for p in pdir.glob(f"{prop}*.lean") if re.fullmatch(prop + r"([A-Z][A-Za-z0-9]*)?", p.stem))
    mods = [f"ArchSim.Props.{p.stem}" for p in paths]
    mod = " ".join(mods)
    rep = ProofReport(module=mod, built=False)
    if not paths:
        rep.log = f"no Props file for {prop}"
        return rep
    rep.theorems = [t for p in paths for t in theorems_in(p)]
    with _Lock():
        r = _lake(["build"] + mods)
        rep.log = (r.stdout + r.stderr)[-6000:]
        if r.returncode != 0:
            return rep
        rep.built = True
        # grep
        closure = set()
        for m_ in mods:
            lean_closure(m_, closure)
        for m in sorted(closure):
            src = strip_comments((LEAN / (m.replace(".", "/") + ".lean")).read_text())
            for k, line in enumerate(src.splitlines(), 1):
                if FORBIDDEN_RE.search(line):
                    rep.forbidden.append(f"{m}:{k}: {line.strip()[:120]}")
        # axioms
        audit = LEAN / ".lake" / f"Audit_{prop}.lean"
        audit_src = "".join(f"import {m_}\n" for m_ in mods) + "".join(f"#print axioms {t}\n" for t in rep.theorems)
        audit.write_text(audit_src)
        # `#print axioms` is a function of the compiled modules: when none of the .olean files of the import closure (and
        # nothing in the audit file) changed since the last audit of this property, its output is reused. (Loading the
        # Mathlib part of the closure costs tens of seconds when the page cache is cold.)
        import hashlib
        h = hashlib.sha256(audit_src.encode())
        for m in sorted(closure):
            ol = LEAN / ".lake" / "build" / "lib" / "lean" / (m.replace(".", "/") + ".olean")
            h.update(m.encode())
            h.update(ol.read_bytes() if ol.exists() else b"<missing>")
        key = h.hexdigest()
        cache = LEAN / ".lake" / f"Audit_{prop}.cache.json"
        out = None
        if os.environ.get("VERIF_AUDIT_CACHE", "1") == "1" and tier != "thorough" and cache.exists():
            try:
                cj = json.loads(cache.read_text())
                if cj.get("key") == key:
                    out = cj["out"]
            except Exception:
                out = None

        class _A:
            returncode = 0
        a = _A()
        if out is None:
            a = _lake(["env", "lean", str(audit)])
            out = a.stdout + a.stderr
            if a.returncode == 0:
                cache.write_text(json.dumps({"key": key, "out": out}))
        if a.returncode != 0:
            rep.log += "\nAUDIT FAILED:\n" + out[-3000:]
            rep.dirty["<audit>"] = ["audit file does not elaborate"]
            return rep
        # parse: "'name' depends on axioms: [a, b]" / "'name' does not depend on any axioms"
        flat = out.replace("\n", " ")
        for t in rep.theorems:
            m = re.search(r"'" + re.escape(t) + r"' (does not depend on any axioms|depends on axioms: \[([^\]]*)\])", flat)
            if not m:
                rep.dirty[t] = ["no #print axioms output"]
                continue
            axs = set() if m.group(2) is None else {x.strip() for x in m.group(2).split(",") if x.strip()}
            bad = sorted(axs - ALLOWED_AXIOMS)
            if bad:
                rep.dirty[t] = bad
            else:
                rep.clean.append(t)
        if tier == "thorough" and os.environ.get("VERIF_LEANCHECKER", "1") == "1":
            c = _lake(["env", "leanchecker"] + mods, timeout=3600)
            rep.leanchecker = c.returncode == 0
            if not rep.leanchecker:
                rep.log += "\nLEANCHECKER:\n" + (c.stdout + c.stderr)[-3000:]
    return rep


# ---------------------------------------------------------------------------------------------
# model driver
# ---------------------------------------------------------------------------------------------

def run_model(lines: list[str]) -> list[str]:
    if not lines:
        return []
    p = subprocess.run([str(DRIVER)], input="\n".join(lines) + "\n", capture_output=True, text=True, timeout=1800)
    if p.returncode != 0:
        raise Infra(f"model driver crashed (rc={p.returncode}): {p.stderr[-2000:]}")
    out = p.stdout.split("\n")
    if out and out[-1] == "":
        out.pop()
    if len(out) != len(lines):
        raise Infra(f"model driver answered {len(out)} lines for {len(lines)} commands")
    return out


# ---------------------------------------------------------------------------------------------
# cases, suites, results
# ---------------------------------------------------------------------------------------------

@dataclass
class Case:
    suite: str
    lines: list[str]                 # commands for the implementation side
    model_lines: Optional[list[str]] = None   # commands for the model (default: the same)
    meta: dict = field(default_factory=dict)
    impl_out: list[str] = field(default_factory=list)
    model_out: list[str] = field(default_factory=list)

    def to_json(self) -> dict:
        return {"suite": self.suite, "lines": self.lines, "meta": self.meta}


@dataclass
class Failure:
    kind: str            # "oracle" (property fails on the implementation) | "correspondence" | "proof"
    prop: str
    what: str
    signature: str
    case: Optional[Case] = None
    detail: dict = field(default_factory=dict)


class Stats:
    def __init__(self) -> None:
        self.evaluations = 0
        self.distinct: set = set()
        self.samples: list = []
        self.dist: dict = {}
        self.traces = 0

    def bump(self, key: str, n: int = 1) -> None:
        self.dist[key] = self.dist.get(key, 0) + n


def seed_from_env() -> int:
    try:
        return int(os.environ.get("VERIF_SEED", "0"))
    except ValueError:
        return 0


def load_known() -> dict:
    if KNOWN.exists():
        return json.loads(KNOWN.read_text())
    return {"known": [], "fixed": []}


def write_replay(prop: str, payload: dict) -> Path:
    REPLAYS.mkdir(exist_ok=True)
    p = REPLAYS / f"{prop}_{int(time.time())}_{os.getpid()}_{len(list(REPLAYS.iterdir()))}.json"
    p.write_text(json.dumps(payload, indent=1))
    return p


def write_evidence(prop: str, tier: str, seed: int, rep: ProofReport, stats: Stats, wall: float,
                   violations: int, assumptions: list[str], extra: dict) -> None:
    EVIDENCE.mkdir(exist_ok=True)
    cov = {
        "obligations": len(rep.theorems),
        "discharged": len(rep.clean) if rep.built else 0,
        "checker_cmd": f"cd /verif/lean && lake build {rep.module} && lake env lean .lake/Audit_{prop}.lean"
                       + (" && lake env leanchecker " + rep.module if tier == "thorough" else ""),
        "trusted_base": [
            "Lean 4.33.0 kernel" + (" + leanchecker re-check" if rep.leanchecker else ""),
            "axioms allowed: propext, Classical.choice, Quot.sound (audited per theorem with #print axioms)",
            "hand-written model tied to /repo by the correspondence check of this run (differential testing)",
            "harness/impl.py, harness generators, Lean driver protocol parsing, Lean compiler for the driver",
        ],
        "theorems": rep.theorems,
        "evaluations": stats.evaluations,
        "distinct_nontrivial": len(stats.distinct),
        "rule": extra.pop("rule", ""),
        "traces_validated_against_impl": stats.traces,
        "samples": stats.samples[:6] if stats.samples else ["(no samples)"],
        "input_distribution": stats.dist,
    }
    cov.update(extra)
    ev = {
        "property_id": prop,
        "tier": tier,
        "seed": seed,
        "level": "proof",
        "coverage": cov,
        "assumptions": assumptions,
        "wall_s": round(wall, 2),
        "violations": violations,
    }
    (EVIDENCE / f"{prop}.json").write_text(json.dumps(ev, indent=1))


def first_diff(a: list[str], b: list[str]) -> Optional[int]:
    for i, (x, y) in enumerate(zip(a, b)):
        if x != y:
            return i
    if len(a) != len(b):
        return min(len(a), len(b))
    return None
