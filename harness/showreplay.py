import json,glob,sys
prop=sys.argv[1]
j=json.load(open(sorted(glob.glob(f'/verif/replays/{prop}_*.json'), key=lambda p: __import__("os").path.getmtime(p))[-1]))
print(j['what']); print(j.get('signature'))
c=j.get('case') or {}
io=j.get('impl_out',c.get('impl_out',[])); mo=j.get('model_out',c.get('model_out',[]))
for l,a,b in zip(c.get('lines',[]), io, mo): print(l[:200],'|',a[:300],'|', '==' if a==b else b[:300])
print('corr breaks', j.get('correspondence_breaks'))
