"""Generators + oracle for TOY assembler texts (C19 assembler part, C15 TOY part)."""
from __future__ import annotations
from core import Case, Failure
import impl as implmod

ADDR_MN = ["STO", "LDA", "BRZ", "ADD", "SUB", "OR", "AND", "XOR"]
NOADDR_MN = ["NOT", "INC", "DEC", "ZRO", "NOP"]
OPC = {m: i for i, m in enumerate(ADDR_MN + NOADDR_MN)}


def hx(s):
    return s.encode("utf-8").hex() if s else "."


def spell_mn(rng, mn):
    r = rng.random()
    return mn if r < 0.5 else (mn.lower() if r < 0.8 else "".join(c.lower() if rng.random() < 0.5 else c for c in mn))


def spell_num(rng, v):
    r = rng.random()
    if r < 0.3:
        return f"0x{v:x}"
    if r < 0.45:
        return f"0x{v:X}"
    if r < 0.55:
        return f"0x{v:0{rng.choice([3, 4, 6])}x}"          # zero-padded hexadecimal
    if r < 0.7:
        return f"{v:0{rng.choice([2, 4, 5])}d}"             # zero-padded decimal: legal (the grammar reads decimals with base 10)
    return str(v)


def gen_abstract(rng):
    """abstract program: list of text items and data declarations"""
    n = rng.choice([0, 1, 2, 4, 7, 12])
    names = ["loop", "end", "x", "y", "arr", "_t1", "L2", "data_1", "ORx", "incr", "A", "b"]
    rng.shuffle(names)
    nlab = rng.choice([0, 1, 2, 3])
    labels = names[:nlab]
    nvar = rng.choice([0, 1, 2, 3])
    variables = [(nm, [rng.choice([0, 1, 5, 65535, 65536 + 3, rng.randrange(70000)]) for _ in range(rng.choice([1, 1, 2, 4]))]) for nm in names[nlab:nlab + nvar]]
    items = []
    lab_pos = sorted(rng.randrange(n + 1) for _ in labels)
    li = 0
    for k in range(n + 1):
        while li < len(labels) and lab_pos[li] == k:
            items.append(("label", labels[li], rng.random() < 0.5 and k < n))   # (name, inline?)
            li += 1
        if k == n:
            break
        if rng.random() < 0.6:
            mn = rng.choice(ADDR_MN)
            t = rng.random()
            if t < 0.35 and labels:
                items.append(("instr", mn, ("ref", rng.choice(labels))))
            elif t < 0.7 and variables:
                items.append(("instr", mn, ("ref", rng.choice(variables)[0])))
            else:
                items.append(("instr", mn, ("num", rng.choice([0, 1, 4095, 4096 + 2, rng.randrange(4096)]))))
        else:
            items.append(("instr", rng.choice(NOADDR_MN), None))
    return items, variables


def denote(items, variables, size=4096):
    """the documented meaning: instruction i at address i; variables downward from 4095 in declaration order,
    elements ascending; every label/variable resolves to its address."""
    addr = {}
    top = size - 1
    mem = {}
    for nm, vals in variables:
        top -= len(vals)
        addr[nm] = top + 1
        for i, v in enumerate(vals):
            mem[top + 1 + i] = v % 65536
    pc = 0
    for it in items:
        if it[0] == "label":
            addr[it[1]] = pc
        else:
            pc += 1
    words = []
    for it in items:
        if it[0] != "instr":
            continue
        mn, arg = it[1], it[2]
        a = 0
        if arg is not None:
            a = addr[arg[1]] if arg[0] == "ref" else arg[1]
        words.append((OPC[mn] << 12) + a % 4096)
    for i, w in enumerate(words):
        mem[i] = w
    return words, mem, len(words) - 1


def render(rng, items, variables):
    text_lines = []
    pending = None
    for it in items:
        ind = rng.choice(["", "", "  ", "\t"])
        if it[0] == "label":
            if it[2]:
                if pending:
                    text_lines.append(f"{ind}{pending}:")
                pending = it[1]
            else:
                text_lines.append(f"{ind}{it[1]}{rng.choice(['', ' '])}:")
        else:
            mn, arg = it[1], it[2]
            s = spell_mn(rng, mn)
            if arg is not None:
                s += rng.choice([" ", "  ", "\t"]) + (arg[1] if arg[0] == "ref" else spell_num(rng, arg[1]))
            if pending:
                s = f"{pending}:{rng.choice([' ', '', '  '])}{s}"
                pending = None
            if rng.random() < 0.2:
                s += rng.choice(["  # comment", " #x: .word 5", "#", " # größer ≥ 5 ✓", " # a # b"])
            text_lines.append(ind + s)
    if pending:
        text_lines.append(pending + ":")
    data_lines = []
    for nm, vals in variables:
        data_lines.append(f"{nm}:{rng.choice([' ', '', '  '])}.word {(',' + rng.choice(['', ' '])).join(spell_num(rng, v) for v in vals)}")
    def sprinkle(ls):
        out = []
        for l in ls:
            if rng.random() < 0.15:
                out.append(rng.choice(["", "   ", "# a comment line", "\t# another", "# Ümläute ✓", "#"]))
            out.append(l)
        return out
    text_lines, data_lines = sprinkle(text_lines), sprinkle(data_lines)
    order = rng.choice(["text-first-implicit", "text-first", "data-first"]) if data_lines else rng.choice(["plain", "text-first"])
    if order == "plain":
        ls = text_lines
    elif order == "text-first-implicit":
        ls = text_lines + [".data"] + data_lines if text_lines and not text_lines[0].strip().startswith(".") else [".text"] + text_lines + [".data"] + data_lines
    elif order == "text-first":
        ls = [".text"] + text_lines + ([".data"] + data_lines if data_lines else [])
    else:
        ls = [".data"] + data_lines + [".text"] + text_lines
    return rng.choice(["\n", "\n", "\r\n"]).join(ls) + rng.choice(["", "\n"])


FAULTS = ["ADD 007", "ADD 0x", "ADD 0xZZ", "ADD 1x", "ſto 5", "stO 5", "ADDı 3", "KADD", "ADD " + "9" * 4301, "ADD " + "9" * 4300,
          "x: .word", "x: .word 1,", "x: .word 1 2", ".bss", ".data extra", "foo: bar:", "INC 5", "LDA", "LDA -1", "1abc: INC",
          "ADD x y", "add x y", "INC DEC", "INC\x0bDEC", "NOP\x1cNOP", "ADD 5", "lda missing", "x:", "x: INC", ".text", ".data",
          "X: .WORD 5", "ADDRESS", "ORIGIN:", "NOT:", "nop nop", "a: .word 0x10000", "ADD 4096", "ADD 99999", "# only comment", "   ",
          "é: INC", "ADD é", "INC # ü", "﻿INC", "INC;DEC"]


def gen_case(rng):
    items, variables = gen_abstract(rng)
    text = render(rng, items, variables)
    meta = {"text": text, "refs": sum(1 for it in items if it[0] == "instr" and it[2] and it[2][0] == "ref"), "kind": "valid"}
    if rng.random() < 0.35:
        # fault injection into a grammar-derived program
        lines = text.split("\n")
        k = rng.randrange(len(lines) + 1)
        f = rng.choice(FAULTS)
        r = rng.random()
        if r < 0.6:
            lines.insert(k, f)
        elif r < 0.8 and lines:
            lines[min(k, len(lines) - 1)] = f
        else:
            lines.insert(k, rng.choice([".data", ".text", "x: .word 1", "loop:", "y: .word 2"]))   # structural fault / duplicate
        text = "\n".join(lines)
        meta = {"text": text, "refs": meta["refs"], "kind": "fault"}
    else:
        meta["abstract"] = (items, variables)
    lines = ["toy.new", f"toy.asm {hx(text)}", "toy.snap"]
    # execute a few steps so that a wrong image shows in behaviour as well
    lines += ["toy.call step", "toy.snap"] * 3
    # reload (C13): second program into the same, not yet... (started) simulation is covered by C13's generator
    return Case("toy-asm", lines, None, meta)


EXAMPLES = [
    # documented examples (help page of the web UI)
    ("count", "LDA x\nloop: DEC\nBRZ end\nZRO\nBRZ loop\nend: STO x\n.data\nx: .word 3\n", None),
]


def example_cases():
    import os
    out = []
    for name, text, _ in EXAMPLES:
        out.append(Case("toy-asm-example", ["toy.new", f"toy.asm {hx(text)}", "toy.snap", "toy.run 500", "toy.snap"], None, {"text": text, "refs": 1, "kind": "example"}))
    return out


def oracle(c, prop):
    """documented meaning vs what the real assembler produced (only for texts rendered from an abstract program)."""
    fails = []
    ab = c.meta.get("abstract")
    if not ab:
        return fails
    if len(c.lines) < 3 or not c.lines[1].startswith("toy.asm") or c.lines[1].split()[1] != hx(c.meta["text"]) or c.lines[2] != "toy.snap":
        return fails          # shrunk / edited case: the abstract program no longer describes the text
    items, variables = ab
    words, mem, maxpc = denote(items, variables)
    out = c.impl_out[1] if len(c.impl_out) > 1 else ""
    snap = c.impl_out[2] if len(c.impl_out) > 2 else ""
    if out.startswith("X"):
        fails.append(Failure("oracle", prop, f"loading a well-formed TOY program raised {out.split()[1]} -- text {c.meta['text']!r}", "toyasm:valid-raises"))
        return fails
    if out != "ok":
        fails.append(Failure("oracle", prop, f"well-formed TOY program rejected: {out} -- text {c.meta['text']!r}", "toyasm:valid-rejected"))
        return fails
    d = {}
    for part in snap.split("|"):
        k, _, v = part.partition("=")
        d[k] = v
    got = {int(p.split(":")[0]): int(p.split(":")[1]) for p in d.get("mem", "").split(",") if p}
    if {k: v for k, v in got.items() if v} != {k: v for k, v in mem.items() if v}:
        fails.append(Failure("oracle", prop, f"assembled image {sorted(got.items())[:8]} differs from the documented placement {sorted(mem.items())[:8]} -- text {c.meta['text']!r}", "toyasm:image"))
    elif d.get("max") != str(maxpc):
        fails.append(Failure("oracle", prop, f"max_pc {d.get('max')} != {maxpc}", "toyasm:maxpc"))
    if not fails:
        # "the top of memory" is the top of THIS machine's memory: the same text on a machine built with another size
        from architecture_simulator.simulation.toy_simulation import ToySimulation
        ndata = sum(len(v) for _, v in variables)
        for size in (1024, 300):
            if len(words) + ndata > size:
                continue
            words2, mem2, _ = denote(items, variables, size)
            sim = ToySimulation(unified_memory_size=size)
            try:
                sim.load_program(c.meta["text"])
            except Exception as e:
                fails.append(Failure("oracle", prop, f"on a machine with {size} words the well-formed program is rejected ({type(e).__name__}) -- text {c.meta['text']!r}", "toyasm:custom-size"))
                break
            got2 = {int(a): int(v) for a, v in sim.state.memory.memory_file.items() if int(v)}
            if got2 != {k: v for k, v in mem2.items() if v}:
                fails.append(Failure("oracle", prop, f"on a machine with {size} words the data is not placed downward from address {size - 1} -- text {c.meta['text']!r}", "toyasm:custom-size"))
                break
    return fails
