"""Entry point of every check:  run.py <Cxx> [--tier quick|thorough] [--replay FILE]

1. build the property's Lean module, audit the axioms of every theorem in it, grep for escapes;
2. corpus + generated cases: run them on the real implementation (in-process) and on the model
   driver, diff the streams (correspondence), evaluate the property's implementation-level oracle
   on every case (failing-input search);
3. verdict, evidence, exit code (see DESIGN.md §6).
"""
from __future__ import annotations

import argparse
import importlib
import json
import os
import random
import subprocess
import sys
import time
import traceback
from pathlib import Path

sys.path.insert(0, str(Path(__file__).resolve().parent))

import core  # noqa: E402
from core import Case, Failure, Stats, Infra  # noqa: E402


def load_prop(prop: str):
    return importlib.import_module(f"props.{prop.lower()}")


def exec_cases(mod, cases: list[Case]) -> None:
    """Fill impl_out / model_out of every case (model run batched in one driver process)."""
    import impl as implmod
    track = getattr(mod, "TRACK_GLOBALS", False)
    for c in cases:
        im = implmod.Impl()
        c.impl_out = []
        ml = []
        before = implmod.global_fingerprint() if track else None
        for line in c.lines:
            ml.append(im.model_line(line) if hasattr(im, "model_line") else line)
            c.impl_out.append(im.run(line))
        if track and implmod.global_fingerprint() != before:
            c.meta["global_changed"] = True          # this case changed a module/class-level table of the code
            implmod.global_restore()                  # the next case starts from the tables the code ships with
        if c.model_lines is None:
            c.model_lines = ml
    all_lines: list[str] = []
    for c in cases:
        all_lines.extend(c.model_lines)
    outs = core.run_model(all_lines)
    k = 0
    for c in cases:
        n = len(c.model_lines)
        c.model_out = [implmod.render_float_markers(x) for x in outs[k:k + n]]
        k += n


def compare(mod, c: Case):
    """Index of the first diverging (compared) line, or None."""
    mask = getattr(mod, "compare_line", None)
    canon = getattr(mod, "canon", lambda s: s)
    for i, (a, b) in enumerate(zip(c.impl_out, c.model_out)):
        if mask is not None and not mask(c, i):
            continue
        if canon(a) != canon(b):
            return i
    return None


def safe_oracle(mod, c: Case):
    """The property oracle; an exception escaping the real code inside it is itself a failing observation."""
    try:
        return mod.oracle(c)
    except Exception as e:
        import traceback as tb
        where = tb.extract_tb(e.__traceback__)[-1]
        return [Failure("oracle", getattr(mod, "PROP", "?"),
                        f"the implementation raised {type(e).__name__}: {e} (at {where.filename}:{where.lineno}) while the oracle drove it",
                        f"oracle-exception:{type(e).__name__}")]


def shrink(mod, c: Case, pred) -> Case:
    """Greedy line removal while `pred(case)` still holds (bounded effort)."""
    lines = list(c.lines)
    budget = 0 if os.environ.get("VERIF_NOSHRINK") else 400
    changed = True
    while changed and budget > 0:
        changed = False
        i = len(lines) - 1
        while i >= 1 and budget > 0:
            cand = lines[:i] + lines[i + 1:]
            budget -= 1
            cc = Case(c.suite, cand, None, {k: v for k, v in c.meta.items() if k != "global_changed"})
            try:
                exec_cases(mod, [cc])
                if pred(cc):
                    lines = cand
                    changed = True
            except Exception:
                pass
            i -= 1
    out = Case(c.suite, lines, None, dict(c.meta))
    keep = out.meta.get("global_changed")
    exec_cases(mod, [out])
    if keep:
        out.meta["global_changed"] = True       # process-wide state cannot change twice in one process; a fresh replay recomputes it
    return out


def corpus_cases(prop: str) -> list[Case]:
    d = core.CORPUS / prop
    out = []
    if d.is_dir():
        for p in sorted(d.glob("*.json")):
            j = json.loads(p.read_text())
            out.append(Case(j.get("suite", "corpus"), j["lines"], None, dict(j.get("meta", {}), corpus=p.name)))
    return out


def first_diff_plain(c: Case):
    for i, (a, b) in enumerate(zip(c.impl_out, c.model_out)):
        if a != b:
            return i
    return None


def known_match(prop: str, f: Failure, known: dict):
    for k in known.get("known", []):
        if k["property"] == prop and k["signature"] == f.signature:
            return k
    return None


def replay(prop: str, path: str) -> int:
    mod = load_prop(prop)
    core.build_driver()
    j = json.loads(Path(path).read_text())
    cj = j["case"] if "case" in j and j["case"] else j
    if not cj or "lines" not in cj:
        print(json.dumps(j, indent=1))
        print("replay: this file names a proof obligation or correspondence, there is no input to run")
        return 0
    c = Case(cj.get("suite", "replay"), cj["lines"], None, {k: v for k, v in cj.get("meta", {}).items() if k != "global_changed"})
    exec_cases(mod, [c])
    d = compare(mod, c)
    fails = safe_oracle(mod, c)
    for i, l in enumerate(c.lines):
        mark = "  <-- model differs: " + c.model_out[i] if d == i else ""
        print(f"{l}\n   impl: {c.impl_out[i]}{mark}")
    for f in fails:
        print(f"PROPERTY FAILS on the implementation: {f.what}  [{f.signature}]")
    return 1 if fails or d is not None else 0


def main() -> int:
    ap = argparse.ArgumentParser()
    ap.add_argument("prop")
    ap.add_argument("--tier", default=os.environ.get("VERIF_TIER", "quick"))
    ap.add_argument("--replay")
    a = ap.parse_args()
    prop = a.prop.upper()
    tier = a.tier if a.tier in ("quick", "thorough") else "quick"
    if a.replay:
        return replay(prop, a.replay)
    seed = core.seed_from_env()
    t0 = time.time()
    mod = load_prop(prop)
    rng = random.Random((seed, prop, tier).__repr__())
    stats = Stats()
    known = core.load_known()

    rep = core.prove(prop, tier)
    core.build_driver()

    oracle_fail: list[Failure] = []
    corr_fail: list[Failure] = []
    known_hits: dict = {}

    def process(cases: list[Case], count: bool = True) -> None:
        exec_cases(mod, cases)
        for c in cases:
            if count:
                stats.evaluations += 1
                stats.traces += 1
                key = mod.nontrivial(c) if hasattr(mod, "nontrivial") else "\n".join(c.lines)
                if key is not None:
                    stats.distinct.add(hash(key))
                if len(stats.samples) < 6 and key is not None and (stats.evaluations % 37 == 1 or len(stats.samples) < 2):
                    stats.samples.append({"suite": c.suite, "lines": c.lines[:12], "impl_out": c.impl_out[:12]})
                if hasattr(mod, "measure"):
                    mod.measure(c, stats)
            d = compare(mod, c)
            if d is not None:
                corr_fail.append(Failure("correspondence", prop,
                                         f"model and implementation differ at op {d} of a {c.suite} case: "
                                         f"`{c.lines[d]}` impl=`{c.impl_out[d][:300]}` model=`{c.model_out[d][:300]}`",
                                         "correspondence:" + c.suite, c, {"op": d}))
            for f in safe_oracle(mod, c):
                k = known_match(prop, f, known)
                if k is not None:
                    known_hits.setdefault(k["signature"], k)
                else:
                    f.case = c
                    oracle_fail.append(f)

    batch: list[Case] = []
    # constant tables of the models vs the tables of the code, compared exhaustively on every run
    static = Case("static-tables", [f"consts {w}" for w in getattr(mod, "CONSTS", ["ops", "ctl", "asm", "toy", "mem"])], None, {"kind": "static"})
    exec_cases(mod, [static])
    d = compare(mod, static) if not hasattr(mod, "compare_line") else first_diff_plain(static)
    if d is not None:
        corr_fail.append(Failure("correspondence", prop, f"constant table `{static.lines[d]}` of the model differs from the code: impl=`{static.impl_out[d][:400]}` model=`{static.model_out[d][:400]}`",
                                 "correspondence:static-tables", static, {"op": d}))
    stats.bump("static_tables", len(static.lines))
    cc = corpus_cases(prop)
    if cc:
        process(cc)
        stats.bump("corpus_cases", len(cc))
    for c in mod.cases(rng, tier):
        batch.append(c)
        if len(batch) >= 400:
            process(batch)
            batch = []
        if len(oracle_fail) >= 5:
            break
    if batch:
        process(batch)

    searched_extra = 0
    if (not rep.ok or corr_fail) and not oracle_fail:
        # failing-input search with an extra budget, oracle-driven (DESIGN.md §6 step 4)
        rng2 = random.Random((seed, prop, "search").__repr__())
        gen = getattr(mod, "search_cases", None) or (lambda r, t: mod.cases(r, "thorough"))
        batch = []
        tend = time.time() + (240 if tier == "quick" else 1200)
        for c in gen(rng2, tier):
            batch.append(c)
            searched_extra += 1
            if len(batch) >= 400:
                process(batch, count=False)
                batch = []
                if oracle_fail or time.time() > tend:
                    break
        if batch and not oracle_fail:
            process(batch, count=False)

    for k in known_hits.values():
        print(f"KNOWN-FINDING: property={prop} {k['what']}")

    violations = 0
    rc = 0
    if oracle_fail:
        f = oracle_fail[0]
        try:
            small = shrink(mod, f.case, lambda cc_: any(x.signature == f.signature for x in safe_oracle(mod, cc_)))
        except Exception:
            small = f.case
        fs = [x for x in safe_oracle(mod, small) if x.signature == f.signature] or [f]
        path = core.write_replay(prop, {
            "property": prop, "kind": "failing-input", "what": fs[0].what, "signature": f.signature,
            "case": small.to_json(), "impl_out": small.impl_out, "model_out": small.model_out,
            "proof_ok": rep.ok, "correspondence_breaks": len(corr_fail),
            "replay_cmd": f"cd /verif && ./check {prop} --replay <this file>",
        })
        print(f"VIOLATION property={prop} replay={path}")
        violations = len(oracle_fail)
        rc = 1
    elif not rep.ok or corr_fail:
        what = []
        if not rep.built:
            what.append(f"Lean module {rep.module} no longer builds")
        for t, ax in rep.dirty.items():
            what.append(f"theorem {t}: {ax}")
        for g in rep.forbidden:
            what.append(f"forbidden construct: {g}")
        if rep.built and len(rep.theorems) == 0:
            what.append("no theorem registered")
        if rep.leanchecker is False:
            what.append("leanchecker rejects the compiled module")
        case = None
        if corr_fail:
            f = corr_fail[0]
            try:
                small = shrink(mod, f.case, lambda cc_: compare(mod, cc_) is not None)
            except Exception:
                small = f.case
            d = compare(mod, small)
            what.append(f"correspondence `{small.suite}` no longer checks: first diverging op {d}: "
                        f"`{small.lines[d] if d is not None else ''}`")
            case = dict(small.to_json(), impl_out=small.impl_out, model_out=small.model_out, first_diverging_op=d)
        path = core.write_replay(prop, {
            "property": prop, "kind": "no-failing-input-found",
            "what": what, "build_log_tail": rep.log[-3000:] if not rep.ok else "",
            "correspondence_breaks": len(corr_fail), "extra_cases_searched": searched_extra,
            "case": case,
        })
        print(f"VIOLATION property={prop} replay={path} no-failing-input-found")
        violations = 1
        rc = 1

    extra = {"rule": getattr(mod, "RULE", ""), "known_findings_hit": sorted(known_hits),
             "correspondence_breaks": len(corr_fail), "proof_report": {
                 "built": rep.built, "dirty": rep.dirty, "forbidden": rep.forbidden, "leanchecker": rep.leanchecker}}
    if hasattr(mod, "extra_evidence"):
        extra.update(mod.extra_evidence())
    core.write_evidence(prop, tier, seed, rep, stats, time.time() - t0, violations,
                        getattr(mod, "ASSUMPTIONS", []), extra)
    if rc == 0:
        print(f"OK property={prop} tier={tier} theorems={len(rep.clean)}/{len(rep.theorems)} "
              f"cases={stats.evaluations} distinct={len(stats.distinct)} wall={time.time() - t0:.1f}s")
    return rc


if __name__ == "__main__":
    try:
        sys.exit(main())
    except Infra as e:
        print(f"INFRASTRUCTURE ERROR: {e}", file=sys.stderr)
        sys.exit(2)
    except subprocess.TimeoutExpired as e:  # type: ignore[name-defined]
        print(f"TIMEOUT: {e}", file=sys.stderr)
        sys.exit(2)
    except Exception:
        traceback.print_exc()
        sys.exit(2)
