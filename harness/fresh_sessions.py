"""Run sessions (lists of protocol lines) one after the other in THIS fresh interpreter and print, per session, the
answers to the non-inspection lines, the result of every inspection line and the complete inspection views at the end.
Used by the C16 oracle to show the observable effect of a process-wide table changed by an inspection call:
`python fresh_sessions.py < sessions.json`."""
import json, sys
import impl as implmod


def record(lines):
    """(answers of the non-inspection lines, [result of each inspection line], final views)"""
    im = implmod.Impl()
    ans, insp = [], []
    toy = bool(lines) and lines[0].startswith("toy")
    for l in lines:
        if ".insp" in l:
            mask = int(l.split()[1])
            try:
                insp.append(im.toy_views(mask) if toy else im.sim_views(mask))
            except Exception as e:  # noqa
                insp.append([("raises", type(e).__name__)])
        else:
            ans.append(im.run(l))
    try:
        views = im.toy_views(63) if toy else (im.sim_views((1 << 13) - 1) if im.sim is not None else [])
    except Exception as e:  # noqa
        views = [("views-raise", type(e).__name__)]
    return {"answers": ans, "insp": [[list(x) for x in v] for v in insp], "views": [list(x) for x in views]}


def main():
    json.dump([record(lines) for lines in json.load(sys.stdin)], sys.stdout)


if __name__ == "__main__":
    main()
