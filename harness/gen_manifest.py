"""Regenerates /verif/MANIFEST.json from the table below (run by hand after editing)."""
import json, sys
from pathlib import Path

V = Path(__file__).resolve().parent.parent

# property -> (technique, level text, level note, design ref)
CLAIMED = {}
NOT_YET = {}

def claim(pid, technique, text, note, ref):
    CLAIMED[pid] = (technique, text, note, ref)

exec((V / "harness" / "manifest_table.py").read_text())

# keep the umbrella import file current
pd = V / "lean" / "ArchSim" / "Props"
(V / "lean" / "ArchSim" / "AllProps.lean").write_text("".join(f"import ArchSim.Props.{p.stem}\n" for p in sorted(pd.glob("*.lean"))))
props = [json.loads(l)["id"] for l in (V / "properties.jsonl").read_text().splitlines() if l.strip()]
checks = []
for pid in props:
    if pid in CLAIMED:
        technique, text, note, ref = CLAIMED[pid]
        checks.append({
            "property_id": pid,
            "quick_cmd": f"./check {pid} --tier quick",
            "thorough_cmd": f"./check {pid} --tier thorough",
            "evidence_file": f"evidence/{pid}.json",
            "replay_cmd_template": f"./check {pid} --replay {{path}}",
            "engine": "lean4-proof+correspondence",
            "level_claimed": {"category": "proof", "text": text, "design_ref": ref},
            "level_note": note,
            "technique": technique,
        })
na = [{"property_id": pid, "reason": NOT_YET.get(pid, "check not built yet in this session (work in progress); nothing is claimed for it")}
      for pid in props if pid not in CLAIMED]
m = {
    "version": 1,
    "setup_cmd": "cd /verif/lean && lake build ArchSim archsim-model ArchSim.AllProps",
    "hooks": {
        "guard": "ARCHSIM_VERIF",
        "enable": "no hook is needed: the checks observe /repo's classes by attribute access from /venv/bin/python (editable install of /repo's working tree); ./check exports ARCHSIM_VERIF=1 for completeness",
        "baseline_off_cmd": "cd /repo && /venv/bin/python -m pytest -ra -q -p no:cacheprovider --timeout=900 --continue-on-collection-errors",
        "source_commits": [],
        "add_only": True,
    },
    "engines": [{
        "name": "lean4-proof+correspondence",
        "path": "lean/ (models, specs, lemmas, property theorems, driver) + harness/ (correspondence check, failing-input search)",
        "serves_properties": sorted(CLAIMED),
        "kind_free_text": "machine-checked proof in Lean 4 about hand-written executable models; models tied to /repo on every run by a differential correspondence check through a line protocol",
    }],
    "checks": checks,
    "not_applicable": na,
    "notes": "See DESIGN.md. Exit codes: 0 held, 1 VIOLATION, 2 infrastructure trouble.",
}
(V / "MANIFEST.json").write_text(json.dumps(m, indent=1) + "\n")
print(f"claimed {len(checks)}, not claimed {len(na)}")
