"""Reference accounting for a WHOLE SIMULATION built from cache options: the real simulation is run with spies on its data
memory system and its instruction memory system; the logged addresses are fed to tag-only reference caches built from the
CONFIGURED geometry (the numbers in the case's `sim.new` line, not whatever the simulation made of them). Returns the
simulation's own counters next to the reference's, and the cycle count the documented rule gives:
    cycles = steps + data penalty x reference data misses + instruction penalty x reference instruction misses."""
from __future__ import annotations
import impl as implmod
import tagref


def run(c, limit=3000):
    if c.meta.get("long"):
        limit = max(limit, 30000)
    new = next((l for l in c.lines if l.startswith("sim.new")), None)
    if new is None:
        return None
    _, mode, hz, dspec, ispec = new.split()
    if dspec == "-" and ispec == "-":
        return None
    im = implmod.Impl()
    im.run(new)
    for l in c.lines:
        if l.split()[0] in ("sim.prog", "sim.load", "sim.reg", "sim.poke", "sim.pc"):
            im.run(l)
    sim = im.sim
    dref = iref = None
    dpen = ipen = 0
    dlog, ilog = [], []
    ms, ims = sim.state.memory, sim.state.instruction_memory
    if dspec != "-":
        ty, pol, ib, bb, assoc, pen = dspec.split(",")
        dref, dpen = tagref.RefCache(int(ib), int(bb), int(assoc), pol, ty == "wt"), int(pen)
        for name in ("read_byte", "read_halfword", "read_word"):
            orig = getattr(ms, name)

            def rspy(address, update_statistics=True, _o=orig):
                dlog.append(("r", int(address), bool(update_statistics)))
                return _o(address, update_statistics)
            setattr(ms, name, rspy)
        for name in ("write_byte", "write_halfword", "write_word"):
            orig = getattr(ms, name)

            def wspy(address, value, directly_write_to_lower_memory=False, _o=orig):
                if not directly_write_to_lower_memory:
                    dlog.append(("w", int(address), True))
                return _o(address, value, directly_write_to_lower_memory)
            setattr(ms, name, wspy)
    if ispec != "-":
        pol, ib, bb, assoc, pen = ispec.split(",")
        iref, ipen = tagref.RefCache(int(ib), int(bb), int(assoc), pol), int(pen)
        orig_i = ims.read_instruction

        def ispy(address, _o=orig_i):
            ilog.append(int(address))
            return _o(address)
        ims.read_instruction = ispy
    steps = 0
    fault = None
    cyc0 = sim.state.performance_metrics.cycles
    try:
        while not sim.is_done() and steps < limit:
            sim.step()
            steps += 1
    except Exception as e:  # the fault of the program: accounting up to here is still claimed for the completed accesses
        fault = type(e).__name__
    if steps >= limit:
        return None
    for kind, a, counted in dlog:
        if kind == "r":
            dref.read(a, counted)
        else:
            dref.write(a)
    for a in ilog:
        iref.read(a, True)
    out = {"mode": mode, "steps": steps, "fault": fault, "cycles": sim.state.performance_metrics.cycles - cyc0}
    if dref is not None:
        out["d_real"] = (int(ms.hits), int(ms.accesses))
        out["d_ref"] = (dref.hits, dref.accesses)
    if iref is not None:
        out["i_real"] = (int(ims.hits), int(ims.accesses))
        out["i_ref"] = (iref.hits, iref.accesses)
    try:
        st_d = sim.get_data_cache_stats() if dref is not None else None
        st_i = sim.get_instruction_cache_stats() if iref is not None else None
        out["d_reported"] = None if st_d is None else (str(st_d.get("hits")), str(st_d.get("accesses")))
        out["i_reported"] = None if st_i is None else (str(st_i.get("hits")), str(st_i.get("accesses")))
    except Exception as e:  # noqa
        out["d_reported"] = out["i_reported"] = ("raises", type(e).__name__)
    out["cycles_ref"] = steps + dpen * (dref.misses if dref else 0) + ipen * (iref.misses if iref else 0)
    return out
