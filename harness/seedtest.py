"""Run the registered quick checks against every seeded change under /verif/seeded/<id>/ (patch applied to /repo,
checks run, patch reverted straight afterwards). Usage: seedtest.py [id ...]  — prints one line per (seed, property)."""
import json, re, subprocess, sys, time
from pathlib import Path

V = Path(__file__).resolve().parent.parent
R = Path("/repo")


def sh(cmd, **kw):
    return subprocess.run(cmd, shell=True, capture_output=True, text=True, **kw)


def main():
    import os, tempfile, shutil
    scratch = tempfile.mkdtemp(prefix="seedtest_evidence_")
    os.environ["VERIF_EVIDENCE_DIR"] = scratch          # checks run against a changed tree must not rewrite /verif/evidence
    try:
        _main()
    finally:
        shutil.rmtree(scratch, ignore_errors=True)


def _main():
    ids = sys.argv[1:] or sorted(p.name for p in (V / "seeded").iterdir() if (p / "patch.diff").exists())
    assert sh("git -C /repo status --porcelain").stdout.strip() == "", "/repo is not clean"
    for i in ids:
        d = V / "seeded" / i
        meta = json.loads((d / "meta.json").read_text())
        props = meta.get("run_checks") or [meta["property"]]
        a = sh(f"git -C /repo apply {d / 'patch.diff'}")
        if a.returncode != 0:
            print(f"{i}: patch does not apply: {a.stderr.strip()[:200]}")
            continue
        try:
            for p in props:
                t0 = time.time()
                r = sh(f"./check {p} --tier quick", cwd=V, timeout=1800)
                line = next((l for l in r.stdout.splitlines() if l.startswith("VIOLATION")), r.stdout.strip().splitlines()[-1] if r.stdout.strip() else r.stderr.strip()[-200:])
                sig = ""
                m = re.search(r"replay=(\S+)", line)
                if m and Path(V / m.group(1)).exists() or (m and Path(m.group(1)).exists()):
                    rp = Path(m.group(1)) if Path(m.group(1)).exists() else V / m.group(1)
                    try:
                        d = json.loads(rp.read_text())
                        sig = f"  [{d.get('kind')}: {d.get('signature')}]"
                    except Exception:
                        pass
                print(f"{i}: check {p} rc={r.returncode} {time.time() - t0:.0f}s  {line[:200]}{sig}", flush=True)
        finally:
            sh("git -C /repo checkout -- .")
    assert sh("git -C /repo status --porcelain").stdout.strip() == "", "/repo left dirty"


if __name__ == "__main__":
    main()
