"""Independent reference of the *documented* five-stage pipeline, written from the help page / property text:
one fetch per cycle, no forwarding, registers written before they are read within a cycle, a decode interlock that
inserts two bubbles when a source register is written by one of the two instructions ahead (optional), control
transfers resolved in the memory stage with fetch redirected in the next cycle, ecall held in execute for two cycles
when an older instruction still sits in the memory or write-back slot, exiting ecalls squash younger instructions.
Used ONLY by implementation-level oracles (C07 retire times, C08 interlock-free behaviour)."""
from __future__ import annotations
import rvref
from rvref import classify, Fault, M32, DATA

SRC2 = set(rvgen_ops := ["add", "sub", "sll", "slt", "sltu", "xor", "srl", "sra", "or", "and", "mul", "mulh", "mulhu", "mulhsu", "div", "divu", "rem", "remu",
                         "sb", "sh", "sw", "beq", "bne", "blt", "bge", "bltu", "bgeu"])
NO_SRC1 = {"lui", "auipc", "jal"}
NO_DST = {"sb", "sh", "sw", "beq", "bne", "blt", "bge", "bltu", "bgeu"}


def srcs(ins):
    op, rd, rs1, rs2, imm = ins
    s = []
    if op not in NO_SRC1:
        s.append(0 if op == "ecall" else rs1)
    if op in SRC2:
        s.append(rs2)
    return s


def dst(ins):
    op, rd, rs1, rs2, imm = ins
    if op in NO_DST:
        return None
    return 0 if op == "ecall" else rd


class Tok:
    def __init__(self, addr, ins):
        self.addr, self.ins = addr, ins
        self.a = self.b = 0
        self.k = None            # classification computed in EX
        self.val = None          # value to write back
        self.redirect = None     # new pc decided in MEM
        self.exit = None         # exit code of an executed exiting ecall
        self.done_ecall = False


class PipeRef:
    def __init__(self, prog, regs, mem, hazard=True):
        self.core = rvref.Ref(prog, regs, mem)      # registers, memory, output, exit code, ecall service
        self.hazard = hazard
        self.s = [None, None, None, None]           # IF/ID, ID/EX, EX/MEM, MEM/WB
        self.hold = None                            # ("id" | "ex", cycles left)
        self.fpc = 0
        self.cycle = 0
        self.retired = []                           # (cycle, address)
        self.id_stalls = 0

    def done(self):
        return self.core.exit is not None or (all(t is None for t in self.s) and self.core.instr_at(self.fpc) is None)

    def decode(self, t):
        if t is not None:
            op, rd, rs1, rs2, imm = t.ins
            t.a, t.b = self.core.x[rs1], self.core.x[rs2]
        return t

    def conflicts(self, t):
        if t is None:
            return False
        for older in (self.s[1], self.s[2]):
            if older is None:
                continue
            d = dst(older.ins)
            if d and d in srcs(t.ins):
                return True
        return False

    def execute(self, t):
        op, rd, rs1, rs2, imm = t.ins
        t.k = classify(op, t.a, t.b, imm, t.addr)
        if t.k[0] == "unsupported":
            raise Fault(("unsupported", op))

    def run_ecall(self, t):
        if t.done_ecall:
            return
        try:
            self.core.ecall_exit = None
            before = self.core.exit
            self.core.ecall()
        except Fault as f:
            f.addr = t.addr
            raise
        t.done_ecall = True
        if self.core.exit is not None:
            t.exit, self.core.exit = self.core.exit, None      # the exit code becomes architectural in WB

    def memory(self, t):
        k = t.k
        try:
            if k[0] == "reg":
                t.val = k[1]
            elif k[0] == "load":
                _, n, signed, ad = k
                v = self.core.load(ad, n)
                if signed and v >> (8 * n - 1):
                    v -= 1 << (8 * n)
                t.val = v & M32
            elif k[0] == "store":
                self.core.store(k[2], k[1], k[3])
            elif k[0] == "branch":
                if k[1]:
                    t.redirect = k[2]
                    self.core.branches += 1
            elif k[0] == "jump":
                t.val = k[2]
                t.redirect = k[1]
                if t.ins[0] == "jal":
                    self.core.procs += 1
            elif k[0] == "ecall":
                t.val = 0
                if t.exit is not None:
                    t.redirect = (t.addr + 4) & M32
        except Fault as f:
            f.addr = t.addr
            raise

    def fetch(self):
        ins = self.core.instr_at(self.fpc)
        if ins is None:
            return None
        t = Tok(self.fpc, ins)
        self.fpc += 4
        return t

    def step(self):
        self.cycle += 1
        s0, s1, s2, s3 = self.s
        # write-back first: registers are written before they are read in this cycle
        wb_flush = False
        if s3 is not None:
            self.retired.append((self.cycle, s3.addr))
            self.core.instrs += 1
            d = dst(s3.ins)
            if d is not None and s3.val is not None:
                self.core.setx(d, s3.val)
            if s3.exit is not None:
                self.core.exit = s3.exit
                wb_flush = True
        new_hold = None
        if self.hold is None:
            n0 = self.fetch()
            n1 = self.decode(s0)
            want_id = self.hazard and self.conflicts(s0)
            n2 = s1
            if s1 is not None:
                self.execute(s1)
                if s1.ins[0] == "ecall":
                    if s2 is not None or s3 is not None:
                        new_hold = ("ex", 2)
                    else:
                        self.run_ecall(s1)
            if new_hold is None and want_id:
                new_hold = ("id", 2)
                self.id_stalls += 1
            n3 = s2
            if s2 is not None:
                self.memory(s2)
        elif self.hold[0] == "id":
            n0 = s0
            n1 = self.decode(s1)          # the held instruction re-reads its sources
            n2 = None
            n3 = s2
            if s2 is not None:
                self.memory(s2)
        else:
            n0 = s0
            n1 = self.decode(s1)
            n2 = s2                        # the waiting ecall
            if self.hold[1] == 1 and s2 is not None:
                self.run_ecall(s2)
            n3 = None
        # hold bookkeeping
        if new_hold is not None:
            self.hold = new_hold
        elif self.hold is not None:
            self.hold = (self.hold[0], self.hold[1] - 1)
            if self.hold[1] == 0:
                self.hold = None
        # squashing
        if wb_flush:
            n0 = n1 = n2 = n3 = None
            self.fpc = (s3.addr + 4) & M32
            self.hold = None
        elif n3 is not None and n3.redirect is not None:
            n0 = n1 = n2 = None
            self.fpc = n3.redirect
            self.hold = None
        elif n2 is not None and n2.exit is not None and n2.done_ecall and n2 is not n3:
            n0 = n1 = None
            self.fpc = (n2.addr + 4) & M32
            if self.hold is not None and self.hold[0] == "id":
                self.hold = None
        self.s = [n0, n1, n2, n3]
