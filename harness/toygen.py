"""Generators for TOY cases (shared by C06, C13, C19, C20)."""
from __future__ import annotations
from core import Case


def rand_word(rng, nprog):
    """A 16-bit word that is mostly a sensible instruction touching the program or a small data area."""
    r = rng.random()
    if r < 0.1:
        return rng.randrange(65536)
    op = rng.choice([0, 0, 1, 1, 2, 2, 3, 4, 5, 6, 7, 8, 9, 10, 11, 12, 13, 14, 15])
    if op == 2:
        # branch targets: inside / just past the program, and the ends of the address space (pc wrap at 0xFFF)
        addr = rng.choice([rng.randrange(max(1, nprog + 2)), rng.randrange(max(1, nprog + 2)), 4095, 4094, 0, nprog])
    elif rng.random() < 0.35:
        addr = rng.randrange(max(1, nprog))          # program area: self-modification / reading code
    else:
        addr = rng.choice([4095, 4094, 4000, 2048, 100, 101, rng.randrange(4096)])
    return (op << 12) | addr


def image_case(rng, calls, max_steps=60, suite="toy"):
    n = rng.choice([0, 1, 2, 3, 5, 8, 13, 20])
    words = [rand_word(rng, n) for _ in range(n)]
    data = {}
    for _ in range(rng.choice([0, 1, 3, 6])):
        data[rng.choice([4095, 4094, 4000, 2048, 100, 101, rng.randrange(n, 4096) if n < 4096 else 4095])] = rng.choice(
            [0, 1, 0xFFFF, 0x8000, rng.randrange(65536), rand_word(rng, n)])
    lines = ["toy.new", "toy.load " + " ".join([str(n)] + [str(w) for w in words] + [f"{a}:{v}" for a, v in sorted(data.items())])]
    if rng.random() < 0.5:
        lines.append(f"toy.accu {rng.choice([0, 1, 0xFFFF, 0x8000, rng.randrange(65536)])}")
    lines.append("toy.snap")
    for _ in range(max_steps):
        c = calls(rng)
        lines.append(f"toy.call {c}")
        lines.append("toy.snap")
    return Case(suite, lines, None, {"n": n, "words": words})


def step_only(rng):
    return "step"


def mixed_calls(rng):
    return rng.choice(["step", "first", "second", "single", "single", "first", "second"])


def branchy_words(rng):
    """A terminating program of forward branches, taken and not taken in turn: blocks `ZRO|INC|DEC|LDA d|NOP ; BRZ fwd`."""
    nblocks = rng.choice([2, 3, 4, 6])
    words = []
    total = 2 * nblocks + rng.choice([0, 1, 2])
    for b in range(nblocks):
        pre = rng.choice([0xB000, 0xB000, 0x9000, 0x9000, 0xA000, 0x1000 | 100, 0x1000 | 101, 0xC000, 0x8000])  # ZRO INC DEC LDA NOP NOT
        words.append(pre)
        tgt = rng.randrange(len(words) + 1, total + 1)
        words.append(0x2000 | tgt)
    while len(words) < total:
        words.append(rng.choice([0xC000, 0x9000, 0xB000]))
    return words


def branchy_case(rng, calls, suite="toy-branchy"):
    words = branchy_words(rng)
    n = len(words)
    data = {100: rng.choice([0, 0, 1, 0xFFFF]), 101: rng.choice([0, 5])}
    lines = ["toy.new", "toy.load " + " ".join([str(n)] + [str(w) for w in words] + [f"{a}:{v}" for a, v in sorted(data.items())])]
    if rng.random() < 0.5:
        lines.append(f"toy.accu {rng.choice([0, 1, 0xFFFF])}")
    lines.append("toy.snap")
    for _ in range(4 * n + 4):
        lines.append(f"toy.call {calls(rng)}")
        lines.append("toy.snap")
    return Case(suite, lines, None, {"n": n, "words": words})


TOY_MNEMONICS = ["STO", "LDA", "BRZ", "ADD", "SUB", "OR", "AND", "XOR", "NOT", "INC", "DEC", "ZRO", "NOP"]


def as_text_case(c):
    """The same image LOADED FROM TEXT through `ToySimulation.load_program` (the path the front end takes) where the image
    can be written as a program: every word an instruction with opcode <= 12, data outside the program. The data words are
    poked in afterwards (the TOY assembler lays data out from the top of memory, an image may have them anywhere)."""
    import toyasmgen
    out = []
    for l in c.lines:
        if l.startswith("toy.load "):
            t = l.split()[1:]
            n = int(t[0])
            words = [int(x) for x in t[1:1 + n]]
            data = [tuple(int(y) for y in x.split(":")) for x in t[1 + n:]]
            if n == 0 or any((w >> 12) > 12 for w in words) or any(a < n for a, _ in data):
                return c
            text = "\n".join(TOY_MNEMONICS[w >> 12] + (f" 0x{w & 0xFFF:03X}" if (w >> 12) <= 7 else "") for w in words)
            out.append("toy.asm " + toyasmgen.hx(text))
            out += [f"toy.poke {a} {v}" for a, v in data]
        else:
            out.append(l)
    c.lines = out
    c.meta = dict(c.meta, from_text=True)
    return c
