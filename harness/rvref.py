"""Independent RV32IM reference interpreter written from the unprivileged specification and the help page's
ecall table. Used ONLY by implementation-level oracles (failing-input search); never stands in for a theorem."""
from __future__ import annotations
import struct
from core import Failure
import rvgen

M32 = 0xFFFFFFFF
DATA = 2**14


def s32(x):
    x &= M32
    return x - (1 << 32) if x >> 31 else x


class Halt(Exception):
    pass


class Fault(Exception):
    def __init__(self, kind):
        self.kind = kind


class Ref:
    def __init__(self, prog, regs, mem):
        self.prog = prog                  # list of (op, rd, rs1, rs2, imm)
        self.x = [0] * 32
        for r, v in regs.items():
            if 0 < r < 32:
                self.x[r] = v & M32
        self.mem = dict(mem)              # byte address -> byte
        self.pc = 0
        self.out = ""
        self.exit = None
        self.instrs = 0
        self.branches = 0
        self.procs = 0
        self.memops = []                  # (kind, width, address) of every executed load/store
        self.retired = []

    def instr_at(self, pc):
        if 0 <= pc < 4 * len(self.prog) and pc % 4 == 0:
            return self.prog[pc // 4]
        return None

    def halted(self):
        return self.exit is not None or self.instr_at(self.pc) is None

    def load(self, a, n):
        v = 0
        for i in range(n):
            b = (a + i) & M32
            if b < DATA:
                raise Fault(("addr", b))
            v |= self.mem.get(b, 0) << (8 * i)
        return v

    def store(self, a, n, v):
        for i in range(n):
            b = (a + i) & M32
            if b < DATA:
                raise Fault(("addr", b))
            self.mem[b] = (v >> (8 * i)) & 0xFF

    def setx(self, rd, v):
        if rd != 0:
            self.x[rd] = v & M32

    def step(self):
        """Execute one instruction; raises Fault (state before the instruction is kept except for completed effects)."""
        op, rd, rs1, rs2, imm = self.instr_at(self.pc)
        a, b = self.x[rs1], self.x[rs2]
        npc = (self.pc + 4) & M32
        k = classify(op, a, b, imm, self.pc)
        if k[0] == "reg":
            self.setx(rd, k[1])
        elif k[0] == "load":
            _, n, signed, ad = k
            self.memops.append(("r", n, ad))
            v = self.load(ad, n)
            if signed and v >> (8 * n - 1):
                v -= 1 << (8 * n)
            self.setx(rd, v)
        elif k[0] == "store":
            _, n, ad, v = k
            self.memops.append(("w", n, ad))
            self.store(ad, n, v)
        elif k[0] == "branch":
            if k[1]:
                npc = k[2]
                self.branches += 1
        elif k[0] == "jump":
            self.setx(rd, k[2])
            npc = k[1]
            if op == "jal":
                self.procs += 1
        elif k[0] == "ecall":
            self.ecall()
        else:
            raise Fault(("unsupported", op))
        self.retired.append(self.pc)
        self.instrs += 1
        self.pc = npc

    def ecall(self):
        code, arg = self.x[17], self.x[10]
        if code == 1: self.out += str(s32(arg))
        elif code == 2: self.out += str(struct.unpack(">f", arg.to_bytes(4, "big"))[0])
        elif code == 4:
            ad = arg
            s = ""
            while True:
                if (ad & M32) < DATA:
                    raise Fault(("addr", ad & M32))
                ch = self.mem.get(ad & M32, 0)
                if ch == 0:
                    break
                s += chr(ch % 128)
                ad += 1
            self.out += s
        elif code == 11: self.out += chr(arg % 128)
        elif code == 34: self.out += "0x%X" % arg
        elif code == 35: self.out += bin(arg)
        elif code == 36: self.out += str(arg)
        elif code == 10: self.exit = 0
        elif code == 93: self.exit = arg
        else:
            raise Fault(("ecall", code))


def classify(op, a, b, imm, pc):
    """What the instruction does, from its operand VALUES (written from the unprivileged spec):
    ('reg', value) | ('load', bytes, signed, address) | ('store', bytes, address, value) |
    ('branch', taken, target) | ('jump', target, link) | ('ecall',) | ('unsupported',)"""
    sa, sb = s32(a), s32(b)
    R = lambda v: ("reg", v & M32)
    if op == "add": return R(a + b)
    if op == "sub": return R(a - b)
    if op == "sll": return R(a << (b & 31))
    if op == "slt": return R(int(sa < sb))
    if op == "sltu": return R(int(a < b))
    if op == "xor": return R(a ^ b)
    if op == "srl": return R(a >> (b & 31))
    if op == "sra": return R(sa >> (b & 31))
    if op == "or": return R(a | b)
    if op == "and": return R(a & b)
    if op == "mul": return R(a * b)
    if op == "mulh": return R((sa * sb) >> 32)
    if op == "mulhu": return R((a * b) >> 32)
    if op == "mulhsu": return R((sa * b) >> 32)
    if op == "div":
        if b == 0: return R(M32)
        if sa == -(1 << 31) and sb == -1: return R(1 << 31)
        q = abs(sa) // abs(sb)
        return R(q if (sa < 0) == (sb < 0) else -q)
    if op == "divu": return R(M32 if b == 0 else a // b)
    if op == "rem":
        if b == 0: return R(a)
        if sa == -(1 << 31) and sb == -1: return R(0)
        r = abs(sa) % abs(sb)
        return R(r if sa >= 0 else -r)
    if op == "remu": return R(a if b == 0 else a % b)
    if op == "addi": return R(a + imm)
    if op == "slti": return R(int(sa < imm))
    if op == "sltiu": return R(int(a < (imm & M32)))
    if op == "xori": return R(a ^ (imm & M32))
    if op == "ori": return R(a | (imm & M32))
    if op == "andi": return R(a & (imm & M32))
    if op == "slli": return R(a << (imm & 31))
    if op == "srli": return R(a >> (imm & 31))
    if op == "srai": return R(sa >> (imm & 31))
    if op in ("lb", "lh", "lw", "lbu", "lhu"):
        return ("load", {"lb": 1, "lbu": 1, "lh": 2, "lhu": 2, "lw": 4}[op], op in ("lb", "lh"), (a + imm) & M32)
    if op in ("sb", "sh", "sw"):
        n = {"sb": 1, "sh": 2, "sw": 4}[op]
        return ("store", n, (a + imm) & M32, b & ((1 << (8 * n)) - 1))
    if op in ("beq", "bne", "blt", "bge", "bltu", "bgeu"):
        t = {"beq": a == b, "bne": a != b, "blt": sa < sb, "bge": sa >= sb, "bltu": a < b, "bgeu": a >= b}[op]
        return ("branch", t, (pc + imm) & M32)
    if op == "lui": return R(imm << 12)
    if op == "auipc": return R(pc + (imm << 12))
    if op == "jal": return ("jump", (pc + imm) & M32, (pc + 4) & M32)
    if op == "jalr": return ("jump", (a + imm) & M32 & ~1, (pc + 4) & M32)
    if op == "ecall": return ("ecall",)
    return ("unsupported",)


def parse_prog(toks):
    out = []
    for t in toks:
        op, rd, rs1, rs2, imm, aux = t.split(",")
        out.append((op, int(rd), int(rs1), int(rs2), int(imm)))
    return out


def mem_of_snap(d):
    m = d["mem"]
    # "flat|a:v,..." or "dc|stats|sets|a:v,..."
    body = m.split("|")[-1] if not m.startswith("flat") else m[5:]
    return {int(p.split(":")[0]): int(p.split(":")[1]) for p in body.split(",") if p}


def fault_of_line(o):
    """(address, kind tuple) of an `F …` answer."""
    t = o.split()
    i = t.index("F")
    addr = int(t[i + 1])
    rest = t[i + 3:]
    if rest[:2] == ["E", "addr"]:
        return addr, ("addr", int(rest[2]))
    if rest[:2] == ["E", "ecall"]:
        return addr, ("ecall", int(rest[2]))
    return addr, tuple(rest)


def snap_state(o):
    d = rvgen.parse_snap(o)
    return d


def compare_arch(ref: Ref, d, what, prop, fails, check_pc=True, check_counts=True):
    regs = [int(x) for x in d["regs"].split(",")]
    out = "" if d["out"] == "." else bytes.fromhex(d["out"]).decode()
    mem = {k: v for k, v in mem_of_snap(d).items() if v}
    rmem = {k: v for k, v in ref.mem.items() if v}
    ex = None if d["exit"] == "-" else int(d["exit"])
    pc = int(d["pc"])
    if regs != ref.x:
        bad = [i for i in range(32) if regs[i] != ref.x[i]]
        fails.append(Failure("oracle", prop, f"{what}: registers differ from the ISA reference at {[(i, regs[i], ref.x[i]) for i in bad][:4]}", "isa:registers"))
    elif d["mem"].startswith("flat") and mem != rmem:
        fails.append(Failure("oracle", prop, f"{what}: data memory differs from the ISA reference", "isa:memory"))
    elif out != ref.out:
        fails.append(Failure("oracle", prop, f"{what}: output {out!r} != reference {ref.out!r}", "isa:output"))
    elif ex != ref.exit:
        fails.append(Failure("oracle", prop, f"{what}: exit code {ex} != reference {ref.exit}", "isa:exit"))
    elif check_pc and pc % (1 << 32) != ref.pc:
        fails.append(Failure("oracle", prop, f"{what}: pc {pc} != reference {ref.pc}", "isa:pc"))
    elif check_pc and pc != ref.pc:
        fails.append(Failure("oracle", prop, f"{what}: pc is the unnormalised Python int {pc}; the specification's pc is {ref.pc} (0x{ref.pc:08X})", "isa:pc-not-normalised"))
    elif check_counts and (int(d["ins"]) != ref.instrs or int(d["br"]) != ref.branches or int(d["pr"]) != ref.procs):
        fails.append(Failure("oracle", prop, f"{what}: counters (instr,branch,proc)=({d['ins']},{d['br']},{d['pr']}) != reference ({ref.instrs},{ref.branches},{ref.procs})", "isa:counters"))


def ref_from_case(c, first_snap):
    d = rvgen.parse_snap(first_snap)
    regs = {i: int(v) for i, v in enumerate(d["regs"].split(","))}
    return Ref(parse_prog(prog_of_lines(c.lines)), regs, mem_of_snap(d))


def prog_of_lines(lines):
    toks = []
    for l in lines:
        if l.startswith("sim.prog"):
            toks = l.split()[1:]
    return toks


def check_single(c, prop):
    """Walk a single-cycle case: the reference executes one instruction per successful `sim.step`."""
    fails = []
    ref = None
    faulted = False
    for i, (l, o) in enumerate(zip(c.lines, c.impl_out)):
        if l == "sim.snap":
            if ref is None:
                ref = ref_from_case(c, o)
                continue
            if faulted:
                continue
            compare_arch(ref, rvgen.parse_snap(o), f"after {ref.instrs} instructions", prop, fails)
            d = rvgen.parse_snap(o)
            done_impl = None
        elif l == "sim.step" and ref is not None and not faulted:
            if ref.halted():
                if not o.startswith("ok 0"):
                    fails.append(Failure("oracle", prop, f"reference is halted (pc={ref.pc}, exit={ref.exit}) but step answered `{o}`", "isa:halting"))
                continue
            try:
                ref.step()
                if o.startswith("F") or o.startswith("X"):
                    fails.append(Failure("oracle", prop, f"step raised `{o}` where the reference executes {ref.prog[ref.retired[-1] // 4]}", "isa:spurious-fault"))
                elif o != f"ok {0 if ref.halted() else 1}":
                    fails.append(Failure("oracle", prop, f"step returned `{o}`, reference halted={ref.halted()}", "isa:halting"))
            except Fault as f:
                faulted = True
                if not o.startswith("F"):
                    fails.append(Failure("oracle", prop, f"reference faults ({f.kind}) at pc={ref.pc} but step answered `{o}`", "isa:missing-fault"))
                else:
                    addr, kind = fault_of_line(o)
                    if addr != ref.pc or (f.kind[0] in ("addr", "ecall") and kind[0] != f.kind[0]):
                        fails.append(Failure("oracle", prop, f"fault reported as `{o}`, reference faults at pc={ref.pc} with {f.kind}", "isa:fault-address"))
        elif l.startswith("sim.run") and ref is not None and not faulted:
            n = int(l.split()[1])
            k = 0
            try:
                while k < n and not ref.halted():
                    ref.step()
                    k += 1
                exp = f"ran {k} {1 if ref.halted() else 0}"
                if o != exp:
                    fails.append(Failure("oracle", prop, f"run answered `{o}`, reference `{exp}`", "isa:run"))
            except Fault as f:
                faulted = True
                if " F " not in o:
                    fails.append(Failure("oracle", prop, f"reference faults ({f.kind}) at pc={ref.pc} during run but run answered `{o}`", "isa:missing-fault"))
        if fails:
            break
    return fails
