"""C01 — single-cycle execution = ISA reference. Correspondence: `Model.Rv.singleStep` vs the real single-stage
simulation, snapshot after every step; oracle: an independent Python reference interpreter written from the spec."""
from __future__ import annotations
from core import Case, Failure
import rvgen
import rvref

PROP = "C01"
CONSTS = ['ops', 'ctl', 'mem']          # constant tables of the models this property depends on
RULE = ("single instructions on boundary x random operands for every supported mnemonic (rv1), every R-type operation and branch "
        "on the full cross product of a boundary operand set and every I-type operation on operand x immediate (rv-cross), and generated programs "
        "(hazard-complete alphabet over x0,x1,x2,x5,a0,a7 plus wide register use, loads/stores through a base register, "
        "forward/backward branches, JAL/JALR incl. wrap-around targets, every ecall code) run in single-cycle mode with a "
        "snapshot after every step; non-trivial = program executes >=2 instructions without fault or is a single-"
        "instruction boundary case; distinct = distinct (program, registers, memory)")
ASSUMPTIONS = ["fixedint 0.2.0 arithmetic", "int(a / b) on 32-bit operands = truncated division (float64 cannot round across an integer)",
               "ecall 2 float rendering not modelled (compared as an opaque event)"]


def rv1_cases(rng, tier):
    k = 2 if tier == "quick" else 12
    ops = rvgen.R_OPS + rvgen.I_OPS + rvgen.SH_OPS + rvgen.LD_OPS + rvgen.ST_OPS + rvgen.B_OPS + ["jal", "jalr", "lui", "auipc", "ecall"]
    for op in ops:
        for _ in range(k):
            for (rd, rs1, rs2) in ((5, 1, 10), (1, 1, 1), (0, 5, 5), (5, 0, 1), (10, 10, 5)):
                a, b = rng.choice(rvgen.BND32 + [rng.randrange(2**32)]), rng.choice(rvgen.BND32 + [rng.randrange(2**32)])
                imm = rng.choice(rvgen.IMM12 + [rng.randrange(-2048, 2048)])
                if op in rvgen.SH_OPS:
                    imm = rng.randrange(32)
                if op in rvgen.B_OPS:
                    imm = rng.choice([8, -8, 4094, -4096, 0, 12])
                if op == "jal":
                    imm = rng.choice([8, -8, 2**20 - 2, -(2**20), 0])
                if op in ("lui", "auipc"):
                    imm = rng.choice([0, 1, -1, 2**19 - 1, -(2**19), rng.randrange(-(2**19), 2**19)])
                regs = {1: a, 5: b, 10: rng.choice(rvgen.BND32), 17: rng.choice([1, 2, 4, 11, 34, 35, 36, 10, 93, 7])}
                if op in rvgen.LD_OPS + rvgen.ST_OPS:
                    regs[rs1] = rvgen.DATA + rng.choice([0, 4, 8, 2048, 0xFFFFBFF0])
                    imm = rng.choice([0, 1, 2, 3, 4, -4, 2047, -2048])
                    if rs1 == 0:
                        imm = rng.choice([0, 4])
                if op == "ecall" and regs[17] == 4:
                    regs[10] = rvgen.DATA + 4
                prog = [rvgen.tok(op, rd, rs1, rs2, imm, imm)]
                pokes = [(rvgen.DATA + i, rng.choice([0, 65, 0x80, 0xFF, rng.randrange(256)])) for i in range(12)]
                lines = rvgen.header("single", True, "-", "-", prog, regs, pokes) + ["sim.snap", "sim.step", "sim.snap", "sim.step", "sim.snap"]
                yield Case("rv1", lines, None, {"mode": "single", "prog": prog, "regs": regs, "pokes": pokes})


W_QUICK = [0, 1, 0xFFFFFFFF, 0x80000000, 0x7FFFFFFF, 2, 0xFFFFFFFE, 31, 32]
W_THOROUGH = W_QUICK + [0x80000001, 33, 0x40000000, 5, 0xFFFFFFFB, 0x10000, 0xFFFF, 0xC0000000, 3, 0xFFFFFFE0]


def cross_cases(rng, tier, mode="single", hazard=True):
    """every two-operand operation on the FULL cross product of a boundary operand set (independent of the seed): all
    R-type operations and all branches per operand pair, all I-type operations per (operand, immediate) pair"""
    W = W_QUICK if tier == "quick" else W_THOROUGH
    for a in W:
        for b in W:
            prog = [rvgen.tok(op, 6 + k, 1, 5) for k, op in enumerate(rvgen.R_OPS)]
            for j, op in enumerate(rvgen.B_OPS):
                prog += [rvgen.tok(op, 0, 1, 5, 8), rvgen.tok("addi", 24 + j, 0, 0, 1)]
            regs = {1: a, 5: b}
            lines = rvgen.header(mode, hazard, "-", "-", prog, regs, []) + ["sim.snap"]
            for _ in range(len(prog) if mode == "single" else 12):
                lines += ["sim.step", "sim.snap"]
            lines += ["sim.run 500", "sim.snap"]
            yield Case("rv-cross", lines, None, {"mode": mode, "hazard": hazard, "prog": prog, "regs": regs, "pokes": [], "d": "-", "i": "-"})
    imms = [0, 1, -1, 2047, -2048, 31, 32, -32]
    for a in W:
        prog = []
        for op in rvgen.I_OPS:
            for imm in imms:
                prog.append(rvgen.tok(op, 6 + len(prog) % 25, 1, 0, imm))
        for op in rvgen.SH_OPS:
            for sh in (0, 1, 15, 31):
                prog.append(rvgen.tok(op, 6 + len(prog) % 25, 1, 0, sh))
        regs = {1: a}
        lines = rvgen.header(mode, hazard, "-", "-", prog, regs, []) + ["sim.snap"]
        for _ in range(len(prog) if mode == "single" else 12):
            lines += ["sim.step", "sim.snap"]
        lines += ["sim.run 500", "sim.snap"]
        yield Case("rv-cross", lines, None, {"mode": mode, "hazard": hazard, "prog": prog, "regs": regs, "pokes": [], "d": "-", "i": "-"})


def cases(rng, tier):
    yield from rv1_cases(rng, tier)
    yield from cross_cases(rng, tier)
    n = 250 if tier == "quick" else 4000
    for i in range(n):
        c_ = rvgen.sim_case(rng, "single", opts={"wide": i % 3 == 0}, trace=25, run=300, dprob=0.0, iprob=0.0)
        yield rvgen.as_text_case(c_) if i % 4 == 3 else c_        # every fourth program goes through the loader
    for i in range(n // 2):
        yield rvgen.chain_case(rng, "single", trace=16, run=100)
    for i in range(n // 6):
        yield rvgen.ecall_case(rng, "single", trace=20, run=100)
    for prog, regs in rvgen.long_programs(rng, tier):          # thousands of steps
        yield rvgen.long_case(prog, regs, "single")
    for i in range(n // 10):
        yield rvgen.x0_dest_case(rng, "single", trace=12, run=100)


def nontrivial(c):
    return (tuple(c.meta["prog"]), tuple(sorted(c.meta["regs"].items())), tuple(c.meta["pokes"]))


def measure(c, stats):
    stats.bump("suite=" + c.suite)
    for t in c.meta["prog"]:
        stats.bump("op=" + t.split(",")[0])
    if any(o.startswith("F") or " F " in o for o in c.impl_out):
        stats.bump("faulting_programs")


def oracle(c):
    """Independent reference interpreter (written from the unprivileged spec) vs the real single-cycle simulation."""
    if c.meta.get("mode") != "single" or c.meta.get("d", "-") != "-":
        return []
    return rvref.check_single(c, PROP)
