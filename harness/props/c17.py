"""C17 — displayed values: correspondence of `Model.Fmt` with `integer_representations.py`; oracle parses
the real strings back."""
from __future__ import annotations
from core import Case, Failure

PROP = "C17"
RULE = ("formatter inputs: boundary values of widths 12/16/32 (0, +-1, 2^(n-1)+-1, 2^n+-1, negative, over-wide) plus "
        "random; thorough: all 2^12 and 2^16 values exhaustively at their widths; memory tables: random write "
        "histories, the table keys/values compared with the backing store; non-trivial = value with a set bit "
        "above bit 3; distinct = distinct (value, width)")
ASSUMPTIONS = ["str.format with 0nb / 0kX, str(int) of CPython"]


def _fmt_case(pairs):
    return Case("fmt", [f"fmt {x} {n}" for x, n in pairs], None, {"pairs": pairs})


def cases(rng, tier):
    bnd = []
    for n in (12, 16, 32, 1, 8, 5, 33):
        for x in (0, 1, -1, 2, 9, 10, 15, 16, 255, 256, 2**(n - 1) - 1, 2**(n - 1), 2**(n - 1) + 1, 2**n - 1, 2**n, 2**n + 1,
                  -(2**(n - 1)), -(2**(n - 1)) - 1, -(2**n), 2**40 + 5, -(2**40) - 7):
            bnd.append((x, n))
    yield _fmt_case(bnd)
    k = 20 if tier == "quick" else 200
    for _ in range(k):
        yield _fmt_case([(rng.randrange(-2**34, 2**34), rng.choice([12, 16, 32])) for _ in range(50)])
    if tier == "thorough":
        for n in (12, 16):
            for lo in range(0, 2**n, 2048):
                yield _fmt_case([(x, n) for x in range(lo, min(lo + 2048, 2**n))])
    # memory tables (wordwise / halfwordwise repr keys and values)
    import props.c18 as c18
    m = 60 if tier == "quick" else 800
    for _ in range(m):
        c = c18.gen_case(rng, rng.choice(["riscv", "toy"]), rng.choice([3, 10, 30]))
        kind = c.meta["kind"]
        c.lines.append(f"mem.repr {16 if kind == 'toy' else 32}")
        c.suite = "memtable"
        yield c


def nontrivial(c):
    if c.suite == "fmt":
        return tuple(p for p in map(tuple, c.meta["pairs"]) if abs(p[0]) >= 16) or None
    return "\n".join(c.lines)


def measure(c, stats):
    stats.bump("suite=" + c.suite)
    if c.suite == "fmt":
        stats.bump("fmt_values", len(c.lines))


def unhx(h):
    return "" if h == "." else bytes.fromhex(h).decode()


def oracle(c):
    fails = []
    if c.suite in ("fmt", "corpus", "replay") and c.lines and c.lines[0].startswith("fmt"):
        for l, o in zip(c.lines, c.impl_out):
            _, x, n = l.split()
            x, n = int(x), int(n)
            u = x % (2**n)
            s = u - 2**n if u >= 2**(n - 1) else u
            try:
                b, ud, h, sd = [unhx(t) for t in o.split()]
                ok = (int(b.replace(" ", ""), 2) == u and len(b.replace(" ", "")) == n and int(ud) == u
                      and int(h.replace(" ", ""), 16) == u and len(h.replace(" ", "")) == -(-n // 4) and int(sd) == s
                      and h == h.upper())
                # grouping: a space after every 8 (bin) / 2 (hex) digits counted from the right
                def grouped(st, g):
                    parts = st.split(" ")
                    return all(len(p) == g for p in parts[1:]) and 1 <= len(parts[0]) <= g
                ok = ok and grouped(b, 8) and grouped(h, 2)
            except Exception:
                ok = False
            if not ok:
                fails.append(Failure("oracle", PROP, f"get_n_bit_representations({x}, {n}) = {o!r} does not denote {u} / {s}", "fmt:denotation"))
                break
    else:
        # memory table: keys = aligned addresses of written cells, ascending, values = current word
        import props.c18 as c18
        kind = c.lines[0].split()[1]
        cell = 16 if kind == "toy" else 8
        for idx, (l, o) in enumerate(zip(c.lines, c.impl_out)):
            if not l.startswith("mem.repr"):
                continue
            bits = int(l.split()[1])
            # last dump before this op gives the cells
            dump = None
            for j in range(idx - 1, -1, -1):
                if c.lines[j] == "mem.dump":
                    dump = c.impl_out[j]
                    # only valid if no write in between
                    if any(x.startswith("mem.w") for x in c.lines[j + 1:idx]):
                        dump = None
                    break
            if dump is None or o.startswith("E"):
                continue
            cells = {int(p.split(":")[0]): int(p.split(":")[1]) for p in dump.split(",") if p}
            k = bits // cell
            exp = {}
            for a in cells:
                al = a - a % k
                exp[al] = sum(cells.get(al + i, 0) << (cell * i) for i in range(k))
            got = [(int(p.split(":")[0]), int(p.split(":")[1])) for p in o.split(",") if p]
            if got != sorted(exp.items()):
                fails.append(Failure("oracle", PROP, f"{kind} memory table ({bits} bit) {got} != words of the backing store {sorted(exp.items())}", "memtable:entries"))
                break
    return fails
