"""C17 — displayed values: correspondence of `Model.Fmt` with `integer_representations.py`; oracle parses
the real strings back."""
from __future__ import annotations
from core import Case, Failure

PROP = "C17"
CONSTS = ['mem']          # constant tables of the models this property depends on
RULE = ("formatter inputs: boundary values of widths 12/16/32 (0, +-1, 2^(n-1)+-1, 2^n+-1, negative, over-wide) plus "
        "random; thorough: all 2^12 and 2^16 values exhaustively at their widths; memory tables: random write "
        "histories, the table keys/values compared with the backing store; non-trivial = value with a set bit "
        "above bit 3; distinct = distinct (value, width)")
ASSUMPTIONS = ["str.format with 0nb / 0kX, str(int) of CPython"]


def _fmt_case(pairs):
    return Case("fmt", [f"fmt {x} {n}" for x, n in pairs], None, {"pairs": pairs})


def cases(rng, tier):
    bnd = []
    for n in (12, 16, 32, 1, 8, 5, 33):
        for x in (0, 1, -1, 2, 9, 10, 15, 16, 255, 256, 2**(n - 1) - 1, 2**(n - 1), 2**(n - 1) + 1, 2**n - 1, 2**n, 2**n + 1,
                  -(2**(n - 1)), -(2**(n - 1)) - 1, -(2**n), 2**40 + 5, -(2**40) - 7):
            bnd.append((x, n))
    yield _fmt_case(bnd)
    k = 20 if tier == "quick" else 200
    for _ in range(k):
        yield _fmt_case([(rng.randrange(-2**34, 2**34), rng.choice([12, 16, 32])) for _ in range(50)])
    if tier == "thorough":
        for n in (12, 16):
            for lo in range(0, 2**n, 2048):
                yield _fmt_case([(x, n) for x in range(lo, min(lo + 2048, 2**n))])
    # memory tables (wordwise / halfwordwise repr keys and values)
    import props.c18 as c18
    m = 60 if tier == "quick" else 800
    for _ in range(m):
        c = c18.gen_case(rng, rng.choice(["riscv", "toy"]), rng.choice([3, 10, 30]))
        kind = c.meta["kind"]
        c.lines.append(f"mem.repr {16 if kind == 'toy' else 32}")
        c.suite = "memtable"
        yield c


def table_cases(rng, tier):
    import rvgen, toygen
    n = 60 if tier == "quick" else 1200
    for i in range(n):
        c = rvgen.sim_case(rng, "five" if i % 2 else "single", trace=0, run=rng.choice([0, 3, 40]), dprob=0.4, iprob=0.0, suite="rv-tables")
        c.lines += ["sim.arch", "sim.regtable", "sim.memtable"]
        if i % 3 == 0:
            # the SAME simulation object shown again after another program was loaded (tables requested before the load):
            # the tables must show the new contents
            import rvasmgen
            t2 = rng.choice([".data\nq: .word 11, 22, 33\n.text\nlw x5, q[1]\nsw x5, q[2], x6", "addi x1, x0, 3", ".data\nb: .byte 1, 2, 3, 4, 5\nh: .half 513\n.text\nnop",
                             "this does not assemble", ""])
            c.lines += [f"sim.load {rvasmgen.hx(t2)}", "sim.arch", "sim.regtable", "sim.memtable"]
            if rng.random() < 0.5:
                c.lines += ["sim.step", "sim.step", "sim.step", "sim.arch", "sim.regtable", "sim.memtable"]
        yield c
    # the instruction listing with its stage column (the RISC-V counterpart of the TOY table's cycle mark): after every step of
    # hazard-rich programs (stalls, flushes, ecall drains), both modes, with and without hazard detection
    for i in range(n):
        c = rvgen.sim_case(rng, "five" if i % 3 else "single", hazard=(i % 5 != 0), trace=rng.choice([8, 14, 25]), run=200, dprob=0.2, iprob=0.2, suite="rv-listing")
        c.lines = [x for l in c.lines for x in ((l, "sim.listing") if l == "sim.snap" else (l,))]
        yield c
    for i in range(n):
        c = toygen.image_case(rng, toygen.mixed_calls, max_steps=rng.choice([0, 1, 2, 7, 30]), suite="toy-tables")
        c.lines += ["toy.snap", "toy.regtable", "toy.memtable"]
        if i % 3 == 0:
            import toyasmgen
            t2 = rng.choice(["LDA v\nINC\nSTO v\n.data\nv: .word 41", "INC\nINC", ".data\nw: .word 1, 2, 3\n.text\nLDA w", "not a toy program", ""])
            c.lines += [f"toy.asm {toyasmgen.hx(t2)}", "toy.snap", "toy.regtable", "toy.memtable"]
            if rng.random() < 0.5:
                c.lines += ["toy.call step", "toy.call first", "toy.snap", "toy.regtable", "toy.memtable"]
        yield c


_cases_base = cases


def cases(rng, tier):
    yield from _cases_base(rng, tier)
    yield from table_cases(rng, tier)


def _unreprs(t):
    b, ud, h, sd = [unhx(x) for x in t]
    return int(b.replace(" ", ""), 2), int(ud), int(h.replace(" ", ""), 16), int(sd), (b, ud, h, sd)


def tables_oracle(c):
    import rvgen
    fails = []
    out = dict()
    for l, o in zip(c.lines, c.impl_out):
        out[l] = o
    def denotes(t, val, n, what):
        try:
            b, ud, h, sd, raw = _unreprs(t)
        except Exception:
            return f"{what}: unparsable representation {t}"
        s = val - 2**n if val >= 2**(n - 1) else val
        if not (b == ud == h == val and sd == s and len(raw[0].replace(" ", "")) == n and len(raw[2].replace(" ", "")) == -(-n // 4)):
            return f"{what}: shown {raw} but the value is {val}"
        return None
    if c.suite == "rv-tables" or "sim.regtable" in out:
        if "sim.arch" not in out or not out["sim.arch"].startswith("pc="):
            return fails
        d = rvgen.parse_snap(out["sim.arch"])
        regs = [int(x) for x in d["regs"].split(",")]
        rt = out.get("sim.regtable", "").split(";")
        if len(rt) != 32:
            return [Failure("oracle", PROP, f"register table has {len(rt)} rows", "tables:registers")]
        for r in range(32):
            e = denotes(rt[r].split(","), regs[r], 32, f"register x{r}")
            if e:
                return [Failure("oracle", PROP, e, "tables:registers")]
        import rvref
        cells = rvref.mem_of_snap(d)
        exp = {}
        for a in cells:
            exp[a - a % 4] = sum(cells.get(a - a % 4 + i, 0) << (8 * i) for i in range(4))
        mt = [x for x in out.get("sim.memtable", "").split(";") if x]
        got = []
        for row in mt:
            f = row.split(",")
            ad, hs = int(f[0]), unhx(f[1])
            if hs != "0x%08X" % ad:
                return [Failure("oracle", PROP, f"memory table address text {hs!r} for address {ad}", "tables:memory")]
            e = denotes(f[2:6], exp.get(ad, -1), 32, f"memory word 0x{ad:x}")
            if e:
                return [Failure("oracle", PROP, e, "tables:memory")]
            got.append(ad)
        if got != sorted(exp):
            return [Failure("oracle", PROP, f"memory table rows {got[:6]} are not exactly the written words {sorted(exp)[:6]} in ascending order", "tables:memory")]
    else:
        if "toy.snap" not in out:
            return fails
        d = {}
        for part in out["toy.snap"].split("|"):
            k, _, v = part.partition("=")
            d[k] = v
        rt = dict(x.split("=", 1) for x in out.get("toy.regtable", "").split("|") if "=" in x)
        has = d["max"] not in ("-", "-1")
        for name, key, n in (("accu", "accu", 16), ("pc", "pc", 12)):
            if has:
                e = denotes(rt[name].split(","), int(d[key]), n, f"TOY {name}")
                if e:
                    return [Failure("oracle", PROP, e, "tables:toy-registers")]
            elif rt.get(name) != "-":
                return [Failure("oracle", PROP, f"TOY {name} shown although no program is loaded", "tables:toy-registers")]
        if d["ir"] != "-":
            e = denotes(rt["ir"].split(","), int(d["ir"]), 16, "TOY ir")
            if e:
                return [Failure("oracle", PROP, e, "tables:toy-registers")]
        cells = {int(p.split(":")[0]): int(p.split(":")[1]) for p in d["mem"].split(",") if p}
        mt = [x for x in out.get("toy.memtable", "").split(";") if x]
        got = []
        for row in mt:
            f = row.split(",")
            ad = int(f[0])
            if unhx(f[1]) != "0x%03X" % ad:
                return [Failure("oracle", PROP, f"TOY memory table address text {unhx(f[1])!r} for {ad}", "tables:toy-memory")]
            e = denotes(f[2:6], cells.get(ad, -1), 16, f"TOY memory word {ad}")
            if e:
                return [Failure("oracle", PROP, e, "tables:toy-memory")]
            got.append(ad)
        if got != sorted(cells):
            return [Failure("oracle", PROP, "TOY memory table rows are not exactly the written words in ascending order", "tables:toy-memory")]
    return fails


def nontrivial(c):
    if c.suite == "fmt":
        return tuple(p for p in map(tuple, c.meta["pairs"]) if abs(p[0]) >= 16) or None
    return "\n".join(c.lines)[:3000]


def measure(c, stats):
    stats.bump("suite=" + c.suite)
    if c.suite == "fmt":
        stats.bump("fmt_values", len(c.lines))


def unhx(h):
    return "" if h == "." else bytes.fromhex(h).decode()


def listing_oracle(c):
    """Every row of the instruction listing sits at the address of its instruction (4k, shown as 0x%08X, ascending from 0) and its
    stage column names the pipeline register that currently holds that address — the LAST one in pipeline order when the
    instruction is held twice (a stalled decode) — and is empty for an instruction that is in no register."""
    import rvgen
    names = ["IF", "ID", "EX", "MEM", "WB"]
    snap = None
    for l, o in zip(c.lines, c.impl_out):
        if l == "sim.snap":
            snap = o
        elif l == "sim.listing" and snap is not None and o != "." and not o.startswith(("X", "F", "bad")):
            rows = [r.split(",") for r in o.split(";")]
            addrs = [int(r[0]) for r in rows]
            if addrs != [4 * k for k in range(len(rows))]:
                return [Failure("oracle", PROP, f"instruction listing addresses {addrs[:8]} are not 0, 4, 8, ...", "tables:listing-addresses")]
            for r in rows:
                if unhx(r[1]) != "0x%08X" % int(r[0]):
                    return [Failure("oracle", PROP, f"instruction listing shows {unhx(r[1])!r} for address {r[0]}", "tables:listing-addresses")]
            if c.meta.get("mode") != "five":
                continue
            d = rvgen.parse_snap(snap)
            want = {}
            for k in range(5):
                v = d.get(f"L{k}", "-")
                if v != "-" and "@" in v:
                    want[int(v.split(";")[0].split("@")[1])] = names[k]
            for r in rows:
                if unhx(r[3]) != want.get(int(r[0]), ""):
                    return [Failure("oracle", PROP, f"instruction listing marks address {r[0]} with stage {unhx(r[3])!r}, the pipeline registers hold it in {want.get(int(r[0]), '') !r}", "tables:listing-stage")]
    return []


def oracle(c):
    fails = []
    if c.suite == "rv-listing" or any(l == "sim.listing" for l in c.lines):
        return listing_oracle(c)
    if any(l in ("sim.regtable", "toy.regtable") for l in c.lines):
        return tables_oracle(c)
    if c.suite in ("fmt", "corpus", "replay") and c.lines and c.lines[0].startswith("fmt"):
        for l, o in zip(c.lines, c.impl_out):
            _, x, n = l.split()
            x, n = int(x), int(n)
            u = x % (2**n)
            s = u - 2**n if u >= 2**(n - 1) else u
            try:
                b, ud, h, sd = [unhx(t) for t in o.split()]
                ok = (int(b.replace(" ", ""), 2) == u and len(b.replace(" ", "")) == n and int(ud) == u
                      and int(h.replace(" ", ""), 16) == u and len(h.replace(" ", "")) == -(-n // 4) and int(sd) == s
                      and h == h.upper())
                # grouping: a space after every 8 (bin) / 2 (hex) digits counted from the right
                def grouped(st, g):
                    parts = st.split(" ")
                    return all(len(p) == g for p in parts[1:]) and 1 <= len(parts[0]) <= g
                ok = ok and grouped(b, 8) and grouped(h, 2)
            except Exception:
                ok = False
            if not ok:
                fails.append(Failure("oracle", PROP, f"get_n_bit_representations({x}, {n}) = {o!r} does not denote {u} / {s}", "fmt:denotation"))
                break
    else:
        # memory table: keys = aligned addresses of written cells, ascending, values = current word
        import props.c18 as c18
        kind = c.lines[0].split()[1]
        cell = 16 if kind == "toy" else 8
        for idx, (l, o) in enumerate(zip(c.lines, c.impl_out)):
            if not l.startswith("mem.repr"):
                continue
            bits = int(l.split()[1])
            # last dump before this op gives the cells
            dump = None
            for j in range(idx - 1, -1, -1):
                if c.lines[j] == "mem.dump":
                    dump = c.impl_out[j]
                    # only valid if no write in between
                    if any(x.startswith("mem.w") for x in c.lines[j + 1:idx]):
                        dump = None
                    break
            if dump is None or o.startswith("E"):
                continue
            cells = {int(p.split(":")[0]): int(p.split(":")[1]) for p in dump.split(",") if p}
            k = bits // cell
            exp = {}
            for a in cells:
                al = a - a % k
                exp[al] = sum(cells.get(al + i, 0) << (cell * i) for i in range(k))
            got = [(int(p.split(":")[0]), int(p.split(":")[1])) for p in o.split(",") if p]
            if got != sorted(exp.items()):
                fails.append(Failure("oracle", PROP, f"{kind} memory table ({bits} bit) {got} != words of the backing store {sorted(exp.items())}", "memtable:entries"))
                break
    return fails
