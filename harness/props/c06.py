"""C06 — TOY execution vs the reference accumulator machine."""
from __future__ import annotations
from core import Case, Failure
import toygen

PROP = "C06"
CONSTS = ['toy', 'mem']          # constant tables of the models this property depends on
RULE = ("random TOY memory images (program length 0..20, data words, self-modifying stores, branches into and past "
        "the program, opcodes 13-15), stepped with step(); every opcode as the first word of 1-, 2- and 3-word programs with "
        "boundary addresses (0, last, first past the program, 0xFFF) and accumulators (0, 1, 0xFFFF); every ordered pair of opcodes "
        "followed by NOT; INC; STO; thorough adds a sweep of all 2^16 words as a single "
        "instruction on boundary accumulator/memory values; non-trivial = program executes >=2 instructions; "
        "distinct = distinct image")
ASSUMPTIONS = ["fixedint UInt16/UInt12 wrap-around"]


def cases(rng, tier):
    n = 300 if tier == "quick" else 4000
    for i in range(n):
        c_ = toygen.image_case(rng, toygen.step_only, max_steps=rng.choice([5, 20, 60]))
        yield toygen.as_text_case(c_) if i % 3 == 2 else c_          # every third image goes through the loader
    # the same machine driven in EVERY legal call style: each instruction executed either by step(), by the two half-cycle calls
    # or by two single_step() calls (a snapshot only at instruction boundaries) — "costs two cycles and counts once" however
    # it is executed
    for i in range(60 if tier == "quick" else 600):
        c_ = toygen.image_case(rng, toygen.step_only, max_steps=rng.choice([5, 20, 40]), suite="toy-styles")
        fixed = [None, ("single", "single"), ("first", "second")][i % 3]          # one style throughout, or a random mix
        out = []
        for l in c_.lines:
            if l == "toy.call step":
                style = fixed or rng.choice([("step",), ("first", "second"), ("single", "single"), ("first", "single"), ("single", "second")])
                out += [f"toy.call {x}" for x in style]
            else:
                out.append(l)
        c_.lines = out
        yield c_
    # short programs, every opcode, boundary operands (incl. one-instruction programs that branch to themselves, to the
    # word after the program and to 0xFFF), independent of the seed
    for n in (1, 2, 3):
        for op in range(16):
            for a in (0, n - 1, n, 4095):
                for acc in (0, 1, 0xFFFF):
                    words = [(op << 12) | a] + [0x9000, 0x2000][: n - 1]        # INC ; BRZ 0 behind it
                    lines = ["toy.new", "toy.load " + " ".join([str(n)] + [str(w) for w in words] + ["4095:7"]), f"toy.accu {acc}", "toy.snap"]
                    for _ in range(6):
                        lines += ["toy.call step", "toy.snap"]
                    yield Case("toy-short", lines, None, {"n": n, "words": words + [acc]})
    # every ordered PAIR of opcodes (a value produced by one instruction consumed by the next), then NOT / INC / STO so that a
    # wrong width or type of the accumulator shows
    for op1 in range(16):
        for op2 in range(16):
            for acc in (0, 0xFFFF):
                words = [(op1 << 12) | 200, (op2 << 12) | 200, 0x8000, 0x9000, 100]        # op1 200; op2 200; NOT; INC; STO 100
                lines = ["toy.new", "toy.load " + " ".join(["5"] + [str(w) for w in words] + ["200:7"]), f"toy.accu {acc}", "toy.snap"]
                for _ in range(6):
                    lines += ["toy.call step", "toy.snap"]
                c_ = Case("toy-pairs", lines, None, {"n": 5, "words": words + [acc]})
                yield toygen.as_text_case(c_) if acc else c_
    # LONG runs: a counting loop that runs thousands of iterations until its counter WRAPS to zero; a program that fills the
    # whole memory (pc runs up to 0xFFF and wraps)
    for start, extra in ((0xFFFF - 900, 0), (0xFFFF - 2500, 1)):
        # loop: LDA 100; INC; STO 100; BRZ 7; ZRO; BRZ 0; (6:) NOP; (7:) LDA 100; STO 101
        words = [0x1000 | 100, 0x9000, 0x0000 | 100, 0x2000 | 7, 0xB000, 0x2000 | 0, 0xC000, 0x1000 | 100, 0x0000 | 101]
        lines = ["toy.new", "toy.load " + " ".join([str(len(words))] + [str(w) for w in words] + [f"100:{start}"]), "toy.snap",
                 "toy.run 3000", "toy.snap", "toy.run 40000", "toy.snap"]
        yield toygen.as_text_case(Case("toy-long", lines, None, {"n": len(words), "words": words + [start]})) if extra else Case("toy-long", lines, None, {"n": len(words), "words": words + [start]})
    full = [0x9000] * 4095 + [0x2000 | 5]          # 4095 INC, then BRZ 5 at the last address: not taken, pc wraps past 0xFFF
    yield Case("toy-long", ["toy.new", "toy.load " + " ".join(["4096"] + [str(w) for w in full]), "toy.snap", "toy.run 4000", "toy.snap", "toy.run 500", "toy.snap"],
               None, {"n": 4096, "words": [4096]})
    if tier == "thorough":
        for w in range(0, 65536):
            acc = [0, 1, 0xFFFF, 0x8000, 0x1234][w % 5]
            memv = [0, 1, 0xFFFF, 0x7FFF, 0xABCD][(w // 5) % 5]
            a = w & 0xFFF
            lines = ["toy.new", f"toy.load 2 {w} 49152" + (f" {a}:{memv}" if a >= 2 else ""), f"toy.accu {acc}", "toy.snap",
                     "toy.call step", "toy.snap", "toy.call step", "toy.snap", "toy.call step", "toy.snap"]
            yield Case("toy-sweep", lines, None, {"n": 2, "words": [w, 49152]})


STYLES = {("toy.call first", "toy.call second"), ("toy.call single", "toy.call single"), ("toy.call first", "toy.call single"),
          ("toy.call single", "toy.call second")}


def nontrivial(c):
    steps = sum(1 for l, o in zip(c.lines, c.impl_out) if l.startswith("toy.call") and o == "ok")
    return tuple(c.meta.get("words", [])) if steps >= 2 and c.meta.get("n", 0) >= 1 else None


def measure(c, stats):
    stats.bump("suite=" + c.suite)
    stats.bump(f"proglen={c.meta.get('n')}")


def _parse_snap(s):
    d = {}
    for part in s.split("|"):
        k, _, v = part.partition("=")
        d[k] = v
    return d


def _mem(s):
    return {int(p.split(":")[0]): int(p.split(":")[1]) for p in s.split(",") if p}


def oracle(c):
    """Reference accumulator machine (fetch at pc, decode, execute, pc+1) run from the first snapshot;
    compared with the implementation at every instruction boundary."""
    fails = []
    snaps = [(i, _parse_snap(o)) for i, (l, o) in enumerate(zip(c.lines, c.impl_out)) if l == "toy.snap"]
    if not snaps:
        return fails
    i0, s0 = snaps[0]
    if s0.get("nc") != "1":
        return fails
    mem = _mem(s0["mem"])
    accu = int(s0["accu"])
    maxpc = int(s0["max"]) if s0["max"] != "-" else -1
    # reference pc = address of the instruction to execute next
    rpc = (int(s0["pc"]) - 1) % 4096 if s0["ir"] != "-" else None
    instrs = int(s0["ins"]); cycles = int(s0["cyc"])
    halted = s0["ir"] == "-"
    # walk the calls: only whole `step` calls are interpreted here (C20 covers the other styles)
    for (ia, sa), (ib, sb) in zip(snaps, snaps[1:]):
        call = c.lines[ib - 1]
        between = c.lines[ia + 1:ib]
        if call == "toy.call step" and len(between) == 1:
            count = 1
        elif len(between) == 2 and tuple(between) in STYLES:
            count = 1          # one instruction executed as two half cycles
        elif call.startswith("toy.run "):
            count = int(call.split()[1])          # `run` with a step budget: whole steps until done
        else:
            return fails
        for _ in range(count):
            if halted:
                break
            w = mem.get(rpc, 0)
            op, a = (w >> 12) & 15, w & 0xFFF
            npc = (rpc + 1) % 4096
            if op == 0:
                mem[a] = accu
            elif op == 1:
                accu = mem.get(a, 0)
            elif op == 2:
                if accu == 0:
                    npc = a
            elif op == 3:
                accu = (accu + mem.get(a, 0)) % 65536
            elif op == 4:
                accu = (accu - mem.get(a, 0)) % 65536
            elif op == 5:
                accu |= mem.get(a, 0)
            elif op == 6:
                accu &= mem.get(a, 0)
            elif op == 7:
                accu ^= mem.get(a, 0)
            elif op == 8:
                accu = accu ^ 0xFFFF
            elif op == 9:
                accu = (accu + 1) % 65536
            elif op == 10:
                accu = (accu - 1) % 65536
            elif op == 11:
                accu = 0
            instrs += 1
            cycles += 2
            rpc = npc
            if rpc > maxpc:
                halted = True
        got_mem = {k: v for k, v in _mem(sb["mem"]).items() if v}
        exp_mem = {k: v for k, v in mem.items() if v}
        got_halt = sb["ir"] == "-"
        prob = None
        if int(sb["accu"]) != accu:
            prob = f"accumulator {sb['accu']} != {accu}"
        elif got_mem != exp_mem:
            prob = "memory differs from the reference"
        elif got_halt != halted:
            prob = f"done={got_halt}, reference halted={halted}"
        elif not halted and (int(sb["pc"]) - 1) % 4096 != rpc:
            prob = f"next instruction address {(int(sb['pc']) - 1) % 4096} != {rpc}"
        elif not halted and int(sb["ir"]) % 4096 != mem.get(rpc, 0) % 4096:
            prob = "instruction register does not hold the word at pc"
        elif int(sb["ins"]) != instrs or int(sb["cyc"]) != cycles:
            prob = f"counters instr={sb['ins']} cycles={sb['cyc']} != {instrs}/{cycles}"
        if prob:
            fails.append(Failure("oracle", PROP, f"after {instrs} instructions: {prob}", "toy:reference-mismatch"))
            break
    return fails


# The counter lines of the performance-metrics TEXT are part of the model (`SimViews.metricsLines` / `toyMetricsLines`): what the
# user reads is compared at the end of every case.
_cases_nometrics = cases


def cases(rng, tier):
    for c in _cases_nometrics(rng, tier):
        if any(l == "toy.snap" for l in c.lines):
            c.lines = c.lines + ["toy.metrics"]          # at the end only: the oracles pair every call with the snapshot behind it
        yield c


def _metrics_oracle(c, op, snapname, fields):
    """the counter lines of the metrics text denote the counters of the state (the snapshot next to the call)"""
    outs = list(zip(c.lines, c.impl_out))
    for k, (l, o) in enumerate(outs):
        if l != op or not o or o.startswith(("X", "bad")):
            continue
        near = next((oo for ll, oo in outs[k + 1:k + 2] if ll == snapname), None) or next((oo for ll, oo in reversed(outs[:k]) if ll == snapname), None)
        if near is None:
            continue
        d = {}
        for part in near.split("|"):
            a, _, b = part.partition("=")
            d.setdefault(a, b)
        try:
            shown = [bytes.fromhex(x).decode() for x in o.split("|")]
        except ValueError:
            continue
        want = [f"{label}: {d[key]}{trail}" for label, key, trail in fields if key in d]
        if len(want) == len(fields) and shown != want:
            return [Failure("oracle", PROP, f"the performance-metrics text shows {shown}; the counters of the state are {want}", "metrics:text")]
    return []

_METRICS = ("toy.metrics", "toy.snap", [("instructions", "ins", " "), ("cycles", "cyc", ""), ("branches", "br", "")])

_oracle_nometrics = oracle


def oracle(c):
    return _oracle_nometrics(c) or _metrics_oracle(c, *_METRICS)
