"""C09 — data-cache hit/miss accounting and miss penalties match a reference cache."""
from __future__ import annotations
from core import Case, Failure
import dcgen
import rvgen
import impl as implmod
import rvasmgen
import tagref
import props.c02 as c02

PROP = "C09"
CONSTS = ['mem']          # constant tables of the models this property depends on
RULE = ("histories of ACCEPTED accesses (counted/uncounted reads, writes, direct preloads) on random geometries, both write and "
        "replacement policies, penalties 0-5, with the real policy in the model (stats after every op, full dump at the end); plus "
        "programs with aligned accesses run in both pipeline modes with a data cache (counters compared between the modes and with "
        "the number of executed loads/stores); non-trivial = history with >=1 hit and >=1 eviction, or program with >=2 memory "
        "instructions; distinct = distinct (configuration, history/program)")
ASSUMPTIONS = ["as C03"]


def cases(rng, tier):
    yield from load_cases(rng, tier)
    n = 300 if tier == "quick" else 5000
    for _ in range(n):
        yield dcgen.gen_case(rng, forced=False, accepted_only=True, dump_every=False)
    m = 120 if tier == "quick" else 2500
    for i in range(m):
        yield rvgen.sim_case(rng, "five" if i % 2 else "single", hazard=True, opts={"aligned": True}, trace=0, run=800, dprob=1.0, iprob=0.2, suite="sim-dcache")
    for prog, regs in rvgen.store_hit_programs():          # every store width as hit and miss under caches with a penalty
        for mode in ("single", "five"):
            for d in ("wb,plru,1,1,2,3", "wt,lru,1,0,1,2", "wt,plru,0,1,2,5"):
                lines = rvgen.header(mode, True, d, "-", prog, regs, []) + ["sim.snap"] + ["sim.step", "sim.snap"] * 6 + ["sim.run 200", "sim.snap"]
                yield Case("sim-dcache", lines, None, {"mode": mode, "hazard": True, "prog": prog, "regs": regs, "pokes": [], "d": d, "i": "-"})
    for prog, regs in rvgen.long_programs(rng, tier):          # sets filled and refilled many times
        for mode in ("single", "five"):
            yield rvgen.long_case(prog, regs, mode, True, dspec=rvgen.penalty_cache_spec(rng, "d"), suite="sim-dcache")
    for i in range(30 if tier == "quick" else 400):
        # loads whose destination is x0 still access (and count in) the cache, in both modes
        yield rvgen.x0_dest_case(rng, "five" if i % 2 else "single", hazard=True, trace=0, run=400, dspec=rvgen.penalty_cache_spec(rng, "d"), suite="sim-dcache")
    for i in range(40 if tier == "quick" else 600):
        # print-string calls read through the data cache without being counted; loads/stores around them are counted once
        yield rvgen.ecall_case(rng, "five" if i % 2 else "single", hazard=True, trace=0, run=400, dspec=rvgen.penalty_cache_spec(rng, "d"), suite="sim-dcache")


LOAD_TEXTS = [
    '.data\nmsg: .string "Hi!"\nn: .word 7, 8\n.text\nla a0, msg\nli a7, 4\necall\nlw t0, n\nlw t1, n[1]\nadd t2, t0, t1\nsw t2, n, t3',
    '.data\ne: .string ""\nb: .byte 1, 2, 3\nh: .half 500, -2\ns: .string "abcd"\nz: .zero 3\n.text\nlbu t0, b[2]\nlh t1, h[1]\nla a0, s\nli a7, 4\necall\nsw t0, z[1], t2\nlw t3, z[1]',
    '.text\nlw t0, w\nlw t1, w[3]\nsb t0, q, t2\nlbu t4, q\n.data\nw: .word 1, 2, 3, 4, 5, 6, 7, 8, 9\nq: .string "0123456789abcdef"',
    '.data\nlong: .string "The quick brown fox"\nv: .word 0x12345678\n.text\nlw t0, v\nla a0, long\nli a7, 4\necall\nlw t1, v',
]


def load_cases(rng, tier):
    """programs with a data segment LOADED FROM TEXT into simulations built from cache options: the preload must not be
    counted (accesses, hits, cycles stay 0), must be complete, and the run must count as in the other mode"""
    for text in LOAD_TEXTS:
        for k in range(3 if tier == "quick" else 12):
            d = rvgen.penalty_cache_spec(rng, "d")
            for mode in ("single", "five"):
                lines = [f"sim.new {mode} 1 {d} -", f"sim.load {rvasmgen.hx(text)}", "sim.snap", "sim.run 400", "sim.snap"]
                yield Case("sim-load-dcache", lines, None, {"mode": mode, "text": text, "d": d})


def _load_oracle(c):
    fails = []
    snaps = [o for l, o in zip(c.lines, c.impl_out) if l == "sim.snap"]
    if len(snaps) < 2 or not c.impl_out[1].startswith("ok"):
        return fails
    d0 = rvgen.parse_snap(snaps[0])
    if d0["mem"].startswith("dc|"):
        h, a, _ = d0["mem"].split("|")[1].split()
        if (int(h), int(a), int(d0["cyc"])) != (0, 0, 0):
            return [Failure("oracle", PROP, f"loading the program (its data segment) was counted: hits {h}, accesses {a}, cycles {d0['cyc']} before the first step", "dcache:preload-counted")]
    # the same text in the other mode: same counters; without a data cache: same results
    other = "five" if c.meta["mode"] == "single" else "single"
    res = {}
    for name, new in (("this", c.lines[0]), ("other", c.lines[0].replace(f"sim.new {c.meta['mode']}", f"sim.new {other}")),
                      ("flat", f"sim.new {c.meta['mode']} 1 - -")):
        im = implmod.Impl()
        out = [im.run(l) for l in [new] + c.lines[1:]]
        lastsnap = next((o for o in reversed(out) if o.startswith("pc=")), None)          # view ops may follow the last snapshot
        res[name] = rvgen.parse_snap(lastsnap) if lastsnap else None
    if all(res.values()):
        ta, tb = res["this"]["mem"].split("|")[1], res["other"]["mem"].split("|")[1]
        if ta != tb:
            return [Failure("oracle", PROP, f"data-cache counters (hits accesses last) {ta} in {c.meta['mode']} mode, {tb} in {other} mode", "modes:dcache-counters")]
        for k in ("regs", "out", "exit"):
            if res["this"][k] != res["flat"][k]:
                return [Failure("oracle", PROP, f"{k} differs from the run without data cache", "dcache:changes-result")]
    return fails


def nontrivial(c):
    return "\n".join(c.lines)


def measure(c, stats):
    stats.bump("suite=" + c.suite)
    if c.suite == "dcache":
        for l, o in zip(c.lines, c.impl_out):
            if l == "dc.stats":
                pass
        last = c.impl_out[-1].split("|")[0].split() if c.impl_out else []
        if len(last) == 3:
            stats.bump("hits", int(last[0])); stats.bump("accesses", int(last[1]))


def _configured_geometry_oracle(c):
    """counters of a simulation built from options vs reference caches of the CONFIGURED geometry fed the same addresses"""
    import simspy
    r = simspy.run(c)
    if r is None or r["fault"]:
        return []
    if "d_real" in r and r["d_real"] != r["d_ref"]:
        return [Failure("oracle", PROP, f"data cache (hits, accesses) {r['d_real']}; a reference cache of the configured geometry fed the same addresses gives {r['d_ref']} ({r['mode']})", "sim:dcache-counters-vs-configured")]
    if r.get("d_reported") is not None and r["d_reported"] != (str(r["d_ref"][0]), str(r["d_ref"][1])):
        return [Failure("oracle", PROP, f"the statistics getter reports (hits, accesses) {r['d_reported']}, the reference counted {r['d_ref']} ({r['mode']})", "sim:reported-counters")]
    if r["cycles"] != r["cycles_ref"]:
        return [Failure("oracle", PROP, f"{r['cycles']} cycles for {r['steps']} steps; steps + penalty x reference misses = {r['cycles_ref']} ({r['mode']})", "sim:penalty-vs-configured")]
    return []


def oracle(c):
    if c.suite == "sim-load-dcache":
        return _load_oracle(c) or _configured_geometry_oracle(c)
    if c.lines and c.lines[0].startswith("sim.new"):
        f = _configured_geometry_oracle(c)
        if f:
            return f
    fails = []
    if c.lines and c.lines[0].startswith("dc.new"):
        h = dcgen.parse_header(c.lines[0])
        ref = tagref.RefCache(h["ib"], h["bb"], h["assoc"], h["pol"], h["ty"] == "wt")
        for l, o in zip(c.lines[1:], c.impl_out[1:]):
            t = l.split()
            if t[0] == "dc.r":
                if not dcgen.accepted(int(t[1]), int(t[2])):
                    return []            # outside the accounting claim
                counted = t[3] == "1"
                hit = ref.read(int(t[2]), counted)
                exp = h["pen"] if (counted and not hit) else 0
                if not o.endswith(f" x{exp}"):
                    fails.append(Failure("oracle", PROP, f"{h}: `{l}` added {o.rsplit('x', 1)[-1]} cycles, reference cache says {exp}", "dcache:penalty"))
            elif t[0] == "dc.w":
                if t[4] == "1":
                    if not o.endswith(" x0"):
                        fails.append(Failure("oracle", PROP, f"direct write `{l}` added cycles", "dcache:penalty"))
                    continue
                if not dcgen.accepted(int(t[1]), int(t[2])):
                    return []
                hit = ref.write(int(t[2]))
                exp = 0 if hit else h["pen"]
                if not o.endswith(f" x{exp}"):
                    fails.append(Failure("oracle", PROP, f"{h}: `{l}` added {o.rsplit('x', 1)[-1]} cycles, reference cache says {exp}", "dcache:penalty"))
            elif t[0] in ("dc.stats", "dc.dump"):
                got = o.split("|")[0]
                exp = f"{ref.hits} {ref.accesses} {1 if ref.last else 0}"
                if got != exp:
                    fails.append(Failure("oracle", PROP, f"{h}: counters (hits accesses last_hit) = {got}, reference cache = {exp} after {c.lines.index(l)} ops", "dcache:counters"))
            elif t[0] == "dc.reset":
                return []
            if fails:
                break
        return fails
    # program level: counters identical in both modes, each executed load/store counted once
    if not any(l.startswith("sim.prog") for l in c.lines):
        return fails
    a = c02.run_mode(c, "single", True)
    if a["fault"] is not None or not a["done"]:
        return fails
    b = c02.run_mode(c, "five", True, limit=8 * (a["steps"] + 2) + 40)
    if b["fault"] is not None or not b["done"]:
        return fails
    sa, sb = a["d"]["mem"].split("|"), b["d"]["mem"].split("|")
    if sa[0] != "dc":
        return fails
    if sa[1] != sb[1]:
        fails.append(Failure("oracle", PROP, f"data-cache counters differ between the modes: single-cycle {sa[1]}, five-stage {sb[1]}", "modes:dcache-counters"))
    else:
        import rvref
        prog = rvref.parse_prog(rvref.prog_of_lines(c.lines))
        memops = sum(1 for pc in a["retired"] if 0 <= pc // 4 < len(prog) and prog[pc // 4][0] in ("lb", "lh", "lw", "lbu", "lhu", "sb", "sh", "sw"))
        if int(sa[1].split()[1]) != memops:
            fails.append(Failure("oracle", PROP, f"access counter {sa[1].split()[1]} != {memops} executed loads/stores", "modes:dcache-access-count"))
    return fails


# The statistics GETTER is part of the model (`Model/SimViews.lean`): what it reports is compared after every snapshot.
_cases_plain = cases


def cases(rng, tier):
    for c in _cases_plain(rng, tier):
        if c.lines and c.lines[0].startswith("sim.new"):
            c.lines = [x for l in c.lines for x in ((l, "sim.dstats", "sim.dcachetable") if l == "sim.snap" else (l,))]
        yield c


def _highlight_oracle(c, op, latch):
    """five-stage mode: the address the statistics view highlights is the one held by the pipeline register it is taken from
    (data: memory address of the load / store in MEM/WB; instruction: address of the instruction in IF/ID), as 32 binary digits"""
    new = next((l for l in c.lines if l.startswith("sim.new")), None)
    if new is None or new.split()[1] != "five":
        return []
    outs = list(zip(c.lines, c.impl_out))
    for k, (l, o) in enumerate(outs):
        if l != op or o in ("none", "") or o.startswith(("X", "bad")) or k == 0 or outs[k - 1][0] not in ("sim.snap", "sim.dstats", "sim.istats"):
            continue
        snap = next((oo for ll, oo in reversed(outs[:k]) if ll == "sim.snap"), None)
        if snap is None or any(ll not in ("sim.snap", "sim.dstats", "sim.istats", "sim.icachetable", "sim.dcachetable") for ll, _ in outs[k - 1:k]):
            continue
        d = rvgen.parse_snap(snap)
        v = d.get(latch, "-")
        want = "-"
        if v != "-" and "@" in v:
            f = dict(x.split("=", 1) for x in v.split(";")[1:] if "=" in x)
            text = bytes.fromhex(v.split("@")[0]).decode()
            if latch == "L0":
                want = format(int(v.split(";")[0].split("@")[1]) % 2**32, "032b")
            elif text.split()[0] in ("lb", "lh", "lw", "lbu", "lhu", "sb", "sh", "sw") and f.get("res", "-") != "-":
                want = format(int(f["res"]) % 2**32, "032b")
        got = o.split(",")[3]
        got = "-" if got == "-" else bytes.fromhex(got).decode()
        if got != want:
            return [Failure("oracle", PROP, f"`{op}` highlights {got}; the pipeline register {latch} holds {v[:60]} (expected {want})", "stats:highlight")]
    return []

_HIGHLIGHT = ("sim.dstats", "L3")

_oracle_nohighlight = oracle


def oracle(c):
    return _oracle_nohighlight(c) or _highlight_oracle(c, *_HIGHLIGHT)
