"""C14 — printed instruction text re-assembles to the same instruction."""
from __future__ import annotations
from core import Case, Failure
import rvasmgen
import rvgen
import impl as implmod

PROP = "C14"
CONSTS = ['ops', 'asm']          # constant tables of the models this property depends on
RULE = ("every mnemonic of the instruction map except FENCE with random register numbers (all 32) and boundary + random "
        "immediates of the instruction's width (B/J even), placed at random instruction addresses (pc-relative forms); the printed "
        "form of the real instruction object is assembled by the real assembler at the same address; plus listing fix-points of "
        "generated programs; the texts DISPLAYED for the instruction inside a running simulation (listing, pipeline view of both modes, "
        "instruction-cache table) must be its printed form or assemble to it; every mnemonic additionally with the degenerate operand patterns (x0 in every position, equal registers, "
        "zero immediate: the shapes assemblers print as nop/mv/ret/j); thorough: all 32 registers per operand position and every "
        "boundary immediate; non-trivial = every instruction instance; distinct = distinct (instruction, address)")
ASSUMPTIONS = ["as C04"]

OPS = rvasmgen.R_OPS + rvasmgen.I_OPS + rvasmgen.SH_OPS + rvasmgen.LD_OPS + rvasmgen.ST_OPS + rvasmgen.B_OPS + \
    ["jalr", "lui", "auipc", "jal", "ecall", "ebreak", "csrrw", "csrrs", "csrrc", "csrrwi", "csrrsi", "csrrci"]


def rand_tok(rng, op, addr, regs=None, zero_imm=False):
    rd, rs1, rs2 = regs or (rng.randrange(32), rng.randrange(32), rng.randrange(32))
    if zero_imm:
        rng = _ZeroRng(rng)
    if op in rvasmgen.R_OPS:
        return f"{op},{rd},{rs1},{rs2},0,0"
    if op in rvasmgen.I_OPS or op in rvasmgen.LD_OPS or op == "jalr":
        return f"{op},{rd},{rs1},0,{rng.choice([0, 1, -1, 2047, -2048, rng.randrange(-2048, 2048)])},0"
    if op in rvasmgen.SH_OPS:
        return f"{op},{rd},{rs1},0,{rng.choice([0, 1, 31, rng.randrange(32)])},0"
    if op in rvasmgen.ST_OPS:
        return f"{op},0,{rs1},{rs2},{rng.choice([0, 1, -1, 2047, -2048, rng.randrange(-2048, 2048)])},0"
    if op in rvasmgen.B_OPS:
        return f"{op},0,{rs1},{rs2},{rng.choice([0, 2, -2, 4094, -4096, 2 * rng.randrange(-2048, 2048)])},0"
    if op in ("lui", "auipc"):
        return f"{op},{rd},0,0,{rng.choice([0, 1, -1, 2**19 - 1, -(2**19), rng.randrange(-(2**19), 2**19)])},0"
    if op == "jal":
        imm = rng.choice([0, 2, -2, 2**20 - 2, -(2**20), 2 * rng.randrange(-(2**19), 2**19)])
        return f"jal,{rd},0,0,{imm},{addr + imm}"
    if op == "ecall":
        return "ecall,0,0,0,0,0"
    if op == "ebreak":
        return "ebreak,0,0,0,1,0"
    if op in ("csrrw", "csrrs", "csrrc"):
        return f"{op},{rd},{rs1},0,0,{rng.choice([0, 1, 0x300, 0xC00, 4095])}"
    return f"{op},{rd},0,0,{rng.randrange(32)},{rng.choice([0, 0x300, 0xFFF])}"


class _WideRng:
    """picks the alternative with the longest printed form of every immediate choice"""

    def __init__(self, rng):
        self.rng = rng

    def choice(self, xs):
        return max(xs, key=lambda x: (len(str(x)), x < 0 if isinstance(x, int) else 0))

    def randrange(self, *a):
        return self.rng.randrange(*a)


class _ZeroRng:
    """picks the first alternative (0) of every immediate choice, leaves everything else to the real generator"""

    def __init__(self, rng):
        self.rng = rng

    def choice(self, xs):
        return xs[0]

    def randrange(self, *a):
        return self.rng.randrange(*a)


# degenerate operand patterns (the shapes assemblers print as nop / mv / ret / j / not / neg ...)
CORNERS = [(0, 0, 0), (0, 1, 0), (1, 0, 0), (5, 5, 5), (5, 0, 7), (5, 7, 0), (0, 7, 9), (1, 1, 0)]


def one(rng, op, addr, regs=None, zero_imm=False, tok=None):
    tok = tok or rand_tok(rng, op, addr, regs, zero_imm)
    text = "nop\n" * (addr // 4) + repr(implmod.make_instr(tok))
    return Case("repr", [f"rv.repr {tok}", f"asm {rvasmgen.hx(text)}"], None, {"tok": tok, "addr": addr, "text": text})


def cases(rng, tier):
    k = 4 if tier == "quick" else 40
    for op in OPS:
        for _ in range(k):
            yield one(rng, op, 4 * rng.choice([0, 1, 2, 7, 33]))
    for op in OPS:
        for regs in CORNERS:
            yield one(rng, op, 4 * rng.choice([0, 2]), regs, zero_imm=True)
            if tier == "thorough":
                yield one(rng, op, 4 * rng.choice([0, 2]), regs)
    # pc-relative forms whose target is the first instruction / the instruction itself / the next one
    for addr, imm in ((4096, -8), (4096, 8), (4400, 0), (8192, -4096)):          # printed absolute targets >= 4096 (jal has 21 bits, not a branch's 13)
        yield one(rng, "jal", addr, tok=f"jal,{rng.choice([0, 1])},0,0,{imm},{addr + imm}")
    for addr in (4, 8, 132):
        for imm in (-addr, 0, 4, 4 - addr):
            yield one(rng, "jal", addr, tok=f"jal,{rng.choice([0, 1, 5])},0,0,{imm},{addr + imm}")
            yield one(rng, "beq", addr, tok=f"{rng.choice(rvasmgen.B_OPS)},0,{rng.randrange(32)},{rng.randrange(32)},{imm},0")
    if tier == "thorough":
        for op in OPS:
            for r in range(32):
                yield one(rng, op, 4 * rng.choice([0, 3]), (r, (r * 7 + 3) % 32, (r * 11 + 5) % 32))
    # the texts displayed while the instruction is in a running simulation
    for op in OPS:
        if op in ("ecall", "ebreak") or op.startswith("csr"):
            continue            # ecall needs a7; EBREAK/CSR execution is outside the model
        for _ in range(2 if tier == "quick" else 12):
            yield view_case(rng, op)
        yield view_case(rng, op, rng.choice(CORNERS), zero_imm=True)
        for mode in ("five", "single"):      # the longest printed forms, in both views
            yield view_case(rng, op, (rng.randrange(10, 32), rng.randrange(10, 32), rng.randrange(10, 32)), wide=True, mode=mode)
    # instructions the execution model leaves out (CSR forms, ebreak) are still LISTED: judge the listing without stepping
    for op in ("csrrw", "csrrs", "csrrc", "csrrwi", "csrrsi", "csrrci", "ebreak", "ecall"):
        for csr in (0, 1, 0x300, 4095):
            for regs in ((0, 0), (5, 6), (10, 0)):
                if op.startswith("csr"):
                    tok = f"{op},{regs[0]},{regs[1]},0,0,{csr}" if not op.endswith("i") else f"{op},{regs[0]},0,0,{regs[1]},{csr}"
                else:
                    tok = "ecall,0,0,0,0,0" if op == "ecall" else "ebreak,0,0,0,1,0"
                prog = ["addi,0,0,0,0,0", tok]
                mode = "five" if (csr + regs[0]) % 2 else "single"
                lines = [f"sim.new {mode} 1 - lru,0,1,1,0", "sim.prog " + " ".join(prog), "sim.snap", "sim.listingtext"]
                yield Case("views", lines, None, {"tok": tok, "addr": 4, "prog": prog, "mode": mode})
    # the listing of an instruction memory that is CHANGED while it is displayed: instructions stored one at a time through the
    # public per-instruction entry point (appended and replaced), the listing read before and after every change
    for i in range(24 if tier == "quick" else 300):
        mode = "five" if i % 2 else "single"
        ops = [o for o in OPS if o not in ("ecall", "ebreak", "fence") and not o.startswith("csr")]
        prog = [rand_tok(rng, "addi", 0)] * 0 + [rand_tok(rng, rng.choice(["addi", "xori", "lui", "add"]), 4 * k) for k in range(rng.choice([0, 1, 3]))]
        lines = [f"sim.new {mode} 1 - -", "sim.prog " + " ".join(prog), "sim.snap", "sim.listingtext"]
        cur = list(prog)
        for _ in range(rng.choice([2, 4, 6])):
            k = rng.choice([len(cur)] + list(range(len(cur))))
            t = rand_tok(rng, rng.choice(ops), 4 * k)
            lines += [f"sim.wi {k} {t}", "sim.listingtext"]
            if k < len(cur):
                cur[k] = t
            else:
                cur.append(t)
            if rng.random() < 0.3:
                lines += ["sim.step", "sim.snap", "sim.listingtext"]
        yield Case("views-wi", lines, None, {"mode": mode, "prog": prog})
    # the listing of LONG programs (addresses with more than two hex digits, up to the last address of the instruction memory)
    for n in (40, 300, 4096):
        prog = [rand_tok(rng, rng.choice(["addi", "lui", "xori"]), 4 * k) for k in range(n)]
        yield Case("views-wi", ["sim.new single 1 - -", "sim.prog " + " ".join(prog), "sim.listingtext"], None, {"mode": "single", "prog": prog[:3]})
    # listing fix-point
    for _ in range(60 if tier == "quick" else 1000):
        items, decls = rvasmgen.gen_abstract(rng, {"data": rng.random() < 0.5})
        items = [it for it in items if it[0] != "fence"]
        t1 = rvasmgen.render(rng, items, decls)
        sim = implmod.RiscvSimulation()
        try:
            sim.load_program(t1)
        except Exception:
            continue
        listing = "\n".join(s for _, s in sim.state.instruction_memory.get_representation())
        yield Case("listing", [f"asm {rvasmgen.hx(t1)}", f"asm {rvasmgen.hx(listing)}"], None, {"text": t1, "listing": listing})


def view_case(rng, op, regs=None, zero_imm=False, wide=False, mode=None):
    """the instruction inside a program of nops, run for a few steps in both modes with an instruction cache: every text
    the simulation displays for it (listing, pipeline view, instruction-cache table) is judged by the oracle"""
    k = rng.choice([0, 1, 3])
    addr = 4 * k
    tok = rand_tok(_WideRng(rng) if wide else rng, op, addr, regs, zero_imm)
    prog = ["addi,0,0,0,0,0"] * k + [tok] + ["addi,0,0,0,0,0"] * 2
    mode = mode or rng.choice(["five", "single"])
    ispec = rng.choice(["-", "lru,0,1,1,0", "plru,1,2,2,0"])
    lines = [f"sim.new {mode} 1 - {ispec}", "sim.prog " + " ".join(prog), "sim.reg 2 16384", "sim.snap", "sim.listingtext"]
    for _ in range(k + 2):
        lines += ["sim.step", "sim.snap", "sim.listingtext"]
    return Case("views", lines, None, {"tok": tok, "addr": addr, "prog": prog, "mode": mode})


def nontrivial(c):
    if c.suite == "views-wi":
        return "\n".join(c.lines)
    if c.suite == "views":
        return (c.meta["tok"], c.meta["addr"], c.meta["mode"], c.lines[0])
    if c.suite == "repr":
        t = c.meta["tok"].split(",")
        return (c.meta["tok"], c.meta["addr"])
    return c.meta.get("listing")


def measure(c, stats):
    stats.bump("suite=" + c.suite)
    if c.suite == "repr":
        stats.bump("op=" + c.meta["tok"].split(",")[0])


def _instrs(out):
    head = out.partition(" | ")[0].split()
    return [] if len(head) < 3 or head[2] == "." else head[2].split(";")


def _assembles_to(text, addr):
    """the instruction token the real assembler builds from `text` placed at `addr` (None if it is rejected)"""
    out = implmod.run_lines(["asm " + rvasmgen.hx("nop\n" * (addr // 4) + text)])[0]
    ins = _instrs(out) if out.startswith("ok ") else []
    return ins[addr // 4] if len(ins) > addr // 4 else None


def _views_oracle(c):
    fails = []
    prog = c.meta["prog"]
    im = implmod.Impl()
    seen = set()
    for l in c.lines:
        o = im.run(l)
        if o.startswith("F") or o.startswith("X"):
            break
        if not (l == "sim.step" or l.startswith("sim.prog")):
            continue
        for where, a, text in im.shown_instruction_texts():
            if (where, a, text) in seen or a % 4 or not (0 <= a // 4 < len(prog)):
                continue
            seen.add((where, a, text))
            want = prog[a // 4]
            if text == repr(implmod.make_instr(want)):
                continue            # the printed form itself is judged by the `repr` suite
            got = _assembles_to(text, a)
            if got != want:
                fails.append(Failure("oracle", PROP, f"the {where} shows {text!r} for {want} at address {a}; assembled there it gives {got}", "view:differs"))
                return fails
    return fails


def _wi_oracle(c):
    """the listing shows, at every moment, exactly the instructions the instruction memory holds"""
    cur = []
    for l, o in zip(c.lines, c.impl_out):
        f = l.split()
        if f[0] == "sim.prog":
            cur = f[1:]
        elif f[0] == "sim.wi" and o == "ok":
            k = int(f[1])
            if k < len(cur):
                cur[k] = f[2]
            else:
                cur.append(f[2])
        elif f[0] == "sim.listingtext":
            rows = [] if o == "." else [r.split(",") for r in o.split(";")]
            for r in rows:
                if bytes.fromhex(r[1]).decode() != "0x%08X" % int(r[0]):
                    return [Failure("oracle", PROP, f"the listing shows the address text {bytes.fromhex(r[1]).decode()!r} for address {r[0]}", "listing:address-text")]
            got = [(int(r[0]), bytes.fromhex(r[2]).decode() if r[2] != "." else "") for r in rows]
            want = [(4 * k, repr(implmod.make_instr(t))) for k, t in enumerate(cur)]
            if got != want:
                j = next((i for i, (x, y) in enumerate(zip(got, want)) if x != y), min(len(got), len(want)))
                return [Failure("oracle", PROP, f"the listing shows {got[j] if j < len(got) else None} where the instruction memory holds {want[j] if j < len(want) else None} ({len(got)} rows for {len(want)} instructions)", "listing:stale")]
    return []


def oracle(c):
    fails = []
    if c.suite == "views-wi":
        return _wi_oracle(c)
    if c.suite == "views":
        return _views_oracle(c)
    if len(c.impl_out) != 2 or not c.lines[1].startswith("asm"):
        return fails
    if c.lines[0].startswith("rv.repr"):
        tok = c.lines[0].split()[1]
        try:
            text = bytes.fromhex(c.lines[1].split()[1]).decode()
        except Exception:
            return fails
        k = text.count("\n")
        # recompute the printed form from the real object: the replay must stay self-consistent
        if text.split("\n")[-1] != repr(implmod.make_instr(tok)):
            return fails
        out = c.impl_out[1]
        if not out.startswith("ok "):
            fails.append(Failure("oracle", PROP, f"printed form {text.splitlines()[-1]!r} of {tok} does not assemble: {out[:80]}", "repr:rejected"))
        else:
            ins = _instrs(out)
            if len(ins) != k + 1 or ins[k] != tok:
                fails.append(Failure("oracle", PROP, f"printed form {text.splitlines()[-1]!r} of {tok} assembles at address {4 * k} to {ins[k] if len(ins) > k else None}", "repr:differs"))
    else:
        a, b = c.impl_out
        if a.startswith("ok ") and (not b.startswith("ok ") or _instrs(a) != _instrs(b)):
            fails.append(Failure("oracle", PROP, f"re-assembling the printed listing gives a different listing: {b[:100]}", "listing:not-fixpoint"))
    return fails
