"""C14 — printed instruction text re-assembles to the same instruction."""
from __future__ import annotations
from core import Case, Failure
import rvasmgen
import rvgen
import impl as implmod

PROP = "C14"
CONSTS = ['ops', 'asm']          # constant tables of the models this property depends on
RULE = ("every mnemonic of the instruction map except FENCE with random register numbers (all 32) and boundary + random "
        "immediates of the instruction's width (B/J even), placed at random instruction addresses (pc-relative forms); the printed "
        "form of the real instruction object is assembled by the real assembler at the same address; plus listing fix-points of "
        "generated programs; every mnemonic additionally with the degenerate operand patterns (x0 in every position, equal registers, "
        "zero immediate: the shapes assemblers print as nop/mv/ret/j); thorough: all 32 registers per operand position and every "
        "boundary immediate; non-trivial = every instruction instance; distinct = distinct (instruction, address)")
ASSUMPTIONS = ["as C04"]

OPS = rvasmgen.R_OPS + rvasmgen.I_OPS + rvasmgen.SH_OPS + rvasmgen.LD_OPS + rvasmgen.ST_OPS + rvasmgen.B_OPS + \
    ["jalr", "lui", "auipc", "jal", "ecall", "ebreak", "csrrw", "csrrs", "csrrc", "csrrwi", "csrrsi", "csrrci"]


def rand_tok(rng, op, addr, regs=None, zero_imm=False):
    rd, rs1, rs2 = regs or (rng.randrange(32), rng.randrange(32), rng.randrange(32))
    if zero_imm:
        rng = _ZeroRng(rng)
    if op in rvasmgen.R_OPS:
        return f"{op},{rd},{rs1},{rs2},0,0"
    if op in rvasmgen.I_OPS or op in rvasmgen.LD_OPS or op == "jalr":
        return f"{op},{rd},{rs1},0,{rng.choice([0, 1, -1, 2047, -2048, rng.randrange(-2048, 2048)])},0"
    if op in rvasmgen.SH_OPS:
        return f"{op},{rd},{rs1},0,{rng.choice([0, 1, 31, rng.randrange(32)])},0"
    if op in rvasmgen.ST_OPS:
        return f"{op},0,{rs1},{rs2},{rng.choice([0, 1, -1, 2047, -2048, rng.randrange(-2048, 2048)])},0"
    if op in rvasmgen.B_OPS:
        return f"{op},0,{rs1},{rs2},{rng.choice([0, 2, -2, 4094, -4096, 2 * rng.randrange(-2048, 2048)])},0"
    if op in ("lui", "auipc"):
        return f"{op},{rd},0,0,{rng.choice([0, 1, -1, 2**19 - 1, -(2**19), rng.randrange(-(2**19), 2**19)])},0"
    if op == "jal":
        imm = rng.choice([0, 2, -2, 2**20 - 2, -(2**20), 2 * rng.randrange(-(2**19), 2**19)])
        return f"jal,{rd},0,0,{imm},{addr + imm}"
    if op == "ecall":
        return "ecall,0,0,0,0,0"
    if op == "ebreak":
        return "ebreak,0,0,0,1,0"
    if op in ("csrrw", "csrrs", "csrrc"):
        return f"{op},{rd},{rs1},0,0,{rng.choice([0, 1, 0x300, 0xC00, 4095])}"
    return f"{op},{rd},0,0,{rng.randrange(32)},{rng.choice([0, 0x300, 0xFFF])}"


class _ZeroRng:
    """picks the first alternative (0) of every immediate choice, leaves everything else to the real generator"""

    def __init__(self, rng):
        self.rng = rng

    def choice(self, xs):
        return xs[0]

    def randrange(self, *a):
        return self.rng.randrange(*a)


# degenerate operand patterns (the shapes assemblers print as nop / mv / ret / j / not / neg ...)
CORNERS = [(0, 0, 0), (0, 1, 0), (1, 0, 0), (5, 5, 5), (5, 0, 7), (5, 7, 0), (0, 7, 9), (1, 1, 0)]


def one(rng, op, addr, regs=None, zero_imm=False, tok=None):
    tok = tok or rand_tok(rng, op, addr, regs, zero_imm)
    text = "nop\n" * (addr // 4) + repr(implmod.make_instr(tok))
    return Case("repr", [f"rv.repr {tok}", f"asm {rvasmgen.hx(text)}"], None, {"tok": tok, "addr": addr, "text": text})


def cases(rng, tier):
    k = 4 if tier == "quick" else 40
    for op in OPS:
        for _ in range(k):
            yield one(rng, op, 4 * rng.choice([0, 1, 2, 7, 33]))
    for op in OPS:
        for regs in CORNERS:
            yield one(rng, op, 4 * rng.choice([0, 2]), regs, zero_imm=True)
            if tier == "thorough":
                yield one(rng, op, 4 * rng.choice([0, 2]), regs)
    # pc-relative forms whose target is the first instruction / the instruction itself / the next one
    for addr in (4, 8, 132):
        for imm in (-addr, 0, 4, 4 - addr):
            yield one(rng, "jal", addr, tok=f"jal,{rng.choice([0, 1, 5])},0,0,{imm},{addr + imm}")
            yield one(rng, "beq", addr, tok=f"{rng.choice(rvasmgen.B_OPS)},0,{rng.randrange(32)},{rng.randrange(32)},{imm},0")
    if tier == "thorough":
        for op in OPS:
            for r in range(32):
                yield one(rng, op, 4 * rng.choice([0, 3]), (r, (r * 7 + 3) % 32, (r * 11 + 5) % 32))
    # listing fix-point
    for _ in range(60 if tier == "quick" else 1000):
        items, decls = rvasmgen.gen_abstract(rng, {"data": rng.random() < 0.5})
        items = [it for it in items if it[0] != "fence"]
        t1 = rvasmgen.render(rng, items, decls)
        sim = implmod.RiscvSimulation()
        try:
            sim.load_program(t1)
        except Exception:
            continue
        listing = "\n".join(s for _, s in sim.state.instruction_memory.get_representation())
        yield Case("listing", [f"asm {rvasmgen.hx(t1)}", f"asm {rvasmgen.hx(listing)}"], None, {"text": t1, "listing": listing})


def nontrivial(c):
    if c.suite == "repr":
        t = c.meta["tok"].split(",")
        return (c.meta["tok"], c.meta["addr"])
    return c.meta.get("listing")


def measure(c, stats):
    stats.bump("suite=" + c.suite)
    if c.suite == "repr":
        stats.bump("op=" + c.meta["tok"].split(",")[0])


def _instrs(out):
    head = out.partition(" | ")[0].split()
    return [] if len(head) < 3 or head[2] == "." else head[2].split(";")


def oracle(c):
    fails = []
    if len(c.impl_out) != 2 or not c.lines[1].startswith("asm"):
        return fails
    if c.lines[0].startswith("rv.repr"):
        tok = c.lines[0].split()[1]
        try:
            text = bytes.fromhex(c.lines[1].split()[1]).decode()
        except Exception:
            return fails
        k = text.count("\n")
        # recompute the printed form from the real object: the replay must stay self-consistent
        if text.split("\n")[-1] != repr(implmod.make_instr(tok)):
            return fails
        out = c.impl_out[1]
        if not out.startswith("ok "):
            fails.append(Failure("oracle", PROP, f"printed form {text.splitlines()[-1]!r} of {tok} does not assemble: {out[:80]}", "repr:rejected"))
        else:
            ins = _instrs(out)
            if len(ins) != k + 1 or ins[k] != tok:
                fails.append(Failure("oracle", PROP, f"printed form {text.splitlines()[-1]!r} of {tok} assembles at address {4 * k} to {ins[k] if len(ins) > k else None}", "repr:differs"))
    else:
        a, b = c.impl_out
        if a.startswith("ok ") and (not b.startswith("ok ") or _instrs(a) != _instrs(b)):
            fails.append(Failure("oracle", PROP, f"re-assembling the printed listing gives a different listing: {b[:100]}", "listing:not-fixpoint"))
    return fails
