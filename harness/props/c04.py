"""C04 — assembler: labels and pseudo-instructions denote the right instructions."""
from __future__ import annotations
from core import Case, Failure
import rvasmgen

PROP = "C04"
CONSTS = ['ops', 'asm']          # constant tables of the models this property depends on
RULE = ("source texts rendered from abstract programs (real + pseudo instructions, stand-alone and in-line labels incl. on "
        "expanding pseudo-instructions and at the end, forward/backward references, label+hex offset, numeric targets, with/"
        "without segment directives) under independent spelling choices (ABI/xN, mnemonic case, dec/hex/bin/sign, both memory "
        "operand forms, whitespace, comments, blank lines, CRLF); plus fault-injected texts for the model tie; non-trivial = "
        ">=1 label reference or pseudo-instruction; distinct = distinct text")
ASSUMPTIONS = ["pyparsing 3.3.2 behaviour on the RISC-V grammar (modelled by hand-written scanners, tied by this correspondence)"]


def cases(rng, tier):
    n = 350 if tier == "quick" else 5000
    for i in range(n):
        yield rvasmgen.asm_case(rng, fault_prob=0.25)
    # by-name access pairs (the same pseudo-instruction wherever it occurs, whatever came before it), comments with several '#'
    import props.c05 as c05
    import itertools
    for c5 in itertools.chain(c05.byname_sequences(rng), c05.split_boundary_cases(rng)):
        yield Case("asm", [f"asm {rvasmgen.hx(c5.meta['text'])}"], None, {"text": c5.meta["text"], "kind": "valid", "abstract": c5.meta["abstract"]})
    for i in range(12 if tier == "quick" else 200):
        items, decls = rvasmgen.gen_abstract(rng)
        t = rvasmgen.render(rng, items, decls, canonical=True)
        t = "\n".join(l + rng.choice([" # see issue #12", " ## body", " # a # b # c", "#x#", ""]) if l.strip() and not l.strip().startswith(".") and "'" not in l and '"' not in l else l for l in t.split("\n"))
        yield Case("asm", [f"asm {rvasmgen.hx(t)}"], None, {"text": t, "kind": "valid", "abstract": (items, decls)})
    # a well-formed program that fills the instruction memory EXACTLY (4094 lines + one two-instruction pseudo-instruction)
    t = "\n".join(["addi x5, x5, 1"] * 4093 + ["last: li x6, 100000", "beq x0, x0, last"])
    yield Case("asm", [f"asm {rvasmgen.hx(t)}"], None, {"text": t, "kind": "fits-exactly"})
    # sanitize-irrelevance pairs: the canonical rendering and a noisy rendering of the same abstract program
    for i in range(40 if tier == "quick" else 600):
        items, decls = rvasmgen.gen_abstract(rng)
        t1 = rvasmgen.render(rng, items, decls, canonical=True)
        t2 = rvasmgen.render(rng, items, decls, canonical=False)
        yield Case("asm-pair", [f"asm {rvasmgen.hx(t1)}", f"asm {rvasmgen.hx(t2)}"], None, {"text": t1, "text2": t2, "kind": "pair", "abstract": (items, decls)})


def nontrivial(c):
    ab = c.meta.get("abstract")
    if ab and any(it[0] in ("li", "la", "loadv", "storev", "mv") or (it[0] in ("b", "jal") and it[-1][0] == "label") for it in ab[0]):
        return c.meta["text"]
    return None


def measure(c, stats):
    stats.bump("kind=" + c.meta.get("kind", "?"))
    stats.bump("outcome=" + " ".join(c.impl_out[0].split()[:2])[:40] if c.impl_out else "?")


def oracle(c):
    if c.meta.get("kind") == "fits-exactly":
        o = c.impl_out[0] if c.impl_out else ""
        n = len(o.partition(" | ")[0].split()[2].split(";")) if o.startswith("ok ") and len(o.split()) > 2 else 0
        if n != 4096:
            return [Failure("oracle", PROP, f"a well-formed program of exactly 4096 instructions is not placed completely: {o[:80]}", "asm:valid-rejected:exact-fit")]
        return []
    if c.meta.get("kind") == "pair":
        if len(c.impl_out) == 2 and c.lines == [f"asm {rvasmgen.hx(c.meta['text'])}", f"asm {rvasmgen.hx(c.meta['text2'])}"]:
            f = rvasmgen.check_valid(Case("asm", [c.lines[0]], None, c.meta, [c.impl_out[0]]), PROP)
            same = c.impl_out[0] == c.impl_out[1] or (c.impl_out[0].startswith("PE") and c.impl_out[1].startswith("PE")
                                                      and c.impl_out[0].split()[1] == c.impl_out[1].split()[1])   # same error class; line numbers legitimately differ
            if not f and not same:
                f = [Failure("oracle", PROP, f"spelling/comments/blank lines change the result: {c.meta['text']!r} vs {c.meta['text2']!r}", "asm:spelling-changes-result")]
            return f
        return []
    return rvasmgen.check_valid(c, PROP, what=("listing",))
