"""C07 — five-stage retire times and cycle count follow the documented pipeline schedule."""
from __future__ import annotations
from core import Case, Failure
import rvgen
import rvref
import pipe_ref
import impl as implmod
import props.c02 as c02

PROP = "C07"
CONSTS = ['ops', 'ctl']          # constant tables of the models this property depends on
RULE = ("programs of C02 in five-stage mode with hazard detection, the cycle in which each instruction leaves WB and the total "
        "cycle count compared with an independent reference of the documented schedule; straight-line programs of n mutually "
        "independent instructions (n = 0..40) for the n+4 clause; cache configurations with penalties 0-5 for the per-step "
        "increment clause, incl. programs of environment calls (print-string over partly cached strings) under caches with a "
        "penalty > 0; non-trivial = program with >=1 stall or flush, or n>=1; distinct = distinct (program, registers, caches)")
ASSUMPTIONS = ["as C02"]


def straight(rng, n):
    prog = []
    for k in range(n):
        rd = 1 + (k % 30)
        prog.append(rng.choice([rvgen.tok("addi", rd, 0, 0, rng.randrange(-2048, 2048)), rvgen.tok("lui", rd, 0, 0, rng.randrange(2**19)),
                                rvgen.tok("add", rd, 0, 0), rvgen.tok("xori", rd, 0, 0, 5)]))
    lines = rvgen.header("five", True, "-", "-", prog, {}, []) + ["sim.run 1000", "sim.snap"]
    return Case("straight", lines, None, {"mode": "five", "prog": prog, "regs": {}, "pokes": [], "d": "-", "i": "-", "n": n})


def cases(rng, tier):
    for n in ([0, 1, 2, 3, 5, 8, 13, 30] if tier == "quick" else range(0, 41)):
        yield straight(rng, n)
    k = 250 if tier == "quick" else 4000
    for i in range(k):
        c_ = rvgen.sim_case(rng, "five", hazard=True, opts={"wide": i % 4 == 0}, trace=45, run=600, dprob=0.4, iprob=0.4, suite="sim-five")
        yield rvgen.as_text_case(c_) if i % 4 == 3 else c_        # every fourth program goes through the loader
    for prog, regs in rvgen.long_programs(rng, tier):
        yield rvgen.long_case(prog, regs, "five", True, dspec=rvgen.penalty_cache_spec(rng, "d"), ispec=rvgen.penalty_cache_spec(rng, "i"), suite="sim-five")
    for prog, regs in rvgen.store_hit_programs():          # every store width as hit and miss under caches with a penalty
        for mode in ("five",):
            for d in ("wb,plru,1,1,2,3", "wt,lru,1,0,1,2", "wt,plru,0,1,2,5"):
                lines = rvgen.header(mode, True, d, "-", prog, regs, []) + ["sim.snap"] + ["sim.step", "sim.snap"] * 6 + ["sim.run 200", "sim.snap"]
                yield Case("sim-five", lines, None, {"mode": mode, "hazard": True, "prog": prog, "regs": regs, "pokes": [], "d": d, "i": "-"})
    for prog, regs in rvgen.reg_sweep_programs():          # every register number as the register of a dependency
        lines = rvgen.header("five", True, "-", "-", prog, regs, []) + ["sim.snap"]
        for _ in range(len(prog) + 16):
            lines += ["sim.step", "sim.snap"]
        lines += ["sim.run 200", "sim.snap"]
        yield Case("sim-five", lines, None, {"mode": "five", "hazard": True, "prog": prog, "regs": regs, "pokes": [], "d": "-", "i": "-"})
    for prog, regs in rvgen.fault_schedule_programs():          # schedules around faults, drains and squashed instructions
        lines = rvgen.header("five", True, "-", "-", prog, regs, []) + ["sim.snap"]
        for _ in range(16):
            lines += ["sim.step", "sim.snap"]
        lines += ["sim.run 200", "sim.snap"]
        yield Case("sim-five", lines, None, {"mode": "five", "hazard": True, "prog": prog, "regs": regs, "pokes": [], "d": "-", "i": "-"})
    for i in range(20 if tier == "quick" else 300):
        yield rvgen.x0_dest_case(rng, "five", hazard=True, trace=30, run=300, dspec=rvgen.penalty_cache_spec(rng, "d") if i % 2 else "-", suite="sim-five")
    # environment calls (print-string reads through the data cache without being counted) under caches with a penalty
    for i in range(40 if tier == "quick" else 600):
        yield rvgen.ecall_case(rng, "five", hazard=True, trace=45, run=300, dspec=rvgen.penalty_cache_spec(rng, "d"),
                               ispec=rvgen.penalty_cache_spec(rng, "i") if i % 3 == 0 else "-", suite="sim-five-ecall")


nontrivial = c02.nontrivial


def measure(c, stats):
    stats.bump("suite=" + c.suite)
    c02.measure(c, stats)


def _misses(d):
    """(data cache misses, instruction cache misses) counted so far, from a snapshot"""
    dm = im = 0
    if d["mem"].startswith("dc|"):
        h, a, _ = d["mem"].split("|")[1].split()
        dm = int(a) - int(h)
    if d["ic"] != "-":
        h, a, _ = d["ic"].split("|")[0].split()
        im = int(a) - int(h)
    return dm, im


def _configured_penalties(c):
    import simspy
    r = simspy.run(c)
    if r is None or r["fault"]:
        return []
    if r["cycles"] != r["cycles_ref"]:
        return [Failure("oracle", PROP, f"{r['cycles']} cycles for {r['steps']} steps; one per step plus the configured penalty for every miss of a cache of the CONFIGURED geometry gives {r['cycles_ref']} ({r['mode']})", "schedule:penalty-vs-configured")]
    return []


def oracle(c):
    f_ = _configured_penalties(c)
    if f_:
        return f_
    fails = []
    new = next((l for l in c.lines if l.startswith("sim.new")), None)
    if new is None or not any(l.startswith("sim.prog") for l in c.lines):
        return fails
    _, mode, hz, dspec, ispec = new.split()
    # (1) n + 4
    if c.suite == "straight" and c.impl_out and c.impl_out[-1].startswith("pc="):
        n = len(rvref.prog_of_lines(c.lines))
        d = rvgen.parse_snap(c.impl_out[-1])
        if int(d["cyc"]) != (n + 4 if n else 0) or int(d["ins"]) != n:
            fails.append(Failure("oracle", PROP, f"{n} independent instructions took {d['cyc']} cycles (documented: n+4 = {n + 4})", "schedule:n-plus-4"))
        return fails
    # (2) per-step cycle increment = 1 + penalties of the misses of that step
    dpen = int(dspec.split(",")[5]) if dspec != "-" else 0
    ipen = int(ispec.split(",")[4]) if ispec != "-" else 0
    prev = None
    between = []
    for l, o in zip(c.lines, c.impl_out):
        if l == "sim.snap" and o.startswith("pc="):
            d = rvgen.parse_snap(o)
            if prev is not None and len(between) == 1 and between[0][0] == "sim.step" and between[0][1].startswith("ok"):
                noop = between[0][1] == "ok 0" and d["cyc"] == prev["cyc"] and o == prev_raw      # step on a finished simulation
                dm0, im0 = _misses(prev)
                dm1, im1 = _misses(d)
                exp = int(prev["cyc"]) + 1 + dpen * (dm1 - dm0) + ipen * (im1 - im0)
                if int(d["cyc"]) != exp and not noop:
                    fails.append(Failure("oracle", PROP, f"a step advanced the cycle counter from {prev['cyc']} to {d['cyc']}; expected {exp} (1 + miss penalties)", "schedule:cycle-increment"))
                    return fails
            prev, prev_raw = d, o
            between = []
        else:
            between.append((l, o))
    # (3) retire cycle of every instruction vs the documented schedule
    a = c02.run_mode(c, "five", True, limit=1500)
    if a["fault"] is not None and c.suite != "straight":
        # an instruction that raises never retires. If neither the documented schedule (interlocked reference) nor the real
        # single-cycle run raises anywhere, the pipeline has let an instruction run ahead of the schedule (e.g. a consumer
        # that was not held back in decode read a stale base register)
        first = next((o for l, o in zip(c.lines, c.impl_out) if l == "sim.snap" and o.startswith("pc=")), None)
        b = c02.run_mode(c, "single", True, limit=1500)
        if first is not None and b["fault"] is None and b["done"]:
            d0 = rvgen.parse_snap(first)
            regs = {i: int(v) for i, v in enumerate(d0["regs"].split(","))}
            ref = pipe_ref.PipeRef(rvref.parse_prog(rvref.prog_of_lines(c.lines)), regs, rvref.mem_of_snap(d0), hazard=True)
            try:
                while not ref.done() and ref.cycle < 3000:
                    ref.step()
            except rvref.Fault:
                return fails
            if ref.done():
                fails.append(Failure("oracle", PROP, f"the five-stage run raises ({a['fault']}) where every instruction of the documented schedule retires ({len(ref.retired)} retirements, {ref.cycle} cycles) and the single-cycle run finishes", "schedule:retire-time"))
        return fails
    if a["fault"] is not None or not a["done"]:
        return fails
    first = next(o for l, o in zip(c.lines, c.impl_out) if l == "sim.snap")
    d0 = rvgen.parse_snap(first)
    regs = {i: int(v) for i, v in enumerate(d0["regs"].split(","))}
    ref = pipe_ref.PipeRef(rvref.parse_prog(rvref.prog_of_lines(c.lines)), regs, rvref.mem_of_snap(d0), hazard=True)
    try:
        while not ref.done() and ref.cycle < (30000 if c.meta.get("long") else 3000):
            ref.step()
    except rvref.Fault:
        return fails
    # the implementation's retire cycles
    im = implmod.Impl()
    im.run(f"sim.new five 1 - -")
    for l in c.lines:
        if l.split()[0] in ("sim.prog", "sim.load", "sim.reg", "sim.poke"):
            im.run(l)
    got = []
    k = 0
    while not im.sim.is_done() and k < (30000 if c.meta.get("long") else 3000):
        im.sim.step()
        k += 1
        r = im.sim.state.pipeline.pipeline_registers[4]
        if not isinstance(r.instruction, implmod.EmptyInstruction):
            got.append((k, r.address_of_instruction))
    if got != ref.retired:
        j = next((i for i, (x, y) in enumerate(zip(got, ref.retired)) if x != y), min(len(got), len(ref.retired)))
        fails.append(Failure("oracle", PROP, f"retirement #{j}: implementation (cycle, address) = {got[j] if j < len(got) else None}, documented schedule = {ref.retired[j] if j < len(ref.retired) else None}", "schedule:retire-time"))
    elif k != ref.cycle:
        fails.append(Failure("oracle", PROP, f"run finished after {k} cycles, documented schedule needs {ref.cycle}", "schedule:total-cycles"))
    return fails


# The counter lines of the performance-metrics TEXT are part of the model (`SimViews.metricsLines` / `toyMetricsLines`): what the
# user reads is compared at the end of every case.
_cases_nometrics = cases


def cases(rng, tier):
    for c in _cases_nometrics(rng, tier):
        if any(l == "sim.snap" for l in c.lines):
            # in front of the final snapshot only: the oracles pair every step with the snapshot behind it and read the last output
            c.lines = c.lines[:-1] + ["sim.metrics", c.lines[-1]] if c.lines[-1] == "sim.snap" and c.suite != "straight" else c.lines
        yield c


def _metrics_oracle(c, op, snapname, fields):
    """the counter lines of the metrics text denote the counters of the state (the snapshot next to the call)"""
    outs = list(zip(c.lines, c.impl_out))
    for k, (l, o) in enumerate(outs):
        if l != op or not o or o.startswith(("X", "bad")):
            continue
        near = next((oo for ll, oo in outs[k + 1:k + 2] if ll == snapname), None) or next((oo for ll, oo in reversed(outs[:k]) if ll == snapname), None)
        if near is None:
            continue
        d = {}
        for part in near.split("|"):
            a, _, b = part.partition("=")
            d.setdefault(a, b)
        try:
            shown = [bytes.fromhex(x).decode() for x in o.split("|")]
        except ValueError:
            continue
        want = [f"{label}: {d[key]}{trail}" for label, key, trail in fields if key in d]
        if len(want) == len(fields) and shown != want:
            return [Failure("oracle", PROP, f"the performance-metrics text shows {shown}; the counters of the state are {want}", "metrics:text")]
    return []

_METRICS = ("sim.metrics", "sim.snap", [("instructions", "ins", " "), ("branches", "br", ""), ("procedures", "pr", ""), ("cycles", "cyc", ""), ("stalls", "st", ""), ("flushes", "fl", "")])

_oracle_nometrics = oracle


def oracle(c):
    return _oracle_nometrics(c) or _metrics_oracle(c, *_METRICS)
