"""C15 — errors are well-typed: parser errors carry the line, run-time errors the address."""
from __future__ import annotations
from core import Case, Failure
import rvasmgen
import toyasmgen
import rvgen

PROP = "C15"
CONSTS = ['ops', 'asm', 'toy', 'mem']          # constant tables of the models this property depends on
RULE = ("RISC-V and TOY texts: grammar-derived programs with injected lexical/structural faults (leading-zero, empty-prefix, "
        "oversized and non-ASCII numerals and mnemonics, unknown labels/variables/directives, duplicated/misplaced segments, "
        "character damage), random token soups, programs that do not fit the memory; and generated RISC-V programs that fault "
        "at run time (illegal data address, crossing access under a cache, invalid ecall code) in both pipeline modes; "
        "non-trivial = load fails or program faults; distinct = distinct text/program")
ASSUMPTIONS = ["termination and exception-freedom of pyparsing itself on the modelled grammar subset",
               "'existing line' is measured as the code measures it, by str.splitlines"]

SOUP = ["add", "addi", "li", "la", "lw", "sw", "beq", "jal", "nop", "ecall", "x1", "x31", "x32", "sp", "t0", ",", ",", "(", ")", ":", ".", ".data", ".text",
        ".word", ".byte", ".string", ".zero", "\"s\"", "'", "#", "0", "01", "-1", "0x", "0x1f", "0b1", "99999999999", "foo", "foo:", "[", "]", "[1]", "+", "+0x4",
        "\n", "\n", "\n", " ", "\t", "ſ", "ı", "é", "\x0b", "\r", "STO", "LDA", "BRZ", "INC", "x:"]


def soup(rng):
    return "".join(rng.choice(SOUP) + rng.choice(["", " ", " "]) for _ in range(rng.choice([3, 8, 20, 50])))


def cases(rng, tier):
    n = 250 if tier == "quick" else 5000
    for _ in range(n):
        yield rvasmgen.asm_case(rng, fault_prob=0.85, suite="rv-text")
    for f in rvasmgen.FAULT_LINES:
        yield Case("rv-text", [f"asm {rvasmgen.hx(f)}", f"asm {rvasmgen.hx('.data' + chr(10) + f + chr(10) + '.text' + chr(10) + 'nop')}"], None, {"text": f, "kind": "fault-line"})
    for f in toyasmgen.FAULTS:
        yield Case("toy-text", ["toy.new", f"toy.asm {toyasmgen.hx(f)}", f"toy.asm {toyasmgen.hx('.data' + chr(10) + f + chr(10) + '.text' + chr(10) + 'INC')}"], None, {"text": f, "kind": "fault-line"})
    for _ in range(120 if tier == "quick" else 3000):
        t = soup(rng)
        yield Case("rv-text", [f"asm {rvasmgen.hx(t)}"], None, {"text": t, "kind": "soup"})
        yield Case("toy-text", ["toy.new", f"toy.asm {toyasmgen.hx(t)}"], None, {"text": t, "kind": "soup"})
    for _ in range(120 if tier == "quick" else 2000):
        c = toyasmgen.gen_case(rng)
        c.suite = "toy-text"
        yield c
    # a program that fits EXACTLY, then programs that do not fit
    yield Case("rv-text", [f"asm {rvasmgen.hx(chr(10).join(['nop'] * 4096))}"], None, {"text": "nop*4096", "kind": "fits-exactly"})
    big = "\n".join(["nop"] * 4097)
    yield Case("rv-text", [f"asm {rvasmgen.hx(big)}"], None, {"text": "nop*4097", "kind": "too-big"})
    bigt = "\n".join(["INC"] * 4097)
    yield Case("toy-text", ["toy.new", f"toy.asm {toyasmgen.hx(bigt)}", f"toy.asm {toyasmgen.hx('x: .word ' + ','.join(['1'] * 4097))}",
                            f"toy.asm {toyasmgen.hx('.data' + chr(10) + 'x: .word ' + ','.join(['1'] * 4000) + chr(10) + '.text' + chr(10) + chr(10).join(['INC'] * 200))}"],
               None, {"text": "INC*4097", "kind": "too-big"})
    yield Case("rv-text", [f"asm {rvasmgen.hx('.data' + chr(10) + 'z: .zero 1073741823' + chr(10) + 'w: .word 1, 2' + chr(10) + '.text' + chr(10) + 'nop')}"], None, {"text": "zero-wrap", "kind": "too-big"})
    # instructions outside the supported set that a user can still assemble and RUN: whatever fails must fail well-typed
    for text in ("nop\nebreak\nnop", "fence x1, x2\nnop", "csrrw x1, 0x300, x2", "nop\ncsrrwi x1, 0x300, 5\nnop", "csrrs x0, 0xC00, x0",
                 "addi x1, x0, 1\nebreak", "li a7, 93\nfence x0, x0\necall", "csrrc x5, 0x0, x6\nebreak"):
        yield Case("rv-run-unsupported", [f"asm {rvasmgen.hx(text)}"], None, {"text": text, "kind": "run-unsupported"})
    # run-time faults in every pipeline situation (stalled decode, ecall drain, squashed), independent of the seed
    for prog, regs in rvgen.fault_schedule_programs():
        for mode in ("five", "single"):
            lines = rvgen.header(mode, True, "-", "-", prog, regs, []) + ["sim.run 200", "sim.snap"]
            yield Case("rv-run-" + mode, lines, None, {"mode": mode, "hazard": True, "prog": prog, "regs": regs, "pokes": [], "d": "-", "i": "-"})
    # the same fault schedules under data caches of both kinds (incl. one-word blocks, where a store replaces a whole block):
    # the cache must refuse an address outside the data memory AT the instruction that uses it
    for prog, regs in rvgen.fault_schedule_programs():
        for k, d in enumerate(("wb,lru,0,0,1,0", "wb,plru,1,1,2,0", "wt,lru,1,0,1,0", "wt,plru,0,2,2,2")):
            mode = "five" if (k + len(prog)) % 2 else "single"
            lines = rvgen.header(mode, True, d, "-", prog, regs, []) + ["sim.run 200", "sim.snap"]
            yield Case("rv-run-cached", lines, None, {"mode": mode, "hazard": True, "prog": prog, "regs": regs, "pokes": [], "d": d, "i": "-"})
    # run-time faults
    for i in range(150 if tier == "quick" else 3000):
        mode = "five" if i % 2 else "single"
        yield rvgen.sim_case(rng, mode, hazard=True, opts={"wide": False}, trace=0, run=500, dprob=0.5, iprob=0.2, suite="rv-run-" + mode)


def nontrivial(c):
    bad = [o for o in c.impl_out if o.startswith("PE") or o.startswith("ME") or " F " in o or o.startswith("F ")]
    return "\n".join(c.lines)[:2000] if bad else None


def measure(c, stats):
    stats.bump("suite=" + c.suite)
    for o in c.impl_out:
        if o.startswith("PE"):
            stats.bump("error=" + o.split()[1])
        elif o.startswith("ME"):
            stats.bump("error=ME-" + o.split()[1])
        elif " F " in o or o.startswith("F "):
            t = o.split()
            stats.bump("fault=" + t[t.index("F") + 4])
        elif o.startswith("X") or " X " in o:
            stats.bump("ILL-TYPED")


def _unsupported_oracle(c):
    """run the text on the real simulation in both modes: an exception leaving run() must be the instruction-execution
    error carrying the address of an instruction of the program and its printed form"""
    from architecture_simulator.simulation.riscv_simulation import RiscvSimulation
    from architecture_simulator.simulation.runtime_errors import InstructionExecutionException
    text = c.meta["text"]
    for mode in ("single_stage_pipeline", "five_stage_pipeline"):
        sim = RiscvSimulation(mode=mode)
        try:
            sim.load_program(text)
        except Exception:
            return []
        listing = {int(a): t for (a, _h), t, _s in sim.get_instruction_memory_entries()}
        try:
            k = 0
            while not sim.is_done() and k < 300:
                sim.step(); k += 1
        except InstructionExecutionException as e:
            if not isinstance(e.address, int) or e.address not in listing:
                return [Failure("oracle", PROP, f"run-time error names address {e.address!r}, which holds no instruction -- {text!r} ({mode})", "run:bad-address")]
            if e.instruction_repr != listing[e.address]:
                return [Failure("oracle", PROP, f"run-time error at {e.address} prints {e.instruction_repr!r}, the listing shows {listing[e.address]!r} -- {text!r} ({mode})", "run:wrong-instruction")]
        except Exception as e:
            return [Failure("oracle", PROP, f"run-time failure escaped as {type(e).__name__} -- {text!r} ({mode})", "run:ill-typed")]
    return []


def oracle(c):
    if c.meta.get("kind") == "run-unsupported":
        return _unsupported_oracle(c)
    if c.meta.get("kind") == "fits-exactly":
        o = c.impl_out[0] if c.impl_out else ""
        if not o.startswith("ok"):
            return [Failure("oracle", PROP, f"a program of exactly 4096 instructions (it fits the instruction memory) is refused: {o[:80]}", "load:fitting-program-refused")]
        return []
    fails = []
    for l, o in zip(c.lines, c.impl_out):
        if l.startswith("asm ") or l.startswith("toy.asm ") or l.startswith("sim.load "):
            try:
                h = l.split()[1]
                text = "" if h == "." else bytes.fromhex(h).decode()
            except Exception:
                continue
            which = "TOY" if l.startswith("toy") else "RISC-V"
            if o.startswith("X"):
                fails.append(Failure("oracle", PROP, f"{which} load raised {o.split()[1]} (neither a parser error nor the memory error) for text {text[:200]!r}", "load:ill-typed:" + o.split()[1]))
            elif o.startswith("PE") and o.split()[2] == "illtyped":
                fails.append(Failure("oracle", PROP, f"{which} parser error {o.split()[1]} carries ill-typed fields ({o.split(' ', 3)[3][:160]}) for text {text[:200]!r}", "load:ill-typed-fields"))
            elif o.startswith("PE"):
                t = o.split()
                ln = int(t[2])
                lines = text.splitlines()
                errline = "" if t[3] == "." else bytes.fromhex(t[3]).decode()
                if not (1 <= ln <= len(lines)):
                    fails.append(Failure("oracle", PROP, f"{which} parser error {t[1]} names line {ln} of a {len(lines)}-line text {text[:200]!r}", "load:line-out-of-range"))
                elif errline != lines[ln - 1].split("#", 1)[0].strip():
                    fails.append(Failure("oracle", PROP, f"{which} parser error {t[1]} line {ln} carries {errline!r}, the text has {lines[ln - 1]!r}", "load:wrong-line-text"))
        elif l.startswith("sim.step") or l.startswith("sim.run"):
            if o.startswith("X") or " X " in o:
                fails.append(Failure("oracle", PROP, f"run-time failure escaped as {o}", "run:ill-typed"))
            elif o.startswith("F ") or " F " in o:
                t = o.split()
                i = t.index("F")
                prog = []
                for x in c.lines:
                    if x.startswith("sim.prog"):
                        prog = x.split()[1:]
                if t[i + 1] == "-":
                    fails.append(Failure("oracle", PROP, f"run-time error without an instruction address: {o}", "run:no-address"))
                    continue
                a = int(t[i + 1])
                if prog and (a % 4 or not (0 <= a // 4 < len(prog))):
                    fails.append(Failure("oracle", PROP, f"run-time error names address {a}, which holds no instruction", "run:bad-address"))
                elif prog:
                    import impl as implmod
                    want = implmod.instr_repr_hex(implmod.make_instr(prog[a // 4]))
                    if t[i + 2] != want:
                        fails.append(Failure("oracle", PROP, f"run-time error at {a} prints another instruction than the one stored there", "run:wrong-instruction"))
        if fails:
            break
    if not fails and c.suite == "rv-run-cached":
        # an address outside the data memory is refused at the instruction that uses it, with or without a data cache
        import impl as implmod
        new = c.lines[0].split()
        plain = implmod.run_lines([" ".join(new[:3] + ["-", "-"])] + c.lines[1:])
        fo = next((o for l, o in zip(c.lines, plain) if l.startswith("sim.run") and " F " in o and " E addr " in o), None)
        fc = next((o for l, o in zip(c.lines, c.impl_out) if l.startswith("sim.run")), "")
        if fo is not None:
            a = fo.split()[fo.split().index("F") + 1]
            got = fc.split()[fc.split().index("F") + 1] if " F " in fc else None
            if got != a and " E byteoff " not in fc:
                fails.append(Failure("oracle", PROP, f"without a data cache the access outside the data memory is reported at instruction address {a}; with the cache {new[3]} the run answers `{fc[:80]}`", "run:fault-not-at-instruction"))
    return fails
