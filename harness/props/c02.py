"""C02 — five-stage pipeline with hazard detection = single-cycle mode.
Correspondence: `Model.Pipe.step` vs the real pipeline, full latch + stall-bookkeeping snapshot after every cycle
(ties the control model cycle-accurately) and `splitStep` vs the real split functions run back to back (data path).
Oracle: real single-cycle vs real five-stage simulation on the same program and initial state."""
from __future__ import annotations
from core import Case, Failure
import rvgen
import impl as implmod

PROP = "C02"
CONSTS = ['ops', 'ctl', 'mem']          # constant tables of the models this property depends on
RULE = ("generated programs from a hazard-complete alphabet over a six-register pool (RAW/WAW at distance 1,2,3 constantly), "
        "loads/stores, forward/backward branches, JAL/JALR incl. rd=rs1 and wrap-around targets, ecalls of every code with "
        "younger instructions behind exits, faulting accesses and invalid ecall codes; with and without data/instruction "
        "caches; five-stage with hazard detection traced cycle by cycle; thorough adds every instruction sequence up to "
        "length 3 over a reduced hazard alphabet; non-trivial = program retires >=3 instructions and has a stall or a flush; "
        "distinct = distinct (program, registers, memory, cache configuration)")
ASSUMPTIONS = ["same as C01", "bubbles of different Python classes are canonicalised to one empty latch (all fields None)"]

HAZARD = True


def split_cases(rng, tier):
    """data path: every instruction executed once through behavior() and once through the split functions"""
    for prog, regs in rvgen.long_programs(rng, tier):          # thousands of cycles, with and without caches
        yield rvgen.long_case(prog, regs, "five", HAZARD, suite="sim-five")
        yield rvgen.long_case(prog, regs, "five", HAZARD, dspec=rvgen.penalty_cache_spec(rng, "d"), ispec=rvgen.penalty_cache_spec(rng, "i"), suite="sim-five")
    for prog, regs in rvgen.reg_sweep_programs():          # every register number as the register of a dependency
        lines = rvgen.header("five", HAZARD, "-", "-", prog, regs, []) + ["sim.snap"]
        for _ in range(len(prog) + 16):
            lines += ["sim.step", "sim.snap"]
        lines += ["sim.run 200", "sim.snap"]
        yield Case("sim-five", lines, None, {"mode": "five", "hazard": HAZARD, "prog": prog, "regs": regs, "pokes": [], "d": "-", "i": "-"})
    for prog, regs in rvgen.fault_schedule_programs():      # faults in every pipeline situation: same fault, same state in both modes
        lines = rvgen.header("five", HAZARD, "-", "-", prog, regs, []) + ["sim.snap"]
        for _ in range(14):
            lines += ["sim.step", "sim.snap"]
        lines += ["sim.run 200", "sim.snap"]
        yield Case("sim-five", lines, None, {"mode": "five", "hazard": HAZARD, "prog": prog, "regs": regs, "pokes": [], "d": "-", "i": "-"})
    import props.c01 as c01
    for c in c01.rv1_cases(rng, tier):
        hdr = [l for l in c.lines if not l.startswith("sim.s")]
        yield Case("rv1-split", hdr + ["sim.split", "sim.arch"], None, dict(c.meta, kind="split"))


def cases(rng, tier):
    yield from split_cases(rng, tier)
    n = 300 if tier == "quick" else 5000
    for i in range(n):
        c_ = rvgen.sim_case(rng, "five", hazard=HAZARD, opts={"wide": i % 4 == 0}, trace=45, run=600, suite="sim-five")
        yield rvgen.as_text_case(c_) if i % 4 == 3 else c_        # every fourth program goes through the loader
    for i in range(n // 3):
        yield rvgen.chain_case(rng, "five", hazard=HAZARD, trace=30, run=300, dspec=rvgen.cache_spec(rng, "d", 0.3), suite="sim-five")
    for prog, regs in rvgen.fault_schedule_programs():      # faults in every pipeline situation: same fault, same state in both modes
        lines = rvgen.header("five", HAZARD, "-", "-", prog, regs, []) + ["sim.snap"]
        for _ in range(14):
            lines += ["sim.step", "sim.snap"]
        lines += ["sim.run 200", "sim.snap"]
        yield Case("sim-five", lines, None, {"mode": "five", "hazard": HAZARD, "prog": prog, "regs": regs, "pokes": [], "d": "-", "i": "-"})
    import props.c01 as c01
    for c in c01.cross_cases(rng, tier, "five", HAZARD):        # the stage-split implementations on the boundary cross product
        c.suite = "sim-five"
        yield c
    for i in range(n // 10):
        yield rvgen.x0_dest_case(rng, "five", hazard=HAZARD, trace=30, run=300, dspec=rvgen.cache_spec(rng, "d", 0.5), suite="sim-five")
    for i in range(n // 6):
        yield rvgen.ecall_case(rng, "five", hazard=HAZARD, trace=40, run=300, dspec=rvgen.cache_spec(rng, "d", 0.3), suite="sim-five")
    if tier == "thorough":
        import itertools
        alpha = ["addi,1,0,0,5,0", "add,5,1,1,0,0", "lw,1,2,0,0,0", "sw,0,2,1,4,0", "beq,0,1,5,8,8", "jal,1,0,0,8,8",
                 "ecall,0,0,0,0,0", "addi,17,0,0,10,0", "jalr,5,1,0,4,0", "sub,1,5,1,0,0", "bne,0,1,0,-4,-4"]
        for seq in itertools.product(alpha, repeat=3):
            prog = list(seq)
            for k, t in enumerate(prog):
                if t.startswith("jal,"):
                    prog[k] = f"jal,1,0,0,8,{4 * k + 8}"
            regs = {1: 4, 2: rvgen.DATA, 5: 8, 10: 65, 17: 11}
            lines = rvgen.header("five", HAZARD, "-", "-", prog, regs, [])
            lines.append("sim.snap")
            for _ in range(24):
                lines += ["sim.step", "sim.snap"]
            lines += ["sim.run 200", "sim.snap"]
            yield Case("sim-five-exh", lines, None, {"mode": "five", "hazard": HAZARD, "prog": prog, "regs": regs, "pokes": [], "d": "-", "i": "-"})


def nontrivial(c):
    if c.meta.get("kind") == "split":
        return ("split", tuple(c.meta["prog"]), tuple(sorted(c.meta["regs"].items())))
    last = rvgen.parse_snap(c.impl_out[-1]) if c.impl_out and c.impl_out[-1].startswith("pc=") else {}
    if int(last.get("ins", 0)) >= 3 and (int(last.get("st", 0)) + int(last.get("fl", 0))) >= 1:
        return (tuple(c.meta["prog"]), tuple(sorted(c.meta["regs"].items())), tuple(c.meta["pokes"]), c.meta["d"], c.meta["i"])
    return None


def measure(c, stats):
    stats.bump("suite=" + c.suite)
    if c.meta.get("kind") == "split":
        return
    last = rvgen.parse_snap(c.impl_out[-1]) if c.impl_out and c.impl_out[-1].startswith("pc=") else {}
    stats.bump("stalls", int(last.get("st", 0)))
    stats.bump("flushes", int(last.get("fl", 0)))
    stats.bump("retired", int(last.get("ins", 0)))
    if any(o.startswith("F") or " F " in o for o in c.impl_out):
        stats.bump("faulting_programs")
    if c.meta.get("d") != "-":
        stats.bump("with_dcache")
    if c.meta.get("i") != "-":
        stats.bump("with_icache")


def run_mode(c, mode, hazard, limit=4000, nocache=False, noicache=False):
    """Run the case's program on a fresh real simulation in the given mode until done / fault / limit.
    Returns dict(final snapshot fields, retire order, fault, cycles)."""
    if c.meta.get("long"):
        limit = max(limit, 30000)          # the long-run suite needs its thousands of steps
    im = implmod.Impl()
    hdr = [l for l in c.lines if l.split()[0] in ("sim.prog", "sim.load", "sim.reg", "sim.poke")]
    new = next(l for l in c.lines if l.startswith("sim.new")).split()
    im.run(f"sim.new {mode} {1 if hazard else 0} {'-' if nocache else new[3]} {'-' if nocache or noicache else new[4]}")
    for l in hdr:
        im.run(l)
    sim = im.sim
    retired, fault = [], None
    k = 0
    while k < limit and not sim.is_done():
        pc_before = sim.state.program_counter
        o = im.run("sim.step")
        k += 1
        if o.startswith("F") or o.startswith("X"):
            fault = o
            break
        if mode == "single":
            retired.append(pc_before)
        else:
            r = sim.state.pipeline.pipeline_registers[4]
            if not isinstance(r.instruction, implmod.EmptyInstruction):
                retired.append(r.address_of_instruction)
    d = rvgen.parse_snap(im.run("sim.arch"))
    return {"d": d, "retired": retired, "fault": fault, "done": sim.is_done(), "steps": k}


def compare_modes(c, prop, hazard, what="five-stage with hazard detection"):
    fails = []
    if c.meta.get("kind") == "split" or not any(l.startswith("sim.prog") for l in c.lines):
        return fails
    a = run_mode(c, "single", True)
    b = run_mode(c, "five", hazard, limit=8 * (a["steps"] + 2) + 40 if a["done"] or a["fault"] else 4000)
    sig = lambda s: s
    if a["fault"] is None and a["done"]:
        if b["fault"] is not None:
            fails.append(Failure("oracle", prop, f"{what} raised `{b['fault']}` where single-cycle mode finishes", sig("modes:spurious-fault")))
        elif not b["done"]:
            fails.append(Failure("oracle", prop, f"{what} does not terminate within {b['steps']} cycles; single-cycle mode needs {a['steps']} steps", sig("modes:no-termination")))
    elif a["fault"] is not None:
        if b["fault"] is None:
            fails.append(Failure("oracle", prop, f"single-cycle faults with `{a['fault']}`, {what} does not", sig("modes:missing-fault")))
        elif a["fault"].split()[:2] != b["fault"].split()[:2] or a["fault"].split()[3:5] != b["fault"].split()[3:5]:
            fails.append(Failure("oracle", prop, f"fault differs: single `{a['fault']}`, {what} `{b['fault']}`", sig("modes:fault-differs")))
    elif not a["done"]:
        return fails          # non-terminating program (step limit): nothing to compare
    if fails:
        return fails
    da, db = a["d"], b["d"]
    keys = ["regs", "out", "exit"] + ([] if a["fault"] else ["ins", "br", "pr"])
    for k in keys:
        if da[k] != db[k]:
            fails.append(Failure("oracle", prop, f"{what}: {k} = {db[k][:200]} but single-cycle mode gives {da[k][:200]}", sig("modes:" + k)))
            return fails
    ma = da["mem"].split("|")
    mb = db["mem"].split("|")
    if ma[-1] != mb[-1]:
        fails.append(Failure("oracle", prop, f"{what}: backing data memory differs from single-cycle mode", sig("modes:memory")))
    elif not a["fault"] and da["mem"] != db["mem"]:
        fails.append(Failure("oracle", prop, f"{what}: data cache state/counters differ from single-cycle mode: {db['mem'][:160]} vs {da['mem'][:160]}", sig("modes:dcache")))
    elif not a["fault"] and a["retired"] != b["retired"]:
        fails.append(Failure("oracle", prop, f"{what}: retire order {b['retired'][:12]} != execution order {a['retired'][:12]}", sig("modes:retire-order")))
    return fails


def oracle(c):
    return compare_modes(c, PROP, True)


# The counter lines of the performance-metrics TEXT are part of the model (`SimViews.metricsLines` / `toyMetricsLines`): what the
# user reads is compared at the end of every case.
_cases_nometrics = cases


def cases(rng, tier):
    for c in _cases_nometrics(rng, tier):
        if any(l == "sim.snap" for l in c.lines):
            # in front of the final snapshot only: the oracles pair every step with the snapshot behind it and read the last output
            c.lines = c.lines[:-1] + ["sim.metrics", c.lines[-1]] if c.lines[-1] == "sim.snap" and c.suite != "straight" else c.lines
        yield c


def _metrics_oracle(c, op, snapname, fields):
    """the counter lines of the metrics text denote the counters of the state (the snapshot next to the call)"""
    outs = list(zip(c.lines, c.impl_out))
    for k, (l, o) in enumerate(outs):
        if l != op or not o or o.startswith(("X", "bad")):
            continue
        near = next((oo for ll, oo in outs[k + 1:k + 2] if ll == snapname), None) or next((oo for ll, oo in reversed(outs[:k]) if ll == snapname), None)
        if near is None:
            continue
        d = {}
        for part in near.split("|"):
            a, _, b = part.partition("=")
            d.setdefault(a, b)
        try:
            shown = [bytes.fromhex(x).decode() for x in o.split("|")]
        except ValueError:
            continue
        want = [f"{label}: {d[key]}{trail}" for label, key, trail in fields if key in d]
        if len(want) == len(fields) and shown != want:
            return [Failure("oracle", PROP, f"the performance-metrics text shows {shown}; the counters of the state are {want}", "metrics:text")]
    return []

_METRICS = ("sim.metrics", "sim.snap", [("instructions", "ins", " "), ("branches", "br", ""), ("procedures", "pr", ""), ("cycles", "cyc", ""), ("stalls", "st", ""), ("flushes", "fl", "")])

_oracle_nometrics = oracle


def oracle(c):
    return _oracle_nometrics(c) or _metrics_oracle(c, *_METRICS)
