"""C11 — instruction cache is transparent and its fetch accounting matches a reference."""
from __future__ import annotations
from core import Case, Failure
import rvgen
import rvref
import tagref
import impl as implmod
import props.c02 as c02

PROP = "C11"
CONSTS = ['mem']          # constant tables of the models this property depends on
RULE = ("programs of C02 (incl. loops larger and smaller than the cache, branches into the middle of a block) with random "
        "instruction-cache geometries/policies/penalties in both modes, snapshot (incl. every cached block and the counters) "
        "after every step; sequences of program loads; non-trivial = program with >=1 icache hit and >=1 miss; distinct = "
        "distinct (program, configuration)")
ASSUMPTIONS = ["as C02"]


def cases(rng, tier):
    n = 260 if tier == "quick" else 4000
    for i in range(n):
        c = rvgen.sim_case(rng, "five" if i % 2 else "single", hazard=True, opts={"n": rng.choice([3, 6, 12, 20, 30])}, trace=30, run=600, dprob=0.2, iprob=1.0, suite="sim-icache")
        if i % 5 == 0:
            # reload: a second program into the same simulation object -> cache and counters of the first must be gone
            prog2, regs2, pokes2 = rvgen.gen_program(rng, {"n": 4})
            c.lines += ["sim.prog " + " ".join(prog2), "sim.snap"]
            c.meta["reload"] = True
        yield c
    for prog, regs in rvgen.long_programs(rng, tier):          # loops larger and smaller than the cache, thousands of fetches
        for mode in ("single", "five"):
            ispec = f"{rng.choice(['lru', 'plru'])},{rng.choice([0, 1, 2])},{rng.choice([0, 1, 2])},{rng.choice([1, 2, 4])},{rng.choice([0, 3])}"
            yield rvgen.long_case(prog, regs, mode, True, ispec=ispec, suite="sim-icache")
    # reload and RUN the second program: (a) a longer straight-line program continued at the pc the first one stopped at,
    # (b) the pc put back to 0 — in both cases nothing of the first program may be fetched or counted
    for i in range(40 if tier == "quick" else 600):
        mode = "five" if i % 2 else "single"
        n1 = rng.choice([1, 2, 3, 5, 6])
        n2 = n1 + rng.choice([1, 2, 3, 6])
        p1 = [rvgen.tok("addi", 1 + k % 5, 0, 0, k + 1) for k in range(n1)]
        p2 = [rvgen.tok("addi", 6 + k % 5, 0, 0, 100 + k) for k in range(n2)]
        ispec = f"{rng.choice(['lru', 'plru'])},{rng.choice([0, 1])},{rng.choice([1, 2, 3])},{rng.choice([1, 2])},{rng.choice([0, 3])}"
        lines = [f"sim.new {mode} 1 - {ispec}", "sim.prog " + " ".join(p1), "sim.snap", "sim.run 200", "sim.snap", "sim.prog " + " ".join(p2)]
        if i % 4 >= 2:
            lines.append("sim.pc 0")
        lines.append("sim.snap")
        for _ in range(6):
            lines += ["sim.step", "sim.snap"]
        lines += ["sim.run 200", "sim.snap"]
        yield Case("sim-icache-reload", lines, None, {"mode": mode, "reload": True, "prog": p1, "regs": {}, "pokes": [], "d": "-", "i": ispec, "hazard": True})


_cases0 = cases


def cases(rng, tier):
    yield from _cases0(rng, tier)
    # a load that FAILS after the instruction cache was used (the caller catches the error and carries on): nothing of the
    # previous program may remain in the cache or its counters; the next program is then stored instruction by instruction
    # through the public per-instruction entry point and run
    import rvasmgen
    for i in range(16 if tier == "quick" else 200):
        mode = "five" if i % 2 else "single"
        n1 = rng.choice([2, 4, 6])
        p1 = [rvgen.tok("addi", 1 + k % 5, 0, 0, k + 1) for k in range(n1)]
        p2 = [rvgen.tok("addi", 6 + k % 5, 0, 0, 100 + k) for k in range(rng.choice([2, 3, 5]))]
        ispec = f"{rng.choice(['lru', 'plru'])},{rng.choice([0, 1])},{rng.choice([0, 1, 2])},{rng.choice([1, 2])},{rng.choice([0, 3])}"
        bad = rng.choice(["addi x1, x0, 1\nthis is not an instruction", "lw x1, nowhere", "a:\na:\nnop"])
        lines = [f"sim.new {mode} 1 - {ispec}", "sim.prog " + " ".join(p1), "sim.snap", "sim.run 200", "sim.snap", f"sim.load {rvasmgen.hx(bad)}", "sim.snap", "sim.istats"]
        for k, t in enumerate(p2):
            lines.append(f"sim.wi {k} {t}")
        lines += ["sim.pc 0", "sim.snap"]
        for _ in range(5):
            lines += ["sim.step", "sim.snap", "sim.istats"]
        lines += ["sim.run 200", "sim.snap"]
        yield Case("sim-icache-failed-load", lines, None, {"mode": mode, "prog": p1, "regs": {}, "pokes": [], "d": "-", "i": ispec, "hazard": True})


nontrivial = lambda c: "\n".join(c.lines[:3])


def measure(c, stats):
    stats.bump("mode=" + c.meta.get("mode", "?"))
    last = next((o for o in reversed(c.impl_out) if o.startswith("pc=")), None)
    if last:
        ic = rvgen.parse_snap(last)["ic"]
        if ic != "-":
            h, a, _ = ic.split("|")[0].split()
            stats.bump("icache_hits", int(h)); stats.bump("icache_accesses", int(a))


def _after_load_oracle(c):
    """right after every load attempt — successful or rejected — the instruction cache holds no block and has counted nothing"""
    if not any(l.startswith("sim.load") or l.startswith("sim.prog") for l in c.lines[2:]):
        return []
    im = implmod.Impl()
    for k, l in enumerate(c.lines):
        o = im.run(l)
        if (l.startswith("sim.load") or l.startswith("sim.prog")) and k > 1:
            try:
                tab, st = im.sim.get_instruction_cache_entries(), im.sim.get_instruction_cache_stats()
            except Exception:
                return []
            if tab is None:
                return []
            valid = sum(1 for s_ in tab.sets for b in s_.blocks if str(b.valid_bit) == "1")
            if valid or (st["hits"], st["accesses"]) != ("0", "0"):
                return [Failure("oracle", PROP, f"after a {'rejected' if not o.startswith('ok') else 'successful'} load the instruction cache shows {valid} valid blocks and (hits, accesses) = ({st['hits']}, {st['accesses']})", "icache:reset")]
    return []


def _gui_oracle(c):
    """the accounting is that of the FETCHES: driving the simulation as the web GUI does — every getter read after every
    step — must end with the same instruction-cache counters and the same cycle count as plain stepping"""
    import zlib
    new = next((l for l in c.lines if l.startswith("sim.new")), None)
    if c.suite != "sim-icache" or new is None or new.split()[4] == "-" or c.meta.get("long") or zlib.crc32("\n".join(c.lines[:3]).encode()) % 3:
        return []
    res = []
    for gui in (False, True):
        im = implmod.Impl()
        for l in c.lines:
            if l.split()[0] in ("sim.new", "sim.prog", "sim.load", "sim.reg", "sim.poke", "sim.pc"):
                im.run(l)
                if l.startswith("sim.prog") or l.startswith("sim.load"):
                    if gui:
                        im.sim_views((1 << 13) - 1)
                    if sum(1 for x in c.lines if x.startswith("sim.prog") or x.startswith("sim.load")) > 1:
                        break          # first program only
        k = 0
        try:
            while not im.sim.is_done() and k < 400:
                im.sim.step()
                k += 1
                if gui:
                    im.sim_views((1 << 13) - 1)
        except Exception:
            return []
        st = im.sim.get_instruction_cache_stats()
        res.append((st["hits"], st["accesses"], im.sim.state.performance_metrics.cycles, k))
    if res[0] != res[1]:
        return [Failure("oracle", PROP, f"(hits, accesses, cycles, steps) = {res[0]} when stepping, {res[1]} when every getter is read after every step: the instruction-cache accounting is not that of the fetches", "icache:getter-changes-accounting")]
    return []


def oracle(c):
    f_ = _after_load_oracle(c) or _gui_oracle(c)
    if f_:
        return f_
    if c.suite == "sim-icache-failed-load":
        return []
    if c.suite != "sim-icache-reload":
        import simspy
        second_ = [i for i, l in enumerate(c.lines) if l.startswith("sim.prog")]
        r = simspy.run(Case_slice(c, second_[1] if len(second_) > 1 else None))
        if r is not None and not r["fault"]:
            if "i_real" in r and r["i_real"] != r["i_ref"]:
                return [Failure("oracle", PROP, f"instruction cache (hits, accesses) {r['i_real']}; a reference cache of the configured geometry fed the same fetch addresses gives {r['i_ref']} ({r['mode']})", "icache:counters-vs-configured")]
            if r.get("i_reported") is not None and r["i_reported"] != (str(r["i_ref"][0]), str(r["i_ref"][1])):
                return [Failure("oracle", PROP, f"the statistics getter reports (hits, accesses) {r['i_reported']}, the reference counted {r['i_ref']} ({r['mode']})", "icache:reported-counters")]
            if r["cycles"] != r["cycles_ref"]:
                return [Failure("oracle", PROP, f"{r['cycles']} cycles for {r['steps']} steps; steps + penalty x reference misses = {r['cycles_ref']} ({r['mode']})", "icache:penalty-vs-configured")]
    fails = []
    new = next((l for l in c.lines if l.startswith("sim.new")), None)
    if new is None or new.split()[4] == "-" or not any(l.startswith("sim.prog") for l in c.lines):
        return fails
    mode, ispec = new.split()[1], new.split()[4]
    pol, ib, bb, assoc, pen = ispec.split(",")
    # (1) results unchanged by the instruction cache (same mode, cache off)
    first_prog_idx = next(i for i, l in enumerate(c.lines) if l.startswith("sim.prog"))
    second = next((i for i, l in enumerate(c.lines) if l.startswith("sim.prog") and i > first_prog_idx), None)
    head = Case_slice(c, second)
    a = c02.run_mode(head, mode, True, limit=3000)
    b = c02.run_mode(head, mode, True, limit=3000, nocache=True)
    if a["fault"] is None and b["fault"] is None and a["done"] and b["done"]:
        for k in ("regs", "out", "exit", "ins", "br", "pr"):
            if a["d"][k] != b["d"][k]:
                fails.append(Failure("oracle", PROP, f"{k} differs with the instruction cache enabled ({mode})", "icache:changes-result"))
                return fails
        # every miss adds the configured penalty to the cycle counter — and nothing else does
        ic = a["d"].get("ic", "-")
        b2 = c02.run_mode(head, mode, True, limit=3000, noicache=True)          # same data cache, no instruction cache
        if ic != "-" and b2["fault"] is None and b2["done"]:
            h_, a_, _ = ic.split("|")[0].split()
            want = int(b2["d"]["cyc"]) + int(pen) * (int(a_) - int(h_))
            if int(a["d"]["cyc"]) != want:
                fails.append(Failure("oracle", PROP, f"cycle counter {a['d']['cyc']} with the instruction cache, {b2['d']['cyc']} without; {int(a_) - int(h_)} misses at penalty {pen} should give {want} ({mode})", "icache:penalty"))
                return fails
    # (2) accounting vs the tag-only reference on the real fetch addresses; every fetch returns the right instruction
    im = implmod.Impl()
    im.run(f"sim.new {mode} 1 - {ispec}")
    for l in head.lines:
        if l.split()[0] in ("sim.prog", "sim.load", "sim.reg", "sim.poke"):
            im.run(l)
    sys_ = im.sim.state.instruction_memory
    orig = sys_.read_instruction
    log = []

    def spy(address):
        r = orig(address)
        log.append((address, r))
        return r

    def drive(ref, what):
        """step to the end; every fetch must return the instruction the instruction memory holds, the counters must be
        those of the reference cache fed the same addresses"""
        k = 0
        sys_.read_instruction = spy
        try:
            while not im.sim.is_done() and k < (30000 if c.meta.get("long") else 2000):
                before = len(log)
                im.sim.step()
                k += 1
                for (ad, r) in log[before:]:
                    ref.read(ad, True)
                    inner = sys_.instruction_memory.instructions.get(ad)
                    if r is not inner:
                        return Failure("oracle", PROP, f"{what}fetch at {ad} returned {r!r}, instruction memory holds {inner!r}", "icache:wrong-instruction")
                if (sys_.hits, sys_.accesses, sys_.last_was_hit) != (ref.hits, ref.accesses, ref.last) and log:
                    return Failure("oracle", PROP, f"{what}icache counters {(sys_.hits, sys_.accesses, sys_.last_was_hit)} != reference {(ref.hits, ref.accesses, ref.last)} after {k} steps", "icache:counters")
        except Exception:
            pass
        finally:
            sys_.read_instruction = orig
        return None
    f = drive(tagref.RefCache(int(ib), int(bb), int(assoc), pol), "")
    if f is not None:
        return [f]
    if mode == "single" and sys_.accesses != im.sim.state.performance_metrics.instruction_count:
        fails.append(Failure("oracle", PROP, f"single-cycle mode: icache accesses {sys_.accesses} != executed instructions {im.sim.state.performance_metrics.instruction_count}", "icache:access-count"))
    # (3) after a reload nothing of the previous program remains — neither at once nor while the new program runs
    if second is not None:
        im.run(c.lines[second])
        if sys_.hits or sys_.accesses or sys_.last_was_hit or any(b_.valid_bit for s in sys_.cache.sets for b_ in s.blocks):
            fails.append(Failure("oracle", PROP, "after reset+reload the instruction cache still holds blocks or counters of the previous program", "icache:reset"))
            return fails
        for l in c.lines[second + 1:]:
            if l.split()[0] in ("sim.reg", "sim.poke", "sim.pc"):
                im.run(l)
        del log[:]
        f = drive(tagref.RefCache(int(ib), int(bb), int(assoc), pol), "after a reload: ")
        if f is not None:
            fails.append(f)
    return fails


def Case_slice(c, upto):
    return Case(c.suite, c.lines if upto is None else c.lines[:upto], None, c.meta)


# The statistics GETTER is part of the model (`Model/SimViews.lean`): what it reports is compared after every snapshot.
_cases_plain = cases


def cases(rng, tier):
    for c in _cases_plain(rng, tier):
        if c.lines and c.lines[0].startswith("sim.new"):
            c.lines = [x for l in c.lines for x in ((l, "sim.istats", "sim.icachetable") if l == "sim.snap" else (l,))]
        yield c


def _highlight_oracle(c, op, latch):
    """five-stage mode: the address the statistics view highlights is the one held by the pipeline register it is taken from
    (data: memory address of the load / store in MEM/WB; instruction: address of the instruction in IF/ID), as 32 binary digits"""
    new = next((l for l in c.lines if l.startswith("sim.new")), None)
    if new is None or new.split()[1] != "five":
        return []
    outs = list(zip(c.lines, c.impl_out))
    for k, (l, o) in enumerate(outs):
        if l != op or o in ("none", "") or o.startswith(("X", "bad")) or k == 0 or outs[k - 1][0] not in ("sim.snap", "sim.dstats", "sim.istats"):
            continue
        snap = next((oo for ll, oo in reversed(outs[:k]) if ll == "sim.snap"), None)
        if snap is None or any(ll not in ("sim.snap", "sim.dstats", "sim.istats", "sim.icachetable", "sim.dcachetable") for ll, _ in outs[k - 1:k]):
            continue
        d = rvgen.parse_snap(snap)
        v = d.get(latch, "-")
        want = "-"
        if v != "-" and "@" in v:
            f = dict(x.split("=", 1) for x in v.split(";")[1:] if "=" in x)
            text = bytes.fromhex(v.split("@")[0]).decode()
            if latch == "L0":
                want = format(int(v.split(";")[0].split("@")[1]) % 2**32, "032b")
            elif text.split()[0] in ("lb", "lh", "lw", "lbu", "lhu", "sb", "sh", "sw") and f.get("res", "-") != "-":
                want = format(int(f["res"]) % 2**32, "032b")
        got = o.split(",")[3]
        got = "-" if got == "-" else bytes.fromhex(got).decode()
        if got != want:
            return [Failure("oracle", PROP, f"`{op}` highlights {got}; the pipeline register {latch} holds {v[:60]} (expected {want})", "stats:highlight")]
    return []

_HIGHLIGHT = ("sim.istats", "L0")

_oracle_nohighlight = oracle


def oracle(c):
    return _oracle_nohighlight(c) or _highlight_oracle(c, *_HIGHLIGHT)
