"""C11 — instruction cache is transparent and its fetch accounting matches a reference."""
from __future__ import annotations
from core import Case, Failure
import rvgen
import rvref
import tagref
import impl as implmod
import props.c02 as c02

PROP = "C11"
CONSTS = ['mem']          # constant tables of the models this property depends on
RULE = ("programs of C02 (incl. loops larger and smaller than the cache, branches into the middle of a block) with random "
        "instruction-cache geometries/policies/penalties in both modes, snapshot (incl. every cached block and the counters) "
        "after every step; sequences of program loads; non-trivial = program with >=1 icache hit and >=1 miss; distinct = "
        "distinct (program, configuration)")
ASSUMPTIONS = ["as C02"]


def cases(rng, tier):
    n = 260 if tier == "quick" else 4000
    for i in range(n):
        c = rvgen.sim_case(rng, "five" if i % 2 else "single", hazard=True, opts={"n": rng.choice([3, 6, 12, 20, 30])}, trace=30, run=600, dprob=0.2, iprob=1.0, suite="sim-icache")
        if i % 5 == 0:
            # reload: a second program into the same simulation object -> cache and counters of the first must be gone
            prog2, regs2, pokes2 = rvgen.gen_program(rng, {"n": 4})
            c.lines += ["sim.prog " + " ".join(prog2), "sim.snap"]
            c.meta["reload"] = True
        yield c


nontrivial = lambda c: "\n".join(c.lines[:3])


def measure(c, stats):
    stats.bump("mode=" + c.meta.get("mode", "?"))
    last = next((o for o in reversed(c.impl_out) if o.startswith("pc=")), None)
    if last:
        ic = rvgen.parse_snap(last)["ic"]
        if ic != "-":
            h, a, _ = ic.split("|")[0].split()
            stats.bump("icache_hits", int(h)); stats.bump("icache_accesses", int(a))


def oracle(c):
    fails = []
    new = next((l for l in c.lines if l.startswith("sim.new")), None)
    if new is None or new.split()[4] == "-" or not any(l.startswith("sim.prog") for l in c.lines):
        return fails
    mode, ispec = new.split()[1], new.split()[4]
    pol, ib, bb, assoc, pen = ispec.split(",")
    # (1) results unchanged by the instruction cache (same mode, cache off)
    first_prog_idx = next(i for i, l in enumerate(c.lines) if l.startswith("sim.prog"))
    second = next((i for i, l in enumerate(c.lines) if l.startswith("sim.prog") and i > first_prog_idx), None)
    head = Case_slice(c, second)
    a = c02.run_mode(head, mode, True, limit=3000)
    b = c02.run_mode(head, mode, True, limit=3000, nocache=True)
    if a["fault"] is None and b["fault"] is None and a["done"] and b["done"]:
        for k in ("regs", "out", "exit", "ins", "br", "pr"):
            if a["d"][k] != b["d"][k]:
                fails.append(Failure("oracle", PROP, f"{k} differs with the instruction cache enabled ({mode})", "icache:changes-result"))
                return fails
    # (2) accounting vs the tag-only reference on the real fetch addresses; every fetch returns the right instruction
    im = implmod.Impl()
    im.run(f"sim.new {mode} 1 - {ispec}")
    for l in head.lines:
        if l.split()[0] in ("sim.prog", "sim.reg", "sim.poke"):
            im.run(l)
    sys_ = im.sim.state.instruction_memory
    ref = tagref.RefCache(int(ib), int(bb), int(assoc), pol)
    orig = sys_.read_instruction
    log = []

    def spy(address):
        r = orig(address)
        log.append((address, r))
        return r
    sys_.read_instruction = spy
    k = 0
    cyc_pen = 0
    try:
        while not im.sim.is_done() and k < 2000:
            before = len(log)
            c0 = im.sim.state.performance_metrics.cycles
            dm0 = getattr(im.sim.state.memory, "accesses", 0) - getattr(im.sim.state.memory, "hits", 0)
            im.sim.step()
            k += 1
            for (ad, r) in log[before:]:
                hit = ref.read(ad, True)
                inner = sys_.instruction_memory.instructions.get(ad)
                if r is not inner:
                    fails.append(Failure("oracle", PROP, f"fetch at {ad} returned {r!r}, instruction memory holds {inner!r}", "icache:wrong-instruction"))
                    return fails
            if (sys_.hits, sys_.accesses, sys_.last_was_hit) != (ref.hits, ref.accesses, ref.last) and log:
                fails.append(Failure("oracle", PROP, f"icache counters {(sys_.hits, sys_.accesses, sys_.last_was_hit)} != reference {(ref.hits, ref.accesses, ref.last)} after {k} steps", "icache:counters"))
                return fails
    except Exception:
        pass
    if mode == "single" and sys_.accesses != im.sim.state.performance_metrics.instruction_count:
        fails.append(Failure("oracle", PROP, f"single-cycle mode: icache accesses {sys_.accesses} != executed instructions {im.sim.state.performance_metrics.instruction_count}", "icache:access-count"))
    # (3) after a reload nothing of the previous program remains
    if second is not None:
        sys_.read_instruction = orig
        im.run(c.lines[second])
        if sys_.hits or sys_.accesses or sys_.last_was_hit or any(b_.valid_bit for s in sys_.cache.sets for b_ in s.blocks):
            fails.append(Failure("oracle", PROP, "after reset+reload the instruction cache still holds blocks or counters of the previous program", "icache:reset"))
    return fails


def Case_slice(c, upto):
    return Case(c.suite, c.lines if upto is None else c.lines[:upto], None, c.meta)
