"""C16 — inspection is pure: read-only queries never change later behaviour."""
from __future__ import annotations
import os
from core import Case, Failure
import rvgen
import toygen
import impl as implmod

PROP = "C16"
TRACK_GLOBALS = True       # run.py records which case changed a module/class-level table
CONSTS = ['mem']          # constant tables of the models this property depends on
RULE = ("programs (RISC-V both modes with random data/instruction cache configurations, TOY images, TOY forward-branch programs "
        "with half-cycle calls) stepped with random subsets and repetitions of ALL read-only inspection functions (register/memory/"
        "instruction/cache tables, cache statistics, SVG update lists, metrics text, output, exit code, done, has-instructions) between "
        "steps; the model treats them as no-ops; oracle = same run without the calls (step answers, final views, repeatability), "
        "each of two chosen inspection calls re-run with all earlier inspection calls left out (same answer required), hidden-state "
        "and process-wide table changes followed up until an observable effect is found (never reported by themselves); "
        "non-trivial = >=3 steps with >=3 inspection calls; distinct = distinct (program, configuration, call interleaving)")
ASSUMPTIONS = ["wall-clock fields of the metrics text (execution time, instructions per second) are excluded from comparison"]


def with_insp(rng, c, cmd, nbits):
    out = []
    pre_all = rng.random() < 0.5
    for l in c.lines:
        out.append(l)
        if l.endswith(".step") or l.startswith("toy.call") or l.startswith("sim.prog") or l.startswith("toy.load"):
            for _ in range(rng.choice([0, 1, 1, 2, 3])):
                out.append(f"{cmd} {rng.randrange(1, 1 << nbits)}")
        elif l.startswith("sim.new") or l == "toy.new":
            # queries on the still EMPTY simulation, before the program is stored (every getter in every second case)
            if pre_all:
                out.append(f"{cmd} {(1 << nbits) - 1}")
            elif rng.random() < 0.5:
                out.append(f"{cmd} {rng.randrange(1, 1 << nbits)}")
    c.lines = out
    return c


def cases(rng, tier):
    n = 160 if tier == "quick" else 3000
    for i in range(n):
        mode = "five" if i % 2 else "single"
        c = rvgen.sim_case(rng, mode, hazard=True, trace=25, run=300, dprob=0.6, iprob=0.5, suite="sim-insp")
        yield with_insp(rng, c, "sim.insp", 13)
    # a small data cache under pressure: loads rotate over assoc+1 blocks of ONE set whose words are all listed in the
    # memory table; every getter after every step — a getter that touches the replacement state changes a later victim
    for i in range(40 if tier == "quick" else 800):
        mode = "five" if i % 2 else "single"
        pol = rng.choice(["lru", "plru"])
        assoc = rng.choice([2, 3, 4] if pol == "lru" else [2, 4])
        bb = rng.choice([0, 1])
        stride = 4 << bb                                   # index bits 0: every block maps to the one set
        blocks = [rvgen.DATA + k * stride for k in range(assoc + 1)]
        prog = [rvgen.tok(rng.choice(["lw", "lw", "lbu", "sw"]), 5 + j % 3, 2, 5, rng.choice(blocks) - rvgen.DATA) for j in range(rng.choice([8, 11, 14]))]
        prog = [t if not t.startswith("sw") else rvgen.tok("sw", 0, 2, 5, int(t.split(",")[4])) for t in prog]
        dspec = f"{rng.choice(['wb', 'wt'])},{pol},0,{bb},{assoc},{rng.choice([0, 3])}"
        lines = [f"sim.new {mode} 1 {dspec} -", "sim.prog " + " ".join(prog), f"sim.reg 2 {rvgen.DATA}", "sim.reg 5 77"]
        lines += [f"sim.poke 32 {a} {1000 + a % 97}" for a in blocks]
        lines.append("sim.snap")
        for _ in range(len(prog) + (6 if mode == "five" else 1)):
            lines += ["sim.step", f"sim.insp {(1 << 13) - 1}", "sim.snap"]
        yield Case("sim-insp-dcache", lines, None, {"mode": mode})
    for i in range(100 if tier == "quick" else 2000):
        c = toygen.image_case(rng, toygen.mixed_calls if i % 2 else toygen.step_only, max_steps=25, suite="toy-insp")
        yield with_insp(rng, c, "toy.insp", 6)
    for i in range(60 if tier == "quick" else 1000):
        # forward branches taken and not taken in turn, half-cycle calls, EVERY getter after every call
        c = toygen.branchy_case(rng, (lambda r: "single") if i % 2 else toygen.mixed_calls, suite="toy-insp-branchy")
        out = []
        for l in c.lines:
            out.append(l)
            if l.startswith("toy.call") or l.startswith("toy.load"):
                out.append("toy.insp 63")
        c.lines = out
        yield c


def nontrivial(c):
    k = sum(1 for l in c.lines if ".insp" in l)
    s = sum(1 for l in c.lines if l.endswith(".step") or l.startswith("toy.call"))
    return "\n".join(c.lines) if k >= 3 and s >= 3 else None


def measure(c, stats):
    stats.bump("suite=" + c.suite)
    stats.bump("inspection_calls", sum(1 for l in c.lines if ".insp" in l))


def _only(lines, k):
    """the case with every inspection line removed except the k-th"""
    out, j = [], -1
    for l in lines:
        if ".insp" in l:
            j += 1
            if j != k:
                continue
        out.append(l)
    return out


def _global_effect(c):
    """A module/class-level table of the code changed while the case ran. Show what it does: from the import-time
    tables each time (`impl.global_restore`), run the case as it is, the case without inspection calls, and the case
    with a single inspection call kept. Step answers, final views and the result of the kept call must agree."""
    import fresh_sessions

    def rec(lines):
        implmod.global_restore()
        try:
            return fresh_sessions.record(lines)
        finally:
            implmod.global_restore()
    plain = [l for l in c.lines if ".insp" not in l]
    n_insp = len(c.lines) - len(plain)
    full, ref = rec(c.lines), rec(plain)
    if full["answers"] != ref["answers"]:
        return Failure("oracle", PROP, "step answers differ between a run with and a run without inspection calls", "insp:changes-behaviour")
    if full["views"] != ref["views"]:
        return Failure("oracle", PROP, "final views differ between a run with and a run without inspection calls", "insp:changes-view")
    ks = list(range(n_insp)) if n_insp <= 24 else sorted({(i * n_insp) // 24 for i in range(24)} | {n_insp - 1})
    for k in ks:
        one = rec(_only(c.lines, k))
        if one["insp"][0] != full["insp"][k]:
            which = next((g for (g, x), (_, y) in zip(one["insp"][0], full["insp"][k]) if x != y), "?")
            return Failure("oracle", PROP, f"inspection call #{k} (`{which}`) answers differently when the earlier inspection calls are left out: an earlier call changed a module/class-level table of the simulator", "insp:mutates-global-table")
    # the next simulation in the same process
    implmod.global_restore()
    try:
        fresh_sessions.record(c.lines)
        again = fresh_sessions.record(plain)
    finally:
        implmod.global_restore()
    if again != ref:
        return Failure("oracle", PROP, "an inspection call changed a module/class-level table of the simulator: the NEXT simulation of the same program in the process differs from one started from the shipped tables", "insp:mutates-global-table")
    return None


def oracle(c):
    """the same run with and without the inspection calls: snapshots, step results and the full views at the end"""
    fails = []
    g0 = implmod.GLOBAL_BASELINE
    a, b = implmod.Impl(), implmod.Impl()
    toy = c.lines and c.lines[0].startswith("toy")
    for l in c.lines:
        if ".insp" in l:
            o = a.run(l)
            if o.startswith("X"):
                return [Failure("oracle", PROP, f"inspection call raised {o}", "insp:raises")]
            continue
        oa, ob = a.run(l), b.run(l)
        if oa != ob:
            fails.append(Failure("oracle", PROP, f"`{l}` answers differently after inspection calls: `{oa[:150]}` vs `{ob[:150]}`", "insp:changes-behaviour"))
            return fails
        if oa.startswith("F") or oa.startswith("X"):
            break
    # every later inspection result is the one of a run without the earlier calls: keep a single inspection call
    insp_idx = [i for i, l in enumerate(c.lines) if ".insp" in l]
    if len(insp_idx) >= 2 and not c.meta.get("global_changed"):
        import fresh_sessions
        full = fresh_sessions.record(c.lines)
        h = sum(len(l) for l in c.lines)
        for k in sorted({len(insp_idx) - 1, h % len(insp_idx)}):
            one = fresh_sessions.record(_only(c.lines, k))
            if one["insp"][0] != full["insp"][k]:
                which = next((g for (g, x), (_, y) in zip(one["insp"][0], full["insp"][k]) if x != y), "?")
                return [Failure("oracle", PROP, f"inspection call #{k} (`{which}`) answers differently when the earlier inspection calls are left out", "insp:changes-later-inspection")]
    if c.meta.get("global_changed"):
        # a module/class-level table of the code changed while this case ran. That is a violation only if it shows:
        # run (case with inspection; then the same program again without) in one fresh interpreter and (the program
        # without inspection) in another, and compare everything observable.
        f = _global_effect(c)
        if f is not None:
            return [f]
        c.meta["note"] = "process-wide table changed during the case, no observable effect found"
    da = implmod.deep_state(a.toy if toy else a.sim)
    db = implmod.deep_state(b.toy if toy else b.sim)
    if da != db:
        # hidden state differs (e.g. a memo filled by a getter): not by itself a difference in any later result;
        # run both simulations on to the end and compare every answer, then the views below
        c.meta["note"] = "object graphs differ after inspection calls (hidden state); searched on for an observable effect"
        step = "toy.call step" if toy else "sim.step"
        for _ in range(400):
            oa, ob = a.run(step), b.run(step)
            if oa != ob:
                return [Failure("oracle", PROP, f"after inspection calls a later `{step}` answers differently: `{oa[:150]}` vs `{ob[:150]}`", "insp:changes-behaviour")]
            if oa.startswith("F") or oa.startswith("X") or "done=1" in oa:
                break
    try:
        va = a.toy_views(63) if toy else (a.sim_views((1 << 13) - 1) if a.sim is not None else [])
        vb = b.toy_views(63) if toy else (b.sim_views((1 << 13) - 1) if b.sim is not None else [])
    except Exception:
        return fails
    if va != vb:
        which = next(g for (g, x), (_, y) in zip(va, vb) if x != y)
        fails.append(Failure("oracle", PROP, f"final view `{which}` differs between the run with and the run without inspection calls", "insp:changes-view"))
    else:
        # repeated inspection gives the same view
        vc = a.toy_views(63) if toy else a.sim_views((1 << 13) - 1)
        if vc != va:
            fails.append(Failure("oracle", PROP, "two consecutive rounds of inspection give different views", "insp:not-repeatable"))
    return fails
