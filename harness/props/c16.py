"""C16 — inspection is pure: read-only queries never change later behaviour."""
from __future__ import annotations
from core import Case, Failure
import rvgen
import toygen
import impl as implmod

PROP = "C16"
TRACK_GLOBALS = True       # run.py records which case changed a module/class-level table
CONSTS = ['mem']          # constant tables of the models this property depends on
RULE = ("programs (RISC-V both modes with random data/instruction cache configurations, TOY images) stepped with random subsets "
        "and repetitions of ALL read-only inspection functions (register/memory/instruction/cache tables, cache statistics, SVG "
        "update lists, metrics text, output, exit code, done, has-instructions) between steps; the model treats them as no-ops, the "
        "deep snapshot after every step exposes any mutation; oracle = same run without the calls; non-trivial = >=3 steps with "
        ">=3 inspection calls; distinct = distinct (program, configuration, call interleaving)")
ASSUMPTIONS = ["wall-clock fields of the metrics text (execution time, instructions per second) are excluded from comparison"]


def with_insp(rng, c, cmd, nbits):
    out = []
    for l in c.lines:
        out.append(l)
        if l.endswith(".step") or l.startswith("toy.call") or l.startswith("sim.prog") or l.startswith("toy.load"):
            for _ in range(rng.choice([0, 1, 1, 2, 3])):
                out.append(f"{cmd} {rng.randrange(1, 1 << nbits)}")
    c.lines = out
    return c


def cases(rng, tier):
    n = 160 if tier == "quick" else 3000
    for i in range(n):
        mode = "five" if i % 2 else "single"
        c = rvgen.sim_case(rng, mode, hazard=True, trace=25, run=300, dprob=0.6, iprob=0.5, suite="sim-insp")
        yield with_insp(rng, c, "sim.insp", 13)
    for i in range(100 if tier == "quick" else 2000):
        c = toygen.image_case(rng, toygen.mixed_calls if i % 2 else toygen.step_only, max_steps=25, suite="toy-insp")
        yield with_insp(rng, c, "toy.insp", 6)


def nontrivial(c):
    k = sum(1 for l in c.lines if ".insp" in l)
    s = sum(1 for l in c.lines if l.endswith(".step") or l.startswith("toy.call"))
    return "\n".join(c.lines) if k >= 3 and s >= 3 else None


def measure(c, stats):
    stats.bump("suite=" + c.suite)
    stats.bump("inspection_calls", sum(1 for l in c.lines if ".insp" in l))


def oracle(c):
    """the same run with and without the inspection calls: snapshots, step results and the full views at the end"""
    fails = []
    g0 = implmod.GLOBAL_BASELINE
    a, b = implmod.Impl(), implmod.Impl()
    toy = c.lines and c.lines[0].startswith("toy")
    for l in c.lines:
        if ".insp" in l:
            o = a.run(l)
            if o.startswith("X"):
                return [Failure("oracle", PROP, f"inspection call raised {o}", "insp:raises")]
            continue
        oa, ob = a.run(l), b.run(l)
        if oa != ob:
            fails.append(Failure("oracle", PROP, f"`{l}` answers differently after inspection calls: `{oa[:150]}` vs `{ob[:150]}`", "insp:changes-behaviour"))
            return fails
        if oa.startswith("F") or oa.startswith("X"):
            break
    if c.meta.get("global_changed"):
        return [Failure("oracle", PROP, "an inspection call changed a module/class-level table of the simulator (shared by every simulation in the process)", "insp:mutates-global-table")]
    da = implmod.deep_state(a.toy if toy else a.sim)
    db = implmod.deep_state(b.toy if toy else b.sim)
    if da != db:
        return [Failure("oracle", PROP, "the object graphs of the run with and the run without inspection calls differ (hidden state changed by a getter)", "insp:hidden-state")]
    try:
        va = a.toy_views(63) if toy else (a.sim_views((1 << 13) - 1) if a.sim is not None else [])
        vb = b.toy_views(63) if toy else (b.sim_views((1 << 13) - 1) if b.sim is not None else [])
    except Exception:
        return fails
    if va != vb:
        which = next(g for (g, x), (_, y) in zip(va, vb) if x != y)
        fails.append(Failure("oracle", PROP, f"final view `{which}` differs between the run with and the run without inspection calls", "insp:changes-view"))
    else:
        # repeated inspection gives the same view
        vc = a.toy_views(63) if toy else a.sim_views((1 << 13) - 1)
        if vc != va:
            fails.append(Failure("oracle", PROP, "two consecutive rounds of inspection give different views", "insp:not-repeatable"))
    return fails
