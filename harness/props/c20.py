"""C20 — TOY two-phase stepping: whole steps, half-cycle calls and single-cycle steps are equivalent."""
from __future__ import annotations
from core import Case, Failure
import toygen
import impl as implmod

PROP = "C20"
CONSTS = ['toy']          # constant tables of the models this property depends on
RULE = ("random TOY images (as C06) driven by random interleavings of step / first_cycle_step / second_cycle_step / "
        "single_step in legal and illegal orders, snapshot (state, counters, markers, visualisation values, next_cycle) "
        "after every call; non-trivial = at least one rejected call and >=2 completed instructions; distinct = distinct "
        "(image, call sequence)")
ASSUMPTIONS = ["fixedint UInt16/UInt12 wrap-around"]


def cases(rng, tier):
    n = 300 if tier == "quick" else 4000
    for i in range(n):
        c_ = toygen.image_case(rng, toygen.mixed_calls, max_steps=rng.choice([6, 20, 50]), suite="toy-calls")
        yield toygen.as_text_case(c_) if i % 3 == 2 else c_          # every third image goes through the loader


def nontrivial(c):
    rej = sum(1 for o in c.impl_out if o == "seqerr")
    ok = sum(1 for l, o in zip(c.lines, c.impl_out) if l.startswith("toy.call") and o == "ok")
    return "\n".join(c.lines) if rej >= 1 and ok >= 4 else None


def measure(c, stats):
    for l, o in zip(c.lines, c.impl_out):
        if l.startswith("toy.call"):
            stats.bump(l.split()[1] + ("-rejected" if o == "seqerr" else ""))


def _setup(c):
    im = implmod.Impl()
    for l in c.lines:
        if l.startswith("toy.call") or l == "toy.snap":
            break
        im.run(l)
    return im


def oracle(c):
    fails = []
    # (1) rejected calls leave the state unchanged; calls are no-ops once done
    im = _setup(c)
    prev = im.run("toy.snap")
    for l in c.lines:
        if not l.startswith("toy.call"):
            continue
        done_before = im.toy.is_done()
        nc = im.toy.next_cycle
        o = im.run(l)
        now = im.run("toy.snap")
        call = l.split()[1]
        expect_rej = (not done_before) and ((call == "first" and nc == 2) or (call == "second" and nc == 1) or (call == "step" and nc == 2))
        if (o == "seqerr") != expect_rej:
            fails.append(Failure("oracle", PROP, f"`{call}` with next_cycle={nc}, done={done_before} answered `{o}`", "toy:sequencing-error"))
        elif (o == "seqerr" or done_before) and now != prev:
            fails.append(Failure("oracle", PROP, f"`{call}` ({'rejected' if o == 'seqerr' else 'after done'}) changed the state", "toy:rejected-call-mutates"))
        elif o.startswith("X"):
            fails.append(Failure("oracle", PROP, f"`{call}` raised {o}", "toy:unexpected-exception"))
        prev = now
        if fails:
            return fails
    # (2) three styles agree at every instruction boundary
    # a, b, s: whole steps / explicit halves / single-cycle steps; bq, sq: the last two as the web GUI drives them — every view
    # is read after EVERY call, also between the two halves of an instruction
    a, b, s, bq, sq = _setup(c), _setup(c), _setup(c), _setup(c), _setup(c)
    if a.toy.next_cycle != 1:
        return fails
    look = lambda x: (x.toy.get_register_representations(), x.toy.get_memory_table_entries(), x.toy.get_toy_svg_update_values(), str(x.toy.state.performance_metrics.cycles))
    for k in range(40):
        a.run("toy.call step")
        b.run("toy.call first"); b.run("toy.call second")
        s.run("toy.call single"); s.run("toy.call single")
        bq.run("toy.call first"); look(bq); bq.run("toy.call second")
        sq.run("toy.call single"); look(sq); sq.run("toy.call single")
        snaps = [x.run("toy.snap") for x in (a, b, s, bq, sq)]
        views = [look(x) for x in (a, b, s, bq, sq)]
        if any(x != snaps[0] for x in snaps) or any(v != views[0] for v in views):
            j = next(i for i in range(5) if snaps[i] != snaps[0] or views[i] != views[0])
            fails.append(Failure("oracle", PROP, f"after {k + 1} instructions the stepping style `{['step', 'first+second', 'single+single', 'first, views, second', 'single, views, single'][j]}` differs from whole steps (state, counters, table markers or visualisation values)", "toy:styles-differ"))
            break
        if a.toy.is_done():
            break
    return fails
    for k in range(40):
        a.run("toy.call step")
        b.run("toy.call first"); b.run("toy.call second")
        s.run("toy.call single"); s.run("toy.call single")
        sa, sb, ss = a.run("toy.snap"), b.run("toy.snap"), s.run("toy.snap")
        views = [(x.toy.get_register_representations(), x.toy.get_memory_table_entries(), x.toy.get_toy_svg_update_values(), str(x.toy.state.performance_metrics.cycles)) for x in (a, b, s)]
        if not (sa == sb == ss) or not (views[0] == views[1] == views[2]):
            fails.append(Failure("oracle", PROP, f"after {k + 1} instructions the three stepping styles differ", "toy:styles-differ"))
            break
        if a.toy.is_done():
            break
    return fails
