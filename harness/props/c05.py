"""C05 — assembler data segment: layout, initial values, name[i] addressing, li/la constants."""
from __future__ import annotations
from core import Case, Failure
import rvasmgen
import rvgen

PROP = "C05"
CONSTS = ['asm', 'mem']          # constant tables of the models this property depends on
RULE = ("data segments rendered from abstract declaration lists (byte/half/word with negative and out-of-range literals, "
        "strings, .zero, any element counts) in either segment order, with la / load / store by name[i] at first, last and random "
        "indices; li constants: every boundary of the low 12 bits crossed with boundary high parts plus random 32-bit and wider "
        "values, executed in the simulator; the help page's example program; non-trivial = >=1 declaration and >=1 name reference, "
        "or an li outside the 12-bit range; distinct = distinct text")
ASSUMPTIONS = ["as C04", "execution of the expansion uses the single-cycle model (C01)"]

LOWS = [0, 1, 0x7FF, 0x800, 0x801, 0xFFF, 0xFFE, 0x400]
HIGHS = [0, 1, 0x7FFFF, 0x80000, 0xFFFFF, 0xFFFFE, 0x12345, 0x80001]


def li_case(rng, consts):
    regs = [rng.randrange(1, 32) for _ in consts]
    text = "\n".join(f"li x{r}, {rvasmgen.Sp(rng).num(c)}" for r, c in zip(regs, consts))
    lines = ["sim.new single 1 - -", f"sim.load {rvasmgen.hx(text)}", "sim.run 400", "sim.arch"]
    return Case("li", lines, None, {"text": text, "kind": "li", "li": list(zip(regs, consts))})


def exec_case(rng):
    """la / load / store by name executed: the documented effect"""
    items, decls = rvasmgen.gen_abstract(rng, {"n": rng.choice([2, 4, 7]), "no_reserved": True})
    items = [it for it in items if it[0] in ("la", "loadv", "storev", "li", "mv", "label")]
    # load-by-name into x0 / store-by-name through x0 cannot hold the address in the scratch register: outside the claim
    items = [it for it in items if not (it[0] == "loadv" and it[2] == 0) and not (it[0] == "storev" and it[5] == 0)]
    text = rvasmgen.render(rng, items, decls)
    lines = ["sim.new single 1 - -", f"sim.load {rvasmgen.hx(text)}", "sim.arch", "sim.run 400", "sim.arch"]
    return Case("data-exec", lines, None, {"text": text, "kind": "exec", "abstract": (items, decls)})


def byname_sequences(rng):
    """Deterministic by-name access PAIRS over variables of every element width: an indexed access followed by a plain one,
    a plain one followed by an indexed one, different widths for declaration and access, the same variable twice — every
    ordered pair of (la | load | store) x (index 0 / none / 1 / 2). What one by-name line computes must not leak into the next."""
    decls = [("arr", "word", [11, 22, 33, 44]), ("total", "word", [7]), ("hs", "half", [300, -2, 5, 9]), ("bs", "byte", [1, 2, 3, 4, 5, 6, 7, 8]),
             ("msg", "string", "abcdefgh"), ("zz", "zero", 3), ("big", "word", [100 + i for i in range(20)]), ("bb", "byte", list(range(1, 21)))]
    acc = []
    for nm, w_mns in (("arr", ("lw", "sw")), ("total", ("lw", "sw")), ("hs", ("lh", "sh")), ("bs", ("lbu", "sb")), ("msg", ("lbu", "sb")), ("zz", ("lw", "sw"))):
        for idx in (None, 0, 1, 2):
            if nm == "total" and idx not in (None, 0):
                continue
            acc.append(("la", 5, nm, idx))
            acc.append(("loadv", w_mns[0], 6, nm, idx))
            acc.append(("storev", w_mns[1], 7, nm, idx, 28))
    for nm, w_mns in (("big", ("lw", "sw")), ("bb", ("lbu", "sb"))):          # indices with more than one digit
        for idx in (9, 10, 17, 19):
            acc += [("la", 5, nm, idx), ("loadv", w_mns[0], 6, nm, idx), ("storev", w_mns[1], 7, nm, idx, 28)]
    # mixed widths: byte and half-word loads of word variables and vice versa (aligned elements only)
    acc += [("loadv", "lbu", 6, "arr", 1), ("loadv", "lh", 6, "arr", 2), ("loadv", "lw", 6, "bs", 4), ("loadv", "lhu", 6, "msg", 4), ("loadv", "lb", 6, "zz", 1)]
    rng.shuffle(acc)
    for i in range(0, len(acc) - 1):
        items = [("li", 7, 0x5A5A5A5A), acc[i], acc[i + 1], acc[i]]
        text = rvasmgen.render(rng, items, decls)
        lines = ["sim.new single 1 - -", f"sim.load {rvasmgen.hx(text)}", "sim.arch", "sim.run 400", "sim.arch"]
        yield Case("data-exec", lines, None, {"text": text, "kind": "exec", "abstract": (items, decls)})


def split_boundary_cases(rng):
    """Variables placed so that the address of the variable — or of one of its elements — has low twelve bits around the
    points where the lui/addi split of an address changes (0x7FC, 0x800, 0x804, 0xFFC, 0x000): la, load and store by name,
    plain and indexed. Independent of the seed."""
    for pad in (510, 511, 512, 513, 1022, 1023, 1024, 1535, 1536):
        decls = [("pad", "zero", pad), ("v", "word", [101, 202, 303, 404]), ("h", "half", [7, 8, 9]), ("b", "byte", [1, 2, 3])]
        for kind in ("la", "loadv", "storev"):
            items = [("li", 7, 0x1234567)]
            for nm, mns in (("v", ("lw", "sw")), ("h", ("lhu", "sh")), ("b", ("lbu", "sb"))):
                for idx in (None, 1, 2):
                    items.append(("la", 5, nm, idx) if kind == "la" else ("loadv", mns[0], 6, nm, idx) if kind == "loadv" else ("storev", mns[1], 7, nm, idx, 28))
                    if kind != "storev":
                        items.append(("storev", "sw", 5 if kind == "la" else 6, "pad", len(items) % 8, 29))          # keep every result visible
            text = rvasmgen.render(rng, items, decls)
            lines = ["sim.new single 1 - -", f"sim.load {rvasmgen.hx(text)}", "sim.arch", "sim.run 400", "sim.arch"]
            yield Case("data-exec", lines, None, {"text": text, "kind": "exec", "abstract": (items, decls)})


def cases(rng, tier):
    yield from byname_sequences(rng)
    yield from split_boundary_cases(rng)
    yield Case("help-example", ["sim.new single 1 - -", f"sim.load {rvasmgen.hx(rvasmgen.HELP_EXAMPLE)}", "sim.run 400", "sim.arch"], None,
               {"text": rvasmgen.HELP_EXAMPLE, "kind": "help"})
    allc = [(h << 12) | l for h in HIGHS for l in LOWS]
    allc += [-c for c in allc[:20]] + [2**32 + 5, -2**31, -2**31 - 1, 2**40 + 0x801, -1, -2048, -2049, 2047, 2048]
    for i in range(0, len(allc), 8):
        yield li_case(rng, allc[i:i + 8])
    n = 40 if tier == "quick" else 1500
    for _ in range(n):
        yield li_case(rng, [rng.choice([rng.randrange(2**32), rng.randrange(-2**31, 0), (rng.randrange(2**20) << 12) | rng.choice(LOWS)]) for _ in range(8)])
    m = 150 if tier == "quick" else 3000
    for _ in range(m):
        c = rvasmgen.asm_case(rng, fault_prob=0.1, suite="asm-data", opts={"no_reserved": True})
        yield c
    for _ in range(80 if tier == "quick" else 1500):
        yield exec_case(rng)


def nontrivial(c):
    if c.meta["kind"] == "li":
        return c.meta["text"] if any(not (-2048 <= v <= 2047) for _, v in c.meta["li"]) else None
    ab = c.meta.get("abstract")
    if ab and ab[1] and any(it[0] in ("la", "loadv", "storev") for it in ab[0]):
        return c.meta["text"]
    return c.meta["text"] if c.meta["kind"] == "help" else None


def measure(c, stats):
    stats.bump("kind=" + c.meta["kind"])


def _regs(o):
    return [int(x) for x in rvgen.parse_snap(o)["regs"].split(",")]


def _custom_range_layout(text, decls, mem):
    """'From the first data address': the same text assembled into a state whose data memory starts somewhere else (the public
    `memory=` argument of the architectural state) must lay the variables out from THAT address."""
    if not decls:
        return None
    try:
        from architecture_simulator.uarch.riscv.riscv_architectural_state import RiscvArchitecturalState
        from architecture_simulator.uarch.memory.memory import Memory, AddressingType
        from architecture_simulator.isa.riscv.riscv_parser import RiscvParser
    except Exception:
        return None
    for lo in (0x8000, 0x100):
        st = RiscvArchitecturalState(memory=Memory(AddressingType.BYTE, 32, True, range(lo, 2**32)))
        try:
            RiscvParser().parse(text, st)
        except Exception as e:
            return Failure("oracle", PROP, f"with a data memory starting at {lo:#x} the program is rejected ({type(e).__name__}) -- {text!r}", "asm:custom-range")
        got = {int(a): int(v) for a, v in st.memory.memory_file.items()}
        want = {a - rvasmgen.DATA + lo: v for a, v in mem.items()}
        if {a: v for a, v in got.items() if v} != {a: v for a, v in want.items() if v}:
            return Failure("oracle", PROP, f"with a data memory starting at {lo:#x} the variables are not laid out from that address -- {text!r}", "asm:custom-range")
    return None


def oracle(c):
    fails = []
    k = c.meta["kind"]
    if k == "li" and len(c.impl_out) == 4 and c.lines[1] == f"sim.load {rvasmgen.hx(c.meta['text'])}":
        if not c.impl_out[1].startswith("ok"):
            return [Failure("oracle", PROP, f"li program rejected: {c.impl_out[1][:100]} -- {c.meta['text']!r}", "li:rejected")]
        regs = _regs(c.impl_out[3])
        exp = {}
        for r, v in c.meta["li"]:
            exp[r] = v % 2**32
        for r, v in exp.items():
            if regs[r] != v:
                fails.append(Failure("oracle", PROP, f"li leaves {regs[r]} in x{r}, expected {v} -- {c.meta['text']!r}", "li:value"))
                break
        if not fails and any(regs[r] != 0 for r in range(32) if r not in exp):
            fails.append(Failure("oracle", PROP, f"li changed another register -- {c.meta['text']!r}", "li:clobber"))
    elif k == "help" and len(c.impl_out) == 4:
        regs = _regs(c.impl_out[3]) if c.impl_out[1].startswith("ok") else None
        if regs is None or any(regs[r] != v for r, v in rvasmgen.HELP_EXPECT.items()):
            fails.append(Failure("oracle", PROP, f"the help page's example program does not compute the documented values: {regs and regs[:8]}", "help-example"))
    elif k == "exec" and len(c.impl_out) == 5 and c.lines[1] == f"sim.load {rvasmgen.hx(c.meta['text'])}":
        items, decls = c.meta["abstract"]
        if not c.impl_out[1].startswith("ok"):
            return [Failure("oracle", PROP, f"well-formed program rejected: {c.impl_out[1][:100]} -- {c.meta['text']!r}", "exec:rejected")]
        var, mem = rvasmgen.layout(decls)
        regs = [0] * 32
        M = dict(mem)
        def rd(a, n):
            return sum(M.get((a + i) % 2**32, 0) << (8 * i) for i in range(n))
        for it in items:
            if it[0] == "li":
                if it[1]: regs[it[1]] = it[2] % 2**32
            elif it[0] == "mv":
                if it[1]: regs[it[1]] = regs[it[2]]
            elif it[0] in ("la", "loadv", "storev"):
                name, idx = (it[2], it[3]) if it[0] == "la" else ((it[3], it[4]))
                a = var[name][0] + var[name][1] * (idx or 0)
                if it[0] == "la":
                    if it[1]: regs[it[1]] = a
                elif it[0] == "loadv":
                    mn, r = it[1], it[2]
                    n = {"lb": 1, "lbu": 1, "lh": 2, "lhu": 2, "lw": 4}[mn]
                    if (a % 4) + n > 4:
                        return []       # unaligned element access (e.g. lw of a byte array element): outside the claim
                    v = rd(a, n)
                    if mn == "lb" and v & 0x80: v -= 0x100
                    if mn == "lh" and v & 0x8000: v -= 0x10000
                    if r: regs[r] = v % 2**32
                else:
                    mn, rs, ra = it[1], it[2], it[5]
                    n = {"sb": 1, "sh": 2, "sw": 4}[mn]
                    if (a % 4) + n > 4:
                        return []
                    if ra: regs[ra] = a
                    v = regs[rs]
                    for i in range(n):
                        M[a + i] = (v >> (8 * i)) & 0xFF
        f = _custom_range_layout(c.meta["text"], decls, mem)
        if f is not None:
            return [f]
        got = _regs(c.impl_out[4])
        d = rvgen.parse_snap(c.impl_out[4])
        gm = {int(p.split(":")[0]): int(p.split(":")[1]) for p in d["mem"][5:].split(",") if p}
        if got != regs:
            bad = [(i, got[i], regs[i]) for i in range(32) if got[i] != regs[i]]
            fails.append(Failure("oracle", PROP, f"registers after la/load/store by name {bad[:3]} (reg, got, documented) -- {c.meta['text']!r}", "exec:registers"))
        elif {k_: v for k_, v in gm.items() if v} != {k_: v for k_, v in M.items() if v}:
            fails.append(Failure("oracle", PROP, f"memory after store by name differs -- {c.meta['text']!r}", "exec:memory"))
    elif k == "valid":
        fails = rvasmgen.check_valid(c, PROP, what=("data",))
    return fails
