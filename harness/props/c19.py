"""C19 — TOY encoding round trips and the TOY assembler."""
from __future__ import annotations
from core import Case, Failure
import toyasmgen

PROP = "C19"
CONSTS = ['toy', 'mem']          # constant tables of the models this property depends on
RULE = ("encode/decode: boundary and random words (thorough: all 2^16 words exhaustively, all 13x4096 instructions); "
        "assembler: source texts generated from the documented TOY grammar (stand-alone and in-line labels, data before "
        "or after text, arrays, forward references, decimal/hex operands, mnemonic case, comments, blank lines) and the "
        "documented example programs; non-trivial = text with >=1 label or variable reference; distinct = distinct text/word")
ASSUMPTIONS = ["pyparsing 3.3.2 behaviour on the TOY grammar (modelled by a hand-written parser, tied by this correspondence)"]


def cases(rng, tier):
    yield from full_data_cases()
    ws = [0, 1, 0x0FFF, 0x1000, 0xC000, 0xCFFF, 0xD000, 0xD123, 0xFFFF, 0xF000, 0x8001, 0xBFFF]
    ws += [rng.randrange(65536) for _ in range(200)]
    yield Case("toy-enc", [f"toy.dec {w}" for w in ws] + [f"toy.enc {w >> 12} {w & 0xFFF}" for w in ws], None, {"words": ws})
    if tier == "thorough":
        for lo in range(0, 65536, 4096):
            r = range(lo, lo + 4096)
            yield Case("toy-enc", [f"toy.dec {w}" for w in r] + [f"toy.enc {w >> 12} {w & 0xFFF}" for w in r], None, {"words": list(r)})
    n = 250 if tier == "quick" else 3000
    for c in toyasmgen.example_cases():
        yield c
    for _ in range(n):
        yield toyasmgen.gen_case(rng)


def full_data_cases():
    """a data segment that fills the memory EXACTLY (no instructions): must load, data from address 0 upward"""
    vals = [(7 * k + 1) % 65536 for k in range(4096)]
    text = ".data\nx: .word " + ", ".join(str(v) for v in vals) + "\n"
    yield Case("toy-asm", ["toy.new", f"toy.asm {toyasmgen.hx(text)}", "toy.snap"], None, {"text": text, "abstract": ([], [("x", vals)]), "kind": "valid"})
    text2 = ".data\na: .word " + ", ".join(str(v) for v in vals[:4000]) + "\nb: .word " + ", ".join(str(v) for v in vals[4000:]) + "\n.text\n"
    yield Case("toy-asm", ["toy.new", f"toy.asm {toyasmgen.hx(text2)}", "toy.snap"], None, {"text": text2, "abstract": ([], [("a", vals[:4000]), ("b", vals[4000:])]), "kind": "valid"})


def nontrivial(c):
    if c.suite == "toy-enc":
        return tuple(c.meta["words"][:50])
    return c.meta.get("text") if c.meta.get("refs", 0) >= 1 else None


def measure(c, stats):
    stats.bump("suite=" + c.suite)
    if c.suite != "toy-enc":
        stats.bump("outcome=" + (c.impl_out[-1].split()[0] if c.impl_out else "?"))


def oracle(c):
    from architecture_simulator.isa.toy.toy_instructions import ToyInstruction
    fails = []
    if c.suite == "toy-enc" or (c.lines and c.lines[0].startswith("toy.dec")):
        for l, o in zip(c.lines, c.impl_out):
            t = l.split()
            if t[0] == "toy.dec":
                w = int(t[1])
                op, ad, mn = o.split()
                exp_op = (w >> 12) if (w >> 12) <= 12 else 12
                names = ["STO", "LDA", "BRZ", "ADD", "SUB", "OR", "AND", "XOR", "NOT", "INC", "DEC", "ZRO", "NOP"]
                i = ToyInstruction.from_integer(w)
                back = int(i)
                if int(op) != exp_op or int(ad) != (w & 0xFFF) or mn != names[exp_op]:
                    fails.append(Failure("oracle", PROP, f"word {w:#06x} decodes to ({op},{ad},{mn})", "toy:decode"))
                elif (w >> 12) <= 12 and back != w:
                    fails.append(Failure("oracle", PROP, f"word {w:#06x} re-encodes to {back:#06x}", "toy:encode-decode"))
                elif not (0 <= back < 65536 and back >> 12 == exp_op and back & 0xFFF == (w & 0xFFF)):
                    fails.append(Failure("oracle", PROP, f"instruction of word {w:#06x} encodes to {back:#06x}", "toy:encode-layout"))
                elif ToyInstruction.from_integer(back) != i or ToyInstruction.from_integer(back).address != i.address:
                    fails.append(Failure("oracle", PROP, f"decode(encode(i)) != i for word {w:#06x}", "toy:decode-encode"))
            if fails:
                break
        return fails
    return toyasmgen.oracle(c, PROP)
