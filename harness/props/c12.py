"""C12 — write-through keeps memory current; write-back never loses a written value."""
from __future__ import annotations
from core import Case, Failure
import dcgen
import impl as implmod
import props.c03 as c03

PROP = "C12"
CONSTS = ['mem']          # constant tables of the models this property depends on
RULE = c03.RULE + "; the invariant is evaluated on the real objects after EVERY operation"
ASSUMPTIONS = c03.ASSUMPTIONS


def cases(rng, tier):
    n = 300 if tier == "quick" else 5000
    for _ in range(n):
        yield dcgen.gen_case(rng, forced=True)
    if tier == "thorough":
        for c in c03.cases(rng, "thorough"):
            if c.suite == "dcache-exh":
                yield c


nontrivial = c03.nontrivial
measure = c03.measure


def oracle(c):
    fails = []
    im = implmod.Impl()
    flat = {}            # logical byte contents defined by the history of accepted writes
    hdr = None
    for l in c.lines:
        t = l.split()
        o = im.run(l)
        if t[0] == "dc.new":
            hdr = dcgen.parse_header(l)
            flat = {}
            continue
        if t[0] == "dc.reset":
            flat = {}
            continue
        if hdr is None or (4 << hdr["bb"]) > dcgen.LO:
            continue                       # F6 geometry: recorded under C03
        if t[0] == "dc.w" and (o.startswith("v") or t[4] == "1"):
            bits, a, v = int(t[1]), int(t[2]), int(t[3])
            for i in range(bits // 8):
                if (a + i) % dcgen.HI < dcgen.LO:
                    break                  # a direct (parser) write stores the bytes before the first unmapped one (C18)
                flat[(a + i) % dcgen.HI] = (v >> (8 * i)) & 0xFF
        if t[0] not in ("dc.r", "dc.w"):
            continue
        dc = im.dc
        back = {k: int(v) for k, v in dc.memory.memory_file.items()}
        blk = 4 << hdr["bb"]
        resident = dcgen.resident_blocks(dc)
        res_bases = {b for b, _ in resident}
        if hdr["ty"] == "wt":
            if {k: v for k, v in back.items() if v} != {k: v for k, v in flat.items() if v}:
                fails.append(Failure("oracle", PROP, f"{hdr}: after `{l}` the backing memory differs from the logical contents under write-through", "wt:backing-stale"))
            for b, words in resident:
                for i, w in enumerate(words):
                    mw = sum(back.get(b + 4 * i + j, 0) << (8 * j) for j in range(4))
                    if w != mw:
                        fails.append(Failure("oracle", PROP, f"{hdr}: after `{l}` resident block 0x{b:x} word {i} = {w} differs from backing {mw}", "wt:resident-differs"))
                        break
        else:
            for a, v in flat.items():
                if (a // blk) * blk not in res_bases and back.get(a, 0) != v:
                    fails.append(Failure("oracle", PROP, f"{hdr}: after `{l}` address 0x{a:x} (block not resident) holds {back.get(a, 0)} in backing memory, logical value {v}: a written value was lost", "wb:lost-write"))
                    break
            for b, words in resident:
                for i, w in enumerate(words):
                    for j in range(4):
                        a = b + 4 * i + j
                        if a in flat and (w >> (8 * j)) & 0xFF != flat[a]:
                            fails.append(Failure("oracle", PROP, f"{hdr}: after `{l}` resident block holds a stale byte at 0x{a:x}", "wb:resident-stale"))
                            break
        if fails:
            break
    return fails
