"""C12 — write-through keeps memory current; write-back never loses a written value."""
from __future__ import annotations
from core import Case, Failure
import dcgen
import impl as implmod
import props.c03 as c03

PROP = "C12"
CONSTS = ['mem']          # constant tables of the models this property depends on
RULE = c03.RULE + "; the invariant is evaluated on the real objects after EVERY operation"
ASSUMPTIONS = c03.ASSUMPTIONS


def cases(rng, tier):
    n = 300 if tier == "quick" else 5000
    for _ in range(n):
        yield dcgen.gen_case(rng, forced=True)
    # whole programs on simulations built from options (stores issued by the real instructions, in both modes): at the end
    # the write-through backing store IS the flat run's memory, a write-back system still returns every written value
    import rvgen
    for i in range(60 if tier == "quick" else 1200):
        mode = "five" if i % 2 else "single"
        d = rvgen.penalty_cache_spec(rng, "d")
        if i % 3 == 0:
            yield rvgen.wrap_case(rng, mode, trace=6, dspec=d, suite="sim-dcache-prog")
        else:
            c_ = rvgen.sim_case(rng, mode, hazard=True, opts={"aligned": True, "ctl": i % 4 == 0}, trace=6, run=500, dprob=0.0, iprob=0.0, suite="sim-dcache-prog")
            c_.lines[0] = f"sim.new {mode} 1 {d} -"
            c_.meta["d"] = d
            yield c_
    for prog, regs in rvgen.store_hit_programs():          # store hits / misses of every width and lane, read back before and after displacement
        for mode in ("single", "five"):
            for d in ("wb,lru,0,0,1,0", "wb,plru,1,1,2,3", "wt,lru,0,1,2,0", "wt,lru,1,0,1,2"):
                lines = rvgen.header(mode, True, d, "-", prog, regs, [(rvgen.DATA + i, 0x11 * (i + 1)) for i in range(4)]) + ["sim.snap", "sim.run 200", "sim.snap"]
                yield Case("sim-dcache-prog", lines, None, {"mode": mode, "hazard": True, "prog": prog, "regs": regs, "pokes": [], "d": d, "i": "-"})
    if tier == "thorough":
        for c in c03.cases(rng, "thorough"):
            if c.suite == "dcache-exh":
                yield c


nontrivial = c03.nontrivial
measure = c03.measure


canon = c03.canon


def _prog_oracle(c):
    import props.c02 as c02
    new = c.lines[0].split()
    mode, dspec = new[1], new[3]
    if dspec == "-":
        return []
    wt = dspec.startswith("wt")

    def run(spec):
        im = implmod.Impl()
        im.run(f"sim.new {mode} 1 {spec} -")
        for l in c.lines:
            if l.split()[0] in ("sim.prog", "sim.load", "sim.reg", "sim.poke"):
                im.run(l)
        k, fault = 0, None
        try:
            while not im.sim.is_done() and k < 3000:
                im.sim.step(); k += 1
        except Exception as e:
            fault = str(getattr(e, "error_message", type(e).__name__))
        return im, fault, k
    a, fa, ka = run(dspec)
    b, fb, kb = run("-")
    if (fa and "cross a word boundary" in fa) or (fb and "cross a word boundary" in fb) or ka >= 3000 or kb >= 3000 or (fa is None) != (fb is None):
        return []          # unaligned programs are outside the claim; differing faults are C03's business
    flat = {int(k_): int(v) for k_, v in b.sim.state.memory.memory_file.items()}
    ms = a.sim.state.memory
    if wt:
        back = {int(k_): int(v) for k_, v in ms.memory.memory_file.items()}
        if {k_: v for k_, v in back.items() if v} != {k_: v for k_, v in flat.items() if v}:
            bad = sorted(k_ for k_ in set(back) | set(flat) if back.get(k_, 0) != flat.get(k_, 0))[:4]
            return [Failure("oracle", PROP, f"write-through: after the program the backing memory differs from the memory of the run without cache at {bad} ({mode})", "wt:backing-not-current")]
    for ad, v in sorted(flat.items()):
        try:
            got = int(ms.read_byte(ad, False))
        except Exception:
            continue
        if got != v:
            return [Failure("oracle", PROP, f"after the program the byte at {ad} reads {got} through the {'write-through' if wt else 'write-back'} system, the run without cache stored {v} ({mode})", "wb:lost-write" if not wt else "wt:resident-stale")]
    return []


def oracle(c):
    if c.suite == "sim-dcache-prog":
        return _prog_oracle(c)
    fails = []
    im = implmod.Impl()
    flat = {}            # logical byte contents defined by the history of accepted writes
    hdr = None
    for l in c.lines:
        t = l.split()
        o = im.run(l)
        if t[0] == "dc.new":
            hdr = dcgen.parse_header(l)
            flat = {}
            continue
        if t[0] == "dc.reset":
            flat = {}
            continue
        if hdr is None or (4 << hdr["bb"]) > dcgen.LO:
            continue                       # F6 geometry: recorded under C03
        if t[0] == "dc.w" and (o.startswith("v") or t[4] == "1"):
            bits, a, v = int(t[1]), int(t[2]), int(t[3])
            for i in range(bits // 8):
                if (a + i) % dcgen.HI < dcgen.LO:
                    break                  # a direct (parser) write stores the bytes before the first unmapped one (C18)
                flat[(a + i) % dcgen.HI] = (v >> (8 * i)) & 0xFF
        if t[0] not in ("dc.r", "dc.w"):
            continue
        dc = im.dc
        back = {k: int(v) for k, v in dc.memory.memory_file.items()}
        blk = 4 << hdr["bb"]
        resident = dcgen.resident_blocks(dc)
        res_bases = {b for b, _ in resident}
        if hdr["ty"] == "wt":
            if {k: v for k, v in back.items() if v} != {k: v for k, v in flat.items() if v}:
                fails.append(Failure("oracle", PROP, f"{hdr}: after `{l}` the backing memory differs from the logical contents under write-through", "wt:backing-stale"))
            for b, words in resident:
                for i, w in enumerate(words):
                    mw = sum(back.get(b + 4 * i + j, 0) << (8 * j) for j in range(4))
                    if w != mw:
                        fails.append(Failure("oracle", PROP, f"{hdr}: after `{l}` resident block 0x{b:x} word {i} = {w} differs from backing {mw}", "wt:resident-differs"))
                        break
        else:
            for a, v in flat.items():
                if (a // blk) * blk not in res_bases and back.get(a, 0) != v:
                    fails.append(Failure("oracle", PROP, f"{hdr}: after `{l}` address 0x{a:x} (block not resident) holds {back.get(a, 0)} in backing memory, logical value {v}: a written value was lost", "wb:lost-write"))
                    break
            for b, words in resident:
                for i, w in enumerate(words):
                    for j in range(4):
                        a = b + 4 * i + j
                        if a in flat and (w >> (8 * j)) & 0xFF != flat[a]:
                            fails.append(Failure("oracle", PROP, f"{hdr}: after `{l}` resident block holds a stale byte at 0x{a:x}", "wb:resident-stale"))
                            break
        if fails:
            break
    return fails


# The data-cache TABLE is part of the model (`Model/CacheViews.lean`). What `get_data_cache_entries()` shows is judged here on the real
# objects after every snapshot of the whole-program suite: every cell of a valid block shows the
# address base + 4j and the value a load from that address returns now.
_cases_plain = cases


def cases(rng, tier):
    for c in _cases_plain(rng, tier):
        # (the correspondence of the rendered table with the model runs in C09, whose tie follows the real replacement policy by
        #  design; here the table is judged on the real objects only, which does not depend on which block a policy evicts)
        yield c


_oracle_plain = oracle


def oracle(c):
    f_ = _oracle_plain(c)
    if f_ or c.suite != "sim-dcache-prog":
        return f_
    im = implmod.Impl()
    for l in c.lines:
        o = im.run(l)
        if o.startswith("F") or o.startswith("X") or " F " in o or " X " in o:
            return f_
        if l != "sim.snap":
            continue
        tab = im.sim.get_data_cache_entries()
        if tab is None:
            return f_
        for s_ in tab.sets:
            for b in s_.blocks:
                if str(b.valid_bit) != "1":
                    continue
                addrs = [int(a, 16) for a, _ in b.address_value_list]
                try:
                    _ty, _pol, ib, bb, _assoc, _pen = next(x for x in c.lines if x.startswith("sim.new")).split()[3].split(",")
                    ib, bb = int(ib), int(bb)
                    tb = 32 - ib - bb - 2
                    want_tag = "0x" + ("{:0" + str(-(-tb // 4)) + "X}").format(addrs[0] >> (ib + bb + 2))
                    want_idx = "0x" + ("{:0" + str(-(-ib // 4)) + "X}").format((addrs[0] >> (bb + 2)) % (1 << ib))
                    if str(b.tag) != want_tag or str(s_.index) != want_idx:
                        return [Failure("oracle", PROP, f"data-cache table: the block at 0x{addrs[0]:08X} is shown in set {s_.index} with tag {b.tag}; its address has set index {want_idx} and tag {want_tag}", "cache-table:tag")]
                except (StopIteration, ValueError):
                    pass
                if any(y - x != 4 for x, y in zip(addrs, addrs[1:])):
                    return [Failure("oracle", PROP, f"data-cache table: the cells of one block show the addresses {[hex(a) for a in addrs]}", "cache-table:addresses")]
                for a, v in b.address_value_list:
                    now = int(im.sim.state.memory.read_word(int(a, 16), update_statistics=False))
                    if int(v) != now:
                        return [Failure("oracle", PROP, f"data-cache table shows {v} at 0x{a}; a load from that address returns {now}", "cache-table:stale")]
    return f_
