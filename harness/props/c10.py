"""C10 — replacement policies (LRU / PLRU): correspondence of `Model.Repl` with
`replacement_strategies.py`, and the implementation-level oracle (timestamp LRU, recursive-tree PLRU)."""
from __future__ import annotations
from core import Case, Failure

PROP = "C10"
CONSTS = []          # constant tables of the models this property depends on
RULE = ("random access histories per (policy, associativity); quick: assoc 1..8 (PLRU 1,2,4,8,16), "
        "thorough adds breadth-first enumeration of every reachable policy state and every access from it "
        "(LRU assoc<=5, PLRU assoc<=8); a case is non-trivial when it contains >=2 accesses to distinct ways; "
        "distinct = distinct (policy, assoc, history)")
ASSUMPTIONS = ["math.log2 exact on powers of two", "list.remove/append/index semantics of CPython"]


def _case(pol, assoc, hist, every=True):
    lines = [f"repl.new {pol} {assoc}"]
    for i in hist:
        lines.append(f"repl.acc {i}")
        if every:
            lines += ["repl.vic", "repl.repr"]
    if not every:
        lines += ["repl.vic", "repl.repr"]
    return Case("repl", lines, None, {"pol": pol, "assoc": assoc, "hist": list(hist)})


def cases(rng, tier):
    n = 300 if tier == "quick" else 4000
    for _ in range(n):
        pol = rng.choice(["lru", "plru"])
        assoc = rng.choice([1, 2, 3, 4, 5, 6, 7, 8]) if pol == "lru" else rng.choice([1, 2, 4, 8, 16])
        ln = rng.choice([0, 1, 2, 3, 5, 8, 13, 21, 40])
        hist = []
        for _ in range(ln):
            if hist and rng.random() < 0.25:
                hist.append(hist[-1])          # immediate repetition (idempotence)
            else:
                hist.append(rng.randrange(assoc))
        yield _case(pol, assoc, hist)
    # TWO policy objects alive at the same time (a data cache and an instruction cache, or two sets of one cache), of the same
    # and of different kind and associativity, accessed in turn: each must follow its own history (judged by the oracle; the
    # correspondence drives the first of the two alone)
    for k in range(40 if tier == "quick" else 600):
        specs = [("plru", 4), ("plru", 2), ("plru", 8), ("lru", 3), ("plru", 16), ("lru", 4), ("plru", 1)]
        (p1, a1), (p2, a2) = specs[k % len(specs)], specs[(k // len(specs) + k + 1) % len(specs)]
        inter = [(rng.randrange(2), None) for _ in range(rng.choice([6, 12, 24]))]
        inter = [(w, rng.randrange(a1 if w == 0 else a2)) for w, _ in inter]
        c_ = _case(p1, a1, [i for w, i in inter if w == 0])
        c_.meta.update({"other": [p2, a2], "inter": [list(x) for x in inter]})
        yield c_
    if tier == "thorough":
        # exhaustive: every reachable state (by BFS over access sequences, dedup on the real repr)
        from architecture_simulator.uarch.memory.replacement_strategies import LRU, PLRU
        for pol, assocs in (("lru", [1, 2, 3, 4, 5]), ("plru", [1, 2, 4, 8])):
            for assoc in assocs:
                seen = {}
                frontier = [()]
                while frontier:
                    nxt = []
                    for h in frontier:
                        o = LRU(assoc) if pol == "lru" else PLRU(assoc)
                        for i in h:
                            o.access(i)
                        key = tuple(o.get_repr())
                        if key in seen:
                            continue
                        seen[key] = h
                        for i in range(assoc):
                            nxt.append(h + (i,))
                    frontier = nxt
                for h in seen.values():
                    for i in range(assoc):
                        yield _case(pol, assoc, list(h) + [i, i])


def nontrivial(c):
    h = c.meta.get("hist", [])
    if len(set(h)) >= 2:
        return (c.meta["pol"], c.meta["assoc"], tuple(h))
    return None


def measure(c, stats):
    stats.bump(f"{c.meta['pol']}/assoc={c.meta['assoc']}")
    stats.bump("accesses", len(c.meta.get("hist", [])))


# ---- implementation-level oracle -----------------------------------------------------------

def _ref_lru(assoc, hist):
    """timestamp LRU: victim, and the order of all ways (oldest first; never accessed first by index)."""
    last = {}
    for t, i in enumerate(hist):
        last[i] = t
    order = sorted(range(assoc), key=lambda i: (1, last[i]) if i in last else (0, i))
    return order


def _ref_plru_victim(assoc, hist):
    """recursive-tree PLRU: each inner node remembers which half was used last; victim goes the other way."""
    def build(lo, hi):
        return None if hi - lo == 1 else {"lo": lo, "hi": hi, "last_right": None, "l": build(lo, (lo + hi) // 2), "r": build((lo + hi) // 2, hi)}
    root = build(0, assoc)
    for i in hist:
        n = root
        while n is not None:
            mid = (n["lo"] + n["hi"]) // 2
            if i < mid:
                n["last_right"] = False
                n = n["l"]
            else:
                n["last_right"] = True
                n = n["r"]
    n = root
    lo, hi = 0, assoc
    while n is not None:
        mid = (lo + hi) // 2
        # never-touched node: bit False -> the implementation goes left
        if n["last_right"] is None or n["last_right"] is True:
            n, hi = n["l"], mid
        else:
            n, lo = n["r"], mid
    return lo


def _pair_oracle(c):
    """two policies alive together, accessed in turn: victim (and LRU ages) of each after every access of either"""
    from architecture_simulator.uarch.memory.replacement_strategies import LRU, PLRU
    specs = [(c.meta["pol"], c.meta["assoc"]), tuple(c.meta["other"])]
    objs = [LRU(a) if p == "lru" else PLRU(a) for p, a in specs]
    done = [[], []]
    for w, i in c.meta["inter"]:
        try:
            objs[w].access(i)
        except Exception as e:
            return [Failure("oracle", PROP, f"{specs[w][0]} assoc={specs[w][1]} (next to a {specs[1 - w][0]} assoc={specs[1 - w][1]}): access({i}) raised {type(e).__name__}", f"{specs[w][0]}:pair-raises")]
        done[w].append(i)
        for j in (0, 1):
            p, a = specs[j]
            if not done[j]:
                continue
            try:
                v = objs[j].get_next_to_replace()
            except Exception as e:
                return [Failure("oracle", PROP, f"{p} assoc={a}: get_next_to_replace raised {type(e).__name__}", f"{p}:pair-raises")]
            ref = _ref_lru(a, done[j])[0] if p == "lru" else _ref_plru_victim(a, done[j])
            if v != ref:
                return [Failure("oracle", PROP, f"{p} assoc={a} history {done[j]} (interleaved with a {specs[1 - j][0]} assoc={specs[1 - j][1]} policy, history {done[1 - j]}): victim {v}, reference {ref}", f"{p}:victim")]
    return []


def oracle(c):
    from architecture_simulator.uarch.memory.replacement_strategies import LRU, PLRU
    if c.meta.get("inter"):
        f_ = _pair_oracle(c)
        if f_:
            return f_
    pol, assoc, hist = c.meta.get("pol"), c.meta.get("assoc"), c.meta.get("hist")
    if pol is None:
        # corpus / replay case: recover from the lines
        t = c.lines[0].split()
        pol, assoc = t[1], int(t[2])
        hist = [int(l.split()[1]) for l in c.lines if l.startswith("repl.acc")]
    fails = []
    o = LRU(assoc) if pol == "lru" else PLRU(assoc)
    done = []
    for i in hist:
        if not (0 <= i < assoc):
            return fails
        before_same = bool(done) and done[-1] == i
        prev = repr(o.get_repr())
        o.access(i)
        done.append(i)
        if before_same and repr(o.get_repr()) != prev:
            fails.append(Failure("oracle", PROP, f"{pol} assoc={assoc}: second access to way {i} changed the state after history {done}", f"{pol}:not-idempotent"))
        if pol == "lru":
            order = _ref_lru(assoc, done)
            v = o.get_next_to_replace()
            if v != order[0]:
                fails.append(Failure("oracle", PROP, f"lru assoc={assoc} history {done}: victim {v}, least recently used is {order[0]}", "lru:victim"))
            r = o.get_repr()
            if sorted(range(assoc), key=lambda k: r[k]) != order or sorted(r) != list(range(assoc)):
                fails.append(Failure("oracle", PROP, f"lru assoc={assoc} history {done}: ages {r} inconsistent with recency order {order}", "lru:ages"))
        else:
            v = o.get_next_to_replace()
            ref = _ref_plru_victim(assoc, done)
            if v != ref:
                fails.append(Failure("oracle", PROP, f"plru assoc={assoc} history {done}: victim {v}, tree says {ref}", "plru:victim"))
            if assoc > 1 and v == i:
                fails.append(Failure("oracle", PROP, f"plru assoc={assoc} history {done}: victim is the block just accessed", "plru:victim-is-mru"))
        if fails:
            break
    return fails
