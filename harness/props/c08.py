"""C08 — hazard detection off behaves exactly as an interlock-free pipeline."""
from __future__ import annotations
from core import Case, Failure
import rvgen
import rvref
import pipe_ref
import impl as implmod
import props.c02 as c02

PROP = "C08"
CONSTS = ['ops', 'ctl']          # constant tables of the models this property depends on
RULE = ("programs of C02 run in five-stage mode with hazard detection DISABLED, traced cycle by cycle; compared with an "
        "independent interlock-free pipeline reference (stale reads when a consumer is fewer than three slots behind its producer); "
        "plus arbitrary programs padded with two nops after every instruction (branch offsets scaled) compared with single-cycle "
        "mode; non-trivial = program with a RAW dependency at distance <3 (unpadded) or >=3 instructions (padded); "
        "distinct = distinct (program, registers, memory)")
ASSUMPTIONS = ["as C02"]


def pad(prog):
    """two nops behind every instruction; pc-relative offsets scaled by 3"""
    out = []
    for k, t in enumerate(prog):
        f = t.split(",")
        op = f[0]
        if op in rvgen.B_OPS:
            f[4] = str(int(f[4]) * 3)
        elif op == "jal":
            f[4] = str(int(f[4]) * 3)
            f[5] = str(12 * k + int(f[4]))
        out += [",".join(f), "addi,0,0,0,0,0", "addi,0,0,0,0,0"]
    return out


def padded_case(rng):
    prog, regs, pokes = rvgen.gen_program(rng, {"n": rng.choice([2, 4, 7, 12])})
    # keep jalr targets meaningful: registers used as jalr bases are scaled too
    prog = [t for t in prog if not t.startswith("jalr") and not t.startswith("auipc")]
    prog = [t for t in prog if abs(int(t.split(",")[4])) * 3 < 4096 or t.split(",")[0] not in rvgen.B_OPS]
    prog = [t for t in prog if abs(int(t.split(",")[4])) * 3 < 2**20 or t.split(",")[0] != "jal"]
    pp = pad(prog)
    lines = rvgen.header("five", False, "-", "-", pp, regs, pokes) + ["sim.snap", "sim.run 3000", "sim.snap"]
    return Case("padded", lines, None, {"mode": "five", "hazard": False, "prog": pp, "regs": regs, "pokes": pokes, "d": "-", "i": "-", "kind": "padded"})


def cases(rng, tier):
    k = 250 if tier == "quick" else 4000
    for i in range(k):
        c_ = rvgen.sim_case(rng, "five", hazard=False, opts={"wide": i % 4 == 0}, trace=40, run=600, dprob=0.3, iprob=0.2, suite="sim-five-nohazard")
        yield rvgen.as_text_case(c_) if i % 4 == 3 else c_        # every fourth program goes through the loader
    for i in range(120 if tier == "quick" else 2500):
        yield padded_case(rng)
    # deterministic schedules with the interlock off: faults next to producers / consumers / ecalls, ecall-rich programs
    # (arguments set up one and two slots before the call are NOT yet visible), discarded-result instructions
    for prog, regs in rvgen.long_programs(rng, tier):
        yield rvgen.long_case(prog, regs, "five", False, suite="sim-five-nohazard")
    for prog, regs in rvgen.reg_sweep_programs():          # every register number as the register of a dependency
        lines = rvgen.header("five", False, "-", "-", prog, regs, []) + ["sim.snap"]
        for _ in range(len(prog) + 16):
            lines += ["sim.step", "sim.snap"]
        lines += ["sim.run 200", "sim.snap"]
        yield Case("sim-five-nohazard", lines, None, {"mode": "five", "hazard": False, "prog": prog, "regs": regs, "pokes": [], "d": "-", "i": "-"})
    for prog, regs in rvgen.fault_schedule_programs():
        lines = rvgen.header("five", False, "-", "-", prog, regs, []) + ["sim.snap"]
        for _ in range(14):
            lines += ["sim.step", "sim.snap"]
        lines += ["sim.run 200", "sim.snap"]
        yield Case("sim-five-nohazard", lines, None, {"mode": "five", "hazard": False, "prog": prog, "regs": regs, "pokes": [], "d": "-", "i": "-"})
    for i in range(30 if tier == "quick" else 400):
        yield rvgen.ecall_case(rng, "five", hazard=False, trace=30, run=300, suite="sim-five-nohazard")
        yield rvgen.x0_dest_case(rng, "five", hazard=False, trace=20, run=300, suite="sim-five-nohazard")


def nontrivial(c):
    last = rvgen.parse_snap(c.impl_out[-1]) if c.impl_out and c.impl_out[-1].startswith("pc=") else {}
    if int(last.get("ins", 0)) >= 3:
        return (tuple(c.meta["prog"]), tuple(sorted(c.meta["regs"].items())), tuple(c.meta["pokes"]), c.meta["d"], c.meta["i"])
    return None


def measure(c, stats):
    stats.bump("suite=" + c.suite)
    last = rvgen.parse_snap(c.impl_out[-1]) if c.impl_out and c.impl_out[-1].startswith("pc=") else {}
    stats.bump("ecall_stalls", int(last.get("st", 0)))
    stats.bump("flushes", int(last.get("fl", 0)))


def oracle(c):
    fails = []
    new = next((l for l in c.lines if l.startswith("sim.new")), None)
    if new is None or not any(l.startswith("sim.prog") for l in c.lines) or new.split()[2] != "0":
        return fails
    # no decode-stage stall is ever recorded
    for l, o in zip(c.lines, c.impl_out):
        if l == "sim.snap" and "|stalled=1," in o:
            return [Failure("oracle", PROP, "a decode-stage stall was inserted although hazard detection is disabled", "nohazard:id-stall")]
    if c.meta.get("kind") == "padded" or c.suite == "padded":
        return c02.compare_modes(c, PROP, False, what="nop-padded program with hazard detection off")
    # functional comparison with the interlock-free reference
    first = next((o for l, o in zip(c.lines, c.impl_out) if l == "sim.snap"), None)
    if first is None:
        return fails
    b = c02.run_mode(c, "five", False, limit=2500, nocache=True)
    d0 = rvgen.parse_snap(first)
    regs = {i: int(v) for i, v in enumerate(d0["regs"].split(","))}
    ref = pipe_ref.PipeRef(rvref.parse_prog(rvref.prog_of_lines(c.lines)), regs, rvref.mem_of_snap(d0), hazard=False)
    rfault = None
    try:
        while not ref.done() and ref.cycle < 2500:
            ref.step()
    except rvref.Fault as f:
        rfault = f
    if rfault is not None or b["fault"] is not None:
        if (rfault is None) != (b["fault"] is None):
            fails.append(Failure("oracle", PROP, f"interlock-free reference fault={getattr(rfault, 'kind', None)} but implementation fault={b['fault']}", "nohazard:fault-differs"))
        return fails
    if not ref.done() or not b["done"]:
        return fails
    d = b["d"]
    got = [int(x) for x in d["regs"].split(",")]
    out = "" if d["out"] == "." else bytes.fromhex(d["out"]).decode()
    mem = {k: v for k, v in rvref.mem_of_snap(d).items() if v}
    if got != ref.core.x:
        bad = [(i, got[i], ref.core.x[i]) for i in range(32) if got[i] != ref.core.x[i]]
        fails.append(Failure("oracle", PROP, f"registers {bad[:3]} (reg, implementation, interlock-free reference)", "nohazard:registers"))
    elif d["mem"].startswith("flat") and mem != {k: v for k, v in ref.core.mem.items() if v}:
        fails.append(Failure("oracle", PROP, "data memory differs from the interlock-free reference", "nohazard:memory"))
    elif out != ref.core.out or (None if d["exit"] == "-" else int(d["exit"])) != ref.core.exit:
        fails.append(Failure("oracle", PROP, "output / exit code differs from the interlock-free reference", "nohazard:output"))
    elif b["retired"] != [a for _, a in ref.retired] or b["steps"] != ref.cycle:
        fails.append(Failure("oracle", PROP, f"retire order / cycle count ({b['steps']}) differs from the interlock-free reference ({ref.cycle})", "nohazard:schedule"))
    return fails
