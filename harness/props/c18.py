"""C18 — flat memory: correspondence of `Model.Mem` with `memory.py`, oracle = dict-of-bytes reference."""
from __future__ import annotations
from core import Case, Failure

PROP = "C18"
CONSTS = ['mem']          # constant tables of the models this property depends on
RULE = ("random histories of reads/writes of widths 8/16/32 (RISC-V cfg) or 16 (TOY cfg) over a colliding "
        "address universe: both ends of the valid range, +-2^32 aliases, negative and unaligned addresses; "
        "non-trivial = at least one accepted write followed by a read overlapping it; distinct = distinct history")
ASSUMPTIONS = ["fixedint UIntN construction = reduction modulo 2^N", "CPython dict as a finite map"]

LO, HI = 2**14, 2**32


def _addr(rng, kind):
    if kind == "toy":
        return rng.choice([0, 1, 2, 5, 4094, 4095, 4096, 4097, -1, -4096, rng.randrange(4096), 8192])
    base = rng.choice([LO, LO, LO + 4, LO + 64, HI - 8, HI - 4, HI, 0, LO - 4, 2 * HI + LO, -HI + LO + 8, -(HI - LO), rng.randrange(LO, LO + 256)])
    return base + rng.choice([0, 0, 1, 2, 3, -1, -2, -3, 4, 5])


def gen_case(rng, kind, n):
    lines = [f"mem.new {kind}"]
    for _ in range(n):
        bits = 16 if kind == "toy" else rng.choice([8, 16, 32])
        a = _addr(rng, kind)
        r = rng.random()
        if r < 0.5:
            v = rng.choice([0, 1, 0xFF, 0x80, 0x1234, 0xFFFF, 0x8000, 0xDEADBEEF, 0xFFFFFFFF, rng.randrange(2**32)]) % (2**bits)
            lines.append(f"mem.w {bits} {a} {v}")
        elif r < 0.9:
            lines.append(f"mem.r {bits} {a}")
        elif r < 0.95:
            lines.append("mem.dump")
        else:
            lines.append(f"mem.repr {16 if kind == 'toy' else rng.choice([8, 16, 32])}")
    lines.append("mem.dump")
    return Case("mem", lines, None, {"kind": kind})


def cases(rng, tier):
    n = 400 if tier == "quick" else 6000
    for _ in range(n):
        yield gen_case(rng, rng.choice(["riscv", "riscv", "toy"]), rng.choice([1, 3, 8, 20, 40]))


def nontrivial(c):
    ws = [l for l in c.lines if l.startswith("mem.w")]
    rs = [l for l in c.lines if l.startswith("mem.r ")]
    return "\n".join(c.lines) if ws and rs else None


def measure(c, stats):
    stats.bump("kind=" + c.meta.get("kind", "?"))
    for l, o in zip(c.lines, c.impl_out):
        if l.startswith("mem.w") or l.startswith("mem.r "):
            stats.bump(("write" if l.startswith("mem.w") else "read") + ("-error" if o.startswith("E") else "-ok"))


def oracle(c):
    """Reference: byte map defined from the history alone."""
    kind = c.lines[0].split()[1] if c.lines and c.lines[0].startswith("mem.new") else "riscv"
    cell = 16 if kind == "toy" else 8
    lo, hi = (0, 4096) if kind == "toy" else (LO, HI)
    wrap = (lambda a: a) if kind == "toy" else (lambda a: a % HI)
    B = {}
    fails = []
    for l, o in zip(c.lines, c.impl_out):
        t = l.split()
        if t[0] == "mem.new":
            B = {}
        elif t[0] == "mem.reset":
            B = {}
        elif t[0] == "mem.w":
            bits, a, v = int(t[1]), int(t[2]), int(t[3])
            n = bits // cell
            addrs = [wrap(a + i) for i in range(n)]
            bad = next((x for x in addrs if not (lo <= x < hi)), None)
            # cells before the first bad one are written, then the error is raised
            for i, x in enumerate(addrs):
                if not (lo <= x < hi):
                    break
                B[x] = (v >> (cell * i)) & (2**cell - 1)
            exp = "ok" if bad is None else f"E addr {bad}"
            if o != exp:
                fails.append(Failure("oracle", PROP, f"{kind}: `{l}` answered `{o}`, byte-store reference says `{exp}`", "mem:write-outcome"))
        elif t[0] == "mem.r":
            bits, a = int(t[1]), int(t[2])
            n = bits // cell
            addrs = [wrap(a + i) for i in range(n)]
            bad = next((x for x in addrs if not (lo <= x < hi)), None)
            exp = f"E addr {bad}" if bad is not None else "v " + str(sum(B.get(x, 0) << (cell * i) for i, x in enumerate(addrs)))
            if o != exp:
                fails.append(Failure("oracle", PROP, f"{kind}: `{l}` answered `{o}`, byte-store reference says `{exp}`", "mem:read-value"))
        elif t[0] == "mem.dump":
            got = {int(p.split(":")[0]): int(p.split(":")[1]) for p in o.split(",") if p}
            if {k: v for k, v in got.items() if v} != {k: v for k, v in B.items() if v} or set(got) != set(B):
                fails.append(Failure("oracle", PROP, f"{kind}: stored cells {got} differ from the byte-store reference {B}", "mem:cells"))
        if fails:
            break
    return fails
