"""C13 — lifecycle: done is stable, run equals stepping, reload equals a fresh load."""
from __future__ import annotations
from core import Case, Failure
import rvasmgen
import toyasmgen
import rvgen
import impl as implmod

PROP = "C13"
CONSTS = ['ops', 'asm', 'toy', 'mem']          # constant tables of the models this property depends on
RULE = ("API histories for single-cycle, five-stage and TOY simulations: any number of earlier loads (well-formed texts and texts "
        "failing at every pass), then a final load, then step/run interleavings with extra calls after done; programs incl. empty, "
        "faulting, exiting via ecall, falling off the end, jumping outside; random cache configurations; deep snapshot after every "
        "call; fixed reload patterns (A,bad,A / A,A / A,other,A / bad,A / A,bad,bad,A) for every simulation kind; non-trivial = history with >=2 loads or >=1 call after done; distinct = distinct history")
ASSUMPTIONS = ["as C04/C19 for the assemblers"]

RV_TEXTS = ["", "nop", "addi x1, x0, 5\naddi x2, x1, 1", "li a7, 10\necall\naddi x1, x0, 1", "li a7, 93\nli a0, 7\necall", "beq x0, x0, 64", "jal x1, 0",
            "lw x1, 0(x0)", "li a7, 5\necall", "addi x1, x0, 1\nj_bad", ".data\nv: .word 1, 2\n.text\nlw x1, v\nsw x1, v[1], x2", ".data\nv: .word 1\nv: .word 2\n.text\nnop",
            ".data\nv: .byte 300\n.text\nla x1, q", "loop: addi x1, x1, 1\nbne x1, x2, loop", "a:\na:\nnop", ".data\ns: .string \"hi\"\n.text\nli a7, 4\nla a0, s\necall",
            "addi x1, x0, 01", "lui x5, 4\nsw x5, 0(x5)\nlw x6, 0(x5)", ".text\nnop\n.text\nnop"]
TOY_TEXTS = ["", "INC", "INC\nDEC\nNOT", "loop: DEC\nBRZ end\nZRO\nBRZ loop\nend: STO x\n.data\nx: .word 3", "LDA y", "x: .word 1", "ADD 0x", "a:\na:\nINC",
             ".data\nv: .word 1,2,3\n.text\nLDA v\nADD v\nSTO 4000", "BRZ 0", "STO 1\nNOP", ".data\nINC\n.text\nNOP", "ſto 1"]


def rv_case(rng, tier):
    mode = rng.choice(["single", "five"])
    dspec, ispec = rvgen.cache_spec(rng, "d", 0.4), rvgen.cache_spec(rng, "i", 0.4)
    lines = [f"sim.new {mode} 1 {dspec} {ispec}", "sim.snap"]
    nloads = rng.choice([1, 1, 2, 3, 4])
    for k in range(nloads):
        if rng.random() < 0.6:
            t = rng.choice(RV_TEXTS)
        else:
            c = rvasmgen.asm_case(rng, fault_prob=0.4, opts={"no_sys": True})
            t = c.meta["text"]
            if any(w in t.lower() for w in ("csr", "fence", "ebreak")):
                t = rng.choice(RV_TEXTS)          # CSR/FENCE/EBREAK execution is outside the model (and outside C01/C02)
        lines += [f"sim.load {rvasmgen.hx(t)}", "sim.snap"]
    for _ in range(rng.choice([2, 6, 15])):
        if rng.random() < 0.75:
            lines += ["sim.step", "sim.done", "sim.snap"]
        else:
            lines += [f"sim.run {rng.choice([1, 3, 500])}", "sim.done", "sim.snap"]
    lines += ["sim.run 800", "sim.done", "sim.snap", "sim.step", "sim.snap", "sim.run 5", "sim.snap"]
    return Case("rv-life", lines, None, {"mode": mode, "loads": nloads})


def toy_case(rng, tier):
    lines = ["toy.new", "toy.snap"]
    nloads = rng.choice([1, 1, 2, 3, 4])
    for k in range(nloads):
        t = rng.choice(TOY_TEXTS) if rng.random() < 0.6 else toyasmgen.gen_case(rng).meta["text"]
        lines += [f"toy.asm {toyasmgen.hx(t)}", "toy.snap"]
    for _ in range(rng.choice([2, 6, 15])):
        if rng.random() < 0.8:
            lines += ["toy.call step", "toy.snap"]
        else:
            lines += [f"toy.run {rng.choice([1, 3, 300])}", "toy.snap"]
    lines += ["toy.run 600", "toy.snap", "toy.call step", "toy.snap", "toy.run 5", "toy.snap"]
    return Case("toy-life", lines, None, {"mode": "toy", "loads": nloads})


RV_OK = ["li a7, 93\nli a0, 7\necall\naddi x1, x0, 1\naddi x2, x0, 2", "li a7, 10\necall\nsub: addi x1, x0, 1\njalr x0, x1, 0",     # exit with code after it
         ".data\nv: .word 1, 2\n.text\nlw x1, v\nsw x1, v[1], x2", "addi x1, x0, 5\naddi x2, x1, 1", ".data\ns: .string \"hi\"\n.text\nli a7, 4\nla a0, s\necall"]
RV_BAD = [".data\nw: .word 9, 8, 7\n.text\nnop\nj_bad", ".data\nv: .byte 300\n.text\nla x1, q", "a:\na:\nnop", "addi x1, x0, 01"]
TOY_OK = [".data\nv: .word 1,2,3\n.text\nLDA v\nADD v\nSTO 4000", "INC\nDEC\nNOT", "loop: DEC\nBRZ end\nZRO\nBRZ loop\nend: STO x\n.data\nx: .word 3"]
TOY_BAD = [".data\nq: .word 7, 7\n.text\nLDA y", "ADD 0x", "a:\na:\nINC", "INC\nx: .word 1"]


# texts that share label / variable names: a load that fails late (after its labels and data were processed) must leave
# nothing behind that a later load can see
RV_SHARED = [
    (["L: addi x1, x0, 1\nloop: beq x0, x0, missing"], "L: addi x1, x0, 2\nloop: addi x2, x0, 3"),          # same labels declared again
    (["L: addi x1, x0, 1\nnop\nbeq x0, x0, missing"], "nop\nbeq x0, x0, L"),                                # label only referred to: must fail as in a fresh simulation
    ([".data\nv: .word 7\n.text\nlw x1, v\nbeq x0, x0, missing"], "lw x1, v"),                              # variable only referred to
    (["L: addi x1, x0, 1"], "nop\nbeq x0, x0, L"),                                                             # after a SUCCESSFUL load too
    ([".data\nv: .word 7\n.text\nlw x1, v", "addi x1, x0, 01"], ".data\nv: .word 9\n.text\nlw x2, v"),
]
TOY_SHARED = [
    (["L: INC\nBRZ missing"], "L: DEC\nBRZ L"),
    (["L: INC\nBRZ missing"], "INC\nBRZ L"),
    ([".data\nv: .word 7\n.text\nLDA v\nBRZ missing"], "LDA v"),
    (["L: INC"], "BRZ L"),
]


def reload_patterns(rng, tier):
    """the same text loaded again after a successful / a failing load of another text, and twice in a row — for every
    simulation kind, independent of the seed"""
    for kind in ("single", "five", "toy"):
        ok, bad = (TOY_OK, TOY_BAD) if kind == "toy" else (RV_OK, RV_BAD)
        for a in ok:
            for pattern in ([a, "B", a], [a, a], [a, "O", a], ["B", a], [a, "B", "B", a]):
                texts = [(rng.choice(bad) if t == "B" else rng.choice([o for o in ok if o != a]) if t == "O" else t) for t in pattern]
                if kind == "toy":
                    lines = ["toy.new", "toy.snap"]
                    for t in texts:
                        lines += [f"toy.asm {toyasmgen.hx(t)}", "toy.snap"]
                    lines += ["toy.call step", "toy.snap", "toy.run 300", "toy.snap", "toy.call step", "toy.snap"]
                else:
                    d = rvgen.cache_spec(rng, "d", 0.5)
                    lines = [f"sim.new {kind} 1 {d} -", "sim.snap"]
                    for t in texts:
                        lines += [f"sim.load {rvasmgen.hx(t)}", "sim.snap"]
                    for _ in range(12):
                        lines += ["sim.step", "sim.done", "sim.started", "sim.snap"]
                    lines += ["sim.run 300", "sim.done", "sim.started", "sim.snap", "sim.step", "sim.snap"]
                yield Case("reload-patterns", lines, None, {"mode": kind, "loads": len(texts)})
        # calls made on a simulation that has NO program yet (queries, step, run — none of them starts it), then the first load:
        # it must behave like a load into a fresh simulation
        for a in ok[:3]:
            for pre in (["done"], ["step"], ["run"], ["insp"], ["done", "step", "run", "insp"], ["B", "done", "step"]):
                if kind == "toy":
                    m = {"done": ["toy.insp 8"], "step": ["toy.call step"], "run": ["toy.run 3"], "insp": ["toy.insp 63"], "B": [f"toy.asm {toyasmgen.hx(rng.choice(bad))}"]}
                    lines = ["toy.new", "toy.snap"] + [x for q in pre for x in m[q]] + [f"toy.asm {toyasmgen.hx(a)}", "toy.snap"]
                    lines += ["toy.call step", "toy.snap", "toy.run 300", "toy.snap", "toy.call step", "toy.snap"]
                else:
                    m = {"done": ["sim.done"], "step": ["sim.step"], "run": ["sim.run 3"], "insp": ["sim.insp 8191"], "B": [f"sim.load {rvasmgen.hx(rng.choice(bad))}"]}
                    lines = [f"sim.new {kind} 1 - -", "sim.snap"] + [x for q in pre for x in m[q]] + [f"sim.load {rvasmgen.hx(a)}", "sim.started", "sim.snap"]
                    for _ in range(6):
                        lines += ["sim.step", "sim.done", "sim.started", "sim.snap"]
                    lines += ["sim.run 300", "sim.done", "sim.started", "sim.snap", "sim.step", "sim.snap"]
                yield Case("reload-patterns", lines, None, {"mode": kind, "loads": 1 + pre.count("B")})
        if kind != "toy":
            # a first step that FAULTS, then a corrected program: whatever `has_started` says afterwards, a load into a
            # simulation that reports "not started" must give the state of a fresh simulation
            for bad_first in ("lw x1, 0(x0)", "li a7, 5\necall", "sw x1, 4(x0)\nnop"):
                for good in (RV_OK[0], RV_OK[2]):
                    lines = [f"sim.new {kind} 1 - -", "sim.snap", f"sim.load {rvasmgen.hx(bad_first)}", "sim.snap", "sim.started"]
                    for _ in range(6):
                        lines += ["sim.step", "sim.started", "sim.snap"]
                    lines += [f"sim.load {rvasmgen.hx(good)}", "sim.started", "sim.snap", "sim.run 300", "sim.done", "sim.snap"]
                    yield Case("reload-patterns", lines, None, {"mode": kind, "loads": 2})
        for earlier, last in (TOY_SHARED if kind == "toy" else RV_SHARED):
            texts = list(earlier) + [last]
            if kind == "toy":
                lines = ["toy.new", "toy.snap"]
                for t in texts:
                    lines += [f"toy.asm {toyasmgen.hx(t)}", "toy.snap"]
                lines += ["toy.call step", "toy.snap", "toy.run 300", "toy.snap"]
            else:
                lines = [f"sim.new {kind} 1 - -", "sim.snap"]
                for t in texts:
                    lines += [f"sim.load {rvasmgen.hx(t)}", "sim.snap"]
                lines += ["sim.step", "sim.done", "sim.snap", "sim.run 300", "sim.done", "sim.snap"]
            yield Case("reload-patterns", lines, None, {"mode": kind, "loads": len(texts)})


def cases(rng, tier):
    yield from reload_patterns(rng, tier)
    n = 220 if tier == "quick" else 4000
    for i in range(n):
        yield rv_case(rng, tier) if i % 3 else toy_case(rng, tier)


def nontrivial(c):
    return "\n".join(c.lines) if c.meta.get("loads", 0) >= 2 or True else None


def measure(c, stats):
    stats.bump("mode=" + c.meta.get("mode", "?"))
    stats.bump("loads", c.meta.get("loads", 0))
    for l, o in zip(c.lines, c.impl_out):
        if l.startswith("sim.load") or l.startswith("toy.asm"):
            stats.bump("load-" + ("ok" if o.startswith("ok") else "fail"))


def oracle(c):
    fails = []
    toy = c.lines and c.lines[0].startswith("toy")
    snap = "toy.snap" if toy else "sim.snap"
    loadp = "toy.asm" if toy else "sim.load"
    # (1) done is stable; step returns false exactly when done afterwards; empty program is done immediately
    prev = None
    done = None
    done_before = False
    prev_snap = None
    stepped = False
    for l, o in zip(c.lines, c.impl_out):
        if l == snap:
            if done_before and prev_snap is not None and stepped and o != prev_snap:
                fails.append(Failure("oracle", PROP, "a step/run call on a finished simulation changed the state", "life:done-not-stable"))
                return fails
            prev_snap = o
            stepped = False
        elif l.startswith(loadp):
            done = None
            prev_snap = None
            stepped = False
        elif l == "sim.step" or l.startswith("sim.run") or l.startswith("toy.call") or l.startswith("toy.run"):
            stepped = True
            done_before = done is True
            if o.startswith("F") or " F " in o or o.startswith("X"):
                break                 # a faulting program: the exception propagates, nothing more is claimed about stepping
            was_done = done
            if l == "sim.step":
                done = o == "ok 0"
            elif l.startswith("sim.run"):
                done = o.endswith(" 1")
                if was_done and not o.startswith("ran 0 "):
                    fails.append(Failure("oracle", PROP, f"run on a finished simulation executed steps: {o}", "life:done-not-stable"))
            elif l.startswith("toy.run"):
                done = o == "1"
            if was_done is True and done is False:
                fails.append(Failure("oracle", PROP, "simulation was done and is not done any more", "life:done-not-stable"))
        elif l == "sim.done":
            if done is not None and (o == "1") != done:
                fails.append(Failure("oracle", PROP, f"step()/run() reported done={done} but is_done() says {o}", "life:step-result"))
            done = o == "1"
        if fails:
            return fails
    # (2) reload equals a fresh load; run equals stepping
    li = [i for i, l in enumerate(c.lines) if l.startswith(loadp)]
    if not li:
        return fails
    last = li[-1]
    a, b = implmod.Impl(), implmod.Impl()
    for l in c.lines[:last]:
        a.run(l)
    b.run(c.lines[0])
    stepped = any(l == "sim.step" or l.startswith("sim.run") or l.startswith("toy.call") or l.startswith("toy.run") for l in c.lines[:last])
    if stepped:
        # step / run calls were made before the last load: the clause speaks about simulations that have NOT STARTED,
        # which is what the simulation itself reports
        started = a.toy.has_started if toy else a.sim.has_started
        if started:
            return fails
    oa, ob = a.run(c.lines[last]), b.run(c.lines[last])
    sa, sb = a.run(snap), b.run(snap)
    if oa != ob or sa != sb:
        fails.append(Failure("oracle", PROP, f"loading after {len(li) - 1} earlier loads differs from loading into a fresh simulation", "life:reload-not-fresh"))
        return fails
    if oa.startswith("ok"):
        empty = (not toy and oa.split()[2] == ".") or (toy and "max=-1" in sa)
        if empty and (a.toy.is_done() if toy else a.sim.is_done()) is not True:
            fails.append(Failure("oracle", PROP, "a program without instructions is not done immediately", "life:empty-not-done"))
        # run() vs step-until-done
        k = 0
        fa = fb = None
        try:
            if toy:
                while not a.toy.is_done() and k < 700:
                    a.toy.step(); k += 1
            else:
                while not a.sim.is_done() and k < 900:
                    a.sim.step(); k += 1
        except Exception as e:
            fa = type(e).__name__
        if k < (700 if toy else 900):
            try:
                (b.toy if toy else b.sim).run()
            except Exception as e:
                fb = type(e).__name__
            if fa != fb or a.run(snap) != b.run(snap):
                fails.append(Failure("oracle", PROP, "run() and step()-until-done end in different states", "life:run-vs-step"))
            elif fa is None:
                try:
                    va = a.toy_views(63) if toy else a.sim_views((1 << 13) - 1)
                    vb = b.toy_views(63) if toy else b.sim_views((1 << 13) - 1)
                except Exception:
                    va = vb = None
                if va != vb:
                    which = next((g for (g, x), (_, y) in zip(va, vb) if x != y), "?")
                    fails.append(Failure("oracle", PROP, f"after run() the view `{which}` differs from the one after step()-until-done", "life:run-vs-step-view"))
    return fails
