"""C03 — data cache transparency. Correspondence: `Model.Cache` in forced-victim mode (the model is fed the way
the real policy displaces, so the tie does not depend on LRU/PLRU details); oracle: the same history on the real flat
`Memory`."""
from __future__ import annotations
from core import Case, Failure
import dcgen
import rvgen
import impl as implmod

PROP = "C03"
CONSTS = ['mem']          # constant tables of the models this property depends on
RULE = ("random access histories (direct preloads, counted/uncounted reads, writes of widths 8/16/32 at every byte "
        "offset incl. the crossing ones, aliases +-2^32, invalid addresses, resets) on random geometries (index bits 0-3, "
        "block bits 0-3, assoc 1-8, WT/WB, LRU/PLRU, penalties 0-5) over an address universe of assoc+2 tags per set; "
        "thorough adds exhaustive op sequences up to length 4 over a three-address universe on the smallest geometries, "
        "and block bits 12/13; non-trivial = at least one eviction or one write hit followed by a read; "
        "distinct = distinct (geometry, history)")
ASSUMPTIONS = ["list aliasing inside the cache modelled by value (the dump after every op would expose an aliasing bug)",
               "fixedint UInt32 wrap in DecodedAddress"]


def cases(rng, tier):
    n = 350 if tier == "quick" else 5000
    for _ in range(n):
        yield dcgen.gen_case(rng, forced=True)
    # whole programs on simulations BUILT FROM OPTIONS (the way the front end builds them), both modes: with any data cache the
    # results are those of the run without cache — incl. address computations that leave the 32-bit range
    for i in range(60 if tier == "quick" else 1500):
        mode = "five" if i % 2 else "single"
        d = rvgen.penalty_cache_spec(rng, "d") if i % 3 else rvgen.cache_spec(rng, "d", 1.0)
        if i % 2 == 0 or i % 3 == 0:
            yield rvgen.wrap_case(rng, mode, trace=8, dspec=d, suite="sim-dcache-prog")
        else:
            yield rvgen.sim_case(rng, mode, hazard=True, opts={"aligned": True}, trace=8, run=500, dprob=1.0, iprob=0.0, suite="sim-dcache-prog")
    for prog, regs in rvgen.store_hit_programs():          # store hits / misses of every width and lane, read back before and after displacement
        for mode in ("single", "five"):
            for d in ("wb,lru,0,0,1,0", "wb,plru,1,1,2,3", "wt,lru,0,1,2,0", "wt,lru,1,0,1,2"):
                lines = rvgen.header(mode, True, d, "-", prog, regs, [(rvgen.DATA + i, 0x11 * (i + 1)) for i in range(4)]) + ["sim.snap", "sim.run 200", "sim.snap"]
                yield Case("sim-dcache-prog", lines, None, {"mode": mode, "hazard": True, "prog": prog, "regs": regs, "pokes": [], "d": d, "i": "-"})
    # the F6 corner: a block that starts below the data base
    for bb in ((12, 13) if tier == "quick" else (11, 12, 13, 14)):
        for ty in ("wt", "wb"):
            yield Case("dcache", [f"dc.new {ty} forced:lru 0 {bb} 1 0", f"dc.w 32 16384 7 1", "dc.r 32 16384 1", "dc.w 32 16388 9 0", "dc.r 32 16388 1", "dc.stats"], None, {"bb": bb, "ty": ty, "forced": True})
    if tier == "thorough":
        import itertools
        uni = [16384, 16388, 16392]
        ops = []
        for a in uni:
            ops += [f"dc.r 32 {a} 1", f"dc.w 32 {a} {a % 251} 0", f"dc.w 16 {a + 2} 513 0", f"dc.r 8 {a + 1} 0"]
        for ty in ("wt", "wb"):
            for (ib, bb, assoc) in ((0, 0, 1), (0, 0, 2), (1, 0, 1), (0, 1, 1)):
                for seq in itertools.product(ops, repeat=3):
                    lines = [f"dc.new {ty} forced:lru {ib} {bb} {assoc} 2"]
                    for o in seq:
                        lines += [o, "dc.dump"]
                    yield Case("dcache-exh", lines, None, {"ty": ty, "ib": ib, "bb": bb, "assoc": assoc, "forced": True})


def canon(s):
    """Whole-program snapshots are compared on the ARCHITECTURAL fields only: which block a policy displaces (hence cache
    contents, write-backs, counters, cycles) is not C03's business — transparency holds for every victim choice, and the
    operation-level suites feed the model the victim the real policy chose."""
    if s.startswith("pc="):
        d = rvgen.parse_snap(s)
        return "|".join(f"{k}={d.get(k)}" for k in ("pc", "regs", "out", "exit", "ins", "br", "pr"))
    return s


def nontrivial(c):
    if c.suite == "sim-dcache-prog":
        return "\n".join(c.lines[:2])
    ev = sum(1 for l in c.lines if l.startswith("dc.r") or l.startswith("dc.w"))
    return "\n".join(c.lines) if ev >= 3 else None


def measure(c, stats):
    stats.bump("suite=" + c.suite)
    stats.bump(f"{c.meta.get('ty')}/{c.meta.get('pol', 'lru')}")
    for l, o in zip(c.lines, c.impl_out):
        if l.startswith("dc.r") or l.startswith("dc.w"):
            kind = "read" if l.startswith("dc.r") else ("direct" if l.split()[4] == "1" else "write")
            stats.bump(kind + ("-rejected" if o.startswith("E") else ""))


def _prog_oracle(c):
    """the program with the data cache vs the same program without, same mode: registers, output, exit code, counts, fault"""
    import props.c02 as c02
    new = next((l for l in c.lines if l.startswith("sim.new")), None)
    if new is None or new.split()[3] == "-":
        return []
    mode = new.split()[1]
    a = c02.run_mode(c, mode, True, limit=3000)
    b = c02.run_mode(c, mode, True, limit=3000, nocache=True)
    fa, fb = a["fault"], b["fault"]
    if (fa and "byteoff" in fa) or (fb and "byteoff" in fb):
        return []          # an access that crosses a word: rejected by the cache, accepted by flat memory — outside "programs that use aligned accesses"
    if (fa is None) != (fb is None):
        # a cache may reject what flat memory accepts only for accesses that cross a word (the generators here emit none)
        return [Failure("oracle", PROP, f"with the data cache the program {'faults: ' + fa[:80] if fa else 'runs through'}, without it {'faults: ' + fb[:80] if fb else 'runs through'} ({mode})", "dcache-prog:fault-differs")]
    if a["done"] != b["done"]:
        return []
    for k in ("regs", "out", "exit", "ins", "br", "pr"):
        if a["d"][k] != b["d"][k]:
            return [Failure("oracle", PROP, f"{k} differs with the data cache enabled ({mode})", "dcache-prog:changes-result")]
    return []


def oracle(c):
    """Real cache system vs real flat Memory on the same history."""
    if c.suite == "sim-dcache-prog":
        return _prog_oracle(c)
    fails = []
    im = implmod.Impl()
    flat = implmod.riscv_memory()
    hdr = None
    touched = set()
    for l in c.lines:
        t = l.split()
        if t[0] == "dc.new":
            hdr = dcgen.parse_header(l)
            flat = implmod.riscv_memory()
            touched = set()
            im.run(l)
            continue
        if t[0] == "dc.reset":
            im.run(l); flat.reset(); touched = set()
            continue
        if t[0] not in ("dc.r", "dc.w"):
            im.run(l)
            continue
        bits, a = int(t[1]), int(t[2])
        acc = dcgen.accepted(bits, a)
        cross = (a % dcgen.HI) % 4 + bits // 8 > 4
        is_direct = t[0] == "dc.w" and t[4] == "1"   # parser preloads bypass the cache: flat-memory semantics (C18) apply
        before = dcgen.logical_bytes(im.dc, sorted(touched)) if (cross or not acc) and touched and not is_direct else None
        out = im.run(l)
        blk = 4 << hdr["bb"]
        # the block that holds the address starts below the first data address (only possible for block bits >= 13)
        sig_geo = "block-starts-below-data-base" if ((a % dcgen.HI) // blk) * blk < dcgen.LO <= (a % dcgen.HI) else "geo"
        if t[0] == "dc.w":
            v, direct = int(t[3]), t[4] == "1"
            if acc or direct:
                try:
                    {8: flat.write_byte, 16: flat.write_halfword, 32: flat.write_word}[bits](a, implmod.UInt32(v) if bits == 32 else (implmod.UInt16(v) if bits == 16 else implmod.UInt8(v)))
                    fo = "ok"
                except Exception as e:
                    fo = implmod.err_str(e)
                for i in range(bits // 8):
                    if (a + i) % dcgen.HI >= dcgen.LO:
                        touched.add((a + i) % dcgen.HI)
                if acc and not direct and out.startswith("E"):
                    fails.append(Failure("oracle", PROP, f"{hdr}: accepted write `{l}` was rejected: {out}",
                                         "dcache:accepted-write-rejected:" + sig_geo))
            elif cross and (a % dcgen.HI) >= dcgen.LO:
                if not out.startswith("E byteoff"):
                    fails.append(Failure("oracle", PROP, f"{hdr}: `{l}` crosses a word boundary but was not rejected with ByteOffsetError (answer `{out}`)",
                                         f"dcache:crossing-write-accepted:{hdr['ty']}"))
        else:
            if acc:
                try:
                    fv = "v " + str(int({8: flat.read_byte, 16: flat.read_halfword, 32: flat.read_word}[bits](a)))
                except Exception as e:
                    fv = implmod.err_str(e)
                got = out.rsplit(" x", 1)[0]
                if got != fv:
                    fails.append(Failure("oracle", PROP, f"{hdr}: `{l}` through the cache answered `{got}`, flat memory answers `{fv}`",
                                         "dcache:read-differs:" + sig_geo))
            elif cross and (a % dcgen.HI) >= dcgen.LO and not out.startswith("E byteoff"):
                fails.append(Failure("oracle", PROP, f"{hdr}: `{l}` crosses a word boundary but was answered `{out}`", "dcache:crossing-read-answered"))
        if before is not None and out.startswith("E"):
            after = dcgen.logical_bytes(im.dc, sorted(touched))
            if after != before:
                fails.append(Failure("oracle", PROP, f"{hdr}: rejected access `{l}` changed stored values", "dcache:rejected-access-mutates"))
        if fails:
            break
    return fails
