"""Implementation-side interpreter of the line protocol.

Executes the same command lines the Lean driver understands against the real classes of
/repo (imported from the working tree: the package is installed editable in /venv) and produces
the same canonical output lines.  Everything here is observation by attribute access; no hook in
/repo is needed.
"""
from __future__ import annotations

import struct
import re
from typing import Any, Optional

from fixedint import UInt8, UInt16, UInt32

from architecture_simulator.uarch.memory.replacement_strategies import LRU, PLRU
from architecture_simulator.uarch.memory.memory import (
    Memory,
    AddressingType,
    MemoryAddressError,
    UnsupportedFunctionError,
)
from architecture_simulator.uarch.memory.cache import CacheOptions
from architecture_simulator.uarch.memory.write_back_memory_system import WriteBackMemorySystem
from architecture_simulator.uarch.memory.write_through_memory_system import WriteThroughMemorySystem
from architecture_simulator.uarch.memory.instruction_memory_cache_system import InstructionMemoryCacheSystem
from architecture_simulator.uarch.riscv.riscv_performance_metrics import RiscvPerformanceMetrics
from architecture_simulator.util.integer_manipulation import ByteOffsetError
from architecture_simulator.util.integer_representations import get_n_bit_representations
from architecture_simulator.isa.riscv import rv32i_instructions as rvi
from architecture_simulator.isa.riscv import instruction_types as ity
from architecture_simulator.isa.riscv.instruction_types import EmptyInstruction
from architecture_simulator.simulation.riscv_simulation import RiscvSimulation
from architecture_simulator.simulation.toy_simulation import ToySimulation
from architecture_simulator.simulation.runtime_errors import InstructionExecutionException, StepSequenceError
from architecture_simulator.isa.toy.toy_instructions import ToyInstruction
from architecture_simulator.uarch.toy.SvgVisValues import SvgVisValues
from architecture_simulator.uarch.riscv.pipeline_registers import PipelineRegister
from architecture_simulator.isa.parser_exceptions import ParserException, MemorySizeException


def hx(s: str) -> str:
    return s.encode("utf-8").hex() if s else "."


def unhex(h: str) -> str:
    return bytes.fromhex(h).decode("utf-8")


def b01(b) -> str:
    return "1" if b else "0"


def opt(v, f=lambda x: str(int(x))) -> str:
    return "-" if v is None else f(v)


def optb(v) -> str:
    return "-" if v is None else b01(v)


def riscv_memory() -> Memory:
    return Memory(AddressingType.BYTE, 32, True, range(2**14, 2**32))


def err_str(e: BaseException) -> str:
    if isinstance(e, MemoryAddressError):
        return f"E addr {e.address}"
    if isinstance(e, ByteOffsetError):
        return f"E byteoff {e.offset} {e.max_offset}"
    if isinstance(e, UnsupportedFunctionError):
        return "E unsupported"
    return "E other"


# ---------------------------------------------------------------------------------------------
# instruction construction from protocol tokens:  op,rd,rs1,rs2,imm,aux  (stored immediates)
# ---------------------------------------------------------------------------------------------

def make_instr(tok: str):
    op, rd, rs1, rs2, imm, aux = tok.split(",")
    rd, rs1, rs2, imm, aux = int(rd), int(rs1), int(rs2), int(imm), int(aux)
    cls = rvi.instruction_map[op]
    if issubclass(cls, ity.RTypeInstruction):
        return cls(rd=rd, rs1=rs1, rs2=rs2)
    if op == "ecall":
        return rvi.ECALL()
    if op == "ebreak":
        return rvi.EBREAK()
    if issubclass(cls, ity.ITypeInstruction):
        return cls(rd=rd, rs1=rs1, imm=imm)
    if issubclass(cls, ity.STypeInstruction):
        return cls(rs1=rs1, rs2=rs2, imm=imm)
    if issubclass(cls, ity.BTypeInstruction):
        return cls(rs1=rs1, rs2=rs2, imm=imm)
    if issubclass(cls, ity.UTypeInstruction):
        return cls(rd=rd, imm=imm)
    if issubclass(cls, ity.JTypeInstruction):
        return cls(rd=rd, imm=imm, abs_addr=aux)
    if issubclass(cls, ity.CSRTypeInstruction):
        return cls(rd=rd, csr=aux, rs1=rs1)
    if issubclass(cls, ity.CSRITypeInstruction):
        return cls(rd=rd, csr=aux, uimm=imm)
    return cls()


def instr_tok(i) -> str:
    """Inverse of make_instr on real instruction objects (stored fields)."""
    g = lambda n: int(getattr(i, n, 0) or 0)
    aux = 0
    imm = g("imm")
    if isinstance(i, ity.JTypeInstruction):
        aux = int(i.abs_addr)
    if isinstance(i, (ity.CSRTypeInstruction, ity.CSRITypeInstruction)):
        aux = int(i.csr)
    if isinstance(i, ity.CSRITypeInstruction):
        imm = int(i.uimm)
    return f"{i.mnemonic},{g('rd')},{g('rs1')},{g('rs2')},{imm},{aux}"


def instr_repr_hex(i) -> str:
    if isinstance(i, rvi.FENCE):
        return hx("fence")
    return hx(repr(i))


# ---------------------------------------------------------------------------------------------
# canonical printing of implementation state
# ---------------------------------------------------------------------------------------------

def mem_dump(m: Memory) -> str:
    return ",".join(f"{a}:{int(m.memory_file[a])}" for a in sorted(m.memory_file))


def pol_str(p, via_getter: bool = False) -> str:
    """State of a replacement policy object. Snapshots read the raw fields (so that taking a snapshot never
    calls an inspection function of the code under test); `repl.repr` (C10) goes through `get_repr()`."""
    if isinstance(p, LRU):
        ages = p.get_repr() if via_getter else [list(p.lru).index(i) if i in p.lru else -1 for i in range(len(p.lru))]
        return "L[" + ",".join(str(x) for x in ages) + "]"
    if isinstance(p, PLRU):
        return "P[" + ",".join(b01(x) for x in p.tree_array) + "]"
    return "?"


def sets_str(cache, f, forced=False) -> str:
    out = []
    for s in cache.sets:
        ways = []
        for b in s.blocks:
            if b.valid_bit:
                ways.append(
                    f"1{b01(b.dirty_bit)}t{b.decoded_address.tag}b{b.decoded_address.block_alinged_address}["
                    + ",".join(f(v) for v in b.values)
                    + "]"
                )
            else:
                ways.append("0")
        out.append(("F" if forced else pol_str(s.replacement_strategy)) + ":" + ";".join(ways))
    return "/".join(out)


def dsys_stats(s) -> str:
    return f"{s.hits} {s.accesses} {b01(s.last_was_hit)}"


def dsys_dump(s, forced=False) -> str:
    return f"{dsys_stats(s)}|{sets_str(s.cache, lambda v: str(int(v)), forced)}|{mem_dump(s.memory)}"


def oinstr(i) -> str:
    return "_" if isinstance(i, EmptyInstruction) else instr_repr_hex(i)


def float_marker_sub(out: str) -> str:
    return out


def latch_str(pos: int, pr) -> str:
    if pr is None or isinstance(pr.instruction, EmptyInstruction):
        return "-"
    g = lambda n: getattr(pr, n, None)
    base = f"{instr_repr_hex(pr.instruction)}@{opt(pr.address_of_instruction)};pc4={opt(g('pc_plus_instruction_length'))};fg={b01(pr.is_of_stalled_value)}"
    st = b01(pr.stall_signal is not None)
    fl = "-" if pr.flush_signal is None else str(int(pr.flush_signal.address))
    if pos == 0:
        return base
    if pos == 1:
        return base + f";a1={opt(g('register_read_addr_1'))};a2={opt(g('register_read_addr_2'))};d1={opt(g('register_read_data_1'))};d2={opt(g('register_read_data_2'))};imm={opt(g('imm'))};wr={opt(g('write_register'))};st={st}"
    if pos == 2:
        return base + f";d1={opt(g('register_read_data_1'))};d2={opt(g('register_read_data_2'))};imm={opt(g('imm'))};wr={opt(g('write_register'))};res={opt(g('result'))};cmp={optb(g('comparison'))};pci={opt(g('pc_plus_imm'))};ex={opt(g('exit_code'))};st={st};fl={fl}"
    if pos == 3:
        return base + f";d2={opt(g('memory_write_data'))};imm={opt(g('imm'))};wr={opt(g('write_register'))};res={opt(g('result'))};cmp={optb(g('comparison'))};pci={opt(g('pc_plus_imm'))};ex={opt(g('exit_code'))};mr={opt(g('memory_read_data'))};fl={fl}"
    return base + f";imm={opt(g('imm'))};wr={opt(g('write_register'))};res={opt(g('alu_result'))};mr={opt(g('memory_read_data'))};wd={opt(g('register_write_data'))};fl={fl}"


def memsys_str(m) -> str:
    if isinstance(m, Memory):
        return "flat|" + mem_dump(m)
    return "dc|" + dsys_dump(m)


def icache_str(im) -> str:
    if not isinstance(im, InstructionMemoryCacheSystem):
        return "-"
    return f"{im.hits} {im.accesses} {b01(im.last_was_hit)}|{sets_str(im.cache, oinstr)}"


def st_str(state) -> str:
    regs = ",".join(str(int(r)) for r in state.register_file.registers)
    pm = state.performance_metrics
    return (
        f"pc={int(state.program_counter)}|regs={regs}|out={hx(state.output)}|exit={opt(state.exit_code)}"
        f"|cyc={pm.cycles}|ins={pm.instruction_count}|br={pm.branch_count}|pr={pm.procedure_count}"
        f"|st={pm.stalls}|fl={pm.flushes}|mem={memsys_str(state.memory)}|ic={icache_str(state.instruction_memory)}"
    )


def pst_str(state) -> str:
    p = state.pipeline
    regs = p.pipeline_registers
    if p.stalled is None:
        stalled = "-"
    else:
        k, rem = p.stalled
        pres = p.stalled_pipeline_regs or []
        p0 = latch_str(0, pres[0]) if len(pres) > 0 else "-"
        p1 = latch_str(1, pres[1]) if (k == 2 and len(pres) > 1) else "-"
        stalled = f"{k},{rem}|P0={p0}|P1={p1}"
    ls = "|".join(f"L{i}={latch_str(i, regs[i])}" for i in range(5))
    return f"{st_str(state)}|{ls}|stalled={stalled}"


def toy_vis(v: SvgVisValues) -> str:
    return f"{opt(v.accu_old)},{opt(v.alu_out)},{b01(v.jump)},{opt(v.ram_out)},{opt(v.op_code_old)},{opt(v.pc_old)}"


def toy_str(sim: ToySimulation) -> str:
    s = sim.state
    ir = "-" if s.loaded_instruction is None else str(int(s.loaded_instruction))
    return (
        f"pc={int(s.program_counter)}|cur={opt(s.address_of_current_instruction)}|next={int(s.address_of_next_instruction)}"
        f"|accu={int(s.accu)}|cyc={s.performance_metrics.cycles}|ins={s.performance_metrics.instruction_count}"
        f"|br={s.performance_metrics.branch_count}|max={opt(s.max_pc)}|ir={ir}|vis={toy_vis(s.visualisation_values)}"
        f"|nc={sim.next_cycle}|started={b01(sim.has_started)}|mem={mem_dump(s.memory)}"
    )


# ---------------------------------------------------------------------------------------------
# the interpreter
# ---------------------------------------------------------------------------------------------

_FLOAT_RE = re.compile(r"<f32:(\d+)>")


def render_float_markers(model_line: str) -> str:
    """The model prints ecall-2 output as an opaque marker; the rendering of the 32 bits as a float
    is not modelled (DESIGN.md §7) and is substituted here with Python's own formatter.  Works on
    the hex-encoded `out=` field of snapshot lines."""
    def fix_out(m):
        h = m.group(1)
        if h == ".":
            return m.group(0)
        try:
            s = bytes.fromhex(h).decode("utf-8")
        except Exception:
            return m.group(0)
        s2 = _FLOAT_RE.sub(lambda mm: str(struct.unpack(">f", int(mm.group(1)).to_bytes(4, "big"))[0]), s)
        return "out=" + hx(s2)
    return re.sub(r"out=([0-9a-f.]+)", fix_out, model_line)


def cache_options(spec: str, kind: str) -> CacheOptions:
    if spec == "-":
        return CacheOptions(False, 0, 0, 1, "wb", "lru", 0)
    parts = spec.split(",")
    if kind == "d":
        ty, pol, a, b, c, pen = parts
    else:
        pol, a, b, c, pen = parts
        ty = "wb"
    return CacheOptions(True, int(a), int(b), int(c), ty, pol, int(pen))


class Impl:
    """State of the implementation side for one protocol stream."""

    def __init__(self) -> None:
        self.repl = None
        self.mem: Optional[Memory] = None
        self.dc = None
        self.dc_forced = False
        self.sim: Optional[RiscvSimulation] = None
        self.five = False
        self.toy = ToySimulation()
        self.last_victims: list[int] = []

    # -- helpers --------------------------------------------------------------------------------
    def _dc_victim_hint(self, address: int) -> int:
        """The way the real policy object of the addressed set would displace now (pure call)."""
        d = self.dc._decode_address(address)
        try:
            return int(self.dc.cache.sets[d.cache_set_index].replacement_strategy.get_next_to_replace())
        except Exception:
            return 0

    def run(self, line: str) -> str:
        t = line.split()
        if not t:
            return "bad-op"
        cmd = t[0]
        try:
            f = getattr(self, "c_" + cmd.replace(".", "_"))
        except AttributeError:
            return "bad-op"
        try:
            return f(t[1:])
        except Exception as e:        # an exception escaping the real code where the protocol expects an answer
            return f"X {type(e).__name__}"

    # -- replacement ----------------------------------------------------------------------------
    def c_repl_new(self, a):
        n = int(a[1])
        self.repl = LRU(n) if a[0] == "lru" else PLRU(n)
        return "ok"

    def c_repl_acc(self, a):
        try:
            self.repl.access(int(a[0]))
            return "ok"
        except Exception:
            return "err"

    def c_repl_vic(self, a):
        try:
            v = self.repl.get_next_to_replace()
            return str(int(v)) if v >= 0 else "err"
        except Exception:
            return "err"

    def c_repl_repr(self, a):
        try:
            return pol_str(self.repl, via_getter=True)
        except Exception:
            return "err"

    # -- flat memory ----------------------------------------------------------------------------
    def c_mem_new(self, a):
        self.mem = Memory(AddressingType.HALF_WORD, 12, address_range=range(4096)) if a[0] == "toy" else riscv_memory()
        return "ok"

    def c_mem_r(self, a):
        bits, addr = int(a[0]), int(a[1])
        try:
            f = {8: self.mem.read_byte, 16: self.mem.read_halfword, 32: self.mem.read_word}[bits]
            return f"v {int(f(addr))}"
        except Exception as e:
            return err_str(e)

    def c_mem_w(self, a):
        bits, addr, v = int(a[0]), int(a[1]), int(a[2])
        try:
            if bits == 8:
                self.mem.write_byte(addr, UInt8(v))
            elif bits == 16:
                self.mem.write_halfword(addr, UInt16(v))
            else:
                self.mem.write_word(addr, UInt32(v))
            return "ok"
        except Exception as e:
            return err_str(e)

    def c_mem_dump(self, a):
        return mem_dump(self.mem)

    def c_mem_repr(self, a):
        bits = int(a[0])
        try:
            r = self.mem._memory_repr(bits)
        except Exception as e:
            return err_str(e)
        out = []
        for k in sorted(r):
            out.append(f"{k}:{int(r[k][1])}")
        return ",".join(out)

    def c_mem_reset(self, a):
        self.mem.reset()
        return "ok"

    # -- data cache -----------------------------------------------------------------------------
    def c_dc_new(self, a):
        ty, pol, ib, bb, assoc, pen = a
        self.dc_forced = pol.startswith("forced")
        real = pol.split(":")[1] if ":" in pol else pol
        cls = WriteThroughMemorySystem if ty == "wt" else WriteBackMemorySystem
        self.dc_pm = RiscvPerformanceMetrics()
        self.dc = cls(riscv_memory(), int(ib), int(bb), int(assoc), self.dc_pm, int(pen), real)
        return "ok"

    def model_line(self, line: str) -> str:
        """Command sent to the model for `line`; in forced-victim mode the way the real policy is
        about to displace is appended (read off the real policy object, a pure call)."""
        if self.dc_forced and self.dc is not None and (line.startswith("dc.r ") or line.startswith("dc.w ")):
            return f"{line} {self._dc_victim_hint(int(line.split()[2]))}"
        return line

    def _dc_out(self, fn):
        before = self.dc_pm.cycles
        try:
            v = fn()
            return f"v {0 if v is None else int(v)} x{self.dc_pm.cycles - before}"
        except Exception as e:
            return f"{err_str(e)} x{self.dc_pm.cycles - before}"

    def c_dc_r(self, a):
        bits, addr, counted = int(a[0]), int(a[1]), a[2] == "1"
        f = {8: self.dc.read_byte, 16: self.dc.read_halfword, 32: self.dc.read_word}[bits]
        return self._dc_out(lambda: f(addr, counted))

    def c_dc_w(self, a):
        bits, addr, v, direct = int(a[0]), int(a[1]), int(a[2]), a[3] == "1"
        if bits == 8:
            return self._dc_out(lambda: self.dc.write_byte(addr, UInt8(v), direct))
        if bits == 16:
            return self._dc_out(lambda: self.dc.write_halfword(addr, UInt16(v), direct))
        return self._dc_out(lambda: self.dc.write_word(addr, UInt32(v), direct))

    def c_dc_stats(self, a):
        return dsys_stats(self.dc)

    def c_dc_dump(self, a):
        return dsys_dump(self.dc, self.dc_forced)

    def c_dc_reset(self, a):
        self.dc.reset()
        return "ok"

    # -- RISC-V simulation ----------------------------------------------------------------------
    def c_sim_new(self, a):
        mode, hz, dspec, ispec = a
        self.five = mode == "five"
        # through the front end's own entry point (architecture_simulator.gui.webgui), positional as the web GUI calls it
        from architecture_simulator.gui import webgui
        self.sim = webgui.get_riscv_simulation(
            "five_stage_pipeline" if self.five else "single_stage_pipeline",
            hz == "1",
            cache_options(dspec, "d"),
            cache_options(ispec, "i"),
        )
        return "ok"

    def c_sim_prog(self, a):
        # what `load_program` does around the parser: reset both memories, then write instructions
        self.sim.state.memory.reset()
        self.sim.state.instruction_memory.reset()
        self.sim.state.instruction_memory.write_instructions([make_instr(t) for t in a])
        return "ok"

    def c_sim_reg(self, a):
        self.sim.state.register_file.registers[int(a[0])] = UInt32(int(a[1]))
        return "ok"

    def c_sim_pc(self, a):
        self.sim.state.program_counter = int(a[0])
        return "ok"

    def c_sim_poke(self, a):
        bits, addr, v = int(a[0]), int(a[1]), int(a[2])
        m = self.sim.state.memory
        try:
            if bits == 8:
                m.write_byte(addr, UInt8(v), directly_write_to_lower_memory=True)
            elif bits == 16:
                m.write_halfword(addr, UInt16(v), directly_write_to_lower_memory=True)
            else:
                m.write_word(addr, UInt32(v), directly_write_to_lower_memory=True)
            return "ok"
        except Exception as e:
            return err_str(e)

    def _fault_str(self, e: InstructionExecutionException) -> str:
        if front_end_class(e) != "InstructionExecutionException":
            return f"X front-end-classifies-run-time-error-as-{front_end_class(e)}"
        msg = e.error_message
        if msg.startswith("MemoryAddressError"):
            m = re.search(r"at address 0x([0-9A-F]+):", msg)
            kind = f"E addr {int(m.group(1), 16)}" if m else "E other"
        elif "illegal since the operation would cross a word boundary" in msg:
            m = re.search(r"offset of (\d+) byte.*allowed offset is (\d+) bytes", msg)
            kind = f"E byteoff {m.group(1)} {m.group(2)}" if m else "E other"
        elif "is not a valid code for ECALL" in msg:
            m = re.search(r"(\d+) \(register a7\)", msg)
            kind = f"E ecall {m.group(1)}" if m else "E other"
        elif "is not yet implemented" in msg:
            kind = "E notimpl"
        else:
            kind = "E other"
        ir = "fence" if e.instruction_repr.startswith("FENCE(") else e.instruction_repr   # FENCE has no assembler form (C14 excludes it)
        return f"F {int(e.address) if e.address is not None else '-'} {hx(ir)} {kind}"

    def c_sim_step(self, a):
        try:
            r = self.sim.step()
            return f"ok {b01(r)}"
        except InstructionExecutionException as e:
            return self._fault_str(e)
        except Exception as e:  # anything else escaping step() is an (ill-typed) failure
            return f"X {type(e).__name__}"

    def c_sim_run(self, a):
        n = int(a[0])
        k = 0
        try:
            while k < n and not self.sim.is_done():
                self.sim.step()
                k += 1
            return f"ran {k} {b01(self.sim.is_done())}"
        except InstructionExecutionException as e:
            return f"ran {k} {self._fault_str(e)}"
        except Exception as e:
            return f"ran {k} X {type(e).__name__}"

    def c_sim_done(self, a):
        return b01(self.sim.is_done())

    def c_sim_snap(self, a):
        return pst_str(self.sim.state) if self.five else st_str(self.sim.state)

    def c_sim_started(self, a):
        return b01(self.sim.has_started)

    def c_sim_arch(self, a):
        return st_str(self.sim.state)

    def c_sim_split(self, a):
        """Run the five split functions of the instruction at pc back to back (C02 a)."""
        from architecture_simulator.uarch.riscv import stages as stg
        st = self.sim.state
        st.performance_metrics.cycles += 1
        regs = [PipelineRegister()] * 5
        try:
            f = stg.InstructionFetchStage().behavior(regs, -1, st)
            if isinstance(f.instruction, EmptyInstruction):
                return "ok"
            addr = f.address_of_instruction
            regs = [f, PipelineRegister(), PipelineRegister(), PipelineRegister(), PipelineRegister()]
            cur_addr = addr
            d = stg.InstructionDecodeStage(detect_data_hazards=False).behavior(regs, 0, st)
            regs = [PipelineRegister(), d, PipelineRegister(), PipelineRegister(), PipelineRegister()]
            e = stg.ExecuteStage().behavior(regs, 1, st)
            regs = [PipelineRegister(), PipelineRegister(), e, PipelineRegister(), PipelineRegister()]
            m = stg.MemoryAccessStage().behavior(regs, 2, st)
            regs = [PipelineRegister(), PipelineRegister(), PipelineRegister(), m, PipelineRegister()]
            w = stg.RegisterWritebackStage().behavior(regs, 3, st)
            target = None
            for r in (w, m, e):
                if r.flush_signal is not None:
                    target = r.flush_signal.address
                    break
            if target is not None:
                st.program_counter = target % 2**32      # as Pipeline.step does when it flushes
            return "ok"
        except Exception as ex:
            st.program_counter = cur_addr
            return f"F {cur_addr} {err_str_fault(ex)}"

    def c_sim_load(self, a):
        text = unhex(a[0]) if a[0] != "." else ""
        return load_outcome(lambda: self.sim.load_program(text), lambda: asm_listing(self.sim))

    # -- TOY ------------------------------------------------------------------------------------
    def c_toy_new(self, a):
        from architecture_simulator.gui import webgui
        self.toy = webgui.get_toy_simulation()
        return "ok"

    def c_toy_load(self, a):
        from architecture_simulator.uarch.toy.toy_architectural_state import ToyArchitecturalState
        k = int(a[0])
        words = [int(x) for x in a[1:1 + k]]
        data = [tuple(int(y) for y in x.split(":")) for x in a[1 + k:]]
        sim = self.toy
        sim.state = ToyArchitecturalState(unified_memory_size=sim.unified_memory_size)
        for (ad, v) in data:
            sim.state.memory.write_halfword(ad, UInt16(v))
        instrs = [ToyInstruction.from_integer(w) for w in words]
        sim.state.max_pc = len(instrs) - 1
        for ad, ins in enumerate(instrs):
            sim.state.memory.write_halfword(ad, UInt16(int(ins)))
        if instrs:
            sim.state.loaded_instruction = instrs[0]
            sim.state.visualisation_values = SvgVisValues(pc_old=UInt16(0), ram_out=UInt16(int(instrs[0])))
        return "ok"

    def c_toy_loadraw(self, a):
        w, m = int(a[0]), int(a[1])
        self.toy.state.max_pc = m
        self.toy.state.loaded_instruction = ToyInstruction.from_integer(w) if m >= 0 else None
        return "ok"

    def c_toy_poke(self, a):
        self.toy.state.memory.write_halfword(int(a[0]), UInt16(int(a[1])))
        return "ok"

    def c_toy_accu(self, a):
        self.toy.state.accu = UInt16(int(a[0]))
        return "ok"

    def c_toy_call(self, a):
        f = {"first": self.toy.first_cycle_step, "second": self.toy.second_cycle_step,
             "step": self.toy.step, "single": self.toy.single_step}[a[0]]
        try:
            f()
            return "ok"
        except StepSequenceError:
            return "seqerr"
        except Exception as e:
            return f"X {type(e).__name__}"

    def c_toy_run(self, a):
        n = int(a[0])
        k = 0
        while k < n and not self.toy.is_done():
            self.toy.step()
            k += 1
        return b01(self.toy.is_done())

    def c_toy_snap(self, a):
        return toy_str(self.toy)

    def c_toy_enc(self, a):
        from architecture_simulator.isa.toy import toy_instructions as ti
        op, ad = int(a[0]) % 16, int(a[1]) % 4096
        i = ToyInstruction.from_integer((op << 12) + ad)
        # encode the instruction object *of that opcode* (opcodes 13-15 have no class of their own)
        return str(int(i)) if op <= 12 else str(int(i))

    def c_toy_dec(self, a):
        i = ToyInstruction.from_integer(int(a[0]))
        return f"{i.opcode} {i.address} {i.mnemonic}"

    def c_toy_asm(self, a):
        text = unhex(a[0]) if a[0] != "." else ""
        return load_outcome(lambda: self.toy.load_program(text), lambda: "ok")

    SIM_GETTERS = ["get_register_entries", "get_data_memory_entries", "get_instruction_memory_entries", "get_data_cache_entries",
                   "get_data_cache_stats", "get_instruction_cache_entries", "get_instruction_cache_stats", "get_output", "get_exit_code",
                   "is_done", "has_instructions", "get_performance_metrics_str", "svg"]
    TOY_GETTERS = ["get_register_representations", "get_memory_table_entries", "get_toy_svg_update_values", "is_done", "has_instructions",
                   "get_performance_metrics_str"]

    def sim_views(self, mask: int):
        """Call the selected read-only inspection functions of the RISC-V simulation; returns their results."""
        out = []
        for i, g in enumerate(self.SIM_GETTERS):
            if not (mask >> i) & 1:
                continue
            if g == "svg":
                r = self.sim.get_riscv_five_stage_svg_update_values() if self.five else self.sim.get_riscv_single_stage_svg_update_values()
            else:
                r = getattr(self.sim, g)()
            if g == "get_performance_metrics_str":
                r = "\n".join(x for x in r.split("\n") if not x.startswith("execution time") and not x.startswith("instructions per second"))
            elif g in ("get_data_cache_entries", "get_instruction_cache_entries") and r is not None:
                r = [(s.index, s.replacement_status if not isinstance(s.replacement_status, list) else list(s.replacement_status),
                      [(b.valid_bit, b.dirty_bit, b.tag, [tuple(x) for x in b.address_value_list]) for b in s.blocks]) for s in r.sets]
            out.append((g, repr(r)))
        return out

    def shown_instruction_texts(self):
        """Every place where the RISC-V simulation currently DISPLAYS the text of an instruction, as (where, address, text):
        the instruction listing, the pipeline view (IF stage of the five-stage view / the single-stage view) and the
        instruction-cache table."""
        out = []
        for (a, _h), text, _stage in self.sim.get_instruction_memory_entries():
            out.append(("listing", int(a), text))
        upd = self.sim.get_riscv_five_stage_svg_update_values() if self.five else self.sim.get_riscv_single_stage_svg_update_values()
        d = {u[0]: u[2] for u in upd}
        tk, ak = ("InstructionMemoryInstrText", "InstructionReadAddressText") if self.five else ("instr-mem-instr-text", "instr-mem-read-addr-text")
        if d.get(tk) and str(d.get(ak, "")).strip() != "":
            out.append(("pipeline-view", int(d[ak]), d[tk]))
        ic = self.sim.get_instruction_cache_entries()
        if ic is not None:
            for st in ic.sets:
                for b in st.blocks:
                    for a, v in b.address_value_list:
                        if isinstance(v, str) and v.strip():
                            try:
                                out.append(("icache-table", a if isinstance(a, int) else int(str(a), 16), v))
                            except ValueError:
                                pass
        return out

    def toy_views(self, mask: int):
        out = []
        for i, g in enumerate(self.TOY_GETTERS):
            if not (mask >> i) & 1:
                continue
            r = getattr(self.toy, g)()
            if g == "get_performance_metrics_str":
                r = "\n".join(x for x in r.split("\n") if not x.startswith("execution time") and not x.startswith("instructions per second"))
            out.append((g, repr(r)))
        return out

    @staticmethod
    def _reprs(t):
        return ",".join(hx(x) for x in t)

    def c_sim_regtable(self, a):
        return ";".join(self._reprs(t) for t in self.sim.get_register_entries())

    def c_sim_memtable(self, a):
        try:
            return ";".join(f"{ad},{hx(h)},{self._reprs(v)}" for (ad, h), v in self.sim.get_data_memory_entries())
        except Exception as e:
            return err_str(e)

    def c_sim_listing(self, a):
        rows = self.sim.get_instruction_memory_entries()
        if not rows:
            return "."
        return ";".join(f"{ad},{hx(h)},{hx(text)},{hx(stage)}" for (ad, h), text, stage in rows)

    @staticmethod
    def _cache_table(t):
        if t is None:
            return "none"
        def status(x):
            if isinstance(x, list) and all(isinstance(v, bool) for v in x):
                return "P" + ".".join("1" if v else "0" for v in x)
            return "L" + ".".join(str(int(v)) for v in x)
        def block(b):
            return ",".join([hx(str(b.valid_bit)), hx(str(b.dirty_bit)), hx(str(b.tag))] + [f"{hx(str(a_))}={hx(str(v))}" for a_, v in b.address_value_list])
        return ";".join(f"{hx(str(s_.index))}|{status(s_.replacement_status)}|{'/'.join(block(b) for b in s_.blocks)}" for s_ in t.sets)

    def c_sim_dcachetable(self, a):
        return self._cache_table(self.sim.get_data_cache_entries())

    def c_sim_icachetable(self, a):
        return self._cache_table(self.sim.get_instruction_cache_entries())

    def c_sim_metrics(self, a):
        # the counter lines of the metrics text (wall-clock lines and the float `cycles per instruction` are not modelled)
        t = self.sim.get_performance_metrics_str().split("\n")
        keep = [x for x in t if x and not x.startswith(("execution time", "instructions per second", "cycles per instruction"))]
        return "|".join(hx(x) for x in keep)

    def c_toy_metrics(self, a):
        t = self.toy.get_performance_metrics_str().split("\n")
        return "|".join(hx(x) for x in t if x and not x.startswith(("execution time", "instructions per second")))

    def c_sim_wi(self, a):
        # the public per-instruction entry point of the instruction memory system
        k = int(a[0])
        if k > len(self.sim.state.instruction_memory.get_representation()):
            return "bad-op"
        self.sim.state.instruction_memory.write_instruction(4 * k, make_instr(a[1]))
        return "ok"

    def c_sim_listingtext(self, a):
        rows = self.sim.get_instruction_memory_entries()
        if not rows:
            return "."
        return ";".join(f"{ad},{hx(h)},{hx(text)}" for (ad, h), text, _stage in rows)

    @staticmethod
    def _stats(d, with_addr=True):
        if d is None:
            return "none"
        ad = d.get("address")
        return f"{hx(d['hits'])},{hx(d['accesses'])},{1 if d['last_hit'] else 0}," + (("-" if ad is None else hx(ad)) if with_addr else "?")

    def c_sim_dstats(self, a):
        return self._stats(self.sim.get_data_cache_stats())

    def c_sim_istats(self, a):
        return self._stats(self.sim.get_instruction_cache_stats())

    def c_toy_regtable(self, a):
        r = self.toy.get_register_representations()
        f = lambda t: "-" if t == ("", "", "", "") else self._reprs(t)
        return f"accu={f(r['accu'])}|pc={f(r['pc'])}|ir={f(r['ir'])}"

    def c_toy_memtable(self, a):
        try:
            return ";".join(f"{ad},{hx(h)},{self._reprs(v)},{hx(ir)},{hx(mark)}" for (ad, h), v, ir, mark in self.toy.get_memory_table_entries())
        except Exception as e:
            return err_str(e)

    def c_sim_insp(self, a):
        try:
            self.sim_views(int(a[0]))
            return "ok"
        except Exception as e:
            return f"X {type(e).__name__}"

    def c_toy_insp(self, a):
        try:
            self.toy_views(int(a[0]))
            return "ok"
        except Exception as e:
            return f"X {type(e).__name__}"

    def c_consts(self, a):
        """Constant tables read off the real code (instruction map, class hierarchy, control signals, parser mnemonic
        lists, ABI names, TOY tables, memory configuration)."""
        what = a[0]
        from architecture_simulator.isa.riscv.riscv_parser import RiscvParser
        from architecture_simulator.isa.toy.toy_parser import ToyParser
        from architecture_simulator.isa.toy import toy_instructions as ti
        from architecture_simulator.settings.settings import Settings
        order = ["add", "sub", "sll", "slt", "sltu", "xor", "srl", "sra", "or", "and", "addi", "slti", "sltiu", "xori", "ori", "andi", "slli", "srli", "srai",
                 "lb", "lh", "lw", "lbu", "lhu", "jalr", "ecall", "ebreak", "sb", "sh", "sw", "beq", "bne", "blt", "bge", "bltu", "bgeu", "lui", "auipc", "jal", "fence",
                 "csrrw", "csrrs", "csrrc", "csrrwi", "csrrsi", "csrrci", "mul", "mulh", "mulhu", "mulhsu", "div", "divu", "rem", "remu"]
        extra = sorted(set(rvi.instruction_map) - set(order))

        def ty(cls):
            for c, n in ((ity.ShiftITypeInstruction, "shiftI"), (ity.MemoryITypeInstruction, "memI"), (ity.RTypeInstruction, "r"), (ity.ITypeInstruction, "i"),
                         (ity.STypeInstruction, "s"), (ity.BTypeInstruction, "b"), (ity.UTypeInstruction, "u"), (ity.JTypeInstruction, "j"),
                         (ity.FenceTypeInstruction, "fence"), (ity.CSRTypeInstruction, "csr"), (ity.CSRITypeInstruction, "csri")):
                if issubclass(cls, c):
                    return n
            return "?"
        names = [m for m in order if m in rvi.instruction_map] + extra
        if what == "ops":
            return ",".join(f"{m}:{ty(rvi.instruction_map[m])}" for m in names)
        if what == "ctl":
            out = []
            for m in names:
                i = make_instr(f"{m},7,0,0,0,0")
                c = i.control_unit_signals()
                cs = ",".join([optb(c.alu_src_1), optb(c.alu_src_2), opt(c.wb_src), optb(c.reg_write), optb(c.mem_read), optb(c.mem_write), optb(c.branch),
                               optb(c.jump), opt(c.alu_op), optb(c.alu_to_pc)])
                w = i.get_write_register()
                bits = 8 if m in ("lb", "lbu", "sb") else (16 if m in ("lh", "lhu", "sh") else 32)
                out.append(f"{m}={cs}|w={opt(w)}|b={bits}")
            return ";".join(out)
        if what == "asm":
            P = RiscvParser
            l = lambda xs: ",".join(xs)
            abi = ",".join(f"{n}:{k}" for n, k in Settings().get()["abi_names"].items())
            return (f"rrr={l(P._reg_reg_reg_mnemonics)}|i={l(P._normal_i_type_mnemonics)}|memi={l(P._mem_i_type_mnemonics)}|b={l(P._b_type_mnemonics)}"
                    f"|s={l(P._s_type_mnemonics)}|u={l(P._u_type_mnemonics)}|csr={l(P._csr_mnemonics)}|csri={l(P._csr_i_mnemonics)}|abi={abi}")
        if what == "toy":
            T = ToyParser
            opc = ",".join(f"{m}:{ti.instruction_map[m](**({'address': 0} if m in T._address_mnemonics else {})).opcode}" for m in T._address_mnemonics + T._no_address_mnemonics)
            mn = ",".join(ToyInstruction.from_integer(k << 12).mnemonic for k in range(16))
            return f"addr={','.join(T._address_mnemonics)}|noaddr={','.join(T._no_address_mnemonics)}|opc={opc}|mn={mn}"
        if what == "mem":
            from architecture_simulator.uarch.riscv.riscv_architectural_state import RiscvArchitecturalState
            from architecture_simulator.uarch.toy.toy_architectural_state import ToyArchitecturalState
            r = RiscvArchitecturalState().memory
            t = ToyArchitecturalState().memory
            ir = RiscvArchitecturalState().instruction_memory.get_address_range()
            f = lambda m: f"{m.memory_file_values_width},{m.address_length},{b01(m.address_overflow)},{m.address_range.start},{m.address_range.stop}"
            return f"riscv={f(r)}|toy={f(t)}|imem={ir.start},{ir.stop}"
        return "bad-op"

    def c_rv_repr(self, a):
        return instr_repr_hex(make_instr(a[0]))

    # -- formatter ------------------------------------------------------------------------------
    def c_fmt(self, a):
        r = get_n_bit_representations(int(a[0]), int(a[1]))
        return " ".join(hx(x) for x in r)

    # -- assembler ------------------------------------------------------------------------------
    def c_asm(self, a):
        text = unhex(a[0]) if a[0] != "." else ""
        sim = RiscvSimulation()
        return load_outcome(lambda: sim.load_program(text), lambda: asm_listing(sim))


def err_str_fault(e: BaseException) -> str:
    if isinstance(e, ValueError) and "is not a valid code for ECALL" in str(e):
        m = re.search(r"(\d+) \(register a7\)", str(e))
        return f"E ecall {m.group(1)}" if m else "E other"
    if isinstance(e, rvi.InstructionNotImplemented):
        return "E notimpl"
    return err_str(e)


def front_end_class(e: BaseException) -> str:
    """What the web front end makes of an exception: `webgui.get_last_error()` reads `sys.last_value`."""
    import sys
    from architecture_simulator.gui import webgui
    old = getattr(sys, "last_value", None)
    sys.last_value = e
    try:
        r = webgui.get_last_error()
    finally:
        if old is None:
            try:
                del sys.last_value
            except AttributeError:
                pass
        else:
            sys.last_value = old
    return r[0] if len(r) == 3 and r[2] == getattr(e, "line_number", getattr(e, "address", None)) else "Unknown"


def load_outcome(load, ok_str) -> str:
    """Canonical outcome of a `load_program` call: listing, or the error class and line."""
    try:
        load()
    except ParserException as e:
        if front_end_class(e) != "ParserException":
            return f"X front-end-classifies-{type(e).__name__}-as-{front_end_class(e)}"
        if not isinstance(e.line_number, int) or isinstance(e.line_number, bool) or not isinstance(e.line, str):
            # the error has the right class but ill-typed fields: report them as they are
            return f"PE {type(e).__name__} illtyped line_number={type(e.line_number).__name__}:{e.line_number!r} line={type(e.line).__name__}:{e.line!r}"[:300]
        return f"PE {type(e).__name__} {e.line_number} {hx(e.line)}"
    except MemorySizeException as e:
        return f"ME size {e.size_in_words}"
    except MemoryAddressError as e:
        return f"ME addr {e.address}"
    except RecursionError:
        return "X RecursionError"
    except Exception as e:  # ill-typed failure (C15)
        return f"X {type(e).__name__}"
    return ok_str()


def asm_listing(sim: RiscvSimulation) -> str:
    im = sim.state.instruction_memory
    inner = im.instruction_memory if isinstance(im, InstructionMemoryCacheSystem) else im
    toks = [instr_tok(inner.instructions[a]) for a in sorted(inner.instructions)]
    addrs_ok = sorted(inner.instructions) == [4 * k for k in range(len(toks))]
    mem = sim.state.memory
    back = mem if isinstance(mem, Memory) else mem.memory
    return f"ok {b01(addrs_ok)} {';'.join(toks) if toks else '.'} | {mem_dump(back)}"


def deep_state(obj, depth=0, seen=None):
    """Canonical deep image of an object graph (every attribute, recursively), for comparing two runs beyond the
    fields of the protocol snapshot. Wall-clock fields are skipped."""
    if seen is None:
        seen = set()
    if depth > 12:
        return "..."
    if obj is None or isinstance(obj, (bool, int, str, float, bytes)):
        return obj
    try:
        import fixedint
        if isinstance(obj, fixedint.base.FixedInt):
            return ("fx", type(obj).__name__, int(obj))
    except Exception:
        pass
    if id(obj) in seen:
        return "<cycle>"
    if isinstance(obj, (list, tuple)):
        seen = seen | {id(obj)}
        return [deep_state(x, depth + 1, seen) for x in obj]
    if isinstance(obj, dict):
        seen = seen | {id(obj)}
        return sorted(((repr(k), deep_state(v, depth + 1, seen)) for k, v in obj.items()), key=lambda kv: kv[0])
    if isinstance(obj, (set, frozenset)):
        return sorted(repr(x) for x in obj)
    if isinstance(obj, range):
        return ("range", obj.start, obj.stop, obj.step)
    if isinstance(obj, type) or callable(obj):
        return ("callable", getattr(obj, "__qualname__", repr(type(obj))))
    d = getattr(obj, "__dict__", None)
    if d is None:
        return ("obj", type(obj).__name__, repr(obj)[:80])
    seen = seen | {id(obj)}
    out = [("<class>", type(obj).__name__)]
    for k in sorted(d):
        if k in ("_start", "_execution_time_s"):
            continue
        out.append((k, deep_state(d[k], depth + 1, seen)))
    return out


def global_fingerprint() -> str:
    """Image of the module- and class-level tables of the code under test that no API call may change."""
    from architecture_simulator.isa.toy.toy_micro_program import MicroProgram
    from architecture_simulator.isa.toy import toy_instructions as ti
    from architecture_simulator.isa.riscv.riscv_parser import RiscvParser
    from architecture_simulator.isa.toy.toy_parser import ToyParser
    from architecture_simulator.settings.settings import Settings
    parts = [
        sorted((k.__name__, v) for k, v in MicroProgram._instr_mp_mapping.items()),
        sorted((k.__name__, list(v)) for k, v in MicroProgram._instr_bool_list_mapping.items()),
        list(MicroProgram.second_half_micro_program), list(MicroProgram._signal_names),
        sorted(rvi.instruction_map), sorted(ti.instruction_map),
        [list(getattr(RiscvParser, a)) for a in ("_reg_reg_reg_mnemonics", "_normal_i_type_mnemonics", "_mem_i_type_mnemonics", "_b_type_mnemonics",
                                                  "_s_type_mnemonics", "_u_type_mnemonics", "_csr_mnemonics", "_csr_i_mnemonics", "_reg_numbers", "_directives", "_type_directives")],
        sorted(RiscvParser._reg_mapping.items()),
        [list(ToyParser._address_mnemonics), list(ToyParser._no_address_mnemonics)],
        deep_state({k: v for k, v in Settings._settings.items()}),
    ]
    return repr(parts)


GLOBAL_BASELINE = global_fingerprint()      # taken when the harness imports the code, before any API call


def _global_containers():
    """The mutable containers behind `global_fingerprint` (dicts and lists), for save / restore in place."""
    from architecture_simulator.isa.toy.toy_micro_program import MicroProgram
    from architecture_simulator.isa.toy import toy_instructions as ti
    from architecture_simulator.isa.riscv.riscv_parser import RiscvParser
    from architecture_simulator.isa.toy.toy_parser import ToyParser
    from architecture_simulator.settings.settings import Settings
    cs = [MicroProgram._instr_mp_mapping, MicroProgram._instr_bool_list_mapping, MicroProgram.second_half_micro_program,
          MicroProgram._signal_names, rvi.instruction_map, ti.instruction_map, RiscvParser._reg_mapping, Settings._settings,
          ToyParser._address_mnemonics, ToyParser._no_address_mnemonics]
    cs += [getattr(RiscvParser, a) for a in ("_reg_reg_reg_mnemonics", "_normal_i_type_mnemonics", "_mem_i_type_mnemonics", "_b_type_mnemonics",
                                             "_s_type_mnemonics", "_u_type_mnemonics", "_csr_mnemonics", "_csr_i_mnemonics", "_reg_numbers",
                                             "_directives", "_type_directives")]
    return [c for c in cs if isinstance(c, (dict, list))]


def _copy_table(c):
    import copy
    if isinstance(c, dict):
        return {k: (copy.deepcopy(v) if isinstance(v, (list, dict, set)) else v) for k, v in c.items()}
    return [copy.deepcopy(v) if isinstance(v, (list, dict, set)) else v for v in c]


_GLOBAL_SAVED = [_copy_table(c) for c in _global_containers()]


def global_restore() -> bool:
    """Put the module/class-level tables back to their import-time contents (in place). True if the fingerprint is the
    baseline again afterwards. The harness does this after a case changed one of them, so that every case starts from
    the tables the code ships with and a change is attributed to each case that causes it."""
    for c, saved in zip(_global_containers(), _GLOBAL_SAVED):
        fresh = _copy_table(saved)
        if isinstance(c, dict):
            c.clear()
            c.update(fresh)
        else:
            c[:] = fresh
    return global_fingerprint() == GLOBAL_BASELINE


def run_lines(lines: list[str]) -> list[str]:
    impl = Impl()
    return [impl.run(l) for l in lines]
