import Driver
def main : IO Unit := do
  let stdin ← IO.getStdin
  let stdout ← IO.getStdout
  Driver.loop stdin stdout {}
