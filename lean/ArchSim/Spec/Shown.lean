/-
What it means for a displayed row `(bin, udec, hex, sdec)` to SHOW an `n`-bit value (specification side
of the table part of C17).  Only the independent readers of `Spec/Digits.lean` are used; the formatter
model is not mentioned (`Fmt.Reprs` is just the record of the four strings).
-/
import ArchSim.Model.Fmt
import ArchSim.Spec.Digits

namespace ArchSim.Spec.Shown
open ArchSim.Spec.Digits

/-- The four strings of `r` all denote the `n`-bit pattern `u` (a natural number below `2^n`):
* `bin`: exactly `n` binary digits, a space after every 8 digits counted from the right, value `u`;
* `udec`: decimal digits with value `u`, no leading zero (just `"0"` for 0);
* `hex`: exactly `⌈n/4⌉` upper-case hex digits, a space after every 2 digits from the right, value `u`;
* `sdec`: optional minus sign and decimal digits, denoting `u` read in `n`-bit two's complement. -/
structure Shows (n : Nat) (r : ArchSim.Fmt.Reprs) (u : Nat) : Prop where
  lt : u < 2 ^ n
  bin_val : ofDigits 2 (stripSpaces r.bin.toList) = some u
  bin_len : (stripSpaces r.bin.toList).length = n
  bin_groups : IsRightGrouping 8 (stripSpaces r.bin.toList) (splitSpaces r.bin.toList)
  udec_val : ofDigits 10 r.udec.toList = some u
  udec_canon : (u ≠ 0 → r.udec.toList.head? ≠ some '0') ∧ (u = 0 → r.udec.toList = ['0'])
  hex_val : ofDigits 16 (stripSpaces r.hex.toList) = some u
  hex_len : (stripSpaces r.hex.toList).length = (n + 3) / 4
  hex_upper : ∀ c ∈ stripSpaces r.hex.toList, isUpperHexDigit c
  hex_groups : IsRightGrouping 2 (stripSpaces r.hex.toList) (splitSpaces r.hex.toList)
  sdec_val : parseSigned r.sdec.toList
      = some (if u ≥ 2 ^ (n - 1) then (u : Int) - (2 : Int) ^ n else (u : Int))

/-- An address text `"0x…"`: the prefix `0x` followed by upper-case hex digits denoting `a`;
exactly `w` digits whenever `a < 16^w`. -/
def ShowsAddr (w : Nat) (s : String) (a : Nat) : Prop :=
  ∃ ds, s.toList = '0' :: 'x' :: ds ∧ ofDigits 16 ds = some a ∧
    (∀ c ∈ ds, isUpperHexDigit c) ∧ (a < 16 ^ w → ds.length = w)

end ArchSim.Spec.Shown
