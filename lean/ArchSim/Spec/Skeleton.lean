/-
The data-free schedule skeleton of the five-stage pipeline (DESIGN.md §8, C07/C08).

A slot holds a *token*: which instruction, its address, whether it was preserved by a stall
(`flagged`) and whether it is an ecall that decided to exit (`exits`). No register values, no ALU
results, no memory. What depends on data enters as the *outcomes* of the cycle: what IF delivered,
whether EX's ecall service decided to exit, and MEM's redirect decision. The rules are those of the
property text: one fetch per cycle unless stalled; decode interlock against the two older slots;
redirect resolved in MEM squashing the three younger slots; ecall held in EX (stall quanta) until
the MEM and WB slots are empty.
-/
import ArchSim.Model.Pipe

namespace ArchSim.Spec.Skeleton
open ArchSim ArchSim.Rv

structure Tok where
  instr   : Instr
  addr    : Int
  pc4     : Int
  flagged : Bool
  exits   : Bool
deriving DecidableEq, Repr

structure SkStall where
  k   : Nat
  rem : Nat
  p0  : Option Tok
  p1  : Option Tok
deriving DecidableEq, Repr

structure Sk where
  pc      : Int
  hazard  : Bool
  exited  : Bool
  instrs  : Nat
  stalls  : Nat
  flushes : Nat
  s0 : Option Tok
  s1 : Option Tok
  s2 : Option Tok
  s3 : Option Tok
  stalled : Option SkStall
deriving DecidableEq, Repr

/-- What the data path decided in this cycle. -/
structure Outcomes where
  hasInstr  : Bool            -- an instruction exists at the pc
  fetched   : Option Instr    -- what IF delivered
  exExit    : Bool            -- the ecall service that ran in EX decided to exit
  memTarget : Option Int      -- MEM's redirect decision for its input

/-- Source registers of an instruction (static). -/
def srcs (i : Instr) : Option Nat × Option Nat :=
  ((accessRegs i (fun _ => 0)).a1, (accessRegs i (fun _ => 0)).a2)

/-- Interlock test of a consumer against one older slot. -/
def depends (c : Instr) (t : Option Tok) : Bool :=
  match t with
  | none => false
  | some x =>
    match writeReg x.instr with
    | none => false
    | some r => r != 0 && ((srcs c).1 == some r || (srcs c).2 == some r)

def setFlag (t : Option Tok) : Option Tok := t.map fun x => { x with flagged := true }

/-- A token as a stage hands it on: the `flagged` mark is not copied. -/
def pass (t : Tok) (exits : Bool) : Tok :=
  { instr := t.instr, addr := t.addr, pc4 := t.pc4, flagged := false, exits := exits }

def idIn (sk : Sk) : Option Tok := match sk.stalled with | none => sk.s0 | some st => st.p0
def exIn (sk : Sk) : Option Tok :=
  match sk.stalled with | none => sk.s1 | some st => if st.k = 1 then none else st.p1
def memIn (sk : Sk) : Option Tok :=
  match sk.stalled with | none => sk.s2 | some st => if st.k = 2 then none else sk.s2

/-! ### The stages on tokens -/

/-- IF: one fetch per cycle unless stalled. -/
def newS0 (sk : Sk) (o : Outcomes) : Option Tok :=
  match sk.stalled with
  | none => o.fetched.map fun i => { instr := i, addr := sk.pc, pc4 := sk.pc + 4, flagged := false, exits := false }
  | some _ => sk.s0

def pcIF (sk : Sk) (o : Outcomes) : Int :=
  match sk.stalled with
  | none => if o.hasInstr then sk.pc + 4 else sk.pc
  | some _ => sk.pc

/-- ID: hands its input on; raises the interlock when a source is written by one of the two older slots. -/
def newS1 (sk : Sk) : Option Tok := (idIn sk).map fun t => pass t false

def idStallSig (sk : Sk) : Bool :=
  match idIn sk with
  | none => false
  | some t => sk.hazard && (depends t.instr sk.s1 || depends t.instr sk.s2)

/-- An ecall waits until the MEM and WB slots are empty (a preserved one only for the WB slot). -/
def mustWait (t : Tok) (s2 s3 : Option Tok) : Bool :=
  if t.flagged then s3.isSome else (s2.isSome || s3.isSome)

def exStallSig (sk : Sk) : Bool :=
  match exIn sk with
  | none => false
  | some t => decide (t.instr.op = .ecall) && mustWait t sk.s2 sk.s3

/-- The ecall service runs in EX this cycle. -/
def exRuns (sk : Sk) : Bool :=
  match exIn sk with
  | none => false
  | some t => decide (t.instr.op = .ecall) && !mustWait t sk.s2 sk.s3

def newS2 (sk : Sk) (o : Outcomes) : Option Tok := (exIn sk).map fun t => pass t (exRuns sk && o.exExit)

def flush2 (sk : Sk) (o : Outcomes) : Option Int :=
  match exIn sk with
  | none => none
  | some t => if exRuns sk && o.exExit then some t.pc4 else none

/-- MEM: control transfers are resolved here. -/
def newS3 (sk : Sk) : Option Tok := (memIn sk).map fun t => pass t t.exits

def flush3 (sk : Sk) (o : Outcomes) : Option Int :=
  match memIn sk with
  | none => none
  | some _ => o.memTarget

/-- WB: retires the instruction; an exiting ecall stops the machine. -/
def flush4 (sk : Sk) : Option Int :=
  match sk.s3 with
  | none => none
  | some t => if t.exits then some t.pc4 else none

def exitedWB (sk : Sk) : Bool := sk.exited || (match sk.s3 with | some t => t.exits | none => false)
def instrsWB (sk : Sk) : Nat := sk.instrs + (if sk.s3.isSome then 1 else 0)

/-! ### Stall bookkeeping and flush -/

/-- The highest stage with a stall signal that may (re)start a stall. -/
def pick (old : Option SkStall) (sig1 sig2 : Bool) : Option Nat :=
  let ok (idx : Nat) : Bool := match old with | none => true | some st => idx > st.k
  if sig2 && ok 2 then some 2
  else if sig1 && ok 1 then some 1
  else none

/-- Stall record after the pick-up: a new stall lasts three count-downs, i.e. two more cycles. -/
def stalledPick (sk : Sk) (picked : Option Nat) : Option SkStall :=
  match picked with
  | none => sk.stalled
  | some k =>
    match sk.stalled with
    | none => some { k := k, rem := 3, p0 := setFlag sk.s0, p1 := if k = 2 then setFlag sk.s1 else none }
    | some old => some { old with k := k, rem := 3 }

def countDown (o : Option SkStall) : Option SkStall :=
  match o with
  | none => none
  | some st => if st.rem - 1 = 0 then none else some { st with rem := st.rem - 1 }

def keepEx (o : Option SkStall) : Option SkStall :=
  match o with
  | none => none
  | some st => if st.k < 2 then none else some st

/-- One cycle of the skeleton. -/
def step (sk : Sk) (o : Outcomes) : Sk :=
  let picked := pick sk.stalled (idStallSig sk) (exStallSig sk)
  let stalls' := sk.stalls + (if picked.isSome then 1 else 0)
  let st2 := countDown (stalledPick sk picked)
  match flush4 sk with
  | some a =>
    { sk with pc := a % 4294967296, exited := exitedWB sk, instrs := instrsWB sk, stalls := stalls',
              flushes := sk.flushes + 1, s0 := none, s1 := none, s2 := none, s3 := none, stalled := none }
  | none =>
    match flush3 sk o with
    | some a =>
      { sk with pc := a % 4294967296, exited := exitedWB sk, instrs := instrsWB sk, stalls := stalls',
                flushes := sk.flushes + 1, s0 := none, s1 := none, s2 := none, s3 := newS3 sk,
                stalled := none }
    | none =>
      match flush2 sk o with
      | some a =>
        { sk with pc := a % 4294967296, exited := exitedWB sk, instrs := instrsWB sk, stalls := stalls',
                  flushes := sk.flushes + 1, s0 := none, s1 := none, s2 := newS2 sk o, s3 := newS3 sk,
                  stalled := keepEx st2 }
      | none =>
        { sk with pc := pcIF sk o, exited := exitedWB sk, instrs := instrsWB sk, stalls := stalls',
                  s0 := newS0 sk o, s1 := newS1 sk, s2 := newS2 sk o, s3 := newS3 sk, stalled := st2 }

/-- `is_done` on the skeleton (given whether an instruction exists at the pc). -/
def isDone (sk : Sk) (hasInstr : Bool) : Bool :=
  sk.exited || (sk.s0.isNone && sk.s1.isNone && sk.s2.isNone && sk.s3.isNone && !hasInstr)

end ArchSim.Spec.Skeleton
