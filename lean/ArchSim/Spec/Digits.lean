/-
Independent evaluation of digit strings (specification side of C17).

Nothing here mentions the formatter model `ArchSim.Fmt`: these functions *read* a string the way a
human (or Python's `int(s, base)`) does, so that the property theorems can say "the displayed string
denotes the value".  Core Lean only.
-/
namespace ArchSim.Spec.Digits

/-- Value of one digit character: `'0'..'9' ↦ 0..9`, upper-case `'A'..'F' ↦ 10..15`, anything else
(lower-case letters, space, sign, …) is not a digit. -/
def digitVal (c : Char) : Option Nat :=
  if '0' ≤ c ∧ c ≤ '9' then some (c.toNat - 48)
  else if 'A' ≤ c ∧ c ≤ 'F' then some (c.toNat - 55)
  else none

/-- Horner evaluation with accumulator, most significant digit first; `none` as soon as a character
is not a digit below `base`. -/
def ofDigitsAux (base : Nat) : Nat → List Char → Option Nat
  | acc, [] => some acc
  | acc, c :: cs =>
    match digitVal c with
    | some d => if d < base then ofDigitsAux base (acc * base + d) cs else none
    | none => none

/-- The natural number denoted by a non-empty digit string in the given base (most significant digit
first).  The empty string and strings with a non-digit (or a digit `≥ base`) denote nothing. -/
def ofDigits (base : Nat) : List Char → Option Nat
  | [] => none
  | c :: cs => ofDigitsAux base 0 (c :: cs)

/-- Remove the group separators (spaces). -/
def stripSpaces (s : List Char) : List Char := s.filter (fun c => c ≠ ' ')

/-- Split at every space: the list of maximal space-free pieces, in order (`"ab c" ↦ ["ab","c"]`,
`"" ↦ [""]`, `" " ↦ ["",""]`). -/
def splitSpaces : List Char → List (List Char)
  | [] => [[]]
  | c :: cs =>
    if c = ' ' then [] :: splitSpaces cs
    else
      match splitSpaces cs with
      | [] => [[c]]
      | w :: ws => (c :: w) :: ws

/-- A decimal integer with an optional leading minus sign. -/
def parseSigned : List Char → Option Int
  | '-' :: cs =>
    match ofDigits 10 cs with
    | some v => some (-(Int.ofNat v))
    | none => none
  | cs =>
    match ofDigits 10 cs with
    | some v => some (Int.ofNat v)
    | none => none

/-- Upper-case hexadecimal digit character (also covers binary and decimal digits). -/
def isUpperHexDigit (c : Char) : Prop := ('0' ≤ c ∧ c ≤ '9') ∨ ('A' ≤ c ∧ c ≤ 'F')

instance (c : Char) : Decidable (isUpperHexDigit c) := by unfold isUpperHexDigit; infer_instance

/-- A list of groups is a *right-aligned grouping of `s` in groups of `g`*: the groups concatenate
to `s`, there is at least one group, every group but the first has exactly `g` characters and the
first one has between 1 and `g`.  (For non-empty `s` this determines the list of groups uniquely.) -/
def IsRightGrouping (g : Nat) (s : List Char) (L : List (List Char)) : Prop :=
  ∃ h t, L = h :: t ∧ h ++ t.flatten = s ∧ 1 ≤ h.length ∧ h.length ≤ g ∧ ∀ c ∈ t, c.length = g

/-! ### the value an `n`-bit display is supposed to show -/

/-- The `n`-bit two's-complement bit pattern of an integer, read as a natural number `< 2 ^ n`
(Python: `number & (2**n - 1)`). -/
def unsignedVal (n : Nat) (x : Int) : Nat := (x % (2 : Int) ^ n).toNat

/-- The integer that the `n`-bit pattern of `x` denotes in two's complement
(in `[-2^(n-1), 2^(n-1))`, congruent to `x` modulo `2^n`). -/
def signedVal (n : Nat) (x : Int) : Int :=
  if unsignedVal n x ≥ 2 ^ (n - 1) then (unsignedVal n x : Int) - (2 : Int) ^ n else unsignedVal n x

-- sanity checks of the reading functions
example : ofDigits 16 "7F".toList = some 127 := by decide
example : ofDigits 16 "7f".toList = none := by decide
example : ofDigits 2 "102".toList = none := by decide
example : ofDigits 10 "".toList = none := by decide
example : parseSigned "-2048".toList = some (-2048) := by decide
example : splitSpaces "1111 00000000".toList = ["1111".toList, "00000000".toList] := by decide
example : splitSpaces "1111 00000000".toList = "1111 00000000".toList.splitOn ' ' := by decide
example : splitSpaces " a  b ".toList = " a  b ".toList.splitOn ' ' := by decide
example : stripSpaces "1111 00000000".toList = "111100000000".toList := by decide

end ArchSim.Spec.Digits
