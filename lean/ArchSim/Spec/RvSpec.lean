/-
Reference semantics of the supported RV32IM subset (specification side of C01).

Written from "The RISC-V Instruction Set Manual, Volume I: Unprivileged ISA" (chapters RV32I and "M")
and from the ecall table of the simulator's help page — NOT from the Python code or its Lean model.
Everything is expressed with fixed-width bit vectors (`BitVec 32` registers, `BitVec 8` memory cells,
`BitVec 32` program counter) and the bit-vector operations of core Lean (`+`, `-`, `<<<`, `>>>`,
`sshiftRight`, `slt`, `ult`, `signExtend`, `zeroExtend`, `sdiv`, `srem`, `/`, `%`, `++`, `extractLsb'`).

The only things shared with the model are
 * the *syntax* of instructions (`ArchSim.Rv.Instr`: mnemonic, register numbers, the immediate as a
   signed integer) — the spec re-encodes the immediate into its 12/13/20/21-bit field and sign-extends
   it itself, and
 * `floatMarker`, the opaque placeholder for Python's float formatting (ecall 2), which neither side
   interprets.

Conventions the simulator documents and the spec adopts:
 * data memory is mapped from `dataBase = 0x4000` up to `2^32 - 1`; a data access (load, store, or a
   byte read by the print-string ecall) to an address below `dataBase` is an access fault; byte
   addresses of a multi-byte access are computed modulo `2^32` and checked in ascending order, the
   fault reports the first offending byte address;
 * no alignment requirement (misaligned accesses are performed byte-wise, little-endian);
 * ecall services (a7 = x17 selects, a0 = x10 is the argument): 1 print signed decimal, 2 print float,
   4 print NUL-terminated string at address a0, 11 print character `a0 mod 128`, 34 print `0x` + upper
   case hex, 35 print `0b` + binary, 36 print unsigned decimal, 10 exit with code 0, 93 exit with code
   a0; any other value of a7 is a fault.

State at a fault: `exec` returns only the fault.  What the machine state looks like when a fault is
raised is specified separately by `atFault`: nothing has changed, except that a store which runs
into an unmapped byte has already written the bytes that precede it (the RISC-V specification allows a
faulting misaligned store to have been performed partially; the simulator does exactly this).

Core Lean only.
-/
import ArchSim.Model.Rv

namespace ArchSim.Spec.RvSpec
open ArchSim.Rv (Instr Op floatMarker)

abbrev Word := BitVec 32
abbrev Byte := BitVec 8

inductive SpecFault where
  /-- load/store/print-string access fault; `addr` is the first byte address that is not mapped -/
  | access (addr : Word)
  /-- `ecall` with a value in a7 that is not a service number of the table -/
  | ecall (code : Word)
  /-- not an instruction of the supported subset (CSR*, FENCE, EBREAK) -/
  | unsupported
deriving DecidableEq, Repr

/-- Architectural state.  `x k` for `k ≠ 0` are the general registers; `x 0` is never read or written
    (`get`/`set` below): register number 0 is the constant zero, not a storage cell. -/
structure SpecSt where
  x    : Fin 32 → Word
  mem  : Word → Byte
  pc   : Word
  out  : String
  exit : Option Int

/-- Read register number `r` (a 5-bit field): `x0` reads as zero. -/
def SpecSt.get (s : SpecSt) (r : Nat) : Word := if r % 32 = 0 then 0 else s.x (Fin.ofNat 32 r)

/-- Write register number `r`: writes to `x0` are discarded. -/
def SpecSt.set (s : SpecSt) (r : Nat) (v : Word) : SpecSt :=
  if r % 32 = 0 then s else { s with x := fun k => if k = Fin.ofNat 32 r then v else s.x k }

/-! ### data memory: little-endian, byte-wise, mapped from `dataBase` -/

def dataBase : Nat := 16384

def mapped (a : Word) : Prop := dataBase ≤ a.toNat
instance (a : Word) : Decidable (mapped a) := by unfold mapped; infer_instance

def SpecSt.loadByte (s : SpecSt) (a : Word) : Except SpecFault Byte :=
  if mapped a then .ok (s.mem a) else .error (.access a)

/-- Two bytes at `a`, `a+1` (address arithmetic modulo 2^32); the byte at the lower address is the
    less significant one. -/
def SpecSt.loadHalf (s : SpecSt) (a : Word) : Except SpecFault (BitVec 16) := do
  let b0 ← s.loadByte a
  let b1 ← s.loadByte (a + 1)
  pure (b1 ++ b0)

def SpecSt.loadWord (s : SpecSt) (a : Word) : Except SpecFault Word := do
  let b0 ← s.loadByte a
  let b1 ← s.loadByte (a + 1)
  let b2 ← s.loadByte (a + 2)
  let b3 ← s.loadByte (a + 3)
  pure (b3 ++ b2 ++ b1 ++ b0)

def SpecSt.putByte (s : SpecSt) (a : Word) (b : Byte) : SpecSt :=
  { s with mem := fun w => if w = a then b else s.mem w }

def SpecSt.storeByte (s : SpecSt) (a : Word) (b : Byte) : Except SpecFault SpecSt :=
  if mapped a then .ok (s.putByte a b) else .error (.access a)

/-- Byte `k` (0 = least significant) of a word. -/
def byteOf (v : Word) (k : Nat) : Byte := v.extractLsb' (8 * k) 8

def SpecSt.storeHalf (s : SpecSt) (a : Word) (v : Word) : Except SpecFault SpecSt := do
  let s ← s.storeByte a (byteOf v 0)
  s.storeByte (a + 1) (byteOf v 1)

def SpecSt.storeWord (s : SpecSt) (a : Word) (v : Word) : Except SpecFault SpecSt := do
  let s ← s.storeByte a (byteOf v 0)
  let s ← s.storeByte (a + 1) (byteOf v 1)
  let s ← s.storeByte (a + 2) (byteOf v 2)
  s.storeByte (a + 3) (byteOf v 3)

/-- The state a faulting store leaves behind: the bytes before the first unmapped one are written. -/
def SpecSt.storeWhileMapped (s : SpecSt) (a : Word) : List Byte → SpecSt
  | [] => s
  | b :: bs => if mapped a then (s.putByte a b).storeWhileMapped (a + 1) bs else s

/-! ### immediates: the encoded field, sign-extended to 32 bits -/

/-- I-, S-type: 12-bit field. -/
def immI (i : Instr) : Word := (BitVec.ofInt 12 i.imm).signExtend 32
/-- B-type: 13-bit byte offset. -/
def immB (i : Instr) : Word := (BitVec.ofInt 13 i.imm).signExtend 32
/-- U-type: the 20-bit field placed in bits 31..12, low 12 bits zero. -/
def immU (i : Instr) : Word := BitVec.ofInt 20 i.imm ++ 0#12
/-- J-type: 21-bit byte offset. -/
def immJ (i : Instr) : Word := (BitVec.ofInt 21 i.imm).signExtend 32
/-- Shift-immediate forms: 5-bit shift amount. -/
def shamtI (i : Instr) : Nat := (BitVec.ofInt 5 i.imm).toNat

/-- Shift amount held in a register: the low 5 bits. -/
def shamt (w : Word) : Nat := w.toNat % 32

def ofBool (b : Bool) : Word := if b then 1 else 0

/-! ### "M" extension -/

/-- Upper 32 bits of a 64-bit product. -/
def hi32 (p : BitVec 64) : Word := p.extractLsb' 32 32

def mulh (a b : Word) : Word := hi32 (a.signExtend 64 * b.signExtend 64)
def mulhu (a b : Word) : Word := hi32 (a.zeroExtend 64 * b.zeroExtend 64)
def mulhsu (a b : Word) : Word := hi32 (a.signExtend 64 * b.zeroExtend 64)

/-- DIV: quotient rounded toward zero; division by zero gives all ones (−1); the overflow case
    `−2^31 / −1` gives `−2^31`. -/
def div (a b : Word) : Word :=
  if b = 0 then BitVec.allOnes 32
  else if a = BitVec.intMin 32 ∧ b = BitVec.allOnes 32 then BitVec.intMin 32
  else a.sdiv b

/-- DIVU: division by zero gives `2^32 − 1`. -/
def divu (a b : Word) : Word := if b = 0 then BitVec.allOnes 32 else a / b

/-- REM: sign of the result = sign of the dividend; division by zero gives the dividend; the overflow
    case gives 0. -/
def rem (a b : Word) : Word :=
  if b = 0 then a
  else if a = BitVec.intMin 32 ∧ b = BitVec.allOnes 32 then 0
  else a.srem b

/-- REMU: division by zero gives the dividend. -/
def remu (a b : Word) : Word := if b = 0 then a else a % b

/-! ### ecall services -/

/-- The characters of the NUL-terminated string starting at byte address `a` (a natural number
    `≤ 2^32`): each byte is printed as the character `byte mod 128`.  The string occupies ascending
    addresses; an address below `dataBase` is an access fault, and so is running off the top of the
    address space (address `2^32` wraps to the unmapped address 0). -/
def readStr (mem : Word → Byte) (a : Nat) : Except SpecFault (List Char) :=
  if _h : a < dataBase ∨ 4294967296 ≤ a then .error (.access (BitVec.ofNat 32 a))
  else
    let b := mem (BitVec.ofNat 32 a)
    if b = 0 then .ok []
    else match readStr mem (a + 1) with
      | .ok cs => .ok (Char.ofNat (b.toNat % 128) :: cs)
      | .error f => .error f
termination_by 4294967296 - a
decreasing_by omega

/-- Upper-case hexadecimal digits of a natural number (no leading zeros, "0" for 0). -/
def upperHex (n : Nat) : String := String.ofList ((Nat.toDigits 16 n).map Char.toUpper)
/-- Binary digits of a natural number. -/
def binary (n : Nat) : String := String.ofList (Nat.toDigits 2 n)

/-- What an ecall does, by service number. -/
inductive Service where
  | print (text : String)
  | exit (code : Int)

def service (s : SpecSt) : Except SpecFault Service :=
  let a0 := s.get 10
  let a7 := s.get 17
  if a7 = 1 then .ok (.print (toString a0.toInt))
  else if a7 = 2 then .ok (.print (floatMarker a0.toNat))
  else if a7 = 4 then
    match readStr s.mem a0.toNat with
    | .ok cs => .ok (.print (String.ofList cs))
    | .error f => .error f
  else if a7 = 11 then .ok (.print (String.singleton (Char.ofNat (a0.toNat % 128))))
  else if a7 = 34 then .ok (.print ("0x" ++ upperHex a0.toNat))
  else if a7 = 35 then .ok (.print ("0b" ++ binary a0.toNat))
  else if a7 = 36 then .ok (.print (toString a0.toNat))
  else if a7 = 10 then .ok (.exit 0)
  else if a7 = 93 then .ok (.exit a0.toNat)
  else .error (.ecall a7)

/-! ### one instruction -/

/-- Execute instruction `i` in state `s` (`s.pc` is the address of `i`). -/
def exec (i : Instr) (s : SpecSt) : Except SpecFault SpecSt :=
  let rs1 := s.get i.rs1
  let rs2 := s.get i.rs2
  -- write `rd`, fall through to the next instruction
  let wr (v : Word) : Except SpecFault SpecSt := .ok { s.set i.rd v with pc := s.pc + 4 }
  -- conditional branch
  let br (c : Bool) : Except SpecFault SpecSt :=
    .ok { s with pc := if c then s.pc + immB i else s.pc + 4 }
  let next (s' : SpecSt) : SpecSt := { s' with pc := s.pc + 4 }
  match i.op with
  -- RV32I register-register
  | .add  => wr (rs1 + rs2)
  | .sub  => wr (rs1 - rs2)
  | .sll  => wr (rs1 <<< shamt rs2)
  | .slt  => wr (ofBool (rs1.slt rs2))
  | .sltu => wr (ofBool (rs1.ult rs2))
  | .xor  => wr (rs1 ^^^ rs2)
  | .srl  => wr (rs1 >>> shamt rs2)
  | .sra  => wr (rs1.sshiftRight (shamt rs2))
  | .or   => wr (rs1 ||| rs2)
  | .and  => wr (rs1 &&& rs2)
  -- RV32M
  | .mul    => wr (rs1 * rs2)
  | .mulh   => wr (mulh rs1 rs2)
  | .mulhu  => wr (mulhu rs1 rs2)
  | .mulhsu => wr (mulhsu rs1 rs2)
  | .div    => wr (div rs1 rs2)
  | .divu   => wr (divu rs1 rs2)
  | .rem    => wr (rem rs1 rs2)
  | .remu   => wr (remu rs1 rs2)
  -- register-immediate
  | .addi  => wr (rs1 + immI i)
  | .slti  => wr (ofBool (rs1.slt (immI i)))
  | .sltiu => wr (ofBool (rs1.ult (immI i)))
  | .xori  => wr (rs1 ^^^ immI i)
  | .ori   => wr (rs1 ||| immI i)
  | .andi  => wr (rs1 &&& immI i)
  | .slli  => wr (rs1 <<< shamtI i)
  | .srli  => wr (rs1 >>> shamtI i)
  | .srai  => wr (rs1.sshiftRight (shamtI i))
  -- loads: effective address rs1 + sext(imm); sign or zero extension of the loaded value
  | .lb  => do let b ← s.loadByte (rs1 + immI i); wr (b.signExtend 32)
  | .lbu => do let b ← s.loadByte (rs1 + immI i); wr (b.zeroExtend 32)
  | .lh  => do let h ← s.loadHalf (rs1 + immI i); wr (h.signExtend 32)
  | .lhu => do let h ← s.loadHalf (rs1 + immI i); wr (h.zeroExtend 32)
  | .lw  => do let w ← s.loadWord (rs1 + immI i); wr w
  -- stores: the low 8/16/32 bits of rs2
  | .sb => do let s' ← s.storeByte (rs1 + immI i) (byteOf rs2 0); pure (next s')
  | .sh => do let s' ← s.storeHalf (rs1 + immI i) rs2; pure (next s')
  | .sw => do let s' ← s.storeWord (rs1 + immI i) rs2; pure (next s')
  -- branches
  | .beq  => br (rs1 == rs2)
  | .bne  => br (rs1 != rs2)
  | .blt  => br (rs1.slt rs2)
  | .bge  => br (!rs1.slt rs2)
  | .bltu => br (rs1.ult rs2)
  | .bgeu => br (!rs1.ult rs2)
  -- upper immediates
  | .lui   => wr (immU i)
  | .auipc => wr (s.pc + immU i)
  -- jumps: link register gets the address of the following instruction
  | .jal  => .ok { s.set i.rd (s.pc + 4) with pc := s.pc + immJ i }
  | .jalr => .ok { s.set i.rd (s.pc + 4) with pc := (rs1 + immI i) &&& ~~~(1#32) }
  -- environment call
  | .ecall =>
    match service s with
    | .error f => .error f
    | .ok (.print t) => .ok (next { s with out := s.out ++ t })
    | .ok (.exit c) => .ok (next { s with exit := some c })
  | .ebreak | .fence | .csrrw | .csrrs | .csrrc | .csrrwi | .csrrsi | .csrrci => .error .unsupported

/-- The state left behind when `exec i s` faults (see the header). -/
def atFault (i : Instr) (s : SpecSt) : SpecSt :=
  let a := s.get i.rs1 + immI i
  let v := s.get i.rs2
  match i.op with
  | .sb => s.storeWhileMapped a [byteOf v 0]
  | .sh => s.storeWhileMapped a [byteOf v 0, byteOf v 1]
  | .sw => s.storeWhileMapped a [byteOf v 0, byteOf v 1, byteOf v 2, byteOf v 3]
  | _ => s

/-! ### programs -/

/-- Instruction `k` of the program is at byte address `4 * k`. -/
def fetch (prog : List Instr) (pc : Word) : Option Instr :=
  if pc.toNat % 4 = 0 then prog[pc.toNat / 4]? else none

/-- Execution has ended: an exit ecall was executed, or the pc holds no instruction. -/
def halted (prog : List Instr) (s : SpecSt) : Prop := s.exit.isSome ∨ fetch prog s.pc = none
instance (prog : List Instr) (s : SpecSt) : Decidable (halted prog s) := by unfold halted; infer_instance

/-- One fetch-execute step; nothing happens when the pc holds no instruction. -/
def step (prog : List Instr) (s : SpecSt) : Except SpecFault SpecSt :=
  match fetch prog s.pc with
  | none => .ok s
  | some i => exec i s

/-- `n` raw steps (stopping at the first fault). -/
def iter (prog : List Instr) : Nat → SpecSt → Except SpecFault SpecSt
  | 0, s => .ok s
  | n + 1, s =>
    match step prog s with
    | .error f => .error f
    | .ok s' => iter prog n s'

/-- Run for at most `n` steps: stop when halted (in particular right after an exit ecall) or at the
    first fault. -/
def run (prog : List Instr) : Nat → SpecSt → Except SpecFault SpecSt
  | 0, s => .ok s
  | n + 1, s =>
    if halted prog s then .ok s
    else match step prog s with
      | .error f => .error f
      | .ok s' => run prog n s'

end ArchSim.Spec.RvSpec
