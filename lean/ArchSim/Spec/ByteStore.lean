/-
Abstract specification of the flat (uncached) data memory: a cell store defined from the *history of
write operations alone*.

A history is a list of `Op.write bits a v` (oldest first).  A write of `n = bits / cellBits` cells at
address `a` with value `v` stores, for `i = 0, 1, …`, the little-endian digit
`(v / 2^(i*cellBits)) % 2^cellBits` at the wrapped address `wrapAddr (a+i)`, but only up to (not
including) the first `i` whose wrapped address is outside `[lo, hi)`: the Python loop writes the cells
before the offending one and then raises.  `B h x` is the value written last to cell `x` in this
trace, `0` if none.

Import-free apart from the model's configuration record (`Cfg`, `wrapAddr`, `inRange`, `cellsOf`).
-/
import ArchSim.Model.Mem

namespace ArchSim.Spec.ByteStore
open ArchSim.Mem

/-- A memory operation that changes the store: `write_byte/halfword/word(a, v)` with `bits` = 8/16/32. -/
inductive Op where
  | write (bits : Nat) (a : Int) (v : Nat)
deriving Repr, DecidableEq

/-- Little-endian digit `i` of `v` in base `2^cellBits`. -/
def cellVal (c : Cfg) (v i : Nat) : Nat := (v / 2 ^ (i * c.cellBits)) % 2 ^ c.cellBits

/-- Cell `i` of an access at `a` lies in the valid range (after the optional wrap). -/
def cellOk (c : Cfg) (a : Int) (i : Nat) : Bool := inRange c (wrapAddr c (a + i))

/-- The indices of the cells an `n`-cell access at `a` touches successfully: the leading run of
    in-range cells. -/
def okIdx (c : Cfg) (a : Int) (n : Nat) : List Nat := (List.range n).takeWhile (cellOk c a)

/-- Index of the first out-of-range cell of an `n`-cell access at `a` (`n` if there is none). -/
def firstBad (c : Cfg) (a : Int) (n : Nat) : Nat := (okIdx c a n).length

/-- The (cell address, value) pairs one operation stores, in the order they are stored. -/
def opCells (c : Cfg) : Op → List (Int × Nat)
  | .write bits a v =>
    (okIdx c a (cellsOf c bits)).map (fun (i : Nat) => (wrapAddr c (a + (i : Int)), cellVal c v i))

/-- The address error an operation raises, if any: it carries the first out-of-range wrapped
    cell address. -/
def opErr (c : Cfg) : Op → Option AddrErr
  | .write bits a _ =>
    if firstBad c a (cellsOf c bits) < cellsOf c bits
    then some ⟨wrapAddr c (a + (firstBad c a (cellsOf c bits) : Nat))⟩ else none

/-- All cell stores of a history, oldest first. -/
def trace (c : Cfg) (h : List Op) : List (Int × Nat) := h.flatMap (opCells c)

/-- Scan a list of stores in order and keep the last value stored at `x`; `0` if there is none. -/
def lastVal (l : List (Int × Nat)) (x : Int) : Nat :=
  l.foldl (fun acc p => if p.1 = x then p.2 else acc) 0

/-- The history-defined cell map. -/
def B (c : Cfg) (h : List Op) (x : Int) : Nat := lastVal (trace c h) x

/-- The set of cell addresses a history has stored to. -/
def written (c : Cfg) (h : List Op) (x : Int) : Prop := x ∈ (trace c h).map Prod.fst

/-- Apply one operation to the model memory; an address error is ignored (the possibly incompletely
    written memory is kept, as in Python), and so is `UnsupportedFunctionError`. -/
def applyOp (m : Mem) : Op → Mem
  | .write bits a v =>
    match ArchSim.Mem.write m bits a v with
    | none => m
    | some r => r.1

/-- The model memory after a history, starting from the empty memory. -/
def run (c : Cfg) (h : List Op) : Mem := h.foldl applyOp (Mem.empty c)

/-- The little-endian composition `Σ_{i<n} f i * 2^(i*cellBits)`. -/
def leSum (c : Cfg) (n : Nat) (f : Nat → Nat) : Nat :=
  ((List.range n).map (fun i => f i * 2 ^ (i * c.cellBits))).sum

end ArchSim.Spec.ByteStore
