/-
Abstract view of the data-cache memory systems (`Model.Cache.DSys`) used by C03 / C12:

* `PolicyOK`  – the only facts about a replacement policy the transparency proof needs;
* `GeoOK`     – admissible cache geometries;
* `CInv`      – the representation invariant of every reachable `DSys`;
* `logical`   – the byte store the cache + backing memory represent together;
* `Op`, `runOps`, `flatOps` – access histories on the cached system and on a flat reference memory.
-/
import ArchSim.Model.Cache
import ArchSim.Lemmas.C18Read

namespace ArchSim.Spec.CacheAbs
open ArchSim ArchSim.Cache ArchSim.Mem

/-- What the cache needs from a replacement policy: on well-formed states `access` of an existing
    way and `victim` never raise, `victim` names an existing way, well-formedness is preserved. -/
structure PolicyOK {σ : Type} (P : PolicyOps σ) (assoc : Nat) (WFp : σ → Prop) : Prop where
  init   : WFp (P.init assoc)
  access : ∀ s i, WFp s → i < assoc → ∃ s', P.access s i = some s' ∧ WFp s'
  victim : ∀ s, WFp s → ∃ v, P.victim s = some v ∧ v < assoc

/-- Admissible geometry: tag + index + block + byte bits fit 32 bits, at least one way, and a block
    is at most 2^14 bytes (so that a block containing a valid data address lies entirely in the
    valid range `[16384, 2^32)`; see `blockbits13_counterexample` for why this is needed). -/
structure GeoOK (g : Geo) : Prop where
  bits  : g.idxBits + g.blkBits + 2 ≤ 32
  assoc : 0 < g.assoc
  blk   : g.blkBits ≤ 12

/-- Byte lane `i` of a word. -/
def byteOf (w i : Nat) : Nat := (w / 2 ^ (i * 8)) % 256

/-- A way of set `k`: the dirty bit is set exactly when the way is valid (every block write marks the
    block dirty); a valid way carries the block-aligned address determined by its tag and `k`, lies
    in the valid data range, and holds `2^blkBits` words below `2^32`. -/
structure WayOK (g : Geo) (k : Nat) (w : Way Nat) : Prop where
  dirty : w.dirty = w.valid
  base  : w.valid = true → w.base = (w.tag * 2 ^ g.idxBits + k) * 2 ^ (g.blkBits + 2)
  lo    : w.valid = true → 16384 ≤ w.base
  hi    : w.valid = true → w.base + 2 ^ (g.blkBits + 2) ≤ 4294967296
  len   : w.valid = true → w.vals.length = 2 ^ g.blkBits
  lt    : w.valid = true → ∀ x, x ∈ w.vals → x < 4294967296

/-- Valid ways carry pairwise distinct tags. -/
def Distinct (ways : List (Way Nat)) : Prop :=
  ∀ (i j : Nat) (wi wj : Way Nat), ways[i]? = some wi → ways[j]? = some wj →
    wi.valid = true → wj.valid = true → wi.tag = wj.tag → i = j

/-- A set: `assoc` ways, a well-formed policy state, valid ways have pairwise distinct tags. -/
structure SetOK {σ : Type} (g : Geo) (WFp : σ → Prop) (k : Nat) (cs : CSet σ Nat) : Prop where
  len      : cs.ways.length = g.assoc
  pol      : WFp cs.pol
  ways     : ∀ (i : Nat) (w : Way Nat), cs.ways[i]? = some w → WayOK g k w
  distinct : Distinct cs.ways

structure SetsOK {σ : Type} (g : Geo) (WFp : σ → Prop) (sets : List (CSet σ Nat)) : Prop where
  len : sets.length = 2 ^ g.idxBits
  set : ∀ (k : Nat) (cs : CSet σ Nat), sets[k]? = some cs → SetOK g WFp k cs

/-- The way of a set that `get_block_index` finds for `tag`. -/
def lookupWays (ways : List (Way Nat)) (tag : Nat) : Option (Way Nat) :=
  (findWay ways tag).bind (fun i => ways[i]?)

/-- The resident way (if any) of set `k` carrying `tag`. -/
def lookup {σ : Type} (sets : List (CSet σ Nat)) (k tag : Nat) : Option (Way Nat) :=
  (sets[k]?).bind (fun cs => lookupWays cs.ways tag)

/-- The logical byte store: the byte at (wrapped) address `a` is the byte lane of the resident block's
    word if the block of `a` is resident, else the backing memory cell. -/
def logical {σ : Type} (s : DSys σ) (a : Int) : Nat :=
  match lookup s.sets (decode s.geo.idxBits s.geo.blkBits a).setIdx
      (decode s.geo.idxBits s.geo.blkBits a).tag with
  | some w => byteOf (wordAt w.vals (decode s.geo.idxBits s.geo.blkBits a).blockOff)
                (decode s.geo.idxBits s.geo.blkBits a).byteOff
  | none => s.mem.cells ((decode s.geo.idxBits s.geo.blkBits a).full : Int)

/-- The block of address `a` is resident. -/
def resident {σ : Type} (s : DSys σ) (a : Int) : Bool :=
  (lookup s.sets (decode s.geo.idxBits s.geo.blkBits a).setIdx
      (decode s.geo.idxBits s.geo.blkBits a).tag).isSome

/-- The structural part of the representation invariant of a data-cache memory system over the
    RISC-V data memory: admissible geometry, well-formed sets, well-formed backing memory. -/
structure CInvS {σ : Type} (WFp : σ → Prop) (s : DSys σ) : Prop where
  geo  : GeoOK s.geo
  sets : SetsOK s.geo WFp s.sets
  cfg  : s.mem.cfg = riscvCfg
  wf   : ArchSim.Lemmas.C18.WF s.mem

/-- The representation invariant.
    `wtc`: under write-through the logical contents and the backing memory coincide everywhere
    (equivalently: every resident block equals its backing block, `Props.C12.wt_resident_backed`). -/
structure CInv {σ : Type} (WFp : σ → Prop) (s : DSys σ) : Prop extends CInvS WFp s where
  wtc  : s.wt = true → ∀ a : Int, logical s a = s.mem.cells (wrap32 a : Int)

/-- The flat memory whose cells are the logical contents of `s` (only `cfg` and `cells` matter
    for reads). -/
def flatOf {σ : Type} (s : DSys σ) : Mem :=
  { cfg := riscvCfg, cells := fun x => logical s x, keys := [] }

/-- `f` with the `n` bytes starting at (wrapped) address `addr` replaced by the little-endian bytes
    of `v`; used for accesses that stay within one word, so there is no wrap inside the access. -/
def updBytes (f : Int → Nat) (addr : Int) (n v : Nat) (a : Int) : Nat :=
  if wrap32 addr ≤ wrap32 a ∧ wrap32 a < wrap32 addr + n then byteOf v (wrap32 a - wrap32 addr)
  else f a

/-! ### Accesses and histories -/

/-- The access width is one the simulator offers. -/
def widthOK (bits : Nat) : Prop := bits = 8 ∨ bits = 16 ∨ bits = 32

/-- The access stays within one word. -/
def inWord (bits : Nat) (addr : Int) : Prop := wrap32 addr % 4 + bits / 8 ≤ 4

/-- The (wrapped) address is a valid data address. -/
def inData (addr : Int) : Prop := 16384 ≤ wrap32 addr

instance (bits : Nat) : Decidable (widthOK bits) := by unfold widthOK; infer_instance
instance (bits : Nat) (addr : Int) : Decidable (inWord bits addr) := by unfold inWord; infer_instance
instance (addr : Int) : Decidable (inData addr) := by unfold inData; infer_instance

inductive Op where
  | read  (bits : Nat) (addr : Int) (counted : Bool)
  | write (bits : Nat) (addr : Int) (v : Nat)
deriving Repr, DecidableEq

/-- Well-formed operation: an offered width, and a written value that fits it (a `UIntN`). -/
def Op.wf : Op → Prop
  | .read bits _ _ => widthOK bits
  | .write bits _ v => widthOK bits ∧ v < 2 ^ bits

/-- The operation is one the cached system accepts: it stays within one word of the data range. -/
def Op.accepted : Op → Prop
  | .read bits addr _ => inWord bits addr ∧ inData addr
  | .write bits addr _ => inWord bits addr ∧ inData addr

instance (o : Op) : Decidable o.accepted := by cases o <;> unfold Op.accepted <;> infer_instance
instance (o : Op) : Decidable o.wf := by cases o <;> unfold Op.wf <;> infer_instance

/-- One operation on the cached system (writes go through the cache: `direct = false`). -/
def stepOp {σ : Type} (P : PolicyOps σ) (s : DSys σ) : Op → Out σ
  | .read bits addr counted => s.read P bits addr counted
  | .write bits addr v => s.write P bits addr v false

/-- Run a history on the cached system; returns the final state and the results, oldest first. -/
def runOps {σ : Type} (P : PolicyOps σ) (s : DSys σ) : List Op → DSys σ × List (Except Err Nat)
  | [] => (s, [])
  | o :: os =>
    let r := stepOp P s o
    let rest := runOps P r.sys os
    (rest.1, r.res :: rest.2)

/-- The same operation on a flat (uncached) memory: a read returns `Mem.read`, an accepted write is
    performed with `Mem.write`; an operation the cached system rejects is skipped. -/
def flatStep (m : Mem) (o : Op) : Mem × Option (Except AddrErr Nat) :=
  if o.accepted then
    match o with
    | .read bits addr _ => (m, Mem.read m bits addr)
    | .write bits addr v =>
      match Mem.write m bits addr v with
      | none => (m, none)
      | some (m', none) => (m', some (.ok 0))
      | some (m', some e) => (m', some (.error e))
  else (m, none)

def flatOps (m : Mem) : List Op → Mem × List (Option (Except AddrErr Nat))
  | [] => (m, [])
  | o :: os =>
    let r := flatStep m o
    let rest := flatOps r.1 os
    (rest.1, r.2 :: rest.2)

/-- A cached result agrees with the flat reference: an accepted operation returns the flat value
    (`0` for a write); a rejected one returns an error. -/
def agrees (o : Op) (c : Except Err Nat) (f : Option (Except AddrErr Nat)) : Prop :=
  if o.accepted then (∃ v, c = .ok v ∧ f = some (.ok v)) else (∃ e, c = .error e)

/-- Pointwise agreement of the result lists of a history. -/
def agreesAll : List Op → List (Except Err Nat) → List (Option (Except AddrErr Nat)) → Prop
  | [], [], [] => True
  | o :: os, c :: cs, f :: fs => agrees o c f ∧ agreesAll os cs fs
  | _, _, _ => False

/-- Apply a list of preloads (direct writes to the lower memory, as the parser does for `.data`
    before anything is cached). -/
def preload {σ : Type} (s : DSys σ) : List ArchSim.Spec.ByteStore.Op → DSys σ
  | [] => s
  | .write bits addr v :: h => preload (s.writeDirect bits addr v).sys h

/-- Overwrite the replacement-policy state of every set (`f k` for set `k`).  With `forcedOps` this is
    what the differential harness does before each operation: it forces, per set, the way the real
    implementation is about to displace. -/
def setPols {σ : Type} (s : DSys σ) (f : Nat → σ) : DSys σ :=
  { s with sets := s.sets.mapIdx (fun k cs => { cs with pol := f k }) }

/-- Run a history in which an adversary overwrites all policy states before every operation. -/
def runOpsAdv {σ : Type} (P : PolicyOps σ) (s : DSys σ) :
    List (Op × (Nat → σ)) → DSys σ × List (Except Err Nat)
  | [] => (s, [])
  | (o, f) :: os =>
    let r := stepOp P (setPols s f) o
    let rest := runOpsAdv P r.sys os
    (rest.1, r.res :: rest.2)

end ArchSim.Spec.CacheAbs
