/-
Specification vocabulary for the LRU half of property C10: the run of the policy over an access
history, and the *age* of a way read off the history alone (no reference to the policy state).
-/
import ArchSim.Model.Repl

namespace ArchSim.Spec.Lru
open ArchSim.Repl

/-- Feed the accesses `h` (oldest first) to the LRU list `s`; `none` if any access raises. -/
def lruRunFrom (s : List Nat) (h : List Nat) : Option (List Nat) :=
  h.foldlM lruAccess s

/-- The LRU state after the access history `h`, starting from a fresh `LRU(assoc)`. -/
def lruRun (assoc : Nat) (h : List Nat) : Option (List Nat) :=
  lruRunFrom (lruInit assoc) h

/-- Position (0-based, in `h`) of the *last* occurrence of `i` in `h`; `none` if `i` never occurs. -/
def lastOcc : List Nat → Nat → Option Nat
  | [], _ => none
  | x :: h, i =>
    match lastOcc h i with
    | some t => some (t + 1)
    | none => if x = i then some 0 else none

/-- The age key of way `i` after history `h`: ways never accessed come first, in index order
    (key `i < assoc`); accessed ways follow, ordered by the time of their last access
    (key `assoc + t`). Smaller key = older = evicted earlier. -/
def age (assoc : Nat) (h : List Nat) (i : Nat) : Nat :=
  match lastOcc h i with
  | none => i
  | some t => assoc + t

end ArchSim.Spec.Lru
