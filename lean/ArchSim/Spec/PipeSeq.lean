/-
Sequential reference machine for the five-stage pipeline (C02, control half): one instruction at a
time through the five split stage functions (`Pipe.splitStep`); a faulting instruction is not
executed (the machine stays in front of it).
-/
import ArchSim.Model.Pipe

namespace ArchSim.Pipe
open ArchSim ArchSim.Rv

/-- One sequential step: `splitStep`, except that a faulting instruction leaves the state alone. -/
def seqStep (s : St) : St :=
  match (splitStep s).fault with
  | none => (splitStep s).st
  | some _ => s

/-- The fault (address, kind) the sequential machine raises in state `s`, if any. -/
def seqFault (s : St) : Option (Int × Fault) := (splitStep s).fault

/-- The address of the instruction the sequential machine executes in state `s` (none if there is
    no instruction at pc or it faults). -/
def seqLog (s : St) : List Int :=
  match s.imem.instrAt s.pc with
  | none => []
  | some _ => match seqFault s with
    | none => [s.pc]
    | some _ => []

/-- `n` sequential steps. -/
def seqRun : Nat → St → St
  | 0, s => s
  | n + 1, s => seqStep (seqRun n s)

/-- Addresses of the instructions executed by the first `n` sequential steps, in order. -/
def seqTrace : Nat → St → List Int
  | 0, _ => []
  | n + 1, s => seqTrace n s ++ seqLog (seqRun n s)

/-- `n` cycles of the five-stage pipeline (the states after a faulting cycle are not meaningful;
    the theorems guard every use with `runOK`). -/
def pipeRun : Nat → PSt → PSt
  | 0, p => p
  | n + 1, p => (step (pipeRun n p)).p

/-- The address in the latch behind WB, if it is not a bubble. -/
def l4Log (l : Option Latch) : List Int :=
  match l with
  | some x => [x.addr]
  | none => []

/-- Addresses leaving WB (`l4` non-empty after a cycle) during the first `n` cycles, in order. -/
def retireLog : Nat → PSt → List Int
  | 0, _ => []
  | n + 1, p => retireLog n p ++ l4Log (pipeRun (n + 1) p).l4

/-- None of the first `n` cycles from `p` faults. -/
def runOK (n : Nat) (p : PSt) : Prop := ∀ m, m < n → (step (pipeRun m p)).fault = none

end ArchSim.Pipe
