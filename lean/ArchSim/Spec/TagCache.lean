/-
Tag-only reference cache (specification for C09 and C11).

A reference set-associative cache that keeps, per set, only *which tag sits in which way* and the
replacement-policy state: no data, no dirty bits, no backing store.  Its hit/miss decisions and
counters are what a textbook cache with the configured geometry, write policy
(write-back + write-allocate, or write-through + no-write-allocate) and replacement policy reports.

The policy is the same abstract `PolicyOps σ` the model uses; the reference treats it as a total
function (`touch`, `victimOf`), which it is on every well-formed policy state.

`erase` forgets payloads, dirty bits, block base addresses and the lower memory of the model state.
-/
import ArchSim.Model.Cache
import ArchSim.Model.Rv

namespace ArchSim.Spec.TagCache
open ArchSim ArchSim.Cache

/-! ### Reference state -/

/-- One set of the reference cache: the tag held by each way (`none` = empty) and the policy state. -/
structure TSet (σ : Type) where
  tags : List (Option Nat)
  pol  : σ

structure TagCache (σ : Type) where
  wt       : Bool
  geo      : Geo
  penalty  : Nat
  sets     : List (TSet σ)
  hits     : Nat
  accesses : Nat
  lastHit  : Bool

/-- Policy `access` as a total function (identity where the model's method would raise). -/
def touch {σ : Type} (P : PolicyOps σ) (p : σ) (i : Nat) : σ := (P.access p i).getD p

/-- Policy `victim` as a total function. -/
def victimOf {σ : Type} (P : PolicyOps σ) (p : σ) : Nat := (P.victim p).getD 0

/-- First way holding tag `t`. -/
def findTag (tags : List (Option Nat)) (t : Nat) : Option Nat :=
  let i := tags.findIdx (fun x => x == some t)
  if i < tags.length then some i else none

/-- Look a tag up in a set.  Hit: the policy is told about the way.  Miss with `allocate`: the
    policy's victim way receives the tag and the policy is told about it.  Miss without `allocate`:
    nothing changes.  Returns the new set and the hit flag. -/
def TSet.lookup {σ : Type} (P : PolicyOps σ) (s : TSet σ) (t : Nat) (allocate : Bool) : TSet σ × Bool :=
  match findTag s.tags t with
  | some i => ({ s with pol := touch P s.pol i }, true)
  | none =>
    if allocate then
      let v := victimOf P s.pol
      ({ tags := s.tags.set v (some t), pol := touch P s.pol v }, false)
    else (s, false)

/-- Look an address up in the array of sets. -/
def lookupSets {σ : Type} (P : PolicyOps σ) (sets : List (TSet σ)) (d : DAddr) (allocate : Bool) :
    List (TSet σ) × Bool :=
  match sets[d.setIdx]? with
  | none => (sets, false)
  | some s => (sets.set d.setIdx (s.lookup P d.tag allocate).1, (s.lookup P d.tag allocate).2)

def TagCache.init {σ : Type} (P : PolicyOps σ) (wt : Bool) (g : Geo) (penalty : Nat) : TagCache σ :=
  { wt := wt, geo := g, penalty := penalty,
    sets := List.replicate (2 ^ g.idxBits) { tags := List.replicate g.assoc none, pol := P.init g.assoc },
    hits := 0, accesses := 0, lastHit := false }

/-- Record one counted access. -/
def TagCache.count {σ : Type} (c : TagCache σ) (hit : Bool) : TagCache σ :=
  { c with accesses := c.accesses + 1, hits := c.hits + (if hit then 1 else 0), lastHit := hit }

/-- Result of a reference operation: the state, whether the operation was a *counted miss*, and the
    cycles it adds to the cycle counter. -/
structure ROut (σ : Type) where
  cache : TagCache σ
  miss  : Bool
  extra : Nat

/-- Reference read (a read miss always allocates, under both write policies).  The counters and the
    penalty are applied iff the read is `counted`. -/
def refRead {σ : Type} (P : PolicyOps σ) (c : TagCache σ) (address : Int) (counted : Bool) : ROut σ :=
  let d := decode c.geo.idxBits c.geo.blkBits address
  let r := lookupSets P c.sets d true
  let c1 := { c with sets := r.1 }
  { cache := if counted then c1.count r.2 else c1,
    miss := counted && !r.2,
    extra := if counted && !r.2 then c.penalty else 0 }

/-- Reference write: write-back allocates on a miss, write-through does not.  Always counted. -/
def refWrite {σ : Type} (P : PolicyOps σ) (c : TagCache σ) (address : Int) : ROut σ :=
  let d := decode c.geo.idxBits c.geo.blkBits address
  let r := lookupSets P c.sets d (!c.wt)
  let c1 := { c with sets := r.1 }
  { cache := c1.count r.2, miss := !r.2, extra := if r.2 then 0 else c.penalty }

/-- A write that bypasses the cache (parser preload) is invisible to the reference. -/
def refWriteDirect {σ : Type} (c : TagCache σ) : ROut σ := { cache := c, miss := false, extra := 0 }

/-! ### Erasure of the model state -/

def eraseWay {α : Type} (w : Way α) : Option Nat := if w.valid then some w.tag else none

def eraseSet {σ α : Type} (s : CSet σ α) : TSet σ := { tags := s.ways.map eraseWay, pol := s.pol }

/-- Forget values, dirty bits, block base addresses and the lower memory of a data-cache system. -/
def erase {σ : Type} (s : DSys σ) : TagCache σ :=
  { wt := s.wt, geo := s.geo, penalty := s.penalty, sets := s.sets.map eraseSet,
    hits := s.hits, accesses := s.accesses, lastHit := s.lastHit }

/-- Forget the cached instructions of an instruction cache (the write policy is irrelevant: the
    instruction cache is only read). -/
def eraseI (c : Rv.ICache) : TagCache Repl.Pol :=
  { wt := false, geo := c.geo, penalty := c.penalty, sets := c.sets.map eraseSet,
    hits := c.hits, accesses := c.accesses, lastHit := c.lastHit }

/-! ### Histories of data-cache operations -/

/-- An access the memory system accepts: one of the three widths, not crossing a word boundary, and
    (after the 32-bit wrap) inside the data range `[16384, 2^32)`. -/
def Accepted (bits : Nat) (address : Int) : Prop :=
  (bits = 8 ∨ bits = 16 ∨ bits = 32) ∧ wrap32 address % 4 + bits / 8 ≤ 4 ∧ 16384 ≤ wrap32 address

instance (bits : Nat) (address : Int) : Decidable (Accepted bits address) := by
  unfold Accepted; infer_instance

/-- One operation of a memory system as the simulator issues them. -/
inductive Op where
  | read  (bits : Nat) (address : Int) (counted : Bool)
  | write (bits : Nat) (address : Int) (v : Nat) (direct : Bool)
deriving Repr, DecidableEq

def Op.bits : Op → Nat
  | .read b _ _ => b
  | .write b _ _ _ => b

def Op.address : Op → Int
  | .read _ a _ => a
  | .write _ a _ _ => a

/-- Does the operation take part in the statistics (counted read or non-direct write)? -/
def Op.counted : Op → Bool
  | .read _ _ c => c
  | .write _ _ _ direct => !direct

/-- The operation is one the accounting claim covers: every access that goes through the cache is
    accepted; direct writes (which never reach the cache) are unconstrained. -/
def Op.ok : Op → Prop
  | .read b a _ => Accepted b a
  | .write b a _ direct => direct = true ∨ Accepted b a

instance (op : Op) : Decidable op.ok := by
  cases op <;> unfold Op.ok <;> infer_instance

/-- The model's step. -/
def applyOp {σ : Type} (P : PolicyOps σ) (s : DSys σ) : Op → Out σ
  | .read bits a c => s.read P bits a c
  | .write bits a v direct => s.write P bits a v direct

/-- The reference's step. -/
def refOp {σ : Type} (P : PolicyOps σ) (c : TagCache σ) : Op → ROut σ
  | .read _ a counted => refRead P c a counted
  | .write _ a _ direct => if direct then refWriteDirect c else refWrite P c a

/-- Run a history on the model: final state and total added cycles. -/
def run {σ : Type} (P : PolicyOps σ) (s : DSys σ) : List Op → DSys σ × Nat
  | [] => (s, 0)
  | op :: ops =>
    let o := applyOp P s op
    let r := run P o.sys ops
    (r.1, o.extra + r.2)

/-- Run a history on the reference: final state, total added cycles, number of counted misses. -/
def refRun {σ : Type} (P : PolicyOps σ) (c : TagCache σ) : List Op → TagCache σ × Nat × Nat
  | [] => (c, 0, 0)
  | op :: ops =>
    let o := refOp P c op
    let r := refRun P o.cache ops
    (r.1, o.extra + r.2.1, (if o.miss then 1 else 0) + r.2.2)

/-! ### Histories of instruction fetches -/

/-- Run a sequence of fetches on an instruction memory: final state and total added cycles. -/
def fetchRun (im : Rv.IMem) : List Int → Rv.IMem × Nat
  | [] => (im, 0)
  | pc :: pcs =>
    let o := im.fetch pc
    let r := fetchRun o.imem pcs
    (r.1, o.extra + r.2)

/-- The same address sequence as a history for the reference cache: counted reads. -/
def fetchOps (pcs : List Int) : List Op := pcs.map (fun pc => Op.read 32 pc true)

end ArchSim.Spec.TagCache
