/-
`ToyRef` — the documented TOY machine, written independently of the simulator's structure:

* 4096 sixteen-bit words of unified memory      (`mem : BitVec 12 → BitVec 16`)
* a 16-bit wrapping accumulator                 (`accu : BitVec 16`)
* a 12-bit wrapping program counter             (`pc : BitVec 12`)
* one instruction per step, *fetched from memory when it is executed*: opcode in the top four
  bits of the word, address in the low twelve; opcodes 12..15 do nothing
* BRZ is taken exactly when the accumulator is zero
* the machine halts as soon as the program counter passes `maxPc` (the address of the last
  assembled instruction); every executed instruction costs two cycles and counts once.

All wrapping is by the `BitVec` types; there is no pre-loaded instruction register and no
pre-incremented program counter here.
-/
namespace ArchSim.ToyRef

@[ext] structure RefSt where
  accu     : BitVec 16
  pc       : BitVec 12
  mem      : BitVec 12 → BitVec 16
  maxPc    : Int
  halted   : Bool
  instrs   : Nat
  cycles   : Nat
  branches : Nat

/-- Top four bits of an instruction word. -/
def opcodeOf (w : BitVec 16) : Nat := w.toNat / 4096

/-- Low twelve bits of an instruction word. -/
def addrOf (w : BitVec 16) : BitVec 12 := w.setWidth 12

/-- The accumulator after an instruction with opcode `op` and memory operand `m = mem[addr]`:
    1 LDA, 3 ADD, 4 SUB, 5 OR, 6 AND, 7 XOR, 8 NOT, 9 INC, 10 DEC, 11 ZRO;
    0 STO, 2 BRZ, 12 NOP and 13..15 leave it unchanged. -/
def alu (op : Nat) (a m : BitVec 16) : BitVec 16 :=
  match op with
  | 1 => m
  | 3 => a + m
  | 4 => a - m
  | 5 => a ||| m
  | 6 => a &&& m
  | 7 => a ^^^ m
  | 8 => ~~~a
  | 9 => a + 1
  | 10 => a - 1
  | 11 => 0
  | _ => a

/-- One instruction of the reference machine. -/
def refStep (r : RefSt) : RefSt :=
  if r.halted then r
  else
    let w := r.mem r.pc                       -- fetch at execution time
    let op := opcodeOf w
    let a := addrOf w
    let taken : Bool := op == 2 && r.accu == 0
    let pc' : BitVec 12 := if taken then a else r.pc + 1
    { accu := alu op r.accu (r.mem a)
      pc := pc'
      mem := if op = 0 then (fun x => if x = a then r.accu else r.mem x) else r.mem
      maxPc := r.maxPc
      halted := decide (r.maxPc < (pc'.toNat : Int))
      instrs := r.instrs + 1
      cycles := r.cycles + 2
      branches := r.branches + (if taken then 1 else 0) }

/-- Memory image after the loader: data words first (later declarations win), then instruction
    `k` at address `k` (`enc k` is its 16-bit word), addresses ≥ 4096 being ignored. -/
def dataMem (data : List (Nat × Nat)) : BitVec 12 → BitVec 16 :=
  data.foldl (fun m (av : Nat × Nat) =>
    if av.1 < 4096 then (fun x => if x = BitVec.ofNat 12 av.1 then BitVec.ofNat 16 av.2 else m x) else m)
    (fun _ => 0)

/-- Initial state of the reference machine for a program of `n` instruction words `enc 0 … enc (n-1)`
    and the given data words: accumulator 0, pc 0, halted iff there is no instruction. -/
def refInit (n : Nat) (enc : Nat → Nat) (data : List (Nat × Nat)) : RefSt :=
  { accu := 0, pc := 0,
    mem := fun x => if x.toNat < n then BitVec.ofNat 16 (enc x.toNat) else dataMem data x,
    maxPc := (n : Int) - 1, halted := decide (n = 0), instrs := 0, cycles := 0, branches := 0 }

end ArchSim.ToyRef
