/-
`iter f n a` = `f` applied `n` times to `a` (innermost first), with the two unfolding lemmas.
(Core Lean has no `Nat.iterate`; Mathlib's is avoided to keep the TOY files import-light.)
-/
namespace ArchSim

/-- `iter f n a = f (f (… (f a)))`, `n` applications. -/
def iter {α : Type} (f : α → α) : Nat → α → α
  | 0, a => a
  | n + 1, a => iter f n (f a)

@[simp] theorem iter_zero {α : Type} (f : α → α) (a : α) : iter f 0 a = a := rfl

theorem iter_succ {α : Type} (f : α → α) (n : Nat) (a : α) : iter f (n + 1) a = iter f n (f a) := rfl

theorem iter_add {α : Type} (f : α → α) (m n : Nat) (a : α) :
    iter f (m + n) a = iter f n (iter f m a) := by
  induction m generalizing a with
  | zero => simp [iter]
  | succ m ih => rw [Nat.add_right_comm]; simp [iter, ih]

theorem iter_succ' {α : Type} (f : α → α) (n : Nat) (a : α) : iter f (n + 1) a = f (iter f n a) := by
  rw [iter_add]; rfl

theorem iter_fixed {α : Type} (f : α → α) (a : α) (h : f a = a) (n : Nat) : iter f n a = a := by
  induction n with
  | zero => rfl
  | succ n ih => rw [iter_succ, h, ih]

end ArchSim
