/-
Specification vocabulary for the PLRU half of property C10: the perfect binary tree that the
heap-ordered bit list `PLRU.tree_array` encodes, and the top-down recursive readings of
"follow the bits from the root" (`victimT`) and "make every bit on the path point away from the
accessed leaf" (`accessT`).
-/
import ArchSim.Model.Repl

namespace ArchSim.Spec.Plru
open ArchSim.Repl

/-- A perfect binary tree of depth `d` with one direction bit at every inner node.
    Leaves carry nothing: leaf number `i` (`0 ≤ i < 2^d`, left to right) is way `i` of the set. -/
inductive PTree : Nat → Type
  | leaf : PTree 0
  | node {d : Nat} (b : Bool) (l r : PTree d) : PTree (d + 1)
deriving DecidableEq, Repr

/-- The subtree of depth `d` whose root is heap node `k` of the bit list `t`
    (children of heap node `k` are `2k+1` (left) and `2k+2` (right)). -/
def absAt (t : List Bool) : (d : Nat) → (k : Nat) → PTree d
  | 0, _ => .leaf
  | d + 1, k => .node (t.getD k false) (absAt t d (2 * k + 1)) (absAt t d (2 * k + 2))

/-- Abstraction function: the tree of depth `d` encoded by the PLRU state `p` (used with `d = p.depth`). -/
def absTree (d : Nat) (p : Plru) : PTree d := absAt p.tree d 0

/-- Follow the bits from the root (`true` → right child, `false` → left child); the number of the
    leaf that is reached. -/
def victimT : {d : Nat} → PTree d → Nat
  | _, .leaf => 0
  | d + 1, .node b l r => if b then 2 ^ d + victimT r else victimT l

/-- Access leaf `i`: on the root-to-leaf path of `i` every bit is set to point AWAY from `i`
    (`true` = "victim walk goes right" exactly when `i` lies in the left subtree); nothing else changes. -/
def accessT : {d : Nat} → PTree d → Nat → PTree d
  | _, .leaf, _ => .leaf
  | d + 1, .node _ l r, i =>
    if i < 2 ^ d then .node true (accessT l i) r else .node false l (accessT r (i - 2 ^ d))

/-- Every bit on the root-to-leaf path of leaf `i` points away from `i`. -/
def pointsAway : {d : Nat} → PTree d → Nat → Prop
  | _, .leaf, _ => True
  | d + 1, .node b l r, i =>
    if i < 2 ^ d then b = true ∧ pointsAway l i else b = false ∧ pointsAway r (i - 2 ^ d)

/-- Heap indices of the inner nodes on the path from heap node `k` (root of a subtree of depth `d`)
    down to that subtree's leaf number `i`. -/
def pathFrom : (d k i : Nat) → List Nat
  | 0, _, _ => []
  | d + 1, k, i =>
    k :: (if i < 2 ^ d then pathFrom d (2 * k + 1) i else pathFrom d (2 * k + 2) (i - 2 ^ d))

/-- Heap indices of the inner nodes on the root-to-leaf path of way `i` in a tree of depth `d`. -/
def path (d i : Nat) : List Nat := pathFrom d 0 i

/-- Well-formed PLRU state of depth `d`: what the constructor establishes for associativity `2^d`. -/
def PlruWF (d : Nat) (p : Plru) : Prop :=
  p.depth = d ∧ p.assoc = 2 ^ d ∧ p.tree.length = 2 ^ d - 1

instance (d : Nat) (p : Plru) : Decidable (PlruWF d p) := by unfold PlruWF; infer_instance

/-- Feed the accesses `h` (oldest first) to the PLRU state `p`; `none` if any access raises. -/
def plruRunFrom (p : Plru) (h : List Nat) : Option Plru := h.foldlM plruAccess p

/-- The PLRU state after the access history `h`, starting from a fresh `PLRU(2^d)`. -/
def plruRun (d : Nat) (h : List Nat) : Option Plru := plruRunFrom (plruInit (2 ^ d)) h

end ArchSim.Spec.Plru
