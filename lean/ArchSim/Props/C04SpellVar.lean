/-
C04 (front end) — spelling independence, part 2: lines that name a VARIABLE (`la`, load by name, store by name),
in-line labels in front of pseudo-instruction lines, and the error case of "comments, blank lines and
indentation never change the result".

Notation (Lemmas/C04SpellTok, C04SpellLab, C04SpellVar, C04SpellVar5): `tReg w st n rest` = blanks `w`, register `n`
in spelling `st`, `rest`; `tNum w st v rest` the same for a number; `tSep w c rest` = blanks and the separator `c`;
`tLab w lab rest` a label; `tVar w name ix rest` a variable name with its optional index `ix : IdxSp` (nothing, or
`[` decimal digits `]` — no blanks, sign or radix prefix); `LinePre` = what stands in front of the mnemonic: blanks
only (`.plain`), or an in-line label declaration `lab:` with blanks around the label and the colon (`.labelled`);
`p.txt x` is the line, `p.lbl` the label of the resulting token.

Result on "a variable whose name starts with / is a register name" (`a0x`, `sp_buf`, `t1`, `sp`): there is NO side
condition. `l<x> rd, name`, `s<x> rs, name, rt` and `la rd, name` always mean the variable `name`; the competing
alternative `mnemonic reg, reg, imm` reads a register out of (a prefix of) the name and then always fails — no comma
follows inside the name, after `name[i]`, or at the end of the line, and in `s<x> rs, sp, rt` the third operand is a
register, not a number. So `lw x1, sp` is a load from the variable `sp` (undeclared: `ParserVariableException` later);
the real assembler agrees (checked with /venv/bin/python). An index must be `[decimal digits]`: `t1[0x1]`, `t1[ 2]`,
`t1 [2]` are rejected (the variable pattern stops in front of `[`, leaving text), by the model and by Python alike.
-/
import ArchSim.Lemmas.C04SpellVar5
import ArchSim.Lemmas.C04SpellErr5
import ArchSim.Lemmas.C04SpellFit4
import ArchSim.Lemmas.C04SpellVarEx
namespace ArchSim.Props.C04SpellVar
open ArchSim ArchSim.PP ArchSim.Rv ArchSim.Asm ArchSim.Lemmas.C14 ArchSim.Lemmas.C04Spell

/-! ### the variable operand -/

/-- A variable operand `name` or `name[digits]` (decimal digits, leading zeros allowed, at most 4300), after any
    blanks, is read as the name and the value of the index, when the next character is no letter, digit,
    underscore or `[`. -/
theorem variable_operand (w name : List Char) (ix : IdxSp) (rest : List Char) (hw : ∀ c ∈ w, isWs c = true)
    (hl : IsLabel name) (hi : IdxOk ix) (hr : ∀ c ∈ rest.head?, isLabelBody c = false)
    (hb : rest.head? ≠ some '[') :
    pVariable (tVar w name ix rest) = .ok (String.ofList name, idxVal ix) rest :=
  pVariable_tVar w name ix rest hw hl hi hr hb

/-- FINDING: an index must be `[decimal digits]` written without blanks. If after `[` and some (maybe no) digits
    comes anything but a digit or `]` — the `x` of `0x1`, a blank, a sign — the variable pattern does not read an
    index at all and stops in front of the `[` (so the line is rejected: text is left over). -/
theorem index_must_be_decimal (w name ds : List Char) (c : Char) (r : List Char) (hw : ∀ d ∈ w, isWs d = true)
    (hl : IsLabel name) (hds : ∀ d ∈ ds, isNum d = true) (hc : isNum c = false) (hc2 : c ≠ ']') :
    pVariable (w ++ (name ++ '[' :: (ds ++ c :: r))) = .ok (String.ofList name, none) ('[' :: (ds ++ c :: r)) :=
  pVariable_bad_index w name ds c r hw hl hds hc hc2

/-- What the register pattern makes of a variable name (a label followed by something that is no label character
    and, after blanks, no digit): it fails, or it reads a register name that is a non-empty PREFIX of the name —
    an ABI name, or `x` and a register number — and leaves the rest of the name. It never reads beyond the name. -/
theorem register_inside_name (name rest0 : List Char) (hl : IsLabel name)
    (ht : ∀ c ∈ rest0.head?, isLabelBody c = false) (hd : ∀ c ∈ (skipWs rest0).head?, isNum c = false) :
    pReg (name ++ rest0) = .fail ∨
      ∃ n k, 0 < k ∧ k ≤ name.length ∧ pReg (name ++ rest0) = .ok n (name.drop k ++ rest0) :=
  pReg_label_left name rest0 hl ht hd

/-- Hence an alternative of the grammar that expects `register , …` at a variable name fails whenever its
    continuation `k` fails without a comma and fails right after the name: this is how `reg, reg, imm` loses
    against the by-name forms for EVERY name. -/
theorem register_comma_at_name_fails {α : Type} (w name rest0 : List Char) (hw : ∀ c ∈ w, isWs c = true)
    (hl : IsLabel name) (ht : ∀ c ∈ rest0.head?, isLabelBody c = false)
    (hd : ∀ c ∈ (skipWs rest0).head?, isNum c = false) (k : Nat → List Char → R α)
    (hk : ∀ n r, pComma r = .fail → k n r = .fail) (hk0 : ∀ n, k n rest0 = .fail) :
    (pReg (w ++ (name ++ rest0))).bind k = .fail :=
  reg_on_label_fail w name rest0 hw hl ht hd k hk hk0

/-! ### whole lines that name a variable (with or without an in-line label) -/

/-- Load by name. For each of the five loads, every spelling of `l<x> rd, name` / `l<x> rd, name[i]` — any line
    prefix `p` (blanks, or `lab:` with blanks), mnemonic letters in either case, at least one blank after the
    mnemonic, any blanks around the comma and at the end, `rd` in any register style, ANY label as name (also one
    that is or starts with a register name), index in decimal with any leading zeros — is tokenized as the same
    entry `.memPseudo mnemonic rd name index`. -/
theorem load_by_name_line (p : LinePre) (hp : p.Ok) (sel : Nat → Bool) (g w1 w2 tr : List Char)
    (hg : ∀ c ∈ g, isWs c = true) (hgne : g ≠ []) (h1 : ∀ c ∈ w1, isWs c = true) (h2 : ∀ c ∈ w2, isWs c = true)
    (htr : ∀ c ∈ tr, isWs c = true) (op : Op) (h : op.ty = .memI) (a : Nat) (ha : a < 32) (s1 : RegStyle)
    (name : List Char) (hl : IsLabel name) (ix : IdxSp) (hi : IdxOk ix) :
    parseLine (p.txt (recase sel op.mnemonic.toList ++ tReg g s1 a (tSep w1 ',' (tVar w2 name ix tr))))
      = some { lbl := p.lbl, item := .grp (.memPseudo op.mnemonic a (String.ofList name) (idxVal ix)) } :=
  line_loadVar p hp sel g w1 w2 tr hg hgne h1 h2 htr op ((cls_ty op).2.2.2.1.mpr h) a ha s1 name hl ix hi

/-- Store by name. For each of the three stores, every spelling of `s<x> rs, name, rt` / `s<x> rs, name[i], rt`
    (as above; both registers in any style) is tokenized as `.sPseudo mnemonic rs name index rt`. -/
theorem store_by_name_line (p : LinePre) (hp : p.Ok) (sel : Nat → Bool) (g w1 w2 w3 w4 tr : List Char)
    (hg : ∀ c ∈ g, isWs c = true) (hgne : g ≠ []) (h1 : ∀ c ∈ w1, isWs c = true) (h2 : ∀ c ∈ w2, isWs c = true)
    (h3 : ∀ c ∈ w3, isWs c = true) (h4 : ∀ c ∈ w4, isWs c = true) (htr : ∀ c ∈ tr, isWs c = true) (op : Op)
    (h : op.ty = .s) (a b : Nat) (ha : a < 32) (hb : b < 32) (s1 s2 : RegStyle) (name : List Char)
    (hl : IsLabel name) (ix : IdxSp) (hi : IdxOk ix) :
    parseLine (p.txt (recase sel op.mnemonic.toList ++
        tReg g s1 a (tSep w1 ',' (tVar w2 name ix (tSep w3 ',' (tReg w4 s2 b tr))))))
      = some { lbl := p.lbl, item := .grp (.sPseudo op.mnemonic a (String.ofList name) (idxVal ix) b) } :=
  line_storeVar p hp sel g w1 w2 w3 w4 tr hg hgne h1 h2 h3 h4 htr op ((cls_ty op).2.2.2.2.1.mpr h) a b ha hb s1 s2
    name hl ix hi

/-- `la rd, name` / `la rd, name[i]` in every spelling is tokenized as `.memPseudo "la" rd name index`. -/
theorem la_line (p : LinePre) (hp : p.Ok) (sel : Nat → Bool) (g w1 w2 tr : List Char)
    (hg : ∀ c ∈ g, isWs c = true) (hgne : g ≠ []) (h1 : ∀ c ∈ w1, isWs c = true) (h2 : ∀ c ∈ w2, isWs c = true)
    (htr : ∀ c ∈ tr, isWs c = true) (a : Nat) (ha : a < 32) (s1 : RegStyle) (name : List Char) (hl : IsLabel name)
    (ix : IdxSp) (hi : IdxOk ix) :
    parseLine (p.txt (recase sel "la".toList ++ tReg g s1 a (tSep w1 ',' (tVar w2 name ix tr))))
      = some { lbl := p.lbl, item := .grp (.memPseudo "la" a (String.ofList name) (idxVal ix)) } :=
  line_la p hp sel g w1 w2 tr hg hgne h1 h2 htr a ha s1 name hl ix hi

/-! ### in-line labels in front of the other pseudo-instruction and label-target lines -/

/-- `li rd, imm`, `mv rd, rs` and `nop` in every spelling, with or without an in-line label `lab:` in front, are
    tokenized as `.li rd imm`, `.mv rd rs` and the word `nop`, carrying the label. -/
theorem pseudo_line_with_label (p : LinePre) (hp : p.Ok) (sel : Nat → Bool) (g w1 w2 tr : List Char)
    (hg : ∀ c ∈ g, isWs c = true) (hgne : g ≠ []) (h1 : ∀ c ∈ w1, isWs c = true) (h2 : ∀ c ∈ w2, isWs c = true)
    (htr : ∀ c ∈ tr, isWs c = true) (a b : Nat) (v : Int) (ha : a < 32) (hb : b < 32) (hv : v.natAbs < 10 ^ 4300)
    (s1 s2 : RegStyle) (sn : NumStyle) :
    parseLine (p.txt (recase sel "li".toList ++ tReg g s1 a (tSep w1 ',' (tNum w2 sn v tr))))
      = some { lbl := p.lbl, item := .grp (.li a v) } ∧
    parseLine (p.txt (recase sel "mv".toList ++ tReg g s1 a (tSep w1 ',' (tReg w2 s2 b tr))))
      = some { lbl := p.lbl, item := .grp (.mv a b) } ∧
    parseLine (p.txt (recase sel "nop".toList ++ tr)) = some { lbl := p.lbl, item := .str "nop" } :=
  ⟨line_li p hp sel g w1 w2 tr hg hgne h1 h2 htr a v ha hv s1 sn,
   line_mv p hp sel g w1 w2 tr hg hgne h1 h2 htr a b ha hb s1 s2, line_nop p hp sel tr htr⟩

/-- Branch / `jal` lines with a label target (with or without `+0x` offset) in every spelling, with or without an
    in-line label in front. -/
theorem label_target_line_with_label (p : LinePre) (hp : p.Ok) (sel : Nat → Bool) (g w1 w2 w3 w4 tr : List Char)
    (hg : ∀ c ∈ g, isWs c = true) (hgne : g ≠ []) (h1 : ∀ c ∈ w1, isWs c = true) (h2 : ∀ c ∈ w2, isWs c = true)
    (h3 : ∀ c ∈ w3, isWs c = true) (h4 : ∀ c ∈ w4, isWs c = true) (htr : ∀ c ∈ tr, isWs c = true) (op : Op)
    (h : op.ty = .b) (a b : Nat) (ha : a < 32) (hb : b < 32) (s1 s2 : RegStyle) (lab : List Char) (hl : IsLabel lab)
    (o : OffSp) (ho : OffOk o) :
    parseLine (p.txt (recase sel op.mnemonic.toList ++
        tReg g s1 a (tSep w1 ',' (tReg w2 s2 b (tSep w3 ',' (tLab w4 lab (offTxt o ++ tr)))))))
      = some { lbl := p.lbl, item := .grp (.btypeLabel op.mnemonic a b (String.ofList lab) (offVal o)) } ∧
    parseLine (p.txt (recase sel "jal".toList ++ tReg g s1 a (tSep w1 ',' (tLab w2 lab (offTxt o ++ tr)))))
      = some { lbl := p.lbl, item := .grp (.jalLabel a (String.ofList lab) (offVal o)) } :=
  ⟨line_branch_label p hp sel g w1 w2 w3 w4 tr hg hgne h1 h2 h3 h4 htr op ((cls_ty op).2.2.2.2.2.1.mpr h) a b ha hb
      s1 s2 lab hl o ho,
   line_jal_label p hp sel g w1 w2 tr hg hgne h1 h2 htr a ha s1 lab hl o ho⟩

/-! ### the size limit of numbers applies to the decimal style only -/

/-- Whole-line spelling independence without the uniform 4300-digit bound: every spelling `sp` of the instruction
    `i` (all classes, as in `C04Spell.line_spelling_independent`), with or without an in-line label in front, is
    tokenized as `itemOf i`, provided each number fits the style it is written in (`SpellableF`): a number written
    in hexadecimal or binary may have ANY size, one written in decimal at most 4300 digits. -/
theorem line_spelling_independent_any_size (p : LinePre) (hp : p.Ok) (sp : Spelling) (i : Instr)
    (hs : SpellableF sp i) :
    parseLine (p.txt (recase sp.mnCase i.op.mnemonic.toList ++ operands sp i (blanks sp.trail)))
      = some { lbl := p.lbl, item := itemOf i } :=
  parseLine_render_fits p hp sp i hs

/-- The same for `li rd, imm` (where large constants make sense: the expansion wraps them to 32 bits). -/
theorem li_line_any_size (p : LinePre) (hp : p.Ok) (sel : Nat → Bool) (g w1 w2 tr : List Char)
    (hg : ∀ c ∈ g, isWs c = true) (hgne : g ≠ []) (h1 : ∀ c ∈ w1, isWs c = true) (h2 : ∀ c ∈ w2, isWs c = true)
    (htr : ∀ c ∈ tr, isWs c = true) (a : Nat) (v : Int) (ha : a < 32) (s1 : RegStyle) (sn : NumStyle)
    (hv : NumFits sn v) :
    parseLine (p.txt (recase sel "li".toList ++ tReg g s1 a (tSep w1 ',' (tNum w2 sn v tr))))
      = some { lbl := p.lbl, item := .grp (.li a v) } :=
  line_li_fits p hp sel g w1 w2 tr hg hgne h1 h2 htr a v ha s1 sn hv

/-! ### (d), error case: comments, blank lines and indentation change nothing but reported line numbers -/

/-- If two source texts have the same entry texts in the same order, there is an injective renumbering `g` of line
    numbers that sends the line number of the j-th entry of `t1` to that of the j-th entry of `t2` (the
    order-preserving correspondence: `entryLines` are strictly increasing), such that loading `t2` gives the SAME
    state as loading `t1` and the same error with its line number renumbered by `g` — success or failure alike. -/
theorem same_entries_same_result_up_to_line_numbers (s : St) (t1 t2 : String) (h : entryTexts t1 = entryTexts t2) :
    ∃ g : Nat → Nat, (∀ a b, g a = g b → a = b) ∧ (entryLines t1).map g = entryLines t2 ∧
      (load s t2).st = (load s t1).st ∧ (load s t2).err = (load s t1).err.map (renErr g) := by
  obtain ⟨g, hg, hmap, hl⟩ := load_same_entries_ren s t1 t2 h
  exact ⟨g, hg, hmap, by rw [hl]; rfl, by rw [hl]; rfl⟩

/-- The error case spelled out. If loading `t1` fails with a parser error of kind `kind` reported for line `k`
    with line text `line`, then loading `t2` fails with the same kind and the same line TEXT, reported for the
    line `k'` that holds the corresponding entry: whenever `k` is the line of the j-th entry of `t1`, `k'` is the
    line of the j-th entry of `t2`. The states left behind are equal. -/
theorem same_entries_same_parser_error (s : St) (t1 t2 : String) (h : entryTexts t1 = entryTexts t2)
    (kind : String) (k : Nat) (line : String) (he : (load s t1).err = some (.parser kind k line)) :
    ∃ k', (load s t2).err = some (.parser kind k' line) ∧ (load s t2).st = (load s t1).st ∧
      ∀ j : Nat, (entryLines t1)[j]? = some k → (entryLines t2)[j]? = some k' := by
  obtain ⟨g, _, hmap, hst, herr⟩ := same_entries_same_result_up_to_line_numbers s t1 t2 h
  refine ⟨g k, by rw [herr, he]; rfl, hst, ?_⟩
  intro j hj
  rw [← hmap, List.getElem?_map, hj]; rfl

/-- A memory error (program or data too large) is reported identically. -/
theorem same_entries_same_memory_error (s : St) (t1 t2 : String) (h : entryTexts t1 = entryTexts t2) (a : Int)
    (he : (load s t1).err = some (.memAddr a)) :
    (load s t2).err = some (.memAddr a) ∧ (load s t2).st = (load s t1).st := by
  obtain ⟨g, _, _, hst, herr⟩ := same_entries_same_result_up_to_line_numbers s t1 t2 h
  exact ⟨by rw [herr, he]; rfl, hst⟩

/-! ### non-vacuity -/

/-- `lw x1, sp`: a variable literally named like a register. The line is the load-by-name form for the variable
    `sp` (the real assembler agrees: it loads from a variable `sp` if one is declared). -/
example : parseLine "lw x1, sp".toList = some { lbl := none, item := .grp (.memPseudo "lw" 1 "sp" none) } := by
  have hs : ∀ c ∈ [' '], isWs c = true := by decide
  have hn : ∀ c ∈ ([] : List Char), isWs c = true := by decide
  have h := load_by_name_line (.plain []) hn (fun _ => false) [' '] [] [' '] [] hs (by decide) hn hs hn .lw rfl 1
    (by decide) .x "sp".toList ⟨'s', ['p'], rfl, by decide, by decide⟩ .none trivial
  rw [show (LinePre.plain []).txt (recase (fun _ => false) Op.lw.mnemonic.toList ++
      tReg [' '] .x 1 (tSep [] ',' (tVar [' '] "sp".toList .none []))) = "lw x1, sp".toList by decide +kernel] at h
  exact h

/-- `Loop:  LW ra , t1[002]` (label, upper case, ABI register, blanks, register-like name, index with leading
    zeros) and `sw a0, a0x[1] , t0`. -/
example : parseLine "Loop:  LW ra , t1[002]".toList
      = some { lbl := some "Loop", item := .grp (.memPseudo "lw" 1 "t1" (some 2)) } ∧
    parseLine "sw a0, a0x[1] , t0".toList
      = some { lbl := none, item := .grp (.sPseudo "sw" 10 "a0x" (some 1) 5) } := by
  have hs : ∀ c ∈ [' '], isWs c = true := by decide
  have hn : ∀ c ∈ ([] : List Char), isWs c = true := by decide
  have hss : ∀ c ∈ [' ', ' '], isWs c = true := by decide
  have h1 := load_by_name_line (.labelled [] "Loop".toList [] [' ', ' '])
    ⟨hn, ⟨'L', "oop".toList, rfl, by decide, by decide⟩, hn, hss⟩ (fun _ => true) [' '] [' '] [' '] [] hs
    (by decide) hs hs hn .lw rfl 1 (by decide) .abi "t1".toList ⟨'t', ['1'], rfl, by decide, by decide⟩
    (.some "002".toList) ⟨by decide, by decide, by decide⟩
  have h2 := store_by_name_line (.plain []) hn (fun _ => false) [' '] [] [' '] [' '] [' '] [] hs (by decide) hn hs hs
    hs hn .sw rfl 10 5 (by decide) (by decide) .abi .abi "a0x".toList ⟨'a', "0x".toList, rfl, by decide, by decide⟩
    (.some ['1']) ⟨by decide, by decide, by decide⟩
  refine ⟨?_, ?_⟩
  · rw [show (LinePre.labelled [] "Loop".toList [] [' ', ' ']).txt (recase (fun _ => true) Op.lw.mnemonic.toList ++
        tReg [' '] .abi 1 (tSep [' '] ',' (tVar [' '] "t1".toList (.some "002".toList) [])))
        = "Loop:  LW ra , t1[002]".toList by decide +kernel] at h1
    rw [h1]
    have : idxVal (.some "002".toList) = some 2 := by decide
    rw [this]; rfl
  · rw [show (LinePre.plain []).txt (recase (fun _ => false) Op.sw.mnemonic.toList ++
        tReg [' '] .abi 10 (tSep [] ',' (tVar [' '] "a0x".toList (.some ['1']) (tSep [' '] ',' (tReg [' '] .abi 5 [])))))
        = "sw a0, a0x[1] , t0".toList by decide +kernel] at h2
    rw [h2]
    have : idxVal (.some ['1']) = some 1 := by decide
    rw [this]; rfl

/-- `t1[0x1]`: the hexadecimal index is not read (hypotheses of `index_must_be_decimal`), the text `[0x1]` is
    left over. -/
example : pVariable " t1[0x1]".toList = .ok ("t1", none) "[0x1]".toList :=
  index_must_be_decimal [' '] "t1".toList ['0'] 'x' "1]".toList (by decide)
    ⟨'t', ['1'], rfl, by decide, by decide⟩ (by decide) (by decide) (by decide)

/-- `here : la a0, x5` and `l1: nop`. -/
example : parseLine "here : la a0, x5".toList
      = some { lbl := some "here", item := .grp (.memPseudo "la" 10 "x5" none) } ∧
    parseLine "l1: NOP ".toList = some { lbl := some "l1", item := .str "nop" } := by
  have hs : ∀ c ∈ [' '], isWs c = true := by decide
  have hn : ∀ c ∈ ([] : List Char), isWs c = true := by decide
  have h1 := la_line (.labelled [] "here".toList [' '] [' ']) ⟨hn, ⟨'h', "ere".toList, rfl, by decide, by decide⟩, hs, hs⟩
    (fun _ => false) [' '] [] [' '] [] hs (by decide) hn hs hn 10 (by decide) .abi "x5".toList
    ⟨'x', ['5'], rfl, by decide, by decide⟩ .none trivial
  have h2 := (pseudo_line_with_label (.labelled [] "l1".toList [] [' ']) ⟨hn, ⟨'l', ['1'], rfl, by decide, by decide⟩, hn, hs⟩
    (fun _ => true) [' '] [] [] [' '] hs (by decide) hn hn hs 0 0 0 (by decide) (by decide)
    (small_natAbs _ (by decide) (by decide)) .x .x .dec).2.2
  refine ⟨?_, ?_⟩
  · rw [show (LinePre.labelled [] "here".toList [' '] [' ']).txt (recase (fun _ => false) "la".toList ++
        tReg [' '] .abi 10 (tSep [] ',' (tVar [' '] "x5".toList .none []))) = "here : la a0, x5".toList
        by decide +kernel] at h1
    exact h1
  · rw [show (LinePre.labelled [] "l1".toList [] [' ']).txt (recase (fun _ => true) "nop".toList ++ [' '])
        = "l1: NOP ".toList by decide +kernel] at h2
    exact h2

/-- Any value fits the hexadecimal and binary styles (hypothesis `NumFits` of the `…_any_size` theorems). -/
example : NumFits (.hex 3 (fun _ => true)) (10 ^ 5000) ∧ NumFits (.bin 0) (-(10 ^ 5000)) := ⟨trivial, trivial⟩

/-- The error case on concrete texts: `"lw x1, nosuch"` fails with `ParserVariableException` for line 1; the text
    `"# c\n\n  lw x1, nosuch  # x"` has the same entry texts, so it fails with the same kind and the same line
    text, reported for line 3 (the line of the corresponding entry), leaving the same state. -/
example (s : St) : (load s tErr2).err = some (.parser "ParserVariableException" 3 "lw x1, nosuch") ∧
    (load s tErr2).st = (load s tErr1).st := by
  obtain ⟨k', h1, h2, h3⟩ := same_entries_same_parser_error s tErr1 tErr2 (by decide +kernel) _ _ _ (tErr1_fails s)
  have h0 := h3 0 (by decide +kernel)
  rw [show (entryLines tErr2)[0]? = some 3 by decide +kernel] at h0
  have : k' = 3 := (Option.some.inj h0).symm
  subst this
  exact ⟨h1, h2⟩

/-- Hypothesis of `line_spelling_independent_any_size` for `addi x1, x1, 0x…` with a constant of more than 4300
    decimal digits written in hexadecimal, behind the in-line label `big:`. -/
example : SpellableF { imm := .hex 0 (fun _ => false) } { op := .addi, rd := 1, rs1 := 1, imm := 10 ^ 5000 } ∧
    (LinePre.labelled [] "big".toList [] [' ']).Ok :=
  ⟨⟨by decide, by decide, by decide, trivial, trivial, trivial, by decide⟩,
   by unfold AllWs; decide, ⟨'b', "ig".toList, rfl, by decide, by decide⟩, by unfold AllWs; decide,
   by unfold AllWs; decide⟩

end ArchSim.Props.C04SpellVar
