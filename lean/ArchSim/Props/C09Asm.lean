/-
C09 (program-level clause), end to end: for EVERY source text the assembler accepts (without CSR instructions,
`fence`, `ebreak`) and every admissible data-cache configuration, the data-cache counters of the loaded program
are identical in single-cycle and five-stage mode and count each executed load or store exactly once. No
`StepHyp` hypothesis is left (`C04Asm.loaded_state_ok_cached`); the hypotheses about the five-stage RUN stay.

Property theorems only (plus non-vacuity examples); helper lemmas: `ArchSim/Lemmas/E2E*.lean`.
`sc` = the state after loading `text` into `withCache s l wt g penalty` (`s` with a freshly built data cache);
`dAcc`, `dHits`, `dLastHit`, `SingleOK`, `memOps`, `singleRun` (= `Lemmas.C11.singleRun`) as in `Props/C09Prog.lean`.
-/
import ArchSim.Props.C09Prog
import ArchSim.Props.C04Asm

namespace ArchSim.Props.C09Asm
open ArchSim ArchSim.Rv ArchSim.Asm ArchSim.Cache ArchSim.Pipe ArchSim.Lemmas.E2E ArchSim.Lemmas.C09Prog
open ArchSim.Lemmas.C11Prog

/-- END TO END (C09Prog D). Load ANY source text into `s` (satisfying `StOK`, no instruction cache, not exited; e.g.
    the power-on state) equipped with a freshly built data cache of any admissible configuration. If the assembler
    accepts the text, the program has no CSR / fence / ebreak, and the five-stage loop stops after `n` cycles
    without a fault, then single-cycle mode from the same loaded state runs `k ≤ n` fault-free steps, is done
    exactly then, and ends with the SAME data memory system: same hit counter, access counter, last-hit flag. -/
theorem assembled_dcache_counters_equal_modes (s : St) (hs : ArchSim.Lemmas.C01.StOK s)
    (hic : s.imem.cache = none) (hx : s.exitCode = none) (l wt : Bool) (g : Geo)
    (hg : Spec.CacheAbs.GeoOK g) (ha : ArchSim.Lemmas.C09.AssocOK l g.assoc) (penalty : Nat) (text : String)
    (sc : St) (hsc : sc = (load (withCache s l wt g penalty) text).st)
    (h : (load s text).err = none) (hsup : AllSupported (load s text).st.imem.prog)
    (n : Nat) (hr : runOK n (PSt.init sc true)) (hd : isDone (pipeRun n (PSt.init sc true)) = true)
    (hprev : ∀ m, m < n → isDone (pipeRun m (PSt.init sc true)) = false) :
    ∃ k, k ≤ n ∧ SingleOK k sc ∧ singleDone (ArchSim.Lemmas.C11.singleRun k sc) = true ∧
      (∀ j, j < k → singleDone (ArchSim.Lemmas.C11.singleRun j sc) = false) ∧
      (pipeRun n (PSt.init sc true)).st.mem = (ArchSim.Lemmas.C11.singleRun k sc).mem ∧
      dHits (pipeRun n (PSt.init sc true)).st.mem = dHits (ArchSim.Lemmas.C11.singleRun k sc).mem ∧
      dAcc (pipeRun n (PSt.init sc true)).st.mem = dAcc (ArchSim.Lemmas.C11.singleRun k sc).mem ∧
      dLastHit (pipeRun n (PSt.init sc true)).st.mem = dLastHit (ArchSim.Lemmas.C11.singleRun k sc).mem ∧
      SimP (pipeRun n (PSt.init sc true)).st (ArchSim.Lemmas.C11.singleRun k sc) := by
  subst hsc
  have hH := load_stepHyp s hs hic l wt g hg ha penalty text h hsup
  have hx' : (load (withCache s l wt g penalty) text).st.exitCode = none := by
    rw [load_exitCode]; exact hx
  exact ArchSim.Props.C09Prog.dcache_counters_equal_modes _ hH hx' n hr hd hprev

/-- END TO END (C09Prog, each load / store counted once). Same setting. Single-cycle mode: after `n` fault-free
    steps of the loaded program the access counter has grown by exactly the number of loads and stores among the
    instructions executed — starting from 0, since a freshly built cache has no accesses and `load` does not
    count its direct `.data` writes. -/
theorem assembled_accesses_count_memops (s : St) (hs : ArchSim.Lemmas.C01.StOK s)
    (hic : s.imem.cache = none) (l wt : Bool) (g : Geo)
    (hg : Spec.CacheAbs.GeoOK g) (ha : ArchSim.Lemmas.C09.AssocOK l g.assoc) (penalty : Nat) (text : String)
    (sc : St) (hsc : sc = (load (withCache s l wt g penalty) text).st)
    (h : (load s text).err = none) (hsup : AllSupported (load s text).st.imem.prog)
    (n : Nat) (hok : SingleOK n sc) :
    dAcc sc.mem = 0 ∧ dAcc (ArchSim.Lemmas.C11.singleRun n sc).mem = memOps n sc := by
  subst hsc
  have hH := load_stepHyp s hs hic l wt g hg ha penalty text h hsup
  have h0 : dAcc (load (withCache s l wt g penalty) text).st.mem = 0 := by
    obtain ⟨m, hm, hc, _⟩ := hs.flat
    obtain ⟨_, hist, _, h2⟩ := load_withCache s m hm hc l wt g penalty text
    rw [h2, preload_eq]
    rfl
  refine ⟨h0, ?_⟩
  rw [ArchSim.Props.C09Prog.accesses_count_memops _ hH n hok, h0, Nat.zero_add]

/-! ### non-vacuity (the example text `asmText` of `Lemmas/E2EEx.lean`: a `.data` variable, the pseudo-instruction
`li`, a branch to an in-line label; cache: one set, one way, one word, write-back LRU, penalty 10) -/

section
open ArchSim.Lemmas.E2E.Ex ArchSim.Lemmas.C03Prog.Ex

/-- Hypotheses of `assembled_dcache_counters_equal_modes` for the example text loaded into the power-on state with
    the cache: admissible configuration, the text loads, supported program, and the five-stage loop runs 14
    fault-free cycles and is done exactly then. -/
example : ArchSim.Lemmas.C01.StOK freshSt ∧ freshSt.imem.cache = none ∧ freshSt.exitCode = none ∧
    Spec.CacheAbs.GeoOK geo1 ∧ ArchSim.Lemmas.C09.AssocOK true geo1.assoc ∧
    (load freshSt asmText).err = none ∧ AllSupported (load freshSt asmText).st.imem.prog ∧
    runOK 14 (PSt.init (load (withCache freshSt true false geo1 10) asmText).st true) ∧
    isDone (pipeRun 14 (PSt.init (load (withCache freshSt true false geo1 10) asmText).st true)) = true ∧
    (∀ m, m < 14 →
      isDone (pipeRun m (PSt.init (load (withCache freshSt true false geo1 10) asmText).st true)) = false) := by
  refine ⟨freshSt_ok, rfl, rfl, geo1_ok, assoc1_ok, load_asmText.1, asmText_supported, ?_⟩
  rw [load_asmText_cached]; decide

/-- What the two modes count on the assembled example: the one `lw` (a miss — the `.data` preload bypassed the
    cache) is counted once in both; exit code 7; the miss penalty shows in the cycle counter only. -/
example : dAcc (pipeRun 14 (PSt.init (load (withCache freshSt true false geo1 10) asmText).st true)).st.mem = 1 ∧
    dHits (pipeRun 14 (PSt.init (load (withCache freshSt true false geo1 10) asmText).st true)).st.mem = 0 ∧
    dAcc (ArchSim.Lemmas.C11.singleRun 5 (load (withCache freshSt true false geo1 10) asmText).st).mem = 1 ∧
    memOps 5 (load (withCache freshSt true false geo1 10) asmText).st = 1 ∧
    (pipeRun 14 (PSt.init (load (withCache freshSt true false geo1 10) asmText).st true)).st.exitCode = some 7 ∧
    (pipeRun 14 (PSt.init (load (withCache freshSt true false geo1 10) asmText).st true)).st.cycles = 24 := by
  rw [load_asmText_cached]; decide

/-- Hypothesis `SingleOK` of `assembled_accesses_count_memops` for the example (`n = 5`). -/
example : SingleOK 5 (load (withCache freshSt true false geo1 10) asmText).st := by
  rw [load_asmText_cached]; unfold SingleOK; decide

end

end ArchSim.Props.C09Asm
