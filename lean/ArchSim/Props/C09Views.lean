/-
C09, the REPORTED statistics — `RiscvSimulation.get_data_cache_stats()` as modelled by `SimViews.dataStats`
(`Model/SimViews.lean`; the driver renders it and the check compares it with the real getter after every step).

`C09.lean` proves that the counters of the model equal those of the reference cache.  A user reads them through the
statistics getter, as decimal STRINGS; the theorems here say that the strings denote the counters (read back with the
independent digit reader of `Spec/Digits.lean`), that the reported flag is the flag, that nothing is reported without a
cache, and — composed with `C09.counters_refine` — that after any accepted history the reported text denotes the
counters of the reference set-associative cache.  The highlighted address (32 binary digits) denotes the address of the
load or store in the MEM/WB register modulo 2^32 and is absent for any other instruction.
Property theorems only; helper lemmas are in `Lemmas/SimViews.lean`.
-/
import ArchSim.Lemmas.SimViews
import ArchSim.Props.C09

namespace ArchSim.Props.C09Views
open ArchSim ArchSim.Cache ArchSim.Rv ArchSim.Repl ArchSim.SimViews ArchSim.Spec.Digits ArchSim.Spec.TagCache
open ArchSim.Lemmas.SimViews ArchSim.Lemmas.C09

/-- What a statistics record shows: the two decimal strings read back as the two counters, and the flag. -/
def Reports (st : Stats) (hits accesses : Nat) (lastHit : Bool) : Prop :=
  ofDigits 10 st.hits.toList = some hits ∧ ofDigits 10 st.accesses.toList = some accesses ∧ st.lastHit = lastHit

/-- Without a data cache the getter returns `None`; with one it reports exactly the three counters of the cache —
    for every state of the cache and whatever access the view highlights. -/
theorem dataStats_reports (m : MemSys) (shown : Option Int) :
    (∀ mem, m = .flat mem → dataStats m shown = none) ∧
    (∀ l s, m = .cached l s → ∃ st, dataStats m shown = some st ∧ Reports st s.hits s.accesses s.lastHit) := by
  refine ⟨fun mem h => by subst h; rfl, fun l s h => ?_⟩
  subst h
  exact ⟨_, rfl, dec_spec s.hits, dec_spec s.accesses, rfl⟩

/-- Reported = reference.  Start from any data cache state satisfying the invariant, apply any history of accepted
    operations: the statistics reported afterwards denote the hit counter, the access counter and the last-hit flag of
    the reference tag-only cache run on the same history. -/
theorem reported_equals_reference (l : Bool) {s : DSys Pol} {ok : Pol → Prop}
    (hP : PolicyOK (polOps l) s.geo.assoc ok) (hI : PolicyIdem (polOps l) ok)
    (hinv : Inv ok s) (ops : List Spec.TagCache.Op) (hops : ∀ op ∈ ops, op.ok) (shown : Option Int) :
    ∃ st, dataStats (.cached l (run (polOps l) s ops).1) shown = some st ∧
      Reports st (refRun (polOps l) (erase s) ops).1.hits (refRun (polOps l) (erase s) ops).1.accesses
        (refRun (polOps l) (erase s) ops).1.lastHit := by
  obtain ⟨_, h1, h2, h3, _⟩ := C09.counters_refine hP hI hinv ops hops
  refine ⟨_, rfl, ?_, ?_, ?_⟩
  · rw [← h1]; exact dec_spec _
  · rw [← h2]; exact dec_spec _
  · exact h3

/-- The highlighted address: `None` stays `None`; an address is shown as exactly 32 binary digits that read back as
    the address modulo 2^32 (a negative ALU result is shown as its two's-complement pattern). -/
theorem address_shows (hits accesses : Nat) (lastHit : Bool) :
    (Stats.ofCounters hits accesses lastHit none).address = none ∧
    ∀ a : Int, ∃ t, (Stats.ofCounters hits accesses lastHit (some a)).address = some t ∧
      ofDigits 2 t.toList = some (a % 4294967296).toNat ∧ t.toList.length = 32 :=
  ⟨rfl, fun a => ⟨bin32 a, rfl, bin32_spec a⟩⟩

/-- Five-stage mode: an address is highlighted exactly when the MEM/WB register holds a load or a store, and it is
    that instruction's memory address (the ALU result carried in the register). -/
theorem five_stage_highlight (p : Pipe.PSt) :
    (p.l3 = none → fiveDataAccess p = none) ∧
    ∀ x, p.l3 = some x →
      fiveDataAccess p =
        if (ctlOf x.instr).memWrite = some true ∨ (ctlOf x.instr).memRead = some true then x.result else none := by
  refine ⟨fun h => by simp [fiveDataAccess, h], fun x h => ?_⟩
  simp only [fiveDataAccess, h, Bool.or_eq_true, decide_eq_true_eq]

/-- Single-stage mode: an address is highlighted exactly when the last executed instruction (the one at the program
    counter of the state the display register describes) is a load or a store, and it is `x[rs1] + imm` of that
    instruction — shown modulo 2^32 by `address_shows`. -/
theorem single_stage_highlight (s : St) (i : Instr) (hi : s.imem.instrAt s.pc = some i) :
    (i.op.ty = .memI → singleDataAccess (some s) = some ((wrapU (s.regs i.rs1 : Int) : Int) + i.imm)) ∧
    (i.op.ty = .s → singleDataAccess (some s) = some ((s.regs i.rs1 : Int) + i.imm)) ∧
    (i.op.ty ≠ .memI → i.op.ty ≠ .s → singleDataAccess (some s) = none) ∧
    singleDataAccess none = none := by
  refine ⟨fun h => ?_, fun h => ?_, fun h1 h2 => ?_, rfl⟩
  · simp [singleDataAccess, hi, h, accessRegs, aluCompute]
  · simp [singleDataAccess, hi, h, accessRegs, aluCompute]
  · simp [singleDataAccess, hi, h1, h2]

/-! ### non-vacuity -/

example : Reports (Stats.ofCounters 12 34 true none) 12 34 true := ⟨dec_spec 12, dec_spec 34, rfl⟩
example : bin32 (-4) = "11111111111111111111111111111100" := by decide
-- a load in MEM/WB is highlighted, an addition is not
example : fiveDataAccess { Pipe.PSt.init Asm.freshSt true with
      l3 := some { instr := { op := .lw, rd := 2, rs1 := 2 }, addr := 4, pc4 := 8, result := some 16384 } } = some 16384 := by
  decide
example : fiveDataAccess { Pipe.PSt.init Asm.freshSt true with
      l3 := some { instr := { op := .add, rd := 2, rs1 := 2 }, addr := 4, pc4 := 8, result := some 16384 } } = none := by
  decide

end ArchSim.Props.C09Views
