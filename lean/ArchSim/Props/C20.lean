/-
C20 — TOY two-phase stepping: whole steps, explicit half-cycle calls and single-cycle steps are
equivalent; out-of-order calls raise a sequencing error and change nothing; everything is a no-op
once the program is done.

Property theorems only. Definitions (`Inv`, `half`, `rejected`, `weight`, `calls`, `errs`,
`rejects`, `halfCount`) and helper lemmas are in `ArchSim/Lemmas/ToyStep.lean`.
A `TSim` value contains the whole simulation object: accumulator, pc, memory, the three counters,
the memory-table markers (`addrCur`, `addrNext`, and `nextCycle` from which the table's "current
cycle" column is computed), the visualisation record `vis`, `loaded`, `maxPc`, `started`.
Equality of `TSim` values is therefore equality of every one of these.
-/
import ArchSim.Lemmas.ToyStep

namespace ArchSim.Props.C20
open ArchSim ArchSim.Toy

/-- (a) At an instruction boundary `step()` is exactly `first_cycle_step()` followed by
    `second_cycle_step()` (same state, no error), and while an instruction `i` is loaded this is
    the second-half body applied to the first-half body of `i`. No invariant is needed. -/
theorem step_eq_halves (t : TSim) (h1 : t.nextCycle = 1) :
    stepCall t = secondCycle (firstCycle t).t ∧
    (∀ i, t.s.loaded = some i → stepCall t = ⟨secondBody (firstBody t i) i, false⟩) ∧
    (t.s.loaded = none → stepCall t = ⟨t, false⟩) := by
  refine ⟨?_, ?_, ?_⟩
  · unfold stepCall
    have : (firstCycle t).err = false := by rw [firstCycle_due h1]
    simp [h1, this]
  · intro i hl
    have hl' : (firstBody t i).s.loaded = some i := by rw [firstBody_loaded, hl]
    simp [stepCall, firstCycle, secondCycle, h1, hl, hl']
  · intro hl
    simp [stepCall, firstCycle, secondCycle, h1, hl]

example : demoInc.nextCycle = 1 ∧ demoInc.s.loaded = some ⟨1, 5⟩ := by decide

/-- (b) `single_step()` is the half-cycle that is due: the first half at `next_cycle = 1`, the
    second half otherwise; under the sequencing invariant it is never rejected and performs
    exactly `half`. -/
theorem single_eq_due (t : TSim) :
    (t.nextCycle = 1 → singleCall t = firstCycle t) ∧
    (t.nextCycle ≠ 1 → singleCall t = secondCycle t) ∧
    (Inv t → singleCall t = ⟨half t, false⟩) := by
  refine ⟨fun h => by simp [singleCall, h], fun h => by simp [singleCall, h], ?_⟩
  intro h
  rcases h.1 with h1 | h2
  · simp [singleCall, h1, firstCycle_due h1]
  · simp [singleCall, h2, secondCycle_due h2]

/-- The sequencing invariant holds for a new simulation and after loading any program into a
    simulation that is at an instruction boundary (`load_program` keeps `next_cycle`). -/
theorem inv_initial :
    Inv {} ∧ ∀ (t : TSim) (is : List TInstr) (d : List (Nat × Nat)), t.nextCycle = 1 →
      Inv (loadImage t is d) :=
  ⟨Inv_init, fun _ is d h1 => Inv_loadImage h1 is d⟩

/-- (c, one call) Under the sequencing invariant every API call is classified exactly:
    it raises the sequencing error iff it is `first` at `next_cycle = 2`, `second` at
    `next_cycle = 1` or `step` at `next_cycle = 2` on a program that is not done (`rejected`);
    a rejected call leaves the state unchanged; an accepted call performs `weight` due
    half-cycles (2 for `step`, 1 for the others, 0 when done); and the invariant is preserved. -/
theorem call_classified (t : TSim) (c : Call) (h : Inv t) :
    (call t c).err = rejected t c ∧
    (call t c).t = iter half (weight t c) t ∧
    ((call t c).err = true → (call t c).t = t) ∧
    Inv (call t c).t := by
  have hs := call_spec h c
  refine ⟨by rw [hs], by rw [hs], ?_, Inv_call h c⟩
  rw [hs]; intro he
  simp only at he
  simp [weight, he]

/-- (c) Normal form of call sequences. For every finite sequence of the four API calls, made from
    any state satisfying the sequencing invariant (errors being caught by the caller), the final
    state is the due half-cycle `half` iterated `halfCount` times, where `halfCount` adds up the
    half-cycles of the accepted calls; the calls that raise are exactly those classified by
    `rejected` (position by position); and the invariant holds at the end. -/
theorem calls_normal_form (t0 : TSim) (cs : List Call) (h : Inv t0) :
    calls t0 cs = iter half (halfCount t0 cs) t0 ∧
    errs t0 cs = rejects t0 cs ∧
    Inv (calls t0 cs) :=
  calls_spec h cs

/-- Non-vacuity: a mixed history on the demo program `demoInc` with two rejected calls. -/
example : Inv demoInc ∧
    errs demoInc [.second, .first, .step, .first, .second, .single, .step] =
      [true, false, true, true, false, false, true] ∧
    halfCount demoInc [.second, .first, .step, .first, .second, .single, .step] = 3 := by
  decide

/-- (d) Once the program is done, all four calls return normally and leave the state unchanged. -/
theorem done_noop (t : TSim) (c : Call) (h : Inv t) (hd : isDone t = true) :
    call t c = ⟨t, false⟩ := by
  rw [call_spec h c]
  cases c <;> simp [weight, rejected, hd]

/-- Without the invariant the statement would be false for `step()`, which checks the sequencing
    before the done test; but `done ∧ next_cycle = 2` is unreachable (`Inv`). -/
example : ∃ t : TSim, isDone t = true ∧ (stepCall t).err = true :=
  ⟨{ nextCycle := 2 }, by decide⟩

/-- Non-vacuity for `done_noop`: the demo program `demoInc` is done after three steps. -/
example : isDone (calls demoInc [.step, .step, .step]) = true ∧ Inv (calls demoInc [.step, .step, .step]) := by
  decide

/-- (e) The three stepping styles agree at every instruction boundary: from any boundary state,
    `n` whole steps, `n` pairs (first half, second half) and `2n` single-cycle steps all lead to
    the same simulation state — `half` iterated `2n` times — and none of these calls raises. -/
theorem three_styles_agree (t0 : TSim) (h1 : t0.nextCycle = 1) (n : Nat) :
    calls t0 (List.replicate n .step) = iter half (2 * n) t0 ∧
    calls t0 (List.replicate n [Call.first, Call.second]).flatten = iter half (2 * n) t0 ∧
    calls t0 (List.replicate (2 * n) .single) = iter half (2 * n) t0 ∧
    errs t0 (List.replicate n .step) = List.replicate n false ∧
    errs t0 (List.replicate n [Call.first, Call.second]).flatten = List.replicate (2 * n) false ∧
    errs t0 (List.replicate (2 * n) .single) = List.replicate (2 * n) false := by
  induction n generalizing t0 with
  | zero => simp [calls, errs]
  | succ n ih =>
    have hb := half_half_next h1
    have ⟨a, b, c, d, e, f⟩ := ih (half (half t0)) hb
    have hstep := stepCall_boundary h1
    have hfs := first_second_boundary h1
    have hss := single_single_boundary h1
    have e2 : 2 * (n + 1) = 2 * n + 1 + 1 := by omega
    have hi : iter half (2 * (n + 1)) t0 = iter half (2 * n) (half (half t0)) := by
      rw [e2]; rfl
    have hf1 := firstCycle_due h1
    refine ⟨?_, ?_, ?_, ?_, ?_, ?_⟩
    · simp only [List.replicate_succ, calls, call, hstep, a, hi]
    · simp only [List.replicate_succ, List.flatten_cons, calls_append, hfs, b, hi]
    · rw [e2]
      simp only [List.replicate_succ]
      rw [show Call.single :: Call.single :: List.replicate (2 * n) Call.single
            = [Call.single, Call.single] ++ List.replicate (2 * n) Call.single from rfl,
          calls_append, hss, c]; rfl
    · simp only [List.replicate_succ, errs, call, hstep, d]
    · simp only [calls, call] at hfs
      rw [e2]
      simp only [List.replicate_succ, List.flatten_cons, List.cons_append, List.nil_append, errs,
        call, hfs, e]
      rw [hf1] at hfs ⊢
      simp only [List.cons.injEq, true_and]
      cases hd : isDone t0 with
      | true =>
        have hl : t0.s.loaded = none := by simpa [isDone] using hd
        simp [half_done hd, secondCycle, hl]
      | false =>
        have ⟨hn, _⟩ := half_next_of_one hd h1
        rw [secondCycle_due hn]; simp
    · simp only [calls, call] at hss
      rw [e2]
      simp only [List.replicate_succ, errs, call, hss, f]
      have hs1 : singleCall t0 = ⟨half t0, false⟩ := by simp [singleCall, h1, hf1]
      rw [hs1]
      simp only [List.cons.injEq, true_and]
      cases hd : isDone t0 with
      | true =>
        have hl : t0.s.loaded = none := by simpa [isDone] using hd
        simp [half_done hd, singleCall, h1, firstCycle, hl]
      | false =>
        have ⟨hn, _⟩ := half_next_of_one hd h1
        simp [singleCall, hn, secondCycle_due hn]

/-- Non-vacuity for `three_styles_agree`: the demo program `demoInc` starts at a boundary, is not done, and
    after two instructions (in any of the styles) the accumulator is 8 and four cycles have been
    counted; after the third instruction `mem[5] = 8`. -/
example : demoInc.nextCycle = 1 ∧ isDone demoInc = false ∧
    (calls demoInc (List.replicate 2 .step)).s.accu = 8 ∧
    (calls demoInc (List.replicate 4 .single)).s.cycles = 4 ∧
    rd (calls demoInc (List.replicate 3 .step)).s 5 = 8 := by
  decide

end ArchSim.Props.C20
