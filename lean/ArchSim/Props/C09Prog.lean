/-
C09, program-level clause — "for any program the data-cache counters are identical in single-cycle
and five-stage mode and count each executed load or store exactly once".

Setting (`Lemmas/C09Prog*.lean`).
* `DOK l ds`: the invariant of the state's cached data memory system `.cached l ds` — associativity
  suits the policy (`AssocOK`), C03's representation invariant `CInv` and C09's accounting invariant
  `Inv`. It holds for every freshly built system of an admissible geometry, after any `.data`
  preload (`dok_init`), and is kept by every fault-free step (`single_step_keeps_hyp`).
  `DInv ms`: `ms` is a cached system satisfying `DOK`. `RunInv s`: registers hold 32-bit values and
  `DInv s.mem`.
* `StepHyp s`: `s` has no instruction cache, its program has at most 4096 instructions, all of them
  well-formed supported instruction objects (`Instr.WF`, what the constructors build), and `RunInv s`.
* `dAcc`, `dHits`, `dLastHit`: the three data-cache counters of a memory system.
* `singleRun n s`: `n` single-cycle steps; `SingleOK n s`: none of them faults; `memOps n s`: the
  number of loads and stores among the `n` instructions executed.
The five-stage run is `pipeRun` from `PSt.init st true` (hazard detection on), fault-free (`runOK`)
and run until `is_done()` first holds, as in `C02.final_state`.
-/
import ArchSim.Lemmas.C09ProgEx
import ArchSim.Props.C11Prog

namespace ArchSim.Props.C09Prog
open ArchSim ArchSim.Cache ArchSim.Rv ArchSim.Repl ArchSim.Pipe
open ArchSim.Spec.TagCache (Accepted)
open ArchSim.Lemmas.C09Prog ArchSim.Lemmas.C11 ArchSim.Lemmas.C11Prog ArchSim.Lemmas.C02Split

/-- The invariant holds for every data cache the simulator builds: any admissible geometry
    (`GeoOK`), write-back or write-through, LRU or PLRU (`AssocOK`), any miss penalty, after any
    `.data` preload `h`. -/
theorem dok_init (l wt : Bool) (g : Geo) (penalty : Nat) (hg : Spec.CacheAbs.GeoOK g)
    (ha : Lemmas.C09.AssocOK l g.assoc) (h : List Spec.ByteStore.Op) :
    DOK l (Spec.CacheAbs.preload (DSys.init (polOps l) wt g penalty (Mem.Mem.empty Mem.riscvCfg)) h) :=
  DOK_preload l wt g penalty hg ha h

/-- The uncounted display re-read is neutral on EVERY cached memory system satisfying the invariant,
    at every address: `C02Split.LoadOK` holds (a counted read that returns a value returns a 32-bit
    value; re-reading the address uncounted returns the same value, changes nothing, adds no
    cycles), and stores alias modulo 2^32. This discharges the hypothesis `hre` of
    `C02Split.split_agrees_cached_partial`. -/
theorem memOK_cached (i : Instr) (s : St) (h : RunInv s) : MemOK i s :=
  memOK_of_runinv i s h

/-- The two implementations of every instruction agree on a cached data memory (the full statement
    announced in `Props/C02Split.lean`): on every state satisfying `StepHyp`, the five split stage
    functions run back to back (`splitStep`, one step of the sequential reference machine of the
    pipeline proof) and the single-cycle step raise the same fault, and without a fault leave EQUAL
    states — data-cache contents, replacement state, hit / access counters and cycles included. -/
theorem split_agrees_cached (s : St) (h : StepHyp s) :
    (splitStep s).fault = (singleStep s).fault ∧
    ((singleStep s).fault = none → (splitStep s).st = (singleStep s).st) :=
  step_agree s h

/-- A single-cycle step that does not fault keeps all hypotheses (in particular the data-cache
    invariant and the 32-bit register values). -/
theorem single_step_keeps_hyp (s : St) (h : StepHyp s) (hf : (singleStep s).fault = none) :
    StepHyp (singleStep s).st :=
  singleStep_hyp s h hf

/-- (D) THE DATA-CACHE COUNTERS ARE IDENTICAL IN BOTH MODES. Let the five-stage pipeline run from
    `st` without a fault until `is_done()` first holds (after `n` cycles). Then single-cycle mode,
    started from the same `st`, runs `k ≤ n` steps without a fault, is done exactly then (`k` is where
    its loop stops), and ends with the SAME data memory system — cache contents, replacement state,
    lower memory — in particular the same hit counter, access counter and last-hit flag; registers,
    output, exit code, instruction / branch / procedure counts and pc agree as well (`SimP`). -/
theorem dcache_counters_equal_modes (st : St) (h : StepHyp st) (hx : st.exitCode = none)
    (n : Nat) (hr : runOK n (PSt.init st true)) (hd : isDone (pipeRun n (PSt.init st true)) = true)
    (hprev : ∀ m, m < n → isDone (pipeRun m (PSt.init st true)) = false) :
    ∃ k, k ≤ n ∧ SingleOK k st ∧ singleDone (singleRun k st) = true ∧
      (∀ j, j < k → singleDone (singleRun j st) = false) ∧
      (pipeRun n (PSt.init st true)).st.mem = (singleRun k st).mem ∧
      dHits (pipeRun n (PSt.init st true)).st.mem = dHits (singleRun k st).mem ∧
      dAcc (pipeRun n (PSt.init st true)).st.mem = dAcc (singleRun k st).mem ∧
      dLastHit (pipeRun n (PSt.init st true)).st.mem = dLastHit (singleRun k st).mem ∧
      SimP (pipeRun n (PSt.init st true)).st (singleRun k st) := by
  have hc := ICoh_nocache _ h.nocache h.fits
  obtain ⟨k, hk, hsim, hok, hdone, hnd, _⟩ :=
    modes_agree h hx (EqC.rfl' st) rfl hc (EqC.rfl' st) rfl hc n hr hd hprev
  exact ⟨k, hk, hok, hdone, hnd, hsim.1.mem, by rw [hsim.1.mem], by rw [hsim.1.mem],
    by rw [hsim.1.mem], hsim⟩

/-- (D, with C11) The same with an instruction cache of ANY configuration switched on in both
    modes: `t` is `st` with an instruction cache `c` satisfying C11's invariant `IInv` (for instance
    the initial cache). The five-stage run from `t` and the single-cycle run from `t` end with the
    same data memory system and data-cache counters (wrong-path instruction fetches and instruction
    cache penalties do not disturb the data cache). -/
theorem dcache_counters_equal_modes_icache (st t : St) {c : ICache} (h : StepHyp st)
    (hx : st.exitCode = none) (he : EqC st t) (hp : st.imem.prog = t.imem.prog)
    (ht : t.imem.cache = some c) (hinv : IInv t.imem c)
    (n : Nat) (hr : runOK n (PSt.init t true)) (hd : isDone (pipeRun n (PSt.init t true)) = true)
    (hprev : ∀ m, m < n → isDone (pipeRun m (PSt.init t true)) = false) :
    ∃ k, k ≤ n ∧ SingleOK k t ∧ singleDone (singleRun k t) = true ∧
      (∀ j, j < k → singleDone (singleRun j t) = false) ∧
      (pipeRun n (PSt.init t true)).st.mem = (singleRun k t).mem ∧
      dHits (pipeRun n (PSt.init t true)).st.mem = dHits (singleRun k t).mem ∧
      dAcc (pipeRun n (PSt.init t true)).st.mem = dAcc (singleRun k t).mem ∧
      dLastHit (pipeRun n (PSt.init t true)).st.mem = dLastHit (singleRun k t).mem ∧
      (pipeRun n (PSt.init t true)).st.mem = (singleRun k st).mem := by
  have hl' : t.imem.prog.length ≤ 1073741824 := by rw [← hp]; have := h.fits; omega
  have hct := C11Prog.ICoh_icache ht hinv hl'
  have hc := ICoh_nocache _ h.nocache h.fits
  obtain ⟨k, hk, hsim, hok, hdone, hnd, _⟩ := modes_agree h hx he hp hct he hp hct n hr hd hprev
  obtain ⟨k', _, hsim', _, hdone', hnd', _⟩ :=
    modes_agree h hx he hp hct (EqC.rfl' st) rfl hc n hr hd hprev
  have hkk : k' = k := by
    have e := fun j => singleRun_eqC j he hp hc hct
    apply first_true_unique (f := fun j => singleDone (singleRun j st)) hdone' _ hnd'
    · intro j hj; show singleDone (singleRun j st) = false
      rw [singleDone_eqC (e j).1 (e j).2]; exact hnd j hj
    · show singleDone (singleRun k st) = true
      rw [singleDone_eqC (e k).1 (e k).2]; exact hdone
  subst hkk
  exact ⟨k', hk, hok, hdone, hnd, hsim.1.mem, by rw [hsim.1.mem], by rw [hsim.1.mem],
    by rw [hsim.1.mem], hsim'.1.mem⟩

/-- EACH EXECUTED LOAD OR STORE IS COUNTED EXACTLY ONCE (one single-cycle step; `i` is the instruction
    at the pc). (1) If `i` is a load or a store and the step does not fault, the access counter grows
    by exactly 1 — the load's second, display-only read is not counted. (2) A load / store whose
    access is accepted (offered width, inside one word of the data range) does execute without a
    fault, so (1) applies. (3) For every other instruction — ALU, branch, jump, `ecall` including the
    print-string service that reads through the cache, faulting or not — the counter is unchanged. -/
theorem each_memop_counted_once (s : St) (h : StepHyp s) (i : Instr)
    (hi : s.imem.instrAt s.pc = some i) :
    (isMemOp i = true → (singleStep s).fault = none →
      dAcc (singleStep s).st.mem = dAcc s.mem + 1) ∧
    (i.op.ty = .memI → Accepted (accessBits i.op) ((s.regs i.rs1 : Int) + i.imm) →
      (singleStep s).fault = none) ∧
    (i.op.ty = .s → Accepted (accessBits i.op) (storeAddr i s) → (singleStep s).fault = none) ∧
    (isMemOp i = false → dAcc (singleStep s).st.mem = dAcc s.mem) := by
  have hs := (ICoh_nocache _ h.nocache h.fits).fetchSound
  have h2 : RunInv
      ({ s with cycles := s.cycles + 1 + (s.imem.fetch s.pc).extra,
                instrs := s.instrs + 1, imem := (s.imem.fetch s.pc).imem } : St) :=
    h.inv.of_eq rfl rfl
  rw [singleStep_fetched s i hi hs]
  obtain ⟨a, b⟩ := singleTail_dAcc i _ h2
  obtain ⟨c, d⟩ := singleTail_accepted i _ h2
  exact ⟨a, c, d, b⟩

/-- When there is no instruction at the pc a step changes no data-cache counter. -/
theorem no_instruction_not_counted (s : St) (hi : s.imem.instrAt s.pc = none) :
    (singleStep s).st.mem = s.mem := by
  rw [singleStep_nofetch s hi]

/-- Whole runs, single-cycle mode: after `n` fault-free steps the access counter has grown by
    exactly the number of loads and stores among the instructions executed. -/
theorem accesses_count_memops (s : St) (h : StepHyp s) (n : Nat) (hok : SingleOK n s) :
    dAcc (singleRun n s).mem = dAcc s.mem + memOps n s :=
  run_dAcc s h n hok

/-- Whole runs, five-stage mode: at the end of a fault-free run to completion the access counter
    has grown by exactly the number of loads and stores among the `k` instructions the program
    executes (squashed wrong-path instructions are not counted, stalled ones are counted once). -/
theorem five_stage_accesses_count_memops (st : St) (h : StepHyp st) (hx : st.exitCode = none)
    (n : Nat) (hr : runOK n (PSt.init st true)) (hd : isDone (pipeRun n (PSt.init st true)) = true)
    (hprev : ∀ m, m < n → isDone (pipeRun m (PSt.init st true)) = false) :
    ∃ k, k ≤ n ∧ singleDone (singleRun k st) = true ∧
      (∀ j, j < k → singleDone (singleRun j st) = false) ∧
      dAcc (pipeRun n (PSt.init st true)).st.mem = dAcc st.mem + memOps k st := by
  obtain ⟨k, hk, hok, hdone, hnd, hm, _⟩ := dcache_counters_equal_modes st h hx n hr hd hprev
  exact ⟨k, hk, hdone, hnd, by rw [hm]; exact run_dAcc st h k hok⟩

/-! ### Non-vacuity: the example program of `Props/C02.lean` (store/load pair, RAW interlock, taken
branch, exiting ecall) over a write-back LRU data cache -/

example : StepHyp exDSt := exDSt_hyp
example : exDSt.exitCode = none := rfl

/-- The five-stage run: 23 fault-free cycles, done exactly then; the store misses (write-allocate),
    the load hits: 2 accesses, 1 hit. -/
example : runOK 23 (PSt.init exDSt true) ∧ isDone (pipeRun 23 (PSt.init exDSt true)) = true ∧
    (∀ m, m < 23 → isDone (pipeRun m (PSt.init exDSt true)) = false) ∧
    dAcc (pipeRun 23 (PSt.init exDSt true)).st.mem = 2 ∧
    dHits (pipeRun 23 (PSt.init exDSt true)).st.mem = 1 ∧
    dLastHit (pipeRun 23 (PSt.init exDSt true)).st.mem = true := by decide

/-- Single-cycle mode: done after 8 steps, 2 loads/stores executed, the same counters. -/
example : singleDone (singleRun 8 exDSt) = true ∧ memOps 8 exDSt = 2 ∧
    dAcc (singleRun 8 exDSt).mem = 2 ∧ dHits (singleRun 8 exDSt).mem = 1 ∧
    dLastHit (singleRun 8 exDSt).mem = true := by decide

/-- `each_memop_counted_once`: the store at pc 12 of the example is accepted (address 16384). -/
example : (singleRun 3 exDSt).imem.instrAt (singleRun 3 exDSt).pc
      = some { op := .sw, rs1 := 5, rs2 := 2, imm := 0 } ∧
    Accepted 32 (storeAddr { op := .sw, rs1 := 5, rs2 := 2, imm := 0 } (singleRun 3 exDSt)) := by
  decide

/-- `dcache_counters_equal_modes_icache`: the hypotheses hold for the example with a one-set
    instruction cache switched on; the five-stage run again takes 23 cycles and ends with the same
    data-cache counters, while the cycle counter now includes instruction-cache penalties. -/
example : EqC exDSt exDStC ∧ exDSt.imem.prog = exDStC.imem.prog ∧ exDStC.imem.cache = some exCache1 :=
  ⟨⟨rfl, rfl, rfl, rfl, rfl, rfl, rfl, rfl, rfl, rfl⟩, rfl, rfl⟩
example : IInv exDStC.imem exCache1 := Props.C11.inv_init _ _ _ _ ⟨by decide, fun h => by cases h⟩
example : runOK 23 (PSt.init exDStC true) ∧ isDone (pipeRun 23 (PSt.init exDStC true)) = true ∧
    (∀ m, m < 23 → isDone (pipeRun m (PSt.init exDStC true)) = false) ∧
    dAcc (pipeRun 23 (PSt.init exDStC true)).st.mem = 2 ∧
    dHits (pipeRun 23 (PSt.init exDStC true)).st.mem = 1 ∧
    (pipeRun 23 (PSt.init exDSt true)).st.cycles < (pipeRun 23 (PSt.init exDStC true)).st.cycles := by
  decide

end ArchSim.Props.C09Prog
