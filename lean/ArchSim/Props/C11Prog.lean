/-
C11, program-level clause — "with any instruction-cache configuration every fetch returns the same
instruction as the uncached instruction memory, so program results are unchanged in both pipeline
modes".

* `ICoh_icache`: an instruction memory whose cache satisfies C11's invariant `IInv` (any geometry,
  LRU or PLRU with `AssocOK`) is coherent in the sense of the pipeline refinement (`Pipe.ICoh`), so
  every theorem of `Props/C02.lean` applies with an instruction cache (`final_state_icache`).
* single-cycle mode: `icache_single_step_equal`, `icache_run_equal`.
* five-stage mode: `icache_five_stage_results`.

`EqC s t` (`Lemmas/C11ProgSingle.lean`): the states agree on registers, pc, data memory system,
output, exit code, instruction / branch / procedure / stall / flush counters — on everything except
the instruction memory system and the cycle counter (miss penalties).
Size hypotheses: the uncached instruction memory rejects addresses `≥ 16384`, so the comparison
with it needs `prog.length ≤ 4096`; the cache decodes `UInt32(pc)`, so coherence of the cached
system alone needs `prog.length ≤ 2^30`.
-/
import ArchSim.Lemmas.C11ProgPipe
import ArchSim.Props.C11
import ArchSim.Props.C02

namespace ArchSim.Props.C11Prog
open ArchSim ArchSim.Cache ArchSim.Rv ArchSim.Pipe ArchSim.Lemmas.C09 ArchSim.Lemmas.C11
open ArchSim.Lemmas.C11Prog

/-- (A) Instruction coherence for EVERY instruction-cache configuration: if the cache of `im`
    satisfies `IInv` (true of the initial / reset cache for every program, `C11.inv_init`, and kept by
    every fetch), then after any sequence of fetches — correct-path or wrong-path — a fetch at an
    occupied address returns the instruction stored there and keeps the program. This is the
    hypothesis `ICoh` of the pipeline control refinement (C02). -/
theorem ICoh_icache {im : IMem} {c : ICache} (hc : im.cache = some c) (hinv : IInv im c)
    (hl : im.prog.length ≤ 1073741824) : ICoh im :=
  ICoh_icache_aux hc hinv hl

/-- (A) `C02.final_state` with an instruction cache of any configuration: when the five-stage loop
    stops after `n` fault-free cycles, registers, data memory system, output, exit code, retired /
    branch / procedure counts and pc are those of the sequential machine at the first step `k` where
    it is done, and the retired addresses are the addresses it executed. -/
theorem final_state_icache (st : St) {c : ICache} (hc : st.imem.cache = some c) (hinv : IInv st.imem c)
    (hl : st.imem.prog.length ≤ 1073741824) (hp : ProgOK st.imem) (hx : st.exitCode = none)
    (n : Nat) (hr : runOK n (PSt.init st true)) (hd : isDone (pipeRun n (PSt.init st true)) = true)
    (hprev : ∀ m, m < n → isDone (pipeRun m (PSt.init st true)) = false) :
    ∃ k, k ≤ n ∧ SimP (pipeRun n (PSt.init st true)).st (seqRun k st) ∧ singleDone (seqRun k st) = true ∧
      (∀ j, j < k → singleDone (seqRun j st) = false) ∧
      retireLog n (PSt.init st true) = seqTrace k st ∧
      (∀ j, j < k → seqFault (seqRun j st) = none) :=
  ArchSim.Props.C02.final_state st hp (ICoh_icache hc hinv hl) hx n hr hd hprev

/-- (B) One single-cycle step, instruction cache off (`s`) versus on (`t`, any configuration, any
    cache state satisfying `IInv`): the same fault (or none); afterwards the states again agree on
    everything except the instruction-cache state and the cycle counter; the uncached side still
    has no cache and the cached side still satisfies the invariant. -/
theorem icache_single_step_equal {s t : St} {c : ICache} (h : EqC s t) (hp : s.imem.prog = t.imem.prog)
    (hs : s.imem.cache = none) (hl : s.imem.prog.length ≤ 4096)
    (ht : t.imem.cache = some c) (hinv : IInv t.imem c) :
    (singleStep s).fault = (singleStep t).fault ∧ EqC (singleStep s).st (singleStep t).st ∧
      (singleStep s).st.imem.prog = (singleStep t).st.imem.prog ∧
      (singleStep s).st.imem.cache = none ∧
      ∃ c', (singleStep t).st.imem.cache = some c' ∧ IInv (singleStep t).st.imem c' := by
  have hl' : t.imem.prog.length ≤ 1073741824 := by rw [← hp]; omega
  obtain ⟨h1, h2, h3⟩ := singleStep_eqC h hp (ICoh_nocache _ hs hl).fetchSound
    (ICoh_icache ht hinv hl').fetchSound
  obtain ⟨c', hc', hinv', _⟩ := singleStep_fetch_count ht hinv
  exact ⟨h1, h2, h3, by rw [singleStep_imem_nocache s hs]; exact hs, c', hc', hinv'⟩

/-- (B) Any number `n` of single-cycle steps, instruction cache off versus on: registers, data
    memory system (data-cache state and counters included), output, exit code, pc, instruction /
    branch / procedure counters are equal, `is_done()` agrees, and the next step raises the same
    fault (or none) — so the two runs stop at the same step, for the same reason, with the same
    results. Only the cycle counter (miss penalties) and the cache contents differ. -/
theorem icache_run_equal {s t : St} {c : ICache} (h : EqC s t) (hp : s.imem.prog = t.imem.prog)
    (hs : s.imem.cache = none) (hl : s.imem.prog.length ≤ 4096)
    (ht : t.imem.cache = some c) (hinv : IInv t.imem c) (n : Nat) :
    (singleRun n s).regs = (singleRun n t).regs ∧ (singleRun n s).mem = (singleRun n t).mem ∧
    (singleRun n s).output = (singleRun n t).output ∧
    (singleRun n s).exitCode = (singleRun n t).exitCode ∧ (singleRun n s).pc = (singleRun n t).pc ∧
    (singleRun n s).instrs = (singleRun n t).instrs ∧
    (singleRun n s).branches = (singleRun n t).branches ∧
    (singleRun n s).procs = (singleRun n t).procs ∧
    singleDone (singleRun n s) = singleDone (singleRun n t) ∧
    (singleStep (singleRun n s)).fault = (singleStep (singleRun n t)).fault := by
  have hl' : t.imem.prog.length ≤ 1073741824 := by rw [← hp]; omega
  have hcs := ICoh_nocache _ hs hl
  have hct := ICoh_icache ht hinv hl'
  obtain ⟨he, hpr⟩ := singleRun_eqC n h hp hcs hct
  exact ⟨he.regs, he.mem, he.output, he.exitCode, he.pc, he.instrs, he.branches, he.procs,
    singleDone_eqC he hpr,
    (singleStep_eqC he hpr (ICoh_singleRun n s hcs).fetchSound (ICoh_singleRun n t hct).fetchSound).1⟩

/-- (C) Five-stage mode: the final registers, data memory system, output, exit code, retired /
    branch / procedure counts and pc of a fault-free run to completion are the same with the
    instruction cache (`t`, run of `m` cycles) and without it (`s`, run of `n` cycles), and the same
    instruction addresses retire in the same order; both runs end in the state of the sequential
    machine after the same number `k` of steps. -/
theorem icache_five_stage_results {s t : St} {c : ICache} (h : EqC s t) (hp : s.imem.prog = t.imem.prog)
    (hs : s.imem.cache = none) (hl : s.imem.prog.length ≤ 4096)
    (ht : t.imem.cache = some c) (hinv : IInv t.imem c) (hok : ProgOK s.imem) (hx : s.exitCode = none)
    (n : Nat) (hrn : runOK n (PSt.init s true)) (hdn : isDone (pipeRun n (PSt.init s true)) = true)
    (hpn : ∀ j, j < n → isDone (pipeRun j (PSt.init s true)) = false)
    (m : Nat) (hrm : runOK m (PSt.init t true)) (hdm : isDone (pipeRun m (PSt.init t true)) = true)
    (hpm : ∀ j, j < m → isDone (pipeRun j (PSt.init t true)) = false) :
    SimP (pipeRun n (PSt.init s true)).st (pipeRun m (PSt.init t true)).st ∧
      retireLog n (PSt.init s true) = retireLog m (PSt.init t true) ∧
      ∃ k, k ≤ n ∧ k ≤ m ∧ SimP (pipeRun n (PSt.init s true)).st (seqRun k s) ∧
        SimP (pipeRun m (PSt.init t true)).st (seqRun k t) := by
  have hl' : t.imem.prog.length ≤ 1073741824 := by rw [← hp]; omega
  have hsim : SimP s t := ⟨⟨h.regs, h.mem, h.output, h.exitCode, h.instrs, h.branches, h.procs, hp⟩, h.pc⟩
  exact five_stage_results_congr hsim hok (ProgOK_congr hp hok) (ICoh_nocache _ hs hl)
    (ICoh_icache ht hinv hl') hx n hrn hdn hpn m hrm hdm hpm

/-! ### Non-vacuity: a two-instruction program with a one-set instruction cache -/

example : AssocOK true exGeo1.assoc := ⟨by decide, fun h => by cases h⟩
example : IInv exStC.imem exCache1 := C11.inv_init _ _ _ _ ⟨by decide, fun h => by cases h⟩
/-- (A) the hypotheses of `ICoh_icache` / `final_state_icache` hold. -/
example : ICoh exStC.imem :=
  ICoh_icache (c := exCache1) rfl (C11.inv_init _ _ _ _ ⟨by decide, fun h => by cases h⟩) (by decide)
example : ProgOK exStC.imem := ProgOK_of_allb _ (by decide)
/-- (B) the hypotheses of `icache_single_step_equal` / `icache_run_equal` hold. -/
example : EqC exStN exStC ∧ exStN.imem.prog = exStC.imem.prog ∧ exStN.imem.cache = none ∧
    exStN.imem.prog.length ≤ 4096 ∧ exStC.imem.cache = some exCache1 :=
  ⟨⟨rfl, rfl, rfl, rfl, rfl, rfl, rfl, rfl, rfl, rfl⟩, rfl, rfl, by decide, rfl⟩
/-- Two single-cycle steps: `x2 = 10` on both sides; the first fetch misses (7 penalty cycles), the
    second hits in the same block. -/
example : (singleRun 2 exStN).regs 2 = 10 ∧ (singleRun 2 exStC).regs 2 = 10 ∧
    (singleRun 2 exStN).cycles = 2 ∧ (singleRun 2 exStC).cycles = 9 ∧
    singleDone (singleRun 2 exStC) = true := by decide

/-- (C) both five-stage runs are fault-free and done after exactly 8 cycles, with `x2 = 10`. -/
example : runOK 8 (PSt.init exStN true) ∧ isDone (pipeRun 8 (PSt.init exStN true)) = true ∧
    (∀ j, j < 8 → isDone (pipeRun j (PSt.init exStN true)) = false) ∧
    runOK 8 (PSt.init exStC true) ∧ isDone (pipeRun 8 (PSt.init exStC true)) = true ∧
    (∀ j, j < 8 → isDone (pipeRun j (PSt.init exStC true)) = false) ∧
    (pipeRun 8 (PSt.init exStC true)).st.regs 2 = 10 := by decide

end ArchSim.Props.C11Prog
