/-
C14, the DISPLAYED listing — `RiscvSimulation.get_instruction_memory_entries()` as modelled by
`SimViews.listing` (`Model/SimViews.lean`; the driver renders it and the check compares it with the real getter).

`C14.lean` speaks about the printed form of an instruction object and about "the printed forms joined by newlines".
The theorems here close the gap to what the simulator SHOWS: the table has one row per stored instruction, row `k`
carries address `4k` (as a number and as `0x` + 8 upper-case hex digits that read back as `4k`) and the printed form of
instruction `k`; these three columns do not depend on the pipeline registers (which only decide the stage column, see
`C17Listing.lean`); each displayed text assembles at the address displayed next to it to the very instruction of the
row; and re-assembling the instruction column of the listing of any loaded program reproduces the program, hence the
same listing.  Property theorems only; helper lemmas are in `Lemmas/SimViews.lean`.
-/
import ArchSim.Lemmas.SimViews
import ArchSim.Props.C14
import ArchSim.Lemmas.E2EEx

namespace ArchSim.Props.C14Views
open ArchSim ArchSim.Rv ArchSim.Asm ArchSim.SimViews ArchSim.Spec.Digits
open ArchSim.Lemmas.SimViews ArchSim.Lemmas.C17Views

/-- The listing has exactly one row per stored instruction, and row `k` shows address `4k`, the address text
    `0x` + hex digits that read back as `4k` (exactly 8 of them while `4k < 2^32`, i.e. for every program that fits the
    instruction memory), and the printed form of instruction `k`. -/
theorem listing_rows (prog : List Instr) (marks : Marks) :
    (listing prog marks).length = prog.length ∧
    ∀ (k : Nat) (i : Instr), prog[k]? = some i → ∃ (row : ListRow) (ds : List Char), (listing prog marks)[k]? = some row ∧
      row.addr = 4 * (k : Int) ∧ row.instr = i.repr ∧
      row.addrText.toList = '0' :: 'x' :: ds ∧ ofDigits 16 ds = some (4 * k) ∧
      (∀ c ∈ ds, isUpperHexDigit c) ∧ (4 * k < 2 ^ 32 → ds.length = 8) := by
  refine ⟨listing_length prog marks, fun k i hk => ?_⟩
  have hs := upHex_spec 8 (4 * k)
  refine ⟨listRow marks k i, (Views.upHex 8 (4 * k)).toList, ?_, rfl, rfl, ?_, hs.1, hs.2.1, fun h => ?_⟩
  · rw [listing_getElem?, hk]; rfl
  · have : (4 * (k : Int)).toNat = 4 * k := by omega
    simp [listRow, Views.addrText, this]
  · exact hs.2.2 (by decide) (by
      have : (16 : Nat) ^ 8 = 2 ^ 32 := by decide
      omega)

/-- Address, address text and instruction text of every row are the same whatever the pipeline registers hold:
    stepping the simulation never changes what the listing prints for an instruction. -/
theorem listing_text_independent (prog : List Instr) (marks marks' : Marks) :
    (listing prog marks).map (fun r => (r.addr, r.addrText, r.instr)) =
    (listing prog marks').map (fun r => (r.addr, r.addrText, r.instr)) := by
  apply List.ext_getElem?
  intro k
  simp only [List.getElem?_map, listing_getElem?]
  cases prog[k]? <;> simp [listRow]

/-- Each displayed text, assembled at the address displayed in the same row, is the instruction of that row:
    for a canonical instruction other than `fence` at position `k`, the instruction text of row `k` tokenizes as one
    label-free entry from which the back end builds, at address `row.addr` and for any label table, exactly that
    instruction. -/
theorem displayed_row_reassembles (prog : List Instr) (marks : Marks) (k : Nat) (i : Instr)
    (hk : prog[k]? = some i) (hc : i.Canon (4 * (k : Int))) (hf : i.op ≠ .fence) :
    ∃ row tok, (listing prog marks)[k]? = some row ∧
      parseLine row.instr.toList = some tok ∧ tok.lbl = none ∧
      ∀ (ls : Labels) (n : Nat) (line : String), buildInstrs ls [(n, line, tok.item)] row.addr = .ok [i] := by
  obtain ⟨tok, h1, h2, h3⟩ := C14.repr_roundtrip i (4 * (k : Int)) hc hf
  refine ⟨listRow marks k i, tok, ?_, h1, h2, h3⟩
  rw [listing_getElem?, hk]; rfl

/-- Re-assembling the displayed listing of any loaded program reproduces the same program and therefore the same
    listing (second sentence of C14, stated on the table the simulator shows): if `load s text` succeeds and every
    stored instruction is printable, then the instruction column of the listing, joined by newlines and loaded into
    any simulator state `s'`, is accepted, stores exactly the same program, and the listing displayed then has the same
    addresses, address texts and instruction texts as before. -/
theorem displayed_listing_reassembles (s s' : St) (text : String) (marks marks' : Marks)
    (h : (load s text).err = none)
    (hp : ∀ i ∈ (load s text).st.imem.prog, i.op ≠ .fence ∧ (i.op.ty = .csr ∨ i.op.ty = .csri → 0 ≤ i.aux) ∧
      (i.op = .jal → i.aux.natAbs < 10 ^ 4300)) :
    let shown := String.intercalate "\n" ((listing (load s text).st.imem.prog marks).map (·.instr))
    (load s' shown).err = none ∧
    (load s' shown).st.imem.prog = (load s text).st.imem.prog ∧
    (listing (load s' shown).st.imem.prog marks').map (fun r => (r.addr, r.addrText, r.instr)) =
      (listing (load s text).st.imem.prog marks).map (fun r => (r.addr, r.addrText, r.instr)) := by
  intro shown
  have hshown : shown = String.intercalate "\n" ((load s text).st.imem.prog.map Instr.repr) := by
    show String.intercalate "\n" _ = _
    rw [listing_instrs]
  obtain ⟨h1, h2⟩ := C14.loaded_listing_fixpoint s s' text _ h rfl hp
  rw [hshown]
  refine ⟨h1, h2, ?_⟩
  rw [h2]
  exact listing_text_independent _ _ _

/-- The listing follows the instruction memory: after `write_instruction(4k, i)` (k at most the program length) the
    listing has a row `k` that shows the printed form of `i` at address `4k`, every other row that existed before is
    unchanged, and the table has grown by one row exactly when the instruction was appended. -/
theorem listing_after_write_instruction (im im' : IMem) (k : Nat) (i : Instr) (marks : Marks)
    (h : writeInstr im k i = some im') :
    (listing im'.prog marks)[k]? = some (listRow marks k i) ∧
    (∀ j, j ≠ k → j < im.prog.length → (listing im'.prog marks)[j]? = (listing im.prog marks)[j]?) ∧
    (listing im'.prog marks).length = (if k < im.prog.length then im.prog.length else im.prog.length + 1) := by
  unfold writeInstr at h
  split at h
  · next hk =>
    obtain rfl : im' = { im with prog := im.prog.set k i } := by simpa using h.symm
    refine ⟨?_, fun j hj hjl => ?_, ?_⟩
    · simp [listing_getElem?, List.getElem?_set, hk]
    · simp [listing_getElem?, List.getElem?_set, Ne.symm hj]
    · simp [listing_length, hk]
  · next hk =>
    split at h
    · next hk2 =>
      obtain rfl : im' = { im with prog := im.prog ++ [i] } := by simpa using h.symm
      refine ⟨?_, fun j hj hjl => ?_, ?_⟩
      · simp [listing_getElem?, hk2]
      · simp [listing_getElem?, List.getElem?_append_left hjl]
      · simp [listing_length, hk]
    · cases h

/-! ### non-vacuity -/

-- the listing of `addi x1, x0, 5 ; sw x3, 8(x2)` while the first instruction is in ID (addresses and stage column)
example : (listing [{ op := .addi, rd := 1, imm := 5 }, { op := .sw, rs1 := 2, rs2 := 3, imm := 8 }]
      [(some 4, "IF"), (some 0, "ID"), (none, "EX"), (none, "MEM"), (none, "WB")]).map (fun r => (r.addr, r.stage)) =
    [(0, "ID"), (4, "IF")] := by decide

-- hypotheses of `displayed_listing_reassembles`: the documented example program loads, and it is printable
example : (load freshSt ArchSim.Lemmas.E2E.Ex.asmText).err = none := ArchSim.Lemmas.E2E.Ex.load_asmText.1

end ArchSim.Props.C14Views
