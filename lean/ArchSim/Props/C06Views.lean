/-
C06, the REPORTED counters of the TOY machine — the counter lines of `ToySimulation.get_performance_metrics_str()` as modelled
by `SimViews.toyMetricsLines` (`Model/SimViews.lean`; compared with the real text at the end of every C06 case).

"Every executed instruction costs two cycles and counts once" (`C06.cycles_two_per_instruction`) is a statement about
counters; a user reads them in the metrics text.  Here: the three lines are label + decimal digits that read back as the
counters, and after `n` whole steps of a running program started with both counters at zero the text shows `n`
instructions and `2n` cycles.  Property theorems only; helper lemmas are in `Lemmas/SimViews.lean`.
-/
import ArchSim.Lemmas.SimViews
import ArchSim.Props.C06

namespace ArchSim.Props.C06Views
open ArchSim ArchSim.Toy ArchSim.SimViews ArchSim.Spec.Digits ArchSim.Lemmas.SimViews

/-- A metrics line: the label, decimal digits that denote `v`, and the given trailer. -/
def LineShows (line label : String) (v : Nat) (trailer : String) : Prop :=
  ∃ ds : List Char, line = label ++ String.ofList ds ++ trailer ∧ ofDigits 10 ds = some v

/-- The three counter lines of the TOY metrics text, each denoting its counter. -/
theorem toy_metrics_report (t : TSim) :
    ∃ l1 l2 l3, toyMetricsLines t = [l1, l2, l3] ∧
      LineShows l1 "instructions: " t.s.instrs " " ∧ LineShows l2 "cycles: " t.s.cycles "" ∧
      LineShows l3 "branches: " t.s.branches "" := by
  have d := fun n => ArchSim.Lemmas.C17.ofDigits_natStr 10 (by decide) (by decide) n
  exact ⟨_, _, _, rfl, ⟨_, rfl, d _⟩, ⟨_, by simp, d _⟩, ⟨_, by simp, d _⟩⟩

/-- Displayed: a machine at an instruction boundary whose counters are zero, stepped `n` times while it is still
    running, shows `instructions: n` and `cycles: 2n`. -/
theorem toy_metrics_after_steps (t : TSim) (h1 : t.nextCycle = 1) (hi : t.s.instrs = 0) (hc : t.s.cycles = 0) (n : Nat)
    (hrun : isDone (iter stepT n t) = false) :
    ∃ l1 l2 l3, toyMetricsLines (iter stepT n t) = [l1, l2, l3] ∧
      LineShows l1 "instructions: " n " " ∧ LineShows l2 "cycles: " (2 * n) "" := by
  obtain ⟨_, _, h3, _, _, h6⟩ := ArchSim.Props.C06.cycles_two_per_instruction t h1 n
  have hn : (iter stepT n t).s.instrs = n := by rw [h6 hrun, hi]; omega
  have hcy : (iter stepT n t).s.cycles = 2 * n := by rw [hn, hi, hc] at h3; omega
  obtain ⟨l1, l2, l3, he, s1, s2, _⟩ := toy_metrics_report (iter stepT n t)
  exact ⟨l1, l2, l3, he, by rw [← hn]; exact s1, by rw [← hcy]; exact s2⟩

end ArchSim.Props.C06Views
