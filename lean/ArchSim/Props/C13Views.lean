/-
C13, the displayed views of a finished simulation.  `C13.lean` proves that `step()` / `run()` on a simulation that reports
done change nothing of the STATE.  A user sees the state through the getters; with the display layer in the model
(`Model/SimViews.lean`, `Model/CacheViews.lean`) the same can be said of everything that is shown: the instruction listing
with its stage column, the statistics of both caches and both cache tables are unchanged by any number of further
`step()` calls — including the single-stage display register, which is only replaced by a step that executes.
Property theorems only.
-/
import ArchSim.Model.CacheViews
import ArchSim.Lemmas.SimViews

namespace ArchSim.Props.C13Views
open ArchSim ArchSim.SimViews ArchSim.CacheViews

/-- Everything the RISC-V simulation displays about program and caches. -/
structure Shown where
  listing : List ListRow
  dstats  : Option Stats
  istats  : Option Stats
  dtable  : Option (List SetRow)
  itable  : Option (List SetRow)
deriving DecidableEq

def shown (s : Sim.RSim) (before : Option Rv.St) : Shown :=
  { listing := listingOf s before
    dstats := if s.five then fiveDataStats s.p else dataStats s.p.st.mem none
    istats := if s.five then fiveInstrStats s.p else singleInstrStats s.p.st before
    dtable := dataCacheTable s.p.st.mem
    itable := instrCacheTable s.p.st.imem }

/-- `step()` on a finished simulation returns false, leaves the simulation as it is, does not touch the display register,
    and therefore every displayed view is what it was. -/
theorem done_step_shows_the_same (s : Sim.RSim) (before : Option Rv.St) (hd : Sim.isDone s = true) :
    (Sim.step s).ret = false ∧ (Sim.step s).fault = none ∧
    shown (Sim.step s).sim (beforeAfter s before) = shown s before := by
  have h1 : Sim.step s = { sim := s, ret := false, fault := none } := by simp [Sim.step, hd]
  have h2 : beforeAfter s before = before := by simp [beforeAfter, hd]
  rw [h1, h2]
  exact ⟨rfl, rfl, rfl⟩

/-- Any number of further `step()` calls: the views never change again. -/
def stepsV : Nat → Sim.RSim × Option Rv.St → Sim.RSim × Option Rv.St
  | 0, x => x
  | n + 1, (s, b) => stepsV n ((Sim.step s).sim, beforeAfter s b)

theorem done_steps_show_the_same (n : Nat) (s : Sim.RSim) (before : Option Rv.St) (hd : Sim.isDone s = true) :
    stepsV n (s, before) = (s, before) ∧ shown (stepsV n (s, before)).1 (stepsV n (s, before)).2 = shown s before := by
  have h : stepsV n (s, before) = (s, before) := by
    induction n with
    | zero => rfl
    | succ n ih =>
      have h1 : (Sim.step s).sim = s := by simp [Sim.step, hd]
      have h2 : beforeAfter s before = before := by simp [beforeAfter, hd]
      simp only [stepsV, h1, h2, ih]
  rw [h]
  exact ⟨rfl, rfl⟩

/-- A step that executes in five-stage mode never touches the single-stage display register; a single-stage step that
    executes (not done, no fault) makes it describe the state before the step. -/
theorem display_register_rule (s : Sim.RSim) (before : Option Rv.St) :
    (s.five = true → beforeAfter s before = before) ∧
    (s.five = false → Sim.isDone s = false → (Sim.step s).fault = none → beforeAfter s before = some s.p.st) ∧
    (s.five = false → (Sim.step s).fault ≠ none → beforeAfter s before = before) := by
  refine ⟨fun h => by simp [beforeAfter, h], fun h1 h2 h3 => by simp [beforeAfter, h1, h2, h3], fun h1 h3 => ?_⟩
  have : (Sim.step s).fault.isSome = true := by
    cases hf : (Sim.step s).fault with
    | none => exact absurd hf h3
    | some _ => rfl
  simp [beforeAfter, this]

/-! ### non-vacuity: the power-on simulation without program is done -/
example : Sim.isDone { five := true, p := Pipe.PSt.init Asm.freshSt true } = true := by decide
example : Sim.isDone { five := false, p := Pipe.PSt.init Asm.freshSt true } = true := by decide

end ArchSim.Props.C13Views
