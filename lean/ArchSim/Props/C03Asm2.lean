/-
C03 (program-level clause), end to end, part 2: RELOAD WITH A USED DATA CACHE. `C03Prog.rel_init` (and C12Prog's
`table_rel_init`) are stated for a freshly built cache system. `load_program` applies `DSys.reset` to the data cache it
finds, which keeps the hit / access counters; the relation `CacheRel` (and `MRelT`) never mentions them. This file
generalises both to `preload (ds.reset …) h` for ANY cache system `ds` of an admissible geometry (any contents, any
counters) and concludes: loading a second program into a simulation whose data cache was used by a first one gives a
state related by `CacheRel` to the flat load of the same text, hence the same registers, output and exit code with and
without the (used) data cache, in both pipeline modes.

Property theorems only (plus non-vacuity examples); helper lemmas: `ArchSim/Lemmas/E2E2Reload.lean`.
`Reloadable l ds`: admissible geometry, associativity suiting the policy `l`, RISC-V lower memory (nothing about
contents or counters); `flatOf s1`: `s1` with the flat empty RISC-V data memory instead of its data memory system.
-/
import ArchSim.Props.C03Asm
import ArchSim.Props.C12Prog
import ArchSim.Lemmas.E2E2Reload
import ArchSim.Lemmas.E2E2ReloadEx

namespace ArchSim.Props.C03Asm2
open ArchSim ArchSim.Rv ArchSim.Asm ArchSim.Cache ArchSim.Lemmas.E2E ArchSim.Lemmas.E2E2 ArchSim.Lemmas.C03Prog

/-- GENERALISED `rel_init` (and `table_rel_init`). For ANY reloadable cache system `ds` — any sets, lower-memory
    contents, counters — and any `.data` preload `h`: a state whose data memory is `preload (ds.reset …) h` and the
    same state with the flat memory `run riscvCfg h` (and any cycle / stall / flush counters) are related by
    `CacheRel`, and their data memories by `MRelT ds.wt`. -/
theorem rel_reset_preload (s : St) (l : Bool) (ds : DSys Repl.Pol) (hr : Reloadable l ds)
    (h : List Spec.ByteStore.Op) (c st fl : Nat) :
    CacheRel
      { s with mem := .cached l (Spec.CacheAbs.preload (ds.reset (polOps l)) h) }
      { s with mem := .flat (Spec.ByteStore.run Mem.riscvCfg h), cycles := c, stalls := st, flushes := fl } ∧
    ArchSim.Lemmas.C12Prog.MRelT ds.wt (.cached l (Spec.CacheAbs.preload (ds.reset (polOps l)) h))
      (.flat (Spec.ByteStore.run Mem.riscvCfg h)) :=
  ⟨⟨⟨l, _, _, rfl, rfl, crep_reload l ds hr h⟩, rfl, rfl, rfl, rfl, rfl, rfl, rfl, rfl⟩, mrelT_reload l ds hr h⟩

/-- RELOAD INTO A USED CACHE. Let the data memory of `s1` be ANY reloadable cache system `ds` (e.g. the state a first
    program left). Loading ANY text into `s1` and into `flatOf s1` reports the same error and stores the same
    program; the two loaded states are related by `CacheRel`, their data memories by `MRelT ds.wt` (C12Prog: the
    memory table the user sees). -/
theorem reloaded_state_cache_rel (s1 : St) (l : Bool) (ds : DSys Repl.Pol) (hm : s1.mem = .cached l ds)
    (hr : Reloadable l ds) (text : String) :
    (load s1 text).err = (load (flatOf s1) text).err ∧
    (load s1 text).st.imem = (load (flatOf s1) text).st.imem ∧
    CacheRel (load s1 text).st (load (flatOf s1) text).st ∧
    ArchSim.Lemmas.C12Prog.MRelT ds.wt (load s1 text).st.mem (load (flatOf s1) text).st.mem := by
  obtain ⟨h1, h2, h3, h4, _⟩ := load_reload s1 l ds hm hr text
  exact ⟨h1, h2, h3, h4⟩

/-- SAME RESULT WITH A USED CACHE, ALL FOUR CONFIGURATIONS. Let `s1` have a reloadable (used) data cache, no instruction
    cache, 32-bit registers with `x0 = 0` and a 32-bit pc (`StOK (flatOf s1)`), and not have exited. Load an accepted
    text without CSR / fence / ebreak into `s1` (state `sc`) and into `flatOf s1` (state `sf`). If every step of the
    flat single-cycle run before it is first done performs accepted accesses and that run is first done after `k`
    fault-free steps, then both five-stage loops stop without a fault within `5 * (k + 2)` cycles and all four
    configurations end with the same registers, output and exit code — the old counters and the old contents of the
    cache make no difference. -/
theorem reloaded_same_result_all_modes (s1 : St) (l : Bool) (ds : DSys Repl.Pol) (hm : s1.mem = .cached l ds)
    (hr : Reloadable l ds) (hic : s1.imem.cache = none) (hs : ArchSim.Lemmas.C01.StOK (flatOf s1))
    (hx : s1.exitCode = none) (text : String)
    (sc sf : St) (hsc : sc = (load s1 text).st) (hsf : sf = (load (flatOf s1) text).st)
    (h : (load (flatOf s1) text).err = none) (hsup : AllSupported sf.imem.prog) (hacc : RunAccepted sf)
    (k : Nat) (hd : singleDone (singleRun k sf) = true)
    (hnd : ∀ j, j < k → singleDone (singleRun j sf) = false)
    (hnf : ∀ j, j < k → (singleStep (singleRun j sf)).fault = none) :
    ∃ nc nf, nc ≤ 5 * (k + 2) ∧ nf ≤ 5 * (k + 2) ∧
      Pipe.runOK nc (Pipe.PSt.init sc true) ∧ Pipe.isDone (Pipe.pipeRun nc (Pipe.PSt.init sc true)) = true ∧
      Pipe.runOK nf (Pipe.PSt.init sf true) ∧ Pipe.isDone (Pipe.pipeRun nf (Pipe.PSt.init sf true)) = true ∧
      (Pipe.pipeRun nc (Pipe.PSt.init sc true)).st.regs = (singleRun k sf).regs ∧
      (Pipe.pipeRun nc (Pipe.PSt.init sc true)).st.output = (singleRun k sf).output ∧
      (Pipe.pipeRun nc (Pipe.PSt.init sc true)).st.exitCode = (singleRun k sf).exitCode ∧
      (Pipe.pipeRun nf (Pipe.PSt.init sf true)).st.regs = (singleRun k sf).regs ∧
      (Pipe.pipeRun nf (Pipe.PSt.init sf true)).st.output = (singleRun k sf).output ∧
      (Pipe.pipeRun nf (Pipe.PSt.init sf true)).st.exitCode = (singleRun k sf).exitCode ∧
      (singleRun k sc).regs = (singleRun k sf).regs ∧
      (singleRun k sc).output = (singleRun k sf).output ∧
      (singleRun k sc).exitCode = (singleRun k sf).exitCode := by
  subst hsc hsf
  have hic' : (flatOf s1).imem.cache = none := hic
  obtain ⟨nc, nf, b1, b2, c1, c2, _, f1, f2, _, r⟩ := ArchSim.Props.C03Prog.program_same_result_all_modes
    (load_reload s1 l ds hm hr text).2.2.1 _ (load_progWF_c03 (flatOf s1) text h hsup)
    (load_imem (flatOf s1) text hic') (load_stOK (flatOf s1) text hs)
    (by rw [load_exitCode]; exact hx) hacc k hd hnd hnf
  exact ⟨nc, nf, b1, b2, c1, c2, f1, f2, r⟩

/-- THE SIMULATION LOOP AFTER A RELOAD (single-cycle mode, no condition on the program). For ANY text loaded into a state
    with a reloadable used data cache and into the same state with the flat empty memory: if every state in which the
    flat loop takes a step performs accepted accesses, then for every `n` the loop with the cache reports the same
    fault (or none) as the loop without, with the same registers, output, exit code, pc and instruction count. -/
theorem reloaded_cached_sim_equals_flat_sim (s1 : St) (l : Bool) (ds : DSys Repl.Pol)
    (hm : s1.mem = .cached l ds) (hr : Reloadable l ds) (text : String)
    (sc sf : St) (hsc : sc = (load s1 text).st) (hsf : sf = (load (flatOf s1) text).st)
    (hacc : ∀ j, singleDone (ArchSim.Lemmas.C01.simN j sf).st = false →
      StepAccepted (ArchSim.Lemmas.C01.simN j sf).st) (n : Nat) :
    (ArchSim.Lemmas.C01.simN n sc).fault = (ArchSim.Lemmas.C01.simN n sf).fault ∧
    (ArchSim.Lemmas.C01.simN n sc).st.regs = (ArchSim.Lemmas.C01.simN n sf).st.regs ∧
    (ArchSim.Lemmas.C01.simN n sc).st.output = (ArchSim.Lemmas.C01.simN n sf).st.output ∧
    (ArchSim.Lemmas.C01.simN n sc).st.exitCode = (ArchSim.Lemmas.C01.simN n sf).st.exitCode ∧
    (ArchSim.Lemmas.C01.simN n sc).st.pc = (ArchSim.Lemmas.C01.simN n sf).st.pc ∧
    (ArchSim.Lemmas.C01.simN n sc).st.instrs = (ArchSim.Lemmas.C01.simN n sf).st.instrs := by
  subst hsc hsf
  obtain ⟨h1, h2, h3, h4, h5, h6, _⟩ := ArchSim.Props.C03Prog.cached_sim_equals_flat_sim
    (load_reload s1 l ds hm hr text).2.2.1 hacc n
  exact ⟨h1, h2, h3, h4, h5, h6⟩

/-! ### non-vacuity (the used state `usedSt` and the second text `reText` of `Lemmas/E2E2ReloadEx.lean`: the first
program's `lw` has missed in the one-word write-back cache, one access is counted, the block of 0x4000 is resident) -/

section
open ArchSim.Lemmas.E2E2.Ex

/-- Hypotheses of `reloaded_same_result_all_modes` for the example: the used cache is reloadable, no instruction
    cache, `StOK` for the flat counterpart, not exited; the second text loads and is supported; accepted accesses
    along its flat run, which is first done after 1 fault-free step. -/
example : (∃ l ds, usedSt.mem = .cached l ds ∧ Reloadable l ds) ∧ usedSt.imem.cache = none ∧
    ArchSim.Lemmas.C01.StOK (flatOf usedSt) ∧ usedSt.exitCode = none ∧
    (load (flatOf usedSt) reText).err = none ∧ AllSupported (load (flatOf usedSt) reText).st.imem.prog ∧
    RunAccepted (load (flatOf usedSt) reText).st ∧
    singleDone (singleRun 1 (load (flatOf usedSt) reText).st) = true ∧
    (∀ j, j < 1 → singleDone (singleRun j (load (flatOf usedSt) reText).st) = false) ∧
    (∀ j, j < 1 → (singleStep (singleRun j (load (flatOf usedSt) reText).st)).fault = none) := by
  refine ⟨stepHyp_reloadable usedSt_stepHyp, by decide, usedSt_flat_ok, by decide, (load_reText _).1, ?_, ?_, ?_⟩
  · rw [(load_reText _).2]; decide
  · rw [load_reText_flat]; exact runAccepted_reStF
  · rw [load_reText_flat]; decide

/-- The used cache is really used (a resident block, a non-zero counter), and the two runs of the second program
    agree: x1 = 0 in both (the cleared memory, not the stale 7), while the cached run pays the miss penalty. -/
example : ArchSim.Lemmas.C09Prog.dAcc usedSt.mem = 1 ∧
    (singleRun 1 (load usedSt reText).st).regs 1 = 0 ∧
    (singleRun 1 (load (flatOf usedSt) reText).st).regs 1 = 0 ∧
    (singleRun 1 (load usedSt reText).st).cycles = (singleRun 1 (load (flatOf usedSt) reText).st).cycles + 10 := by
  rw [load_reText_used, load_reText_flat]; decide

end

end ArchSim.Props.C03Asm2
