/-
C13 (lifecycle), end to end: `RiscvSimulation.run()` on a loaded program against the run iterators of the property files.
Every end-to-end theorem (`C02Asm`, `C03Asm`, `C08Asm`, `C09Asm`, `C11Asm`) keeps hypotheses about the RUN of the form
"the five-stage loop `while not is_done(): step()` stops after `n` cycles without a fault": `runOK n p`,
`isDone (pipeRun n p) = true`, `∀ m < n, isDone (pipeRun m p) = false`. This file obtains exactly these from the API:
if `run()` on a simulation that has been loaded into returns normally in a done state, reporting `n` steps, then they
hold for `p = PSt.init (load st0 text).st hz`, and the simulation `run()` leaves IS `pipeRun n p` (single-stage mode:
`singleRun k`). As an application, C02 at the level of the API: the two modes of a simulation of the same accepted text.

Property theorems only (plus non-vacuity examples); helper lemmas: `ArchSim/Lemmas/E2E2Run.lean`.
`Sim.run fuel sim = (sim', n, exc)`: the simulation after `run()`, the number of steps taken, the exception if a step
raised (`fuel` bounds the loop of the model; by `C13.run_eq_iterate` it is immaterial once the run has finished).
-/
import ArchSim.Props.C13
import ArchSim.Props.C02Asm
import ArchSim.Lemmas.E2E2Run
import ArchSim.Lemmas.E2E2Ex

namespace ArchSim.Props.C13Asm
open ArchSim ArchSim.Rv ArchSim.Asm ArchSim.Pipe ArchSim.Lemmas.E2E ArchSim.Lemmas.E2E2

/-- `run()` IN FIVE-STAGE MODE IS `pipeRun`. Take a five-stage simulation with an empty pipeline over ANY architectural
    state `st0` (hazard detection `hz`; e.g. a new simulation), load ANY text and call `run()`. If it returns without
    exception in a done state after `n` steps, then for `p = PSt.init (load st0 text).st hz`: the first `n` cycles from
    `p` are fault-free, the pipeline is done after `n` cycles and after no smaller number, and the pipeline state of
    the simulation `run()` leaves is `pipeRun n p`. -/
theorem assembled_run_five (st0 : St) (hz started : Bool) (text : String) (fuel : Nat) (sim : Sim.RSim)
    (hsim : sim = (Sim.load { five := true, p := PSt.init st0 hz, started := started } text).1)
    (hnf : (Sim.run fuel sim).2.2 = none) (hdone : Sim.isDone (Sim.run fuel sim).1 = true) :
    ∃ n, n ≤ fuel ∧ (Sim.run fuel sim).2.1 = n ∧
      (Sim.run fuel sim).1.p = pipeRun n (PSt.init (load st0 text).st hz) ∧
      runOK n (PSt.init (load st0 text).st hz) ∧
      isDone (pipeRun n (PSt.init (load st0 text).st hz)) = true ∧
      ∀ m, m < n → isDone (pipeRun m (PSt.init (load st0 text).st hz)) = false := by
  subst hsim
  exact run_five_char _ rfl fuel hnf hdone

/-- `run()` IN SINGLE-STAGE MODE IS `singleRun`. The same for a single-stage simulation: if `run()` returns without
    exception in a done state after `k` steps, the first `k` single-cycle steps from the loaded state are fault-free
    and not done, the state after them is done, and it is the architectural state `run()` leaves. -/
theorem assembled_run_single (st0 : St) (hz started : Bool) (text : String) (fuel : Nat) (sim : Sim.RSim)
    (hsim : sim = (Sim.load { five := false, p := PSt.init st0 hz, started := started } text).1)
    (hnf : (Sim.run fuel sim).2.2 = none) (hdone : Sim.isDone (Sim.run fuel sim).1 = true) :
    ∃ k, k ≤ fuel ∧ (Sim.run fuel sim).2.1 = k ∧
      (Sim.run fuel sim).1.p.st = singleRun k (load st0 text).st ∧
      (∀ j, j < k → (singleStep (singleRun j (load st0 text).st)).fault = none ∧
        singleDone (singleRun j (load st0 text).st) = false) ∧
      singleDone (singleRun k (load st0 text).st) = true := by
  subst hsim
  exact run_single_char _ rfl fuel hnf hdone

/-- C02 AT THE LEVEL OF THE API. Let `st0` satisfy `StOK`, have no instruction cache and not have exited (e.g. the state
    of a new simulation), and let `text` be accepted and free of CSR instructions, `fence`, `ebreak`. Take a five-stage
    simulation (hazard detection on) and a single-stage simulation over `st0`, both with empty pipeline registers, and
    `load_program(text)` into both. If `run()` on the five-stage simulation returns without exception in a done state
    after `n` steps, then `run()` on the single-stage simulation — with any fuel `≥ k` — returns without exception in a
    done state after `k ≤ n` steps, and the two simulations end with the same registers, data memory, output, exit
    code, instruction count and pc. -/
theorem api_five_stage_run_equals_single_stage_run (st0 : St) (hs : ArchSim.Lemmas.C01.StOK st0)
    (hc : st0.imem.cache = none) (hx : st0.exitCode = none) (text : String) (h : (load st0 text).err = none)
    (hsup : AllSupported (load st0 text).st.imem.prog) (hzS startedF startedS : Bool) (fuel : Nat)
    (simF simS : Sim.RSim)
    (hF : simF = (Sim.load { five := true, p := PSt.init st0 true, started := startedF } text).1)
    (hS : simS = (Sim.load { five := false, p := PSt.init st0 hzS, started := startedS } text).1)
    (hnf : (Sim.run fuel simF).2.2 = none) (hdone : Sim.isDone (Sim.run fuel simF).1 = true) :
    ∃ n k, k ≤ n ∧ n ≤ fuel ∧ (Sim.run fuel simF).2.1 = n ∧
      ∀ fuel', k ≤ fuel' →
        (Sim.run fuel' simS).2.2 = none ∧ (Sim.run fuel' simS).2.1 = k ∧ Sim.isDone (Sim.run fuel' simS).1 = true ∧
        (Sim.run fuel simF).1.p.st.regs = (Sim.run fuel' simS).1.p.st.regs ∧
        (Sim.run fuel simF).1.p.st.mem = (Sim.run fuel' simS).1.p.st.mem ∧
        (Sim.run fuel simF).1.p.st.output = (Sim.run fuel' simS).1.p.st.output ∧
        (Sim.run fuel simF).1.p.st.exitCode = (Sim.run fuel' simS).1.p.st.exitCode ∧
        (Sim.run fuel simF).1.p.st.instrs = (Sim.run fuel' simS).1.p.st.instrs ∧
        (Sim.run fuel simF).1.p.st.pc = (Sim.run fuel' simS).1.p.st.pc := by
  obtain ⟨n, hn, hcnt, hp, hr, hd, hprev⟩ := assembled_run_five st0 true startedF text fuel simF hF hnf hdone
  obtain ⟨k, hk, hpre, hdk, e1, e2, e3, e4, e5, _, _, e8, _⟩ :=
    ArchSim.Props.C02Asm.assembled_pipe_equals_single_cycle st0 text hs hc hx h hsup n hr hd hprev
  refine ⟨n, k, hk, hn, hcnt, fun fuel' hf' => ?_⟩
  have hSst : simS.p.st = (load st0 text).st := by rw [hS]; rfl
  obtain ⟨r1, r2, r3, r4⟩ := run_single_of_singleRun simS (by rw [hS]; rfl) k
    (by rw [hSst]; exact hpre) (by rw [hSst]; exact hdk) fuel' hf'
  rw [hSst] at r3
  rw [hp, r3]
  exact ⟨r1, r2, r4, e1, e2, e3, e4, e5, e8⟩

/-! ### non-vacuity (the example text `asmText` of `Lemmas/E2EEx.lean`: a `.data` variable, the pseudo-instruction `li`, a
branch to an in-line label; exits with code 7) -/

section
open ArchSim.Lemmas.E2E.Ex

/-- Hypotheses of `api_five_stage_run_equals_single_stage_run` for new simulations of the example text: `StOK`, no
    instruction cache, not exited; the text is accepted and supported; `run()` (fuel 20) on the five-stage simulation
    returns without exception in a done state, after 14 steps. -/
example : ArchSim.Lemmas.C01.StOK freshSt ∧ freshSt.imem.cache = none ∧ freshSt.exitCode = none ∧
    (load freshSt asmText).err = none ∧ AllSupported (load freshSt asmText).st.imem.prog ∧
    (Sim.run 20 (Sim.load { five := true, p := PSt.init freshSt true } asmText).1).2.2 = none ∧
    Sim.isDone (Sim.run 20 (Sim.load { five := true, p := PSt.init freshSt true } asmText).1).1 = true ∧
    (Sim.run 20 (Sim.load { five := true, p := PSt.init freshSt true } asmText).1).2.1 = 14 := by
  refine ⟨freshSt_ok, rfl, rfl, load_asmText.1, asmText_supported, ?_⟩
  have e : (Sim.load { five := true, p := PSt.init freshSt true } asmText).1 =
      { five := true, p := PSt.init asmSt true } := by
    show ({ five := true, p := { PSt.init freshSt true with st := (load freshSt asmText).st } } : Sim.RSim) = _
    rw [load_asmText_st]; rfl
  rw [e]; decide

/-- The conclusion evaluated: the single-stage `run()` takes 5 steps; both end with exit code 7. -/
example : (Sim.run 20 (Sim.load { five := false, p := PSt.init freshSt true } asmText).1).2.1 = 5 ∧
    (Sim.run 20 (Sim.load { five := false, p := PSt.init freshSt true } asmText).1).2.2 = none ∧
    (Sim.run 20 (Sim.load { five := false, p := PSt.init freshSt true } asmText).1).1.p.st.exitCode = some 7 := by
  have e : (Sim.load { five := false, p := PSt.init freshSt true } asmText).1 =
      { five := false, p := PSt.init asmSt true } := by
    show ({ five := false, p := { PSt.init freshSt true with st := (load freshSt asmText).st } } : Sim.RSim) = _
    rw [load_asmText_st]; rfl
  rw [e]; decide

end

end ArchSim.Props.C13Asm
