/-
C11, the REPORTED statistics of the instruction cache — `RiscvSimulation.get_instruction_cache_stats()` as modelled by
`SimViews.instrStats` (`Model/SimViews.lean`; the driver renders it and the check compares it with the real getter).

The strings the getter reports denote the counters of the instruction cache; composed with `C11.fetch_run_accounting`:
after any sequence of fetches on a freshly reset cache the reported access count reads back as the number of fetches
and the reported hit count as the hit count of the reference cache; after a reset (program load) zero accesses and zero
hits are reported; without an instruction cache nothing is reported.  The highlighted address is the address of the
instruction in the first pipeline register.  Property theorems only; helper lemmas are in `Lemmas/SimViews.lean`.
-/
import ArchSim.Lemmas.SimViews
import ArchSim.Props.C11
import ArchSim.Props.C09Views
import ArchSim.Lemmas.CacheViews

namespace ArchSim.Props.C11Views
open ArchSim ArchSim.Cache ArchSim.Rv ArchSim.Repl ArchSim.SimViews ArchSim.Spec.Digits ArchSim.Spec.TagCache
open ArchSim.Lemmas.SimViews ArchSim.Lemmas.C09 ArchSim.Lemmas.C11 ArchSim.Props.C09Views

/-- Without an instruction cache the getter returns `None`; with one it reports exactly its three counters. -/
theorem instrStats_reports (im : IMem) (fetched : Option Int) :
    (im.cache = none → instrStats im fetched = none) ∧
    (∀ c, im.cache = some c → ∃ st, instrStats im fetched = some st ∧ Reports st c.hits c.accesses c.lastHit) := by
  refine ⟨instrStats_none im fetched, fun c h => ?_⟩
  exact ⟨_, instrStats_some im c fetched h, dec_spec c.hits, dec_spec c.accesses, rfl⟩

/-- Reported = number of fetches / reference.  On a program loaded into a simulation with an instruction cache (the
    cache freshly reset), after any sequence of fetch addresses the reported access count denotes the number of fetches
    performed and the reported hit count and flag those of the reference cache run on the same addresses. -/
theorem reported_fetch_accounting (prog : List Instr) (isLru : Bool) (g : Geo) (penalty : Nat)
    (ha : AssocOK isLru g.assoc) (pcs : List Int) (fetched : Option Int) :
    let im : IMem := { prog := prog, cache := some (ICache.init isLru g penalty) }
    let ref := refRun (polOps isLru) (TagCache.init (polOps isLru) false g penalty) (fetchOps pcs)
    ∃ st, instrStats (fetchRun im pcs).1 fetched = some st ∧ Reports st ref.1.hits pcs.length ref.1.lastHit := by
  intro im ref
  obtain ⟨c', hc, h1, h2, h3, _⟩ := C11.fetch_run_accounting prog isLru g penalty ha pcs
  obtain ⟨st, hst, r1, r2, r3⟩ := (instrStats_reports (fetchRun im pcs).1 fetched).2 c' hc
  refine ⟨st, hst, ?_, ?_, ?_⟩
  · show ofDigits 10 st.hits.toList = some ref.1.hits
    rw [r1, h2]
  · rw [r2, h1]
  · rw [r3, h3]

/-- After a reset (every `load_program`) the getter reports zero hits, zero accesses and no hit. -/
theorem reported_after_reset (prog : List Instr) (c : ICache) (fetched : Option Int) :
    ∃ st, instrStats { prog := prog, cache := some (ICache.reset c) } fetched = some st ∧ Reports st 0 0 false :=
  ⟨_, rfl, dec_spec 0, dec_spec 0, rfl⟩

/-- The highlighted fetch address: in five-stage mode the address of the instruction in the IF/ID register (none for a
    bubble), shown as 32 binary digits that read back as the address modulo 2^32. -/
theorem five_stage_fetch_highlight (p : Pipe.PSt) (c : ICache) (hc : p.st.imem.cache = some c) :
    ∃ st, fiveInstrStats p = some st ∧
      (p.l0 = none → st.address = none) ∧
      ∀ x, p.l0 = some x → ∃ t, st.address = some t ∧
        ofDigits 2 t.toList = some (x.addr % 4294967296).toNat ∧ t.toList.length = 32 := by
  refine ⟨_, instrStats_some p.st.imem c _ hc, fun h => by simp [Stats.ofCounters, h], fun x h => ?_⟩
  exact ⟨bin32 x.addr, by simp [Stats.ofCounters, h], bin32_spec x.addr⟩

/-- The instruction-cache TABLE is current (`get_instruction_cache_entries()`, model `CacheViews.instrCacheTable`): under
    the cache invariant (which holds after any sequence of fetches, `C11.fetch_preserves_inv`), cell `j` of every valid
    way shows the address `base + 4j` and the printed form of the instruction the instruction memory holds THERE (the
    empty string behind the end of the program) — never an instruction of an earlier program. -/
theorem icache_table_current {im : IMem} {c : ICache} (hinv : IInv im c) {k : Nat}
    {cs : CSet Pol (Option Instr)} {w : Way (Option Instr)} (hk : c.sets[k]? = some cs) (hw : w ∈ cs.ways)
    (hv : w.valid = true) (j : Nat) (hj : j < 2 ^ c.geo.blkBits) :
    (CacheViews.blockRow c.geo CacheViews.showInstr w).cells[j]? =
      some (CacheViews.toHexStr (w.base + j * 4) 32,
            CacheViews.showInstr (im.instrAt ((w.base : Int) + 4 * (j : Int)))) := by
  obtain ⟨_, hvals⟩ := (hinv.sets k cs hk).ways w hw hv
  rw [ArchSim.Lemmas.CacheViews.blockRow_valid c.geo CacheViews.showInstr w hv]
  have hget := iBlockFromMem_get im w.base c.geo.words 0 j (by simpa [Geo.words] using hj)
  simp only [List.getElem?_mapIdx, hvals, hget, Option.map_some]
  simp

/-- After a reset (every `load_program`, successful or not) every way of the table is blank. -/
theorem icache_table_blank_after_reset (c : ICache) (cs : CSet Pol (Option Instr)) (hcs : cs ∈ (ICache.reset c).sets)
    (w : Way (Option Instr)) (hw : w ∈ cs.ways) :
    (CacheViews.blockRow c.geo CacheViews.showInstr w).valid = "0" ∧
    (CacheViews.blockRow c.geo CacheViews.showInstr w).cells = List.replicate (2 ^ c.geo.blkBits) ("", "") := by
  have hv : w.valid = false := by
    have := (C11.reset_clears c).1 cs hcs w hw
    simpa using this
  rw [ArchSim.Lemmas.CacheViews.blockRow_invalid c.geo CacheViews.showInstr w hv]
  exact ⟨rfl, rfl⟩

/-! ### non-vacuity -/

example : AssocOK true 2 := ⟨by decide, fun h => by cases h⟩

end ArchSim.Props.C11Views
