/-
C05 — RISC-V assembler, data segment and the constant / address pseudo-instructions.

Property theorems only (plus non-vacuity examples); helper lemmas live in `ArchSim/Lemmas/C05*.lean`.

Vocabulary (from the lemma files):
* `runSeq is s` executes the instruction objects `is` one after the other with `Rv.behavior` from state
  `s`, stopping at the first fault; the pc is not advanced (that is the stage's `+4`, and `behavior` of
  the instructions below never touches the pc).
* `luiAddi rd a = [lui rd, hi ; addi rd, rd, lo]` with `(hi, lo) = hiLo a`, immediates passed through
  the constructors' sign extension (`mkInstr` / `storedImm`).
* `liInstrs rd c` = `[addi rd, x0, c]` when `-2048 ≤ c ≤ 2047`, else `luiAddi rd c`.
* for a data segment `es` (`itemsOf es` its items):  `addrOf items 16384 k` the address `a_k` of
  declaration `k`, `declLen` the number of bytes a declaration occupies, `declSize` its element size,
  `layoutVars`/`layoutEnd` the specified variable table / final counter, `DataOk es` the hypotheses
  (every entry a declaration without in-line label, names pairwise distinct, the segment ends below
  2^32), `dataInit` the state `load` starts the data pass in (empty flat memory, counter 16384).
-/
import ArchSim.Lemmas.C05Groups
import ArchSim.Lemmas.C05Read
import ArchSim.Lemmas.C05Seg
import ArchSim.Lemmas.C05Load
import ArchSim.Lemmas.C05Err
import ArchSim.Lemmas.C05Renum

namespace ArchSim.Props.C05
open ArchSim ArchSim.Asm ArchSim.Rv ArchSim.Lemmas.C05

/-! ## 1  `li rd, c` leaves exactly `c mod 2^32` in `rd`, for every constant -/

/-- `wrapU c` is `c mod 2^32` as a natural number. -/
theorem wrapU_spec (c : Int) : ((wrapU c : Nat) : Int) = c % 4294967296 ∧ wrapU c < 4294967296 := by
  simp only [wrapU]; omega

/-- The arithmetic core of `li`/`la`: for EVERY integer `c`, the sign-extended 20-bit high part times 4096
    plus the sign-extended 12-bit low part of `hiLo c` is `c` modulo 2^32 (the high part can be 2^20,
    which the `lui` constructor wraps to 0). -/
theorem hiLo_recombines (c : Int) :
    (sextImm 20 (hiLo c).1 * 4096 + sextImm 12 (hiLo c).2) % 4294967296 = c % 4294967296 := by
  simp only [hiLo, sext20, sext12]
  split <;> omega

/-- `li rd, c`, for every constant `c : Int`, every register number, every label table, every address
    and every line: the expansion succeeds, the instruction objects built from it are one
    `addi rd, x0, c` when `-2048 ≤ c ≤ 2047` and `lui rd, hi; addi rd, rd, lo` otherwise, and executing
    them on ANY state whose `x0` is 0 raises no fault and yields the same state with `c mod 2^32`
    written to `rd` (through the register file: a write to `x0` is dropped) — no other register, no
    memory, no output, no counter and not the pc is changed. -/
theorem li_value (vars : Vars) (ls : Labels) (addr : Int) (k : Nat) (line : String) (rd : Nat) (c : Int)
    (s : St) (h0 : s.regs 0 = 0) :
    ∃ es, expandOne vars (k, line, .grp (.li rd c)) = .ok es ∧
      buildInstrs ls es addr = .ok (liInstrs rd c) ∧
      liInstrs rd c = (if c > 2047 ∨ c < -2048
        then [mkInstr .lui rd 0 0 (hiLo c).1, mkInstr .addi rd rd 0 (hiLo c).2]
        else [mkInstr .addi rd 0 0 c]) ∧
      runSeq (liInstrs rd c) s = { st := { s with regs := Rv.setReg s.regs rd (wrapU c) }, fault := none } :=
  ⟨_, expandOne_li vars k line rd c, build_li ls addr k line rd c, rfl, runSeq_li rd c s h0⟩

/-- The register-level reading of `li_value` for a real destination register `0 < rd < 32`: afterwards
    `rd` holds `c mod 2^32`, every other register is unchanged. -/
theorem li_value_regs (rd : Nat) (hrd : 0 < rd ∧ rd < 32) (c : Int) (s : St) (h0 : s.regs 0 = 0) :
    (runSeq (liInstrs rd c) s).fault = none ∧
    (runSeq (liInstrs rd c) s).st.regs rd = wrapU c ∧
    (∀ r, r ≠ rd → (runSeq (liInstrs rd c) s).st.regs r = s.regs r) ∧
    (runSeq (liInstrs rd c) s).st = { s with regs := (runSeq (liInstrs rd c) s).st.regs } := by
  rw [runSeq_li rd c s h0]
  exact ⟨rfl, setReg_same _ _ _ hrd, fun r hr => setReg_other _ _ _ _ hr, rfl⟩

/-- Without the hypothesis on `x0` the long form still works: for `c` outside the 12-bit range the group
    does not read any register. -/
theorem li_value_long (rd : Nat) (c : Int) (hc : c > 2047 ∨ c < -2048) (s : St) :
    runSeq (liInstrs rd c) s = { st := { s with regs := Rv.setReg s.regs rd (wrapU c) }, fault := none } := by
  simp only [liInstrs, hc, if_true]
  exact runSeq_luiAddi rd c s

/-! ## 2  `la rd, name[i]` leaves the element's address -/

/-- `la rd, name` / `la rd, name[i]` for a variable recorded as `(addr, size)`: the expansion is always
    the two-instruction group for the constant `addr + size * i` (`i = 0` without index), and executing
    it on any state leaves `(addr + size * i) mod 2^32` in `rd` and changes nothing else. -/
theorem la_value (vars : Vars) (ls : Labels) (at_ : Int) (k : Nat) (line : String) (rd : Nat) (name : String)
    (idx : Option Int) (addr size : Int) (hv : lookupVar vars name = some (addr, size)) (s : St) :
    ∃ es, expandOne vars (k, line, .grp (.memPseudo "la" rd name idx)) = .ok es ∧
      buildInstrs ls es at_ = .ok (luiAddi rd (addr + size * idx.getD 0)) ∧
      runSeq (luiAddi rd (addr + size * idx.getD 0)) s =
        { st := { s with regs := Rv.setReg s.regs rd (wrapU (addr + size * idx.getD 0)) }, fault := none } := by
  refine ⟨_, expandOne_memPseudo vars k line "la" rd name idx addr size hv, ?_, runSeq_luiAddi rd _ s⟩
  simp only [if_true, List.append_nil]
  exact build_luiAddi ls at_ k line rd _

/-- A name that is not in the variable table is rejected (`ParserVariableException` with the line). -/
theorem la_unknown (vars : Vars) (k : Nat) (line : String) (mn : String) (rd : Nat) (name : String)
    (idx : Option Int) (hv : lookupVar vars name = none) :
    expandOne vars (k, line, .grp (.memPseudo mn rd name idx)) = .error (.parser "ParserVariableException" k line) :=
  expandOne_memPseudo_unknown vars k line mn rd name idx hv

/-! ## 3  loads and stores by variable name -/

/-- `op rd, name[i]` for a load mnemonic `op ∈ {lb, lh, lw, lbu, lhu}` and `0 < rd < 32`: the expansion is
    `lui rd, hi; addi rd, rd, lo; op rd, 0(rd)`, and executing it performs ONE counted read of the access
    width at the element's address `a = (addr + size*i) mod 2^32`; on success `rd` receives the loaded
    value (sign- or zero-extended as the plain load does) and only the memory system's own bookkeeping
    and the cycle penalty change besides; on a memory fault `rd` is left holding the address. -/
theorem load_by_name (vars : Vars) (ls : Labels) (at_ : Int) (k : Nat) (line : String) (mn : String) (op : Op)
    (hop : Op.ofMnemonic mn = some op) (hty : op.ty = .memI) (rd : Nat) (hrd : 0 < rd ∧ rd < 32)
    (name : String) (idx : Option Int) (addr size : Int) (hv : lookupVar vars name = some (addr, size)) (s : St) :
    ∃ es, expandOne vars (k, line, .grp (.memPseudo mn rd name idx)) = .ok es ∧
      buildInstrs ls es at_ = .ok (luiAddi rd (addr + size * idx.getD 0) ++ [mkInstr op rd rd 0 0]) ∧
      runSeq (luiAddi rd (addr + size * idx.getD 0) ++ [mkInstr op rd rd 0 0]) s =
        (let a := wrapU (addr + size * idx.getD 0)
         let o := s.mem.read (accessBits op) (a : Nat) true
         match o.res with
         | .error e =>
           { st := { s with regs := Rv.setReg s.regs rd a, mem := o.mem, cycles := s.cycles + o.extra },
             fault := some (.mem e) }
         | .ok v =>
           { st := { s with regs := Rv.setReg s.regs rd (loadExt op v), mem := o.mem, cycles := s.cycles + o.extra },
             fault := none }) := by
  have hne : mn ≠ "la" := by
    intro e; subst e
    have hn : Op.ofMnemonic "la" = none := by decide
    rw [hn] at hop; cases hop
  refine ⟨_, expandOne_memPseudo vars k line mn rd name idx addr size hv, ?_,
    runSeq_loadByName_explicit op hty rd hrd _ s⟩
  simp only [if_neg hne]
  exact build_luiAddi_load ls at_ k line rd _ mn op hop hty

/-- The same as a reduction: the group behaves exactly like the plain load `op rd, 0(rd)` executed in the
    state in which `rd` already holds the element's address (any `rd`). -/
theorem load_by_name_reduces (op : Op) (rd : Nat) (a : Int) (s : St) :
    runSeq (luiAddi rd a ++ [mkInstr op rd rd 0 0]) s =
      behavior (mkInstr op rd rd 0 0) (s.setReg rd (wrapU a)) :=
  runSeq_loadByName op rd a s

/-- `op rs, name[i], rt` for a store mnemonic `op ∈ {sb, sh, sw}` and `0 < rt < 32`: the expansion is
    `lui rt, hi; addi rt, rt, lo; op rs, 0(rt)`; executing it leaves the element's address
    `a = (addr + size*i) mod 2^32` in `rt` and stores the low bits of `rs` at `a` — except that when
    `rs = rt` the value stored is the ADDRESS `a` itself (the register was overwritten first). -/
theorem store_by_name (vars : Vars) (ls : Labels) (at_ : Int) (k : Nat) (line : String) (mn : String) (op : Op)
    (hop : Op.ofMnemonic mn = some op) (hty : op.ty = .s) (rs rt : Nat) (hrt : 0 < rt ∧ rt < 32)
    (name : String) (idx : Option Int) (addr size : Int) (hv : lookupVar vars name = some (addr, size)) (s : St) :
    ∃ es, expandOne vars (k, line, .grp (.sPseudo mn rs name idx rt)) = .ok es ∧
      buildInstrs ls es at_ = .ok (luiAddi rt (addr + size * idx.getD 0) ++ [mkInstr op 0 rt rs 0]) ∧
      runSeq (luiAddi rt (addr + size * idx.getD 0) ++ [mkInstr op 0 rt rs 0]) s =
        (let a := wrapU (addr + size * idx.getD 0)
         let data := if rs = rt then a else s.regs rs
         let o := s.mem.write (accessBits op) (a : Nat) (data % 2 ^ accessBits op) false
         let s1 : St := { s with regs := Rv.setReg s.regs rt a, mem := o.mem, cycles := s.cycles + o.extra }
         match o.res with
         | .error e => { st := s1, fault := some (.mem e) }
         | .ok _ => { st := s1, fault := none }) :=
  ⟨_, expandOne_sPseudo vars k line mn rs name idx rt addr size hv,
    build_luiAddi_store ls at_ k line rs rt _ mn op hop hty,
    runSeq_storeByName_explicit op hty rs rt hrt _ s⟩

/-! ## 4  layout of the data segment -/

/-- The data pass succeeds on every well-formed segment and produces exactly the specified variable
    table and final counter; the memory stays a flat RISC-V memory. -/
theorem layout_ok (es : List Entry) (h : DataOk es) :
    ∃ m', writeData es dataInit =
      { mem := .flat m', vars := layoutVars (itemsOf es) 16384, ctr := layoutEnd (itemsOf es) 16384, err := none } ∧
      m'.cfg = Mem.riscvCfg := by
  obtain ⟨m', hw, hc, _⟩ := data_final es h
  exact ⟨m', hw, hc⟩

/-- Conversely, "processed without error" gives the hypotheses: if the data pass from the initial state
    reports no error then every entry is a declaration without in-line label and the names are pairwise
    distinct; with non-negative `.zero` counts (the grammar only produces digit strings) and a segment
    that ends below 2^32 this is `DataOk`, so all layout theorems below apply to every declaration list
    processed without error. -/
theorem layout_of_no_error (es : List Entry) (h : (writeData es dataInit).err = none) (hz : zerosNonneg es)
    (hfit : layoutEnd (itemsOf es) 16384 ≤ 4294967296) : DataOk es :=
  dataOk_of_no_error es h hz hfit

/-- Error cases of the data pass (at any point of the pass, `o` being its state): an entry with an
    in-line label or that is not a declaration stops the pass with `ParserDataSyntaxException`; a
    declaration whose name is already in the table stops it with `ParserDataDuplicateException`;
    nothing else of the state changes. -/
theorem data_errors (k : Nat) (line : String) (t : Tok) (rest : List Entry) (o : DataOut) :
    (t.lbl.isSome = true ∨ isDeclKind t.item = false →
      writeData ((k, line, t) :: rest) o = { o with err := some (.parser "ParserDataSyntaxException" k line) }) ∧
    (t.lbl = none → isDeclKind t.item = true → (lookupVar o.vars (declName t.item)).isSome = true →
      writeData ((k, line, t) :: rest) o = { o with err := some (.parser "ParserDataDuplicateException" k line) }) :=
  ⟨writeData_cons_bad k line t rest o, writeData_cons_dup k line t rest o⟩

/-- Addresses: variable 0 starts at the first data address 16384, variable `k+1` at the next multiple
    of 4 at or after the end of variable `k`, and every variable starts on a 4-byte boundary. -/
theorem layout_addresses (items : List Item) :
    addrOf items 16384 0 = 16384 ∧
    (∀ k (hk : k + 1 < items.length),
      addrOf items 16384 (k + 1) = align4 (addrOf items 16384 k + declLen (items[k]'(by omega)))) ∧
    (∀ k, addrOf items 16384 k % 4 = 0) :=
  ⟨by rw [addrOf_zero]; decide, fun k hk => addrOf_succ items 16384 k hk, fun k => addrOf_aligned items 16384 k⟩

/-- `align4` rounds up to the next multiple of 4 (by less than 4). -/
theorem align4_spec (a : Int) : a ≤ align4 a ∧ align4 a < a + 4 ∧ align4 a % 4 = 0 :=
  ArchSim.Lemmas.C05.align4_spec a

/-- Sizes: a `.byte/.half/.word` declaration occupies 1/2/4 bytes per value, a string its characters
    plus one, `.zero n` occupies `4n` bytes; the recorded element size is 1/2/4, 1 for strings and 4
    for `.zero`. -/
theorem layout_sizes (n : String) (vals : List Int) (body : List Char) (c : Int) :
    declLen (.varDecl n "byte" vals) = vals.length ∧ declSize (.varDecl n "byte" vals) = 1 ∧
    declLen (.varDecl n "half" vals) = 2 * vals.length ∧ declSize (.varDecl n "half" vals) = 2 ∧
    declLen (.varDecl n "word" vals) = 4 * vals.length ∧ declSize (.varDecl n "word" vals) = 4 ∧
    declLen (.strDecl n body) = body.length + 1 ∧ declSize (.strDecl n body) = 1 ∧
    declLen (.zeroDecl n c) = 4 * c ∧ declSize (.zeroDecl n c) = 4 := by
  have e1 : tyBits "byte" = 8 := by decide
  have e2 : tyBits "half" = 16 := by decide
  have e3 : tyBits "word" = 32 := by decide
  simp only [declLen, declSize, e1, e2, e3]
  and_intros <;> first | rfl | trivial | omega

/-- The variable table lists the declarations in order: entry `k` is `(name_k, a_k, element size_k)`. -/
theorem layout_table (es : List Entry) (h : DataOk es) (k : Nat) (hk : k < (itemsOf es).length) :
    ((writeData es dataInit).vars)[k]? =
      some (declName (itemsOf es)[k], addrOf (itemsOf es) 16384 k, declSize (itemsOf es)[k]) := by
  obtain ⟨m', hw, _⟩ := data_final es h
  rw [hw]
  simp only
  rw [List.getElem?_eq_getElem (by rw [layoutVars_length]; exact hk), layoutVars_get _ _ k hk]

/-- Resolution of `name[i]`: looking up the name of declaration `k` gives `(a_k, size_k)`, so that `la`,
    load and store pseudo-instructions referring to `name_k[i]` are expanded (see `la_value`,
    `load_by_name`, `store_by_name`) for the address `a_k + size_k * i`; for `.zero` that is
    `a_k + 4 i`. -/
theorem var_addr (es : List Entry) (h : DataOk es) (k : Nat) (hk : k < (itemsOf es).length)
    (kk : Nat) (line : String) (rd : Nat) (i : Int) :
    lookupVar (writeData es dataInit).vars (declName (itemsOf es)[k]) =
      some (addrOf (itemsOf es) 16384 k, declSize (itemsOf es)[k]) ∧
    expandOne (writeData es dataInit).vars (kk, line, .grp (.memPseudo "la" rd (declName (itemsOf es)[k]) (some i))) =
      .ok (luiAddiEntries kk line rd (addrOf (itemsOf es) 16384 k + declSize (itemsOf es)[k] * i)) := by
  obtain ⟨m', hw, _⟩ := data_final es h
  have hl := lookupVar_layoutVars (itemsOf es) 16384 h.names k hk
  rw [hw]
  refine ⟨hl, ?_⟩
  rw [expandOne_memPseudo _ kk line "la" rd _ (some i) _ _ hl]
  simp

/-- Element `i` of a `.byte` / `.half` / `.word` declaration (declaration `k`, at `a_k`) reads back, with
    the accessor of the element width at `a_k + i * size`, as `value mod 2^(8*size)`: elements are stored
    at 1/2/4-byte strides, reduced modulo the element width. -/
theorem layout_elements (es : List Entry) (h : DataOk es) (m' : Mem.Mem)
    (hm : (writeData es dataInit).mem = .flat m') (k : Nat) (hk : k < (itemsOf es).length)
    (n ty : String) (vals : List Int) (hit : (itemsOf es)[k] = .varDecl n ty vals) (i : Nat) (hi : i < vals.length) :
    Mem.read m' (tyBits ty) (addrOf (itemsOf es) 16384 k + (i : Int) * ((tyBits ty / 8 : Nat) : Int)) =
      some (.ok ((vals[i] % (2 : Int) ^ tyBits ty).toNat)) := by
  obtain ⟨m1, hw, hc, _, _, hl⟩ := data_final es h
  rw [hw] at hm; simp only [MemSys.flat.injEq] at hm; subst hm
  have hd := LaidOut_get m1 _ _ hl k hk
  have hlo := (addrOf_bounds (itemsOf es) 16384 h.decls k hk).1
  have hhi := addrOf_end (itemsOf es) 16384 h.decls k hk
  have hfit := h.fit
  rw [hit] at hd hhi
  exact DeclAt_read_elem m1 hc n ty vals _ hlo (by omega) hd i hi

/-- … and the bytes of each element are little-endian: byte `j` of element `i` is
    `(value mod 2^(8*size)) / 256^j mod 256`. -/
theorem layout_elements_little_endian (es : List Entry) (h : DataOk es) (m' : Mem.Mem)
    (hm : (writeData es dataInit).mem = .flat m') (k : Nat) (hk : k < (itemsOf es).length)
    (n ty : String) (vals : List Int) (hit : (itemsOf es)[k] = .varDecl n ty vals) (i : Nat) (hi : i < vals.length)
    (j : Nat) (hj : j < tyBits ty / 8) :
    Mem.read m' 8 (addrOf (itemsOf es) 16384 k + (i : Int) * ((tyBits ty / 8 : Nat) : Int) + (j : Int)) =
      some (.ok ((vals[i] % (2 : Int) ^ tyBits ty).toNat / 2 ^ (8 * j) % 256)) := by
  obtain ⟨m1, hw, hc, _, _, hl⟩ := data_final es h
  rw [hw] at hm; simp only [MemSys.flat.injEq] at hm; subst hm
  have hd := LaidOut_get m1 _ _ hl k hk
  have hlo := (addrOf_bounds (itemsOf es) 16384 h.decls k hk).1
  have hhi := addrOf_end (itemsOf es) 16384 h.decls k hk
  have hfit := h.fit
  rw [hit] at hd hhi
  exact DeclAt_read_elem_byte m1 hc n ty vals _ hlo (by omega) hd i hi j hj

/-- A string (declaration `k`) reads back byte by byte as its characters' code points modulo 256,
    followed by a terminating zero byte. -/
theorem layout_string (es : List Entry) (h : DataOk es) (m' : Mem.Mem)
    (hm : (writeData es dataInit).mem = .flat m') (k : Nat) (hk : k < (itemsOf es).length)
    (n : String) (body : List Char) (hit : (itemsOf es)[k] = .strDecl n body) :
    (∀ (i : Nat) (hi : i < body.length),
      Mem.read m' 8 (addrOf (itemsOf es) 16384 k + (i : Int)) = some (.ok (body[i].toNat % 256))) ∧
    Mem.read m' 8 (addrOf (itemsOf es) 16384 k + (body.length : Int)) = some (.ok 0) := by
  obtain ⟨m1, hw, hc, _, _, hl⟩ := data_final es h
  rw [hw] at hm; simp only [MemSys.flat.injEq] at hm; subst hm
  have hd := LaidOut_get m1 _ _ hl k hk
  have hlo := (addrOf_bounds (itemsOf es) 16384 h.decls k hk).1
  have hhi := addrOf_end (itemsOf es) 16384 h.decls k hk
  have hfit := h.fit
  rw [hit] at hd hhi
  exact DeclAt_read_string m1 hc n body _ hlo (by omega) hd

/-- `.zero c` (declaration `k`) reserves `c` words that read zero: the counter advances by `4c`, every
    cell of the block is 0 in the final memory (no later declaration overlaps it), so word `i < c` at
    `a_k + 4i` reads 0. -/
theorem layout_zero (es : List Entry) (h : DataOk es) (m' : Mem.Mem)
    (hm : (writeData es dataInit).mem = .flat m') (k : Nat) (hk : k < (itemsOf es).length)
    (n : String) (c : Int) (hit : (itemsOf es)[k] = .zeroDecl n c) :
    declLen (itemsOf es)[k] = 4 * c ∧
    (∀ x, addrOf (itemsOf es) 16384 k ≤ x → x < addrOf (itemsOf es) 16384 k + 4 * c → m'.cells x = 0) ∧
    (∀ i : Nat, (i : Int) < c → Mem.read m' 32 (addrOf (itemsOf es) 16384 k + 4 * (i : Int)) = some (.ok 0)) := by
  obtain ⟨m1, hw, hc, _, _, hl⟩ := data_final es h
  rw [hw] at hm; simp only [MemSys.flat.injEq] at hm; subst hm
  have hd := LaidOut_get m1 _ _ hl k hk
  have hlo := (addrOf_bounds (itemsOf es) 16384 h.decls k hk).1
  have hhi := addrOf_end (itemsOf es) 16384 h.decls k hk
  have hfit := h.fit
  rw [hit] at hd hhi ⊢
  simp only [declLen] at hhi
  refine ⟨rfl, hd.1, fun i hi => ?_⟩
  apply read_zero_cells m1 hc 32 (Or.inr (Or.inr rfl)) _ (by omega) (by simp; omega)
  intro j hj
  exact hd.1 _ (by omega) (by simp at hj; omega)

/-- Padding: the bytes between the end of declaration `k` and the next 4-byte boundary are zero, and so
    is everything from the final counter on and everything below 16384. -/
theorem layout_padding (es : List Entry) (h : DataOk es) (m' : Mem.Mem)
    (hm : (writeData es dataInit).mem = .flat m') :
    (∀ k (hk : k < (itemsOf es).length) (x : Int),
      addrOf (itemsOf es) 16384 k + declLen (itemsOf es)[k] ≤ x →
      x < align4 (addrOf (itemsOf es) 16384 k + declLen (itemsOf es)[k]) → m'.cells x = 0) ∧
    (∀ x, layoutEnd (itemsOf es) 16384 ≤ x → m'.cells x = 0) ∧ (∀ x, x < 16384 → m'.cells x = 0) := by
  obtain ⟨m1, hw, hc, hz, hb, hl⟩ := data_final es h
  rw [hw] at hm; simp only [MemSys.flat.injEq] at hm; subst hm
  exact ⟨fun k hk x h1 h2 => (LaidOut_get m1 _ _ hl k hk).2 x h1 h2, hz, hb⟩

/-- The hypothesis "the segment ends below 2^32" of `DataOk` is necessary: the address counter is an
    unbounded integer while memory addresses wrap modulo 2^32, so after `z: .zero 1073741824` the next
    variable `x: .word 7` is recorded at 16384 + 2^32, the pass reports no error, and the word is stored
    over `z[0]` — which then reads 7, not 0. (A data segment of 4 GiB cannot occur in practice; recorded
    as a boundary of the property, not a defect.) -/
theorem layout_needs_fit :
    (writeData exWrap dataInit).err = none ∧
    (writeData exWrap dataInit).vars = [("z", 16384, 4), ("x", 4294983680, 4)] ∧
    Mem.read (writeData exWrap dataInit).mem.backing 32 16384 = some (.ok 7) :=
  ⟨by decide, by decide, rfl⟩

/-! ## 5  The order of the segments does not matter -/

/-- `.data` before `.text`: for a `.data` directive `d`, a `.text` directive `t`, and entry lists `data`,
    `text` without directives (the line number of `t` not occurring in `data`, as line numbers are
    distinct), `segment` returns `(data, text)`. -/
theorem segment_data_first (d t : Entry) (data text : List Entry) (hd : isDir "data" d = true)
    (ht : isDir "text" t = true) (hnd : noDir data) (hnt : noDir text) (hline : ∀ e ∈ data, e.1 ≠ t.1) :
    segment ([d] ++ data ++ [t] ++ text) = .ok (data, text) := by
  simpa using ArchSim.Lemmas.C05.segment_data_first d t data text hd ht hnd hnt hline

/-- `.text` before `.data`: the same pair. -/
theorem segment_text_first (d t : Entry) (data text : List Entry) (hd : isDir "data" d = true)
    (ht : isDir "text" t = true) (hnd : noDir data) (hnt : noDir text) (hline : ∀ e ∈ text, e.1 ≠ d.1) :
    segment ([t] ++ text ++ [d] ++ data) = .ok (data, text) := by
  simpa using ArchSim.Lemmas.C05.segment_text_first d t data text hd ht hnd hnt hline

/-- No `.text` directive, instructions first: the same pair (for a non-empty `text`). -/
theorem segment_text_implicit (d : Entry) (data text : List Entry) (hd : isDir "data" d = true)
    (hnd : noDir data) (hnt : noDir text) (hne : text ≠ []) (hline : ∀ e ∈ text, e.1 ≠ d.1) :
    segment (text ++ [d] ++ data) = .ok (data, text) := by
  cases text with
  | nil => exact absurd rfl hne
  | cons first text' =>
    simpa using ArchSim.Lemmas.C05.segment_text_implicit d first data text' hd hnd hnt hline

/-- No directive at all: everything is text, there is no data. -/
theorem segment_no_directive (text : List Entry) (hnt : noDir text) : segment text = .ok ([], text) := by
  cases text with
  | nil => rfl
  | cons first text' => exact ArchSim.Lemmas.C05.segment_no_directive first text' hnt

/-- `load` looks at the token list only through the pair `segment` returns: after the reset, everything
    it does is `loadSeg (data, text)`. Hence two sources whose token lists are segmented into the same
    pair — in particular the three arrangements above — are loaded to the same state, memory image and
    instruction list included. -/
theorem segment_order_load (s : St) (t₁ t₂ : String) (toks₁ toks₂ : List Entry)
    (h₁ : tokenize (sanitize t₁) = .ok toks₁) (h₂ : tokenize (sanitize t₂) = .ok toks₂)
    (hs : segment toks₁ = segment toks₂) : load s t₁ = load s t₂ :=
  load_eq_of_segment_eq s t₁ t₂ toks₁ toks₂ h₁ h₂ hs

/-- Segment order does not matter for the loaded image. Take a source `t₁` whose token list is
    `.data, data…, .text, text…` and a source `t₂` whose token list is `.text, text…, .data, data…` with
    the same entries up to their line numbers (moving a segment renumbers its lines: `f` renumbers the
    data lines, the injective `g` the text lines; line numbers are distinct as in every token list).
    If loading `t₁` succeeds, loading `t₂` gives EXACTLY the same result: same memory image, same
    instruction list, no error. (Line numbers only occur in error messages and in the matching of
    in-line labels with their lines.) -/
theorem segment_order_image (s : St) (t₁ t₂ : String) (d t d' t' : Entry) (data text : List Entry)
    (f g : Nat → Nat) (hg : ∀ a b, g a = g b → a = b)
    (hd : isDir "data" d = true) (ht : isDir "text" t = true)
    (hd' : isDir "data" d' = true) (ht' : isDir "text" t' = true)
    (hnd : noDir data) (hnt : noDir text)
    (hline₁ : ∀ e ∈ data, e.1 ≠ t.1) (hline₂ : ∀ e ∈ text, g e.1 ≠ d'.1)
    (h₁ : tokenize (sanitize t₁) = .ok ([d] ++ data ++ [t] ++ text))
    (h₂ : tokenize (sanitize t₂) = .ok ([t'] ++ text.map (renE g) ++ [d'] ++ data.map (renE f)))
    (hok : (load s t₁).err = none) :
    load s t₂ = load s t₁ := by
  have hs₁ := segment_data_first d t data text hd ht hnd hnt hline₁
  have hnd' : noDir (data.map (renE f)) := by
    intro e he
    obtain ⟨e0, he0, rfl⟩ := List.mem_map.mp he
    exact hnd e0 he0
  have hnt' : noDir (text.map (renE g)) := by
    intro e he
    obtain ⟨e0, he0, rfl⟩ := List.mem_map.mp he
    exact hnt e0 he0
  have hs₂ := segment_text_first d' t' (data.map (renE f)) (text.map (renE g)) hd' ht' hnd' hnt' (by
    intro e he
    obtain ⟨e0, he0, rfl⟩ := List.mem_map.mp he
    exact hline₂ e0 he0)
  have e₁ : load s t₁ = loadSeg (loadReset s) data text := by
    rw [load_factors, h₁]; simp only [hs₁]
  have e₂ : load s t₂ = loadSeg (loadReset s) (data.map (renE f)) (text.map (renE g)) := by
    rw [load_factors, h₂]; simp only [hs₂]
  rw [e₁] at hok ⊢
  rw [e₂]
  exact loadSeg_renum f g hg (loadReset s) data text hok

/-- The same for a source without `.text` directive whose instructions come first
    (`text…, .data, data…`, `text` non-empty). -/
theorem segment_order_image_implicit (s : St) (t₁ t₂ : String) (d t d' : Entry) (data text : List Entry)
    (f g : Nat → Nat) (hg : ∀ a b, g a = g b → a = b)
    (hd : isDir "data" d = true) (ht : isDir "text" t = true) (hd' : isDir "data" d' = true)
    (hnd : noDir data) (hnt : noDir text) (hne : text ≠ [])
    (hline₁ : ∀ e ∈ data, e.1 ≠ t.1) (hline₂ : ∀ e ∈ text, g e.1 ≠ d'.1)
    (h₁ : tokenize (sanitize t₁) = .ok ([d] ++ data ++ [t] ++ text))
    (h₂ : tokenize (sanitize t₂) = .ok (text.map (renE g) ++ [d'] ++ data.map (renE f)))
    (hok : (load s t₁).err = none) :
    load s t₂ = load s t₁ := by
  have hs₁ := segment_data_first d t data text hd ht hnd hnt hline₁
  have hnd' : noDir (data.map (renE f)) := by
    intro e he
    obtain ⟨e0, he0, rfl⟩ := List.mem_map.mp he
    exact hnd e0 he0
  have hnt' : noDir (text.map (renE g)) := by
    intro e he
    obtain ⟨e0, he0, rfl⟩ := List.mem_map.mp he
    exact hnt e0 he0
  have hs₂ := segment_text_implicit d' (data.map (renE f)) (text.map (renE g)) hd' hnd' hnt' (by simpa using hne) (by
    intro e he
    obtain ⟨e0, he0, rfl⟩ := List.mem_map.mp he
    exact hline₂ e0 he0)
  have e₁ : load s t₁ = loadSeg (loadReset s) data text := by
    rw [load_factors, h₁]; simp only [hs₁]
  have e₂ : load s t₂ = loadSeg (loadReset s) (data.map (renE f)) (text.map (renE g)) := by
    rw [load_factors, h₂]; simp only [hs₂]
  rw [e₁] at hok ⊢
  rw [e₂]
  exact loadSeg_renum f g hg (loadReset s) data text hok

/-- The layout theorems apply to `load`: on a state whose data memory is the flat RISC-V memory, once the
    source is tokenized and segmented into `(data, text)`, the memory `load` leaves — whether or not a
    later pass reports an error — is the memory of the data pass run from `dataInit` on `data`. -/
theorem load_memory_image (s : St) (m : Mem.Mem) (hm : s.mem = .flat m) (hc : m.cfg = Mem.riscvCfg)
    (text : String) (toks data text' : List Entry) (ht : tokenize (sanitize text) = .ok toks)
    (hs : segment toks = .ok (data, text')) :
    (load s text).st.mem = (writeData data dataInit).mem := by
  rw [load_factors, ht]
  simp only [hs]
  rw [loadSeg_mem, loadReset_flat s m hm hc]

/-- … and the pseudo-instructions of the text segment are expanded with the data pass's variable table,
    labels are computed on the expanded listing with the in-line labels of the text lines, and the
    instruction memory receives the objects `buildInstrs` makes from address 0. -/
theorem load_success (s : St) (m : Mem.Mem) (hm : s.mem = .flat m) (hc : m.cfg = Mem.riscvCfg)
    (text : String) (toks data text' : List Entry) (ht : tokenize (sanitize text) = .ok toks)
    (hs : segment toks = .ok (data, text')) (expanded : List TEntry) (ls : Labels) (instrs : List Instr)
    (hd : (writeData data dataInit).err = none)
    (he : expandAll (writeData data dataInit).vars (text'.map fun (k, line, t) => (k, line, t.item)) = .ok expanded)
    (hl : processLabels expanded (text'.filterMap fun (k, _, t) => t.lbl.map fun l => (k, l)) [] 0 = .ok ls)
    (hb : buildInstrs ls expanded 0 = .ok instrs) (hlen : instrs.length ≤ 4096) :
    (load s text).err = none ∧ (load s text).st.imem.prog = instrs ∧
    (load s text).st.mem = (writeData data dataInit).mem ∧ (load s text).st.regs = s.regs := by
  have hinit := loadReset_flat s m hm hc
  rw [load_factors, ht]
  simp only [hs]
  rw [loadSeg_ok (loadReset s) data text' expanded ls instrs (by rw [hinit]; exact hd) (by rw [hinit]; exact he)
    hl hb hlen, hinit]
  exact ⟨rfl, rfl, rfl, rfl⟩

/-! ## Non-vacuity -/

-- `li` on a fresh state: a small constant, a negative one, one whose low part is ≥ 2048, the constant
-- 2^32 - 1 (high part 2^20, wrapped by the constructor), and a constant far outside 32 bits
example : (runSeq (liInstrs 5 42) freshSt).st.regs 5 = 42 := by decide
example : (runSeq (liInstrs 5 (-1)) freshSt).st.regs 5 = 4294967295 := by decide
example : liInstrs 5 0x12345FFF = [mkInstr .lui 5 0 0 0x12346, mkInstr .addi 5 5 0 0xFFF] := by decide
example : (runSeq (liInstrs 5 0x12345FFF) freshSt).st.regs 5 = 0x12345FFF := by decide
example : hiLo 4294967295 = (1048576, 4095) := by decide
example : (runSeq (liInstrs 5 4294967295) freshSt).st.regs 5 = 4294967295 := by decide
example : (runSeq (liInstrs 5 (-123456789012345)) freshSt).st.regs 5 = wrapU (-123456789012345) := by decide
-- the hypothesis of `li_value`
example : freshSt.regs 0 = 0 := rfl

-- a data segment with all five kinds of declaration satisfies `DataOk`; the table and the counter
-- (byte array of 3 padded to 4; half-words; string of 3 + terminator; 2 reserved words; 2 words)
example : DataOk exData := exData_ok
example : (writeData exData dataInit).vars =
    [("a", 16384, 1), ("h", 16388, 2), ("s", 16392, 1), ("z", 16396, 4), ("w", 16404, 4)] := by decide
example : (writeData exData dataInit).ctr = 16412 ∧ (writeData exData dataInit).err = none := by decide
example : (List.range 5).map (addrOf (itemsOf exData) 16384) = [16384, 16388, 16392, 16396, 16404] := by decide
-- read-back: -1 as a byte, 256 as a byte, 70000 mod 2^16, '!' and the terminator, a reserved word,
-- -2 as a word, and the low byte of the little-endian word 0x11223344
example : Mem.read (writeData exData dataInit).mem.backing 8 16385 = some (.ok 255) := rfl
example : Mem.read (writeData exData dataInit).mem.backing 8 16386 = some (.ok 0) := rfl
example : Mem.read (writeData exData dataInit).mem.backing 16 16390 = some (.ok 4464) := rfl
example : Mem.read (writeData exData dataInit).mem.backing 8 16394 = some (.ok 33) := rfl
example : Mem.read (writeData exData dataInit).mem.backing 8 16395 = some (.ok 0) := rfl
example : Mem.read (writeData exData dataInit).mem.backing 32 16400 = some (.ok 0) := rfl
example : Mem.read (writeData exData dataInit).mem.backing 32 16404 = some (.ok 4294967294) := rfl
example : Mem.read (writeData exData dataInit).mem.backing 8 16408 = some (.ok 0x44) := rfl
-- `la x6, w[1]` with that table: the group for 16404 + 4 * 1
example : expandOne (writeData exData dataInit).vars (9, "la x6, w[1]", .grp (.memPseudo "la" 6 "w" (some 1))) =
    .ok (luiAddiEntries 9 "la x6, w[1]" 6 16408) := by rfl
example : (runSeq (luiAddi 6 16408) freshSt).st.regs 6 = 16408 := by decide
-- the segment theorems on token lists: `.data / v: .word 5 / .text / foo: la x5, v / jal x0, foo`, and the
-- same entries with the text segment first (text lines renumbered by the injective `+ 10`, data lines by
-- `+ 30`): both are split into the same pair up to line numbers, and the loads agree
example : segment ([exDDir 1] ++ exSegData ++ [exTDir 3] ++ exSegText) = .ok (exSegData, exSegText) := by rfl
example : segment ([exTDir 1] ++ exSegText.map (renE (· + 10)) ++ [exDDir 20] ++ exSegData.map (renE (· + 30)))
    = .ok (exSegData.map (renE (· + 30)), exSegText.map (renE (· + 10))) := by rfl
example : noDir exSegData ∧ noDir exSegText := by
  constructor <;> (intro e he; simp only [exSegData, exSegText, List.mem_cons, List.not_mem_nil, or_false] at he;
                   rcases he with rfl | rfl <;> decide)
example : ∀ a b : Nat, a + 10 = b + 10 → a = b := by omega
-- the load of that token pair succeeds: one word of data, three instructions, `foo` = 0
example : (loadSeg freshSt exSegData exSegText).err = none := by rfl
example : (loadSeg freshSt exSegData exSegText).st.imem.prog =
    [ { op := .lui, rd := 5, imm := 4 }, { op := .addi, rd := 5, rs1 := 5, imm := 0 },
      { op := .jal, rd := 0, imm := -8, aux := 0 } ] := by rfl
example : loadSeg freshSt (exSegData.map (renE (· + 30))) (exSegText.map (renE (· + 10))) =
    loadSeg freshSt exSegData exSegText :=
  loadSeg_renum _ _ (by omega) _ _ _ (by rfl)
-- directives for the segment theorems
example : isDir "data" (1, ".data", { lbl := none, item := .directive "data" }) = true
    ∧ isDir "text" (5, ".text", { lbl := none, item := .directive "text" }) = true := by decide

end ArchSim.Props.C05
