import ArchSim.Model.Asm
namespace ArchSim.Props.C05
open ArchSim.Asm
/-- Alignment never moves an address down and lands on a multiple of 4. -/
theorem align4_spec (a : Int) : a ≤ align4 a ∧ align4 a < a + 4 ∧ align4 a % 4 = 0 := by
  simp only [align4]; split <;> omega
end ArchSim.Props.C05
