/-
C07, end to end: the cycle-count / schedule theorems of `Props/C07.lean` for the program the ASSEMBLER stores for a
source text, loaded into the power-on state or into any state that has not started. The hypotheses of C07 about
the program (`PlainInstr`, at most 4096 instructions), about the start state (`LineStart`, flat data memory, no
instruction cache) and about the instruction memory (fetch returns the stored instruction) are discharged by the
loader (`C04Asm`, `Lemmas/E2E2Load.lean`); what remains are hypotheses about the RUN (this cycle raises no fault)
and decidable conditions on the stored program (`PlainOps`, `HazardFree`).

Property theorems only (plus non-vacuity examples); helper lemmas: `ArchSim/Lemmas/E2E2*.lean`.

Vocabulary
 * `load s text`: `RiscvSimulation.load_program(text)` on the architectural state `s`; `freshSt`: power-on state;
 * `PSt.init st hz`: the empty five-stage pipeline over `st`, hazard detection `hz`; `pipeRun n p`: `n` cycles;
   `runOK n p`: none of the first `n` cycles raises;
 * `fetchExtra p` / `memExtra p`: the extra cycles of this cycle's instruction fetch / of the MEM stage's data access
   (`Props/C07.lean`); `penaltySum n p`: their sum over the first `n` cycles from `p`;
 * `ICacheOK s`: the instruction cache of `s`, if any, has an associativity that suits its policy (decidable; what the
   Python constructor asserts); `IsFlat ms`: `ms` is a flat memory (no data cache);
 * `PlainOps prog`: every operation is register / immediate arithmetic, a shift, `lui` or `auipc` (decidable);
   `HazardFree prog`: no instruction reads a non-x0 register written by one of the two before it (decidable);
 * `erase`, `outcomes`, `skRun`, `Skeleton.step`: the data-free schedule skeleton of `Props/C07.lean` G.
-/
import ArchSim.Props.C07
import ArchSim.Props.C04Asm
import ArchSim.Lemmas.E2E2Ex

namespace ArchSim.Props.C07Asm
open ArchSim ArchSim.Rv ArchSim.Asm ArchSim.Pipe ArchSim.Lemmas.C07 ArchSim.Lemmas.C02Split ArchSim.Spec
open ArchSim.Lemmas.E2E ArchSim.Lemmas.E2E2

/-! ### A. the cycle counter -/

/-- CYCLE INCREMENT, any configuration. Load ANY text into ANY state `s` — any data memory system (flat, or a data
    cache of any configuration), any instruction cache — and run the five-stage pipeline (hazard detection on or
    off). Every cycle that raises no fault adds exactly one, plus the extra cycles of that cycle's instruction
    fetch, plus the extra cycles of the MEM stage's data access; hence after `n` fault-free cycles the counter is
    the counter before the load plus `n` plus the sum of these penalties. -/
theorem assembled_cycle_count (s : St) (text : String) (hz : Bool) (n : Nat)
    (hr : runOK n (PSt.init (load s text).st hz)) :
    (pipeRun n (PSt.init (load s text).st hz)).st.cycles =
      s.cycles + n + penaltySum n (PSt.init (load s text).st hz) ∧
    ((step (pipeRun n (PSt.init (load s text).st hz))).fault = none →
      (pipeRun (n + 1) (PSt.init (load s text).st hz)).st.cycles =
        (pipeRun n (PSt.init (load s text).st hz)).st.cycles + 1 +
          fetchExtra (pipeRun n (PSt.init (load s text).st hz)) +
          memExtra (pipeRun n (PSt.init (load s text).st hz))) := by
  refine ⟨?_, fun hf => ArchSim.Props.C07.cycle_increment _ hf⟩
  rw [pipeRun_cycles n _ hr]
  show (load s text).st.cycles + n + _ = _
  rw [(load_frame s text).2.2.2.2.1]

/-- NO CACHES: ONE CYCLE PER STEP. Load ANY text (accepted or not) into a state `s` with a flat RISC-V data memory
    (`StOK`) and no instruction cache — e.g. the power-on state. Then after EVERY number `n` of five-stage steps,
    faulting or not, exactly `n` cycles were counted; the data memory is still flat and there is still no
    instruction cache (the hypotheses of `C07.cycle_increment_no_cache` hold in every reached state). -/
theorem assembled_cycles_no_cache (s : St) (text : String) (hs : ArchSim.Lemmas.C01.StOK s)
    (hc : s.imem.cache = none) (hz : Bool) (n : Nat) :
    (pipeRun n (PSt.init (load s text).st hz)).st.cycles = s.cycles + n ∧
    IsFlat (pipeRun n (PSt.init (load s text).st hz)).st.mem ∧
    (pipeRun n (PSt.init (load s text).st hz)).st.imem = (load s text).st.imem ∧
    (pipeRun n (PSt.init (load s text).st hz)).st.imem.cache = none := by
  have hf : IsFlat (PSt.init (load s text).st hz).st.mem := load_isFlat s text hs
  have hn : (PSt.init (load s text).st hz).st.imem.cache = none := load_nocache s text hc
  refine ⟨?_, pipeRun_isFlat n _ hf, pipeRun_imem_nocache n _ hn, ?_⟩
  · rw [pipeRun_cycles_plain n _ hf hn]
    show (load s text).st.cycles + n = _
    rw [(load_frame s text).2.2.2.2.1]
  · rw [pipeRun_imem_nocache n _ hn]; exact hn

/-- SINGLE-CYCLE MODE. (1) For ANY text, state and `n`: a single-cycle step adds one plus the fetch extra plus the
    extra of the instruction's counted data access (no hypothesis). (2) Without caches — `s` satisfies `StOK`, has
    no instruction cache, the text is accepted and contains no CSR instruction, `fence` or `ebreak` — after EVERY
    number `n` of single-cycle steps exactly `n` cycles were counted. -/
theorem assembled_single_cycle_count (s : St) (text : String) (n : Nat) :
    (singleStep (singleRun n (load s text).st)).st.cycles =
      (singleRun n (load s text).st).cycles + 1 + singleExtra (singleRun n (load s text).st) ∧
    (ArchSim.Lemmas.C01.StOK s → s.imem.cache = none → (load s text).err = none →
      AllSupported (load s text).st.imem.prog → (singleRun n (load s text).st).cycles = s.cycles + n) := by
  refine ⟨ArchSim.Props.C07.single_cycle_increment _, fun hs hc h hsup => ?_⟩
  rw [singleRun_cycles_plain _ (load_progWF_pipe s text h hsup) _ (load_sok s text hs hc) n,
    (load_frame s text).2.2.2.2.1]

/-! ### D. independent straight-line code takes n + 4 cycles -/

/-- N + 4, END TO END. Load an accepted text into a state `s` at pc 0 that has not exited and has no instruction
    cache (e.g. the power-on state) — any data memory system, any register contents. If every operation of the
    stored program is plain (`PlainOps`) and no instruction reads a non-x0 register written by one of the two before
    it (`HazardFree`), then, with hazard detection on or off: no cycle ever raises; after `k` cycles exactly
    `min n (k - 4)` instructions have retired (instruction `m` retires in cycle `m + 5`) and `k` cycles were
    counted; the pipeline is done after exactly `n + 4` cycles and, for `n ≥ 1`, not before (`n` = number of
    stored instructions). No `PlainInstr` / length / `LineStart` hypothesis is left. -/
theorem assembled_straight_line_n_plus_4 (s : St) (text : String) (hpc : s.pc = 0) (hx : s.exitCode = none)
    (hc : s.imem.cache = none) (h : (load s text).err = none) (hz : Bool) (prog : List Instr)
    (hprog : prog = (load s text).st.imem.prog) (hplain : PlainOps prog) (hfree : HazardFree prog) :
    (∀ k, (step (pipeRun k (PSt.init (load s text).st hz))).fault = none) ∧
    (∀ k, (pipeRun k (PSt.init (load s text).st hz)).st.instrs = s.instrs + min prog.length (k - 4) ∧
          (pipeRun k (PSt.init (load s text).st hz)).st.cycles = s.cycles + k ∧
          (pipeRun k (PSt.init (load s text).st hz)).stalled = none) ∧
    isDone (pipeRun (prog.length + 4) (PSt.init (load s text).st hz)) = true ∧
    (0 < prog.length → ∀ k, k < prog.length + 4 → isDone (pipeRun k (PSt.init (load s text).st hz)) = false) := by
  subst hprog
  obtain ⟨h1, h2, h3, _, _, h6⟩ := ArchSim.Props.C07.straight_line_n_plus_4 _ (load_plain s text h hplain) hfree
    (load_objs s text h).2 _ (load_lineStart s text hpc hx hc hz)
  have hi : (PSt.init (load s text).st hz).st.instrs = s.instrs := (load_frame s text).2.2.2.2.2.1
  have hcy : (PSt.init (load s text).st hz).st.cycles = s.cycles := (load_frame s text).2.2.2.2.1
  simp only [← pipeRun_eq_iter, hi, hcy] at h1 h2 h3 h6
  exact ⟨h1, h2, h3, h6⟩

/-! ### G. the loaded program on the data-free schedule skeleton -/

/-- SKELETON SIMULATION, END TO END. Load ANY text into ANY state `s` whose instruction cache (if any) is admissible
    (`ICacheOK`; any data memory system), and run the five-stage pipeline for `k` fault-free cycles. Then
    (1) the skeleton of the pipeline state is the skeleton run on the outcomes of the cycles (`skRun`), started from
        the empty skeleton at the pc of `s`;
    (2) in EVERY reached state (fault-free or not) the two fetch outcomes fed to the skeleton are functions of the
        LOADED PROGRAM and the pc: IF delivers exactly the instruction the loaded program stores at the pc, with or
        without instruction cache — so the only data-dependent inputs of the schedule are EX's exit decision and
        MEM's redirect decision;
    (3) `is_done()` is a function of the skeleton and of whether the loaded program has an instruction at the pc. -/
theorem assembled_pipe_run_skeleton (s : St) (text : String) (hc : ICacheOK s) (hz : Bool) (k : Nat)
    (hr : runOK k (PSt.init (load s text).st hz)) :
    erase (pipeRun k (PSt.init (load s text).st hz)) = skRun (PSt.init (load s text).st hz) k ∧
    erase (PSt.init (load s text).st hz) =
      { pc := s.pc, hazard := hz, exited := s.exitCode.isSome, instrs := s.instrs, stalls := s.stalls,
        flushes := s.flushes, s0 := none, s1 := none, s2 := none, s3 := none, stalled := none } ∧
    (∀ j, (outcomes (pipeRun j (PSt.init (load s text).st hz))).fetched =
            (load s text).st.imem.instrAt (pipeRun j (PSt.init (load s text).st hz)).st.pc ∧
          (outcomes (pipeRun j (PSt.init (load s text).st hz))).hasInstr =
            ((load s text).st.imem.instrAt (pipeRun j (PSt.init (load s text).st hz)).st.pc).isSome) ∧
    Pipe.isDone (pipeRun k (PSt.init (load s text).st hz)) =
      Skeleton.isDone (erase (pipeRun k (PSt.init (load s text).st hz)))
        ((load s text).st.imem.instrAt (pipeRun k (PSt.init (load s text).st hz)).st.pc).isSome := by
  have hat : ∀ j a, (pipeRun j (PSt.init (load s text).st hz)).st.imem.instrAt a =
      (load s text).st.imem.instrAt a :=
    fun j a => instrAt_prog (load_pipeRun_prog s text hc hz j) a
  obtain ⟨f1, f2, f3, f4, _, _, _, _, f9, f10, _⟩ := load_frame s text
  refine ⟨?_, ?_, fun j => ?_, ?_⟩
  · rw [pipeRun_eq_iter]
    exact ArchSim.Props.C07.pipe_run_skeleton _ k (fun j hj => by
      have := hr j hj; rw [pipeRun_eq_iter] at this; exact this)
  · have e : erase (PSt.init (load s text).st hz) = Skeleton.Sk.mk (load s text).st.pc hz
        (load s text).st.exitCode.isSome (load s text).st.instrs (load s text).st.stalls
        (load s text).st.flushes none none none none none := rfl
    rw [e, f2, f4, f9, f10, (load_frame s text).2.2.2.2.2.1]
  · obtain ⟨h1, h2⟩ := outcomes_fetch _ (pipeRun_ok j _ (load_pipeOK s text hc hz))
    rw [h1, h2, hat]
    exact ⟨rfl, rfl⟩
  · rw [ArchSim.Props.C07.is_done_skeleton, hat]

/-! ### E. the closed forms on loaded programs

The closed forms of `Props/C07.lean` E (`interlock_condition`, `interlock_two_bubbles`, `redirect_three_slots`,
`redirect_targets`, `ecall_drain`) carry NO hypothesis on the program or on the well-formedness of the state: they
hold for every pipeline state, reachable or not, so they apply verbatim to every state reached from a loaded program.
The one closed form that refers to the instruction memory is `fetch_at_pc`; its end-to-end version follows. -/

/-- EVERY SLOT HOLDS AN INSTRUCTION OF THE LOADED PROGRAM. Load ANY text into ANY state with an admissible
    instruction cache (or none) and run the five-stage pipeline for ANY number `n` of cycles (faulting or not,
    detection on or off). Then (1) each of the five pipeline registers that is not empty holds, for its address
    `x.addr`, exactly the instruction the loaded program stores there; (2) if the pipeline is not stalled, the latch
    IF produces in the next cycle carries the current pc and the instruction the loaded program stores at the pc
    (`C07.fetch_at_pc`, end to end: after a redirect the next fetch is the program's instruction at the target). -/
theorem assembled_slots_hold_program (s : St) (text : String) (hc : ICacheOK s) (hz : Bool) (n : Nat) (x : Latch) :
    ((pipeRun n (PSt.init (load s text).st hz)).l0 = some x ∨ (pipeRun n (PSt.init (load s text).st hz)).l1 = some x ∨
      (pipeRun n (PSt.init (load s text).st hz)).l2 = some x ∨ (pipeRun n (PSt.init (load s text).st hz)).l3 = some x ∨
      (pipeRun n (PSt.init (load s text).st hz)).l4 = some x →
        (load s text).st.imem.instrAt x.addr = some x.instr) ∧
    ((pipeRun n (PSt.init (load s text).st hz)).stalled = none →
      nIF (pipeRun n (PSt.init (load s text).st hz)) = some x →
        x.addr = (pipeRun n (PSt.init (load s text).st hz)).st.pc ∧
        (load s text).st.imem.instrAt (pipeRun n (PSt.init (load s text).st hz)).st.pc = some x.instr) := by
  have hok := pipeRun_ok n _ (load_pipeOK s text hc hz)
  have hat := fun a => instrAt_prog (load_pipeRun_prog s text hc hz n) a
  refine ⟨fun h => ?_, fun hs hx => ?_⟩
  · rw [← hat]
    rcases h with h | h | h | h | h
    · exact hok.l0 x h
    · exact hok.l1 x h
    · exact hok.l2 x h
    · exact hok.l3 x h
    · exact hok.l4 x h
  · have ha := ArchSim.Props.C07.fetch_at_pc _ hs x hx
    refine ⟨ha, ?_⟩
    rw [← hat, ← ha]
    have hl := (ArchSim.Lemmas.C15.ifStage_ok (s := tick (pipeRun n (PSt.init (load s text).st hz)).st) hok.imem).2.2
    unfold nIF at hx
    rw [hs] at hx
    exact hl x hx

/-! ### non-vacuity -/

section
open ArchSim.Lemmas.E2E2.Ex

/-- The example texts (listings; `Lemmas/E2E2Ex.lean`): three plain independent instructions, and a text with a
    load. Both load into any state; the stored programs are `lineProg` / `memProg`. -/
example : lineText = "addi x1, x0, 5\nslli x2, x0, 3\nlui x3, 1" ∧
    memText = "lui x5, 4\nlw x1, 0(x5)\naddi x2, x0, 1" := ⟨lineText_eq, memText_eq⟩

/-- Hypotheses of `assembled_straight_line_n_plus_4` for `lineText` in the power-on state. -/
example : freshSt.pc = 0 ∧ freshSt.exitCode = none ∧ freshSt.imem.cache = none ∧
    (load freshSt lineText).err = none ∧ PlainOps (load freshSt lineText).st.imem.prog ∧
    HazardFree (load freshSt lineText).st.imem.prog := by
  refine ⟨rfl, rfl, rfl, (load_lineText freshSt).1, ?_, ?_⟩ <;> rw [(load_lineText freshSt).2] <;> decide

/-- Direct evaluation agrees with n + 4: 3 instructions, done after exactly 7 cycles, 7 cycles counted. -/
example : isDone (pipeRun 7 (PSt.init (load freshSt lineText).st true)) = true ∧
    isDone (pipeRun 6 (PSt.init (load freshSt lineText).st true)) = false ∧
    (pipeRun 7 (PSt.init (load freshSt lineText).st true)).st.cycles = 7 ∧
    (pipeRun 7 (PSt.init (load freshSt lineText).st true)).st.instrs = 3 ∧
    (pipeRun 7 (PSt.init (load freshSt lineText).st true)).st.regs 3 = 4096 := by
  rw [load_lineText_st]; decide

/-- Hypotheses of `assembled_cycles_no_cache` / `assembled_single_cycle_count` (2) for the power-on state. -/
example : ArchSim.Lemmas.C01.StOK freshSt ∧ freshSt.imem.cache = none ∧ (load freshSt memText).err = none ∧
    AllSupported (load freshSt memText).st.imem.prog :=
  ⟨freshSt_ok, rfl, (load_memText freshSt).1, by rw [(load_memText freshSt).2]; decide⟩

/-- Hypotheses of `assembled_cycle_count`, `assembled_pipe_run_skeleton`, `assembled_slots_hold_program` with BOTH
    caches: `cacheSt` has an admissible instruction cache, and the five-stage run of `memText` loaded into it is
    fault-free for 9 cycles (3 instructions + 4 + the two bubbles of the `lui` → `lw` interlock) and done exactly
    then. -/
example : ICacheOK cacheSt ∧ runOK 9 (PSt.init (load cacheSt memText).st true) ∧
    isDone (pipeRun 9 (PSt.init (load cacheSt memText).st true)) = true ∧
    isDone (pipeRun 8 (PSt.init (load cacheSt memText).st true)) = false := by
  refine ⟨cacheSt_icacheOK, ?_⟩
  rw [load_memText_cache]; decide

/-- The cycle equation on that run: two instruction-cache misses (blocks of two words: +10 each) and the data-cache
    miss of the `lw` (+7, in cycle 7): 9 cycles + 27 penalty cycles = 36. -/
example : penaltySum 9 (PSt.init (load cacheSt memText).st true) = 27 ∧
    (pipeRun 9 (PSt.init (load cacheSt memText).st true)).st.cycles = 36 ∧
    fetchExtra (pipeRun 0 (PSt.init (load cacheSt memText).st true)) = 10 ∧
    fetchExtra (pipeRun 2 (PSt.init (load cacheSt memText).st true)) = 10 ∧
    memExtra (pipeRun 6 (PSt.init (load cacheSt memText).st true)) = 7 := by
  rw [load_memText_cache]; decide

end

end ArchSim.Props.C07Asm
