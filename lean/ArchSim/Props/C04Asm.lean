/-
C04 (assembler), end-to-end obligations: every program the ASSEMBLER builds satisfies the hypotheses of the
execution theorems (C01 refinement, C02 pipeline equivalence, C03Prog / C09Prog / C11Prog cache theorems).

Property theorems only (plus non-vacuity examples); helper lemmas: `ArchSim/Lemmas/E2E*.lean`.

Vocabulary
 * `load s text`      : `RiscvSimulation.load_program(text)` on the architectural state `s` (`Model/Asm.lean`);
 * `AllSupported prog`: `∀ i ∈ prog, i.op.supported = true` — no CSR instruction, `fence` or `ebreak` (decidable);
 * `SourceSupported text`: the source-level form — no line of `text` (after comment stripping) is tokenized with the
   mnemonic `ebreak`, `fence`, `csrrw`, `csrrs`, `csrrc`, `csrrwi`, `csrrsi` or `csrrci`
   (`∀ p ∈ sanitize text, ∀ t, parseLine p.2 = some t → ∀ m, itemMnemonic t.item = some m → m ∉ unsupMn`);
 * `Pipe.ProgWF`, `C03Prog.ProgWF`, `C09Prog.ProgWF`, `C01.ProgOK`: the well-formed-program hypotheses of C02Main,
   C03Prog, C09Prog / C11Prog and C01 (at most 4096 instructions, each `Instr.WF`: supported operation, register
   numbers below 32, stored immediate in its constructor's range, `ecall` as built);
 * `C01.StOK s`       : flat RISC-V data memory with byte cells, 32-bit registers, `x0 = 0`, 32-bit pc;
 * `Pipe.SOK prog s`  : uncached instruction memory holding `prog`, and `StOK s`;
 * `freshSt`          : the power-on state;
 * `withCache s l wt g penalty`: `s` with a freshly built data cache (LRU if `l` else PLRU, write-through if `wt`
   else write-back, geometry `g`, miss penalty) over the empty RISC-V memory instead of its data memory;
 * `C03Prog.CacheRel sc sf`, `C09Prog.StepHyp sc`: the start-state hypotheses of C03Prog and C09Prog / C11Prog.
-/
import ArchSim.Lemmas.E2EEx
import ArchSim.Props.C14
import ArchSim.Lemmas.C03ProgEx

namespace ArchSim.Props.C04Asm
open ArchSim ArchSim.Rv ArchSim.Asm ArchSim.Lemmas.E2E

/-- A.1 WELL-FORMED PROGRAM. For EVERY source text and every simulator state: if `load` succeeds and no
    instruction of the stored program is a CSR instruction, `fence` or `ebreak`, then the stored program is
    well formed in each of the forms the execution theorems ask for: at most 4096 instructions, every one with
    register numbers below 32, a stored immediate in the range of its format, and `ecall` as its constructor
    builds it. (Nothing is assumed about labels, offsets, pseudo-instructions, data or immediates in the source:
    out-of-range immediates are wrapped by the constructors, register names come from the grammar.) -/
theorem loaded_program_wf (s : St) (text : String) (h : (load s text).err = none)
    (hs : AllSupported (load s text).st.imem.prog) :
    Pipe.ProgWF (load s text).st.imem.prog ∧
    ArchSim.Lemmas.C03Prog.ProgWF (load s text).st.imem.prog ∧
    ArchSim.Lemmas.C09Prog.ProgWF (load s text).st.imem ∧
    ArchSim.Lemmas.C01.ProgOK (load s text).st.imem.prog :=
  ⟨load_progWF_pipe s text h hs, load_progWF_c03 s text h hs, load_progWF_c09 s text h hs,
    (load_progWF_pipe s text h hs).toC01⟩

/-- A.1, SOURCE-LEVEL VERSION. If `load` succeeds and no line of the source text uses the mnemonic `ebreak`,
    `fence` or one of the six CSR mnemonics (`SourceSupported`), then every operation of the stored program is
    in the supported set — pseudo-instruction expansion only introduces `lui`, `addi` and the load / store of the
    pseudo-instruction itself — and hence the stored program is well formed. -/
theorem loaded_program_wf_source (s : St) (text : String) (h : (load s text).err = none)
    (hsrc : SourceSupported text) :
    AllSupported (load s text).st.imem.prog ∧
    Pipe.ProgWF (load s text).st.imem.prog ∧
    ArchSim.Lemmas.C03Prog.ProgWF (load s text).st.imem.prog ∧
    ArchSim.Lemmas.C09Prog.ProgWF (load s text).st.imem ∧
    ArchSim.Lemmas.C01.ProgOK (load s text).st.imem.prog :=
  have hs := load_supported_of_source s text h hsrc
  ⟨hs, loaded_program_wf s text h hs⟩

/-- A.1 without the side condition: EVERY instruction of EVERY successfully loaded program — CSR forms, `fence`
    and `ebreak` included — has register numbers below 32 and a stored immediate in the range of its format,
    and the program has at most 4096 instructions. So the only thing `Instr.WF` asks beyond what the assembler
    guarantees is membership in the supported set. -/
theorem loaded_program_fields (s : St) (text : String) (h : (load s text).err = none) :
    (load s text).st.imem.prog.length ≤ 4096 ∧
    ∀ i ∈ (load s text).st.imem.prog, i.rd < 32 ∧ i.rs1 < 32 ∧ i.rs2 < 32 ∧ immRange i.op i.imm ∧
      (i.op = .ecall → i.rd = 0 ∧ i.rs1 = 0 ∧ i.imm = 0) := by
  obtain ⟨ho, hl⟩ := load_objs s text h
  refine ⟨hl, fun i hi => ?_⟩
  rcases ho i hi with hf | rfl | rfl
  · exact ⟨hf.1, hf.2.1, hf.2.2.1, hf.2.2.2.1, fun he => absurd he hf.2.2.2.2⟩
  · decide
  · decide

/-- The weaker program hypothesis of the pipeline CONTROL refinement (`Pipe.ProgOK`, used by `Props/C02.lean` and
    C11Prog: `ecall` has `rd = 0`, the stored shift amount of `srai` is not negative) holds for EVERY successfully
    loaded program, whatever instruction cache the state has — no side condition. -/
theorem loaded_program_pipe_ok (s : St) (text : String) (h : (load s text).err = none) :
    Pipe.ProgOK (load s text).st.imem :=
  load_pipeProgOK s text h

/-- A.2 WELL-FORMED START STATE, flat data memory. Loading ANY source text (successfully or not) into a state
    that satisfies C01's state invariant `StOK` and has no instruction cache gives a state that satisfies `StOK`
    again and C02's `SOK` for the stored program (uncached instruction memory holding exactly that program);
    registers, pc, exit code and console output are untouched; and the data memory afterwards is the flat
    memory of a write history `h` — the `.data` preload — i.e. exactly the form `Spec.ByteStore.run riscvCfg h`
    for which C03Prog `rel_init` and C09Prog `dok_init` are stated. -/
theorem loaded_state_ok (s : St) (text : String) (hs : ArchSim.Lemmas.C01.StOK s) (hc : s.imem.cache = none) :
    ArchSim.Lemmas.C01.StOK (load s text).st ∧
    Pipe.SOK (load s text).st.imem.prog (load s text).st ∧
    (load s text).st.imem = { prog := (load s text).st.imem.prog, cache := none } ∧
    (load s text).st.regs = s.regs ∧ (load s text).st.pc = s.pc ∧
    (load s text).st.exitCode = s.exitCode ∧ (load s text).st.output = s.output ∧
    ∃ h : List Spec.ByteStore.Op, (load s text).st.mem = .flat (Spec.ByteStore.run Mem.riscvCfg h) := by
  obtain ⟨m, hm, hcfg, _⟩ := hs.flat
  obtain ⟨h1, h2, h3, h4, _⟩ := load_frame s text
  exact ⟨load_stOK s text hs, load_sok s text hs hc, load_imem s text hc, h1, h2, h4, h3,
    load_mem_flat s text m hm hcfg⟩

/-- The power-on state satisfies the hypotheses of `loaded_state_ok`, and it has not exited. -/
theorem power_on_state_ok :
    ArchSim.Lemmas.C01.StOK freshSt ∧ freshSt.imem.cache = none ∧ freshSt.exitCode = none ∧ freshSt.pc = 0 :=
  ⟨freshSt_ok, rfl, rfl, rfl⟩

/-- A.2 WELL-FORMED START STATE, with a data cache. Let `s` satisfy `StOK` and have no instruction cache, and let
    `withCache s l wt g penalty` be `s` with a freshly built data cache of ANY admissible geometry (`GeoOK`),
    LRU or PLRU (`AssocOK`), write-back or write-through, any miss penalty. Loading ANY text into both:
    (1) reports the same error and stores the same program; (2) there is ONE write history `h` — the `.data`
    preload: `writeData` only performs direct writes, which bypass the cache — such that the flat load leaves
    the memory `run riscvCfg h` and the cached load leaves the initial cache system after `preload … h`, every
    other field of the two states being equal; (3) hence the two loaded states are related by C03Prog's
    `CacheRel` (instance of `rel_init`); (4) if the load succeeds and the program is in the supported set, the
    cached state satisfies C09Prog's `StepHyp` (data-cache invariant by `dok_init`). -/
theorem loaded_state_ok_cached (s : St) (hs : ArchSim.Lemmas.C01.StOK s) (hic : s.imem.cache = none)
    (l wt : Bool) (g : Cache.Geo) (hg : Spec.CacheAbs.GeoOK g) (ha : ArchSim.Lemmas.C09.AssocOK l g.assoc)
    (penalty : Nat) (text : String) :
    (load (withCache s l wt g penalty) text).err = (load s text).err ∧
    (load (withCache s l wt g penalty) text).st.imem = (load s text).st.imem ∧
    (∃ h : List Spec.ByteStore.Op, (load s text).st.mem = .flat (Spec.ByteStore.run Mem.riscvCfg h) ∧
      (load (withCache s l wt g penalty) text).st = { (load s text).st with
        mem := .cached l (Spec.CacheAbs.preload
          (Cache.DSys.init (Cache.polOps l) wt g penalty (Mem.Mem.empty Mem.riscvCfg)) h) }) ∧
    ArchSim.Lemmas.C03Prog.CacheRel (load (withCache s l wt g penalty) text).st (load s text).st ∧
    ((load s text).err = none → AllSupported (load s text).st.imem.prog →
      ArchSim.Lemmas.C09Prog.StepHyp (load (withCache s l wt g penalty) text).st) := by
  obtain ⟨m, hm, hc, _⟩ := hs.flat
  obtain ⟨he, h, h1, h2⟩ := load_withCache s m hm hc l wt g penalty text
  exact ⟨he, by rw [h2], ⟨h, h1, h2⟩, load_cacheRel s m hm hc l wt g hg ha penalty text,
    fun hok hsup => load_stepHyp s hs hic l wt g hg ha penalty text hok hsup⟩

/-- The side condition of `loaded_program_wf` is NECESSARY and is the only gap: the one-line text `ebreak` is
    accepted by the assembler, and the stored program is not `ProgWF` (the execution theorems exclude `ebreak`,
    `fence` and the CSR instructions: single-cycle mode raises "not implemented" for them). -/
theorem supported_condition_necessary :
    ∃ text, (load freshSt text).err = none ∧ ¬ AllSupported (load freshSt text).st.imem.prog ∧
      ¬ Pipe.ProgWF (load freshSt text).st.imem.prog := by
  have h := ArchSim.Props.C14.listing_fixpoint freshSt [{ op := .ebreak, imm := 1 }] (by decide) (by
    intro k hk
    have : k = 0 := by simp at hk; omega
    subst this
    simp [Instr.Canon, Op.ty])
  refine ⟨_, h.1, ?_, ?_⟩
  · rw [h.2]; decide
  · rw [h.2]; intro hw; exact absurd (hw.wf _ List.mem_cons_self) (by decide)

/-! ### non-vacuity -/

section
open ArchSim.Lemmas.E2E.Ex

/-- The example source text: a `.data` variable, a trailing comment, indentation, the pseudo-instruction `li`, a
    branch to a label, an in-line label declaration. -/
example : asmText =
    ".data\nx: .word 7   # the variable\n.text\n  lui t0, 4\n  lw a0, 0(t0)\n  li a7, 93\n" ++
    "  beq zero, zero, end\n  li a0, 0\nend: ecall\n" := rfl

/-- Hypotheses of `loaded_program_wf` for the example text in the power-on state: it loads (shown line by line
    through the general spelling theorems of C04Spell, `Lemmas/E2EEx.lean`), and its program — `li` expanded to
    `addi`, the label resolved to the displacement 8 — is in the supported set. -/
example : (load freshSt asmText).err = none ∧ AllSupported (load freshSt asmText).st.imem.prog ∧
    (load freshSt asmText).st.imem.prog =
      [{ op := .lui, rd := 5, imm := 4 }, { op := .lw, rd := 10, rs1 := 5, imm := 0 },
       { op := .addi, rd := 17, rs1 := 0, imm := 93 }, { op := .beq, rs1 := 0, rs2 := 0, imm := 8 },
       { op := .addi, rd := 10, rs1 := 0, imm := 0 }, { op := .ecall }] :=
  ⟨load_asmText.1, asmText_supported, load_asmText.2⟩

/-- Hypothesis of `loaded_program_wf_source` for the example text: none of its nine lines uses an unsupported
    mnemonic. -/
example : SourceSupported asmText := asmText_source

/-- The conclusion of `loaded_state_ok` made concrete for the example: the data memory after the load is the flat
    memory of the one-write history `write_word(0x4000, 7)`. -/
example : (load freshSt asmText).st.mem = .flat (Spec.ByteStore.run Mem.riscvCfg [.write 32 16384 7]) := by
  rw [load_asmText_st]; rfl

/-- Hypotheses of `loaded_state_ok_cached`: an admissible cache configuration (one set, one way, one word; LRU). -/
example : Spec.CacheAbs.GeoOK ArchSim.Lemmas.C03Prog.Ex.geo1 ∧
    ArchSim.Lemmas.C09.AssocOK true ArchSim.Lemmas.C03Prog.Ex.geo1.assoc :=
  ⟨ArchSim.Lemmas.C03Prog.Ex.geo1_ok, ArchSim.Lemmas.C03Prog.Ex.assoc1_ok⟩

end

end ArchSim.Props.C04Asm
