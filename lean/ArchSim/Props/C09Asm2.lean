/-
C09 (program-level clause), end to end, part 2: RELOAD WITH A USED DATA CACHE. `C09Prog.dok_init` is stated for a freshly
built cache system (`DSys.init`: counters 0). `load_program` applies `DSys.reset` to the data cache it finds: new empty
sets, cleared lower memory, but the hit / access counters and the last-hit flag are KEPT. So after a run and a reload
the counters are not zero. This file generalises `dok_init` to `preload (ds.reset …) h` for ANY cache system `ds` of an
admissible geometry — any contents, any counters — and concludes that loading a second program into a simulation whose
data cache was used by a first one gives a state satisfying `StepHyp`, with the counters continuing from the old
values and `accesses_count_memops` holding relative to them.

WHERE ZERO COUNTERS ARE (NOT) NEEDED. Neither C09's accounting invariant `Inv` (geometry, number of sets, per-set
`SetOK`, RISC-V lower memory) nor C03's `CInv` nor C12's `TRep` mentions `hits`, `accesses` or `lastHit`; every
run-level statement of C09Prog (`accesses_count_memops`, `each_memop_counted_once`, `dcache_counters_equal_modes`) is
already RELATIVE to the start counters. Zero counters are used in exactly two places, both ABSOLUTE corollaries:
`C09.real_counters_refine` (`fin.accesses = number of counted operations`, from `DSys.init`) and
`C09Asm.assembled_accesses_count_memops` (`dAcc sc.mem = 0` for a freshly built cache). Their relative forms
(`C09.accesses_counts_counted_ops`, `reloaded_accesses_count_memops` below) hold for any start counters.

Property theorems only (plus non-vacuity examples); helper lemmas: `ArchSim/Lemmas/E2E2Reload.lean`.
`Reloadable l ds`: `ds` has an admissible geometry (`GeoOK`), an associativity that suits the policy `l` (`AssocOK`)
and a RISC-V lower memory — nothing about contents or counters.
-/
import ArchSim.Props.C09Asm
import ArchSim.Lemmas.E2E2Reload
import ArchSim.Lemmas.E2E2ReloadEx

namespace ArchSim.Props.C09Asm2
open ArchSim ArchSim.Rv ArchSim.Asm ArchSim.Cache ArchSim.Pipe ArchSim.Lemmas.E2E ArchSim.Lemmas.E2E2
open ArchSim.Lemmas.C09Prog ArchSim.Lemmas.C11Prog

/-- GENERALISED `dok_init`. For ANY data-cache system `ds` with an admissible geometry, a suitable associativity and a
    RISC-V lower memory — whatever its sets, lower-memory contents, hit counter, access counter and last-hit flag —
    the system `load_program` leaves (`ds.reset` followed by any `.data` preload `h`) satisfies the data-cache
    invariant `DOK`; its counters are those of `ds`. -/
theorem dok_reset_preload (l : Bool) (ds : DSys Repl.Pol) (hr : Reloadable l ds) (h : List Spec.ByteStore.Op) :
    DOK l (Spec.CacheAbs.preload (ds.reset (polOps l)) h) ∧
    (Spec.CacheAbs.preload (ds.reset (polOps l)) h).hits = ds.hits ∧
    (Spec.CacheAbs.preload (ds.reset (polOps l)) h).accesses = ds.accesses ∧
    (Spec.CacheAbs.preload (ds.reset (polOps l)) h).lastHit = ds.lastHit := by
  refine ⟨dok_reload l ds hr h, ?_, ?_, ?_⟩ <;> rw [preload_reset_fields _ ds hr.cfg h]

/-- `dok_init` is the instance `ds = DSys.init …`: a freshly built system is reloadable, and resetting it changes
    nothing. -/
theorem fresh_is_reloadable (l wt : Bool) (g : Geo) (penalty : Nat) (hg : Spec.CacheAbs.GeoOK g)
    (ha : ArchSim.Lemmas.C09.AssocOK l g.assoc) :
    Reloadable l (DSys.init (polOps l) wt g penalty (Mem.Mem.empty Mem.riscvCfg)) ∧
    (DSys.init (polOps l) wt g penalty (Mem.Mem.empty Mem.riscvCfg)).reset (polOps l) =
      DSys.init (polOps l) wt g penalty (Mem.Mem.empty Mem.riscvCfg) :=
  ⟨⟨hg, ha, rfl⟩, rfl⟩

/-- Every state satisfying `StepHyp` — in particular every state of a fault-free single-cycle run of a loaded program
    (`C09Prog.single_step_keeps_hyp`) — has a reloadable data cache. -/
theorem used_cache_is_reloadable (s : St) (h : StepHyp s) :
    ∃ l ds, s.mem = .cached l ds ∧ Reloadable l ds :=
  stepHyp_reloadable h

/-- RELOAD INTO A USED CACHE. Let `s1` be ANY state whose data memory is a reloadable cache system `ds` (any contents
    and counters: e.g. the state a first program left), without instruction cache, with 32-bit register values. Load
    ANY accepted text without CSR / fence / ebreak into it. Then the loaded state `sc` satisfies C09Prog's `StepHyp`,
    and its three data-cache counters are exactly those of `ds`: `load` neither counts its direct `.data` writes nor
    clears the counters. -/
theorem reloaded_state_step_hyp (s1 : St) (l : Bool) (ds : DSys Repl.Pol) (hm : s1.mem = .cached l ds)
    (hr : Reloadable l ds) (hic : s1.imem.cache = none) (hregs : ∀ r, s1.regs r < 4294967296) (text : String)
    (sc : St) (hsc : sc = (load s1 text).st)
    (h : (load s1 text).err = none) (hsup : AllSupported (load s1 text).st.imem.prog) :
    StepHyp sc ∧ dAcc sc.mem = ds.accesses ∧ dHits sc.mem = ds.hits ∧ dLastHit sc.mem = ds.lastHit := by
  subst hsc
  obtain ⟨_, _, _, _, _, ds', hm', h1, h2, h3, _⟩ := load_reload s1 l ds hm hr text
  refine ⟨load_reload_stepHyp s1 l ds hm hr hic hregs text h hsup, ?_, ?_, ?_⟩ <;> rw [hm']
  · exact h2
  · exact h1
  · exact h3

/-- EACH LOAD / STORE COUNTED ONCE, RELATIVE TO THE OLD COUNTERS. Same setting: after `n` fault-free single-cycle steps
    of the reloaded program the access counter is the access counter `ds` had BEFORE the reload plus the number of
    loads and stores among the `n` instructions executed. -/
theorem reloaded_accesses_count_memops (s1 : St) (l : Bool) (ds : DSys Repl.Pol) (hm : s1.mem = .cached l ds)
    (hr : Reloadable l ds) (hic : s1.imem.cache = none) (hregs : ∀ r, s1.regs r < 4294967296) (text : String)
    (sc : St) (hsc : sc = (load s1 text).st)
    (h : (load s1 text).err = none) (hsup : AllSupported (load s1 text).st.imem.prog)
    (n : Nat) (hok : SingleOK n sc) :
    dAcc (ArchSim.Lemmas.C11.singleRun n sc).mem = ds.accesses + memOps n sc := by
  obtain ⟨hH, h0, _⟩ := reloaded_state_step_hyp s1 l ds hm hr hic hregs text sc hsc h hsup
  rw [ArchSim.Props.C09Prog.accesses_count_memops sc hH n hok, h0]

/-- THE TWO MODES STILL AGREE AFTER A RELOAD. Same setting, `s1` not exited: if the five-stage loop on the reloaded
    program stops after `n` cycles without a fault, single-cycle mode from the same reloaded state is done after
    `k ≤ n` fault-free steps with the SAME data memory system, and both access counters equal the old counter plus the
    number of loads and stores executed. -/
theorem reloaded_dcache_counters_equal_modes (s1 : St) (l : Bool) (ds : DSys Repl.Pol)
    (hm : s1.mem = .cached l ds) (hr : Reloadable l ds) (hic : s1.imem.cache = none)
    (hregs : ∀ r, s1.regs r < 4294967296) (hx : s1.exitCode = none) (text : String)
    (sc : St) (hsc : sc = (load s1 text).st)
    (h : (load s1 text).err = none) (hsup : AllSupported (load s1 text).st.imem.prog)
    (n : Nat) (hrun : runOK n (PSt.init sc true)) (hd : isDone (pipeRun n (PSt.init sc true)) = true)
    (hprev : ∀ m, m < n → isDone (pipeRun m (PSt.init sc true)) = false) :
    ∃ k, k ≤ n ∧ SingleOK k sc ∧ singleDone (ArchSim.Lemmas.C11.singleRun k sc) = true ∧
      (pipeRun n (PSt.init sc true)).st.mem = (ArchSim.Lemmas.C11.singleRun k sc).mem ∧
      dAcc (pipeRun n (PSt.init sc true)).st.mem = ds.accesses + memOps k sc ∧
      dAcc (ArchSim.Lemmas.C11.singleRun k sc).mem = ds.accesses + memOps k sc := by
  obtain ⟨hH, h0, _⟩ := reloaded_state_step_hyp s1 l ds hm hr hic hregs text sc hsc h hsup
  have hx' : sc.exitCode = none := by rw [hsc, load_exitCode]; exact hx
  obtain ⟨k, hk, hok, hdone, _, hmem, _⟩ :=
    ArchSim.Props.C09Prog.dcache_counters_equal_modes sc hH hx' n hrun hd hprev
  have hc := ArchSim.Props.C09Prog.accesses_count_memops sc hH k hok
  rw [h0] at hc
  exact ⟨k, hk, hok, hdone, hmem, by rw [hmem]; exact hc, hc⟩

/-- A SECOND PROGRAM AFTER A FIRST ONE. Start from a state `s0` satisfying `StOK` without instruction cache, equipped
    with a freshly built data cache of any admissible configuration. Load an accepted supported text `text1` (state
    `sc1`), run `k` fault-free single-cycle steps (state `s1`: the cache now holds blocks, the counters are `memOps k
    sc1` and some number of hits), then load an accepted supported text `text2` into `s1` (state `sc2`). Then `sc2`
    again satisfies `StepHyp`; its access counter starts at the number of loads / stores the FIRST program executed;
    and after `n` fault-free steps of the second program it is that number plus the loads / stores of the second. -/
theorem second_program_after_first (s0 : St) (hs : ArchSim.Lemmas.C01.StOK s0) (hic : s0.imem.cache = none)
    (l wt : Bool) (g : Geo) (hg : Spec.CacheAbs.GeoOK g) (ha : ArchSim.Lemmas.C09.AssocOK l g.assoc) (penalty : Nat)
    (text1 text2 : String) (sc1 s1 sc2 : St) (hsc1 : sc1 = (load (withCache s0 l wt g penalty) text1).st)
    (h1 : (load s0 text1).err = none) (hsup1 : AllSupported (load s0 text1).st.imem.prog)
    (k : Nat) (hok1 : SingleOK k sc1) (hs1 : s1 = ArchSim.Lemmas.C11.singleRun k sc1)
    (hsc2 : sc2 = (load s1 text2).st)
    (h2 : (load s1 text2).err = none) (hsup2 : AllSupported (load s1 text2).st.imem.prog) :
    StepHyp sc2 ∧ dAcc sc2.mem = memOps k sc1 ∧ dHits sc2.mem = dHits s1.mem ∧
    dLastHit sc2.mem = dLastHit s1.mem ∧
    ∀ n, SingleOK n sc2 → dAcc (ArchSim.Lemmas.C11.singleRun n sc2).mem = memOps k sc1 + memOps n sc2 := by
  have hH1 : StepHyp sc1 := by rw [hsc1]; exact load_stepHyp s0 hs hic l wt g hg ha penalty text1 h1 hsup1
  have hHs : StepHyp s1 := by rw [hs1]; exact StepHyp_run sc1 hH1 k hok1
  have hacc : dAcc s1.mem = memOps k sc1 := by
    rw [hs1]
    exact (ArchSim.Props.C09Asm.assembled_accesses_count_memops s0 hs hic l wt g hg ha penalty text1 sc1 hsc1
      h1 hsup1 k hok1).2
  obtain ⟨l', ds, hm, hr⟩ := stepHyp_reloadable hHs
  have hacc' : ds.accesses = memOps k sc1 := by rw [← hacc, hm]; rfl
  obtain ⟨hH2, a1, a2, a3⟩ :=
    reloaded_state_step_hyp s1 l' ds hm hr hHs.nocache hHs.inv.regs text2 sc2 hsc2 h2 hsup2
  refine ⟨hH2, by rw [a1, hacc'], by rw [a2, hm]; rfl, by rw [a3, hm]; rfl, fun n hok => ?_⟩
  rw [reloaded_accesses_count_memops s1 l' ds hm hr hHs.nocache hHs.inv.regs text2 sc2 hsc2 h2 hsup2 n hok, hacc']

/-! ### non-vacuity (first program: `asmText` of `Lemmas/E2EEx.lean` loaded with the one-word write-back LRU cache `geo1`,
run for two steps — its `lw` has missed; second program: `reText`, whose instruction at the pc reached, 8, is a load) -/

section
open ArchSim.Lemmas.E2E.Ex ArchSim.Lemmas.E2E2.Ex ArchSim.Lemmas.C03Prog.Ex

example : reText = "addi x0, x0, 0\naddi x0, x0, 0\nlw x1, 0(x5)" := reText_eq

/-- Hypotheses of `second_program_after_first` for the example: admissible configuration, both texts load and are
    supported, the first two steps of the first program are fault-free. -/
example : ArchSim.Lemmas.C01.StOK freshSt ∧ freshSt.imem.cache = none ∧ Spec.CacheAbs.GeoOK geo1 ∧
    ArchSim.Lemmas.C09.AssocOK true geo1.assoc ∧
    (load freshSt asmText).err = none ∧ AllSupported (load freshSt asmText).st.imem.prog ∧
    SingleOK 2 (load (withCache freshSt true false geo1 10) asmText).st ∧
    usedSt = ArchSim.Lemmas.C11.singleRun 2 (load (withCache freshSt true false geo1 10) asmText).st ∧
    (load usedSt reText).err = none ∧ AllSupported (load usedSt reText).st.imem.prog := by
  refine ⟨freshSt_ok, rfl, geo1_ok, assoc1_ok, load_asmText.1, asmText_supported, ?_, ?_, (load_reText _).1, ?_⟩
  · rw [load_asmText_cached]; unfold SingleOK; decide
  · rw [load_asmText_cached]; rfl
  · rw [(load_reText _).2]; decide

/-- The used state is not fresh: one access, pc 8, x5 = 0x4000 — and its cache is reloadable. -/
example : dAcc usedSt.mem = 1 ∧ usedSt.pc = 8 ∧ usedSt.regs 5 = 16384 ∧ memOps 2 asmStC = 1 := by decide

/-- The conclusion evaluated: after the reload the access counter is still 1; one step of the second program (its
    `lw` at pc 8) makes it 2 = 1 + 1; the load MISSES (no hit is counted) and reads 0, not the 7 the first program
    had cached at that address — `reset` cleared sets and lower memory. -/
example : dAcc (load usedSt reText).st.mem = 1 ∧
    SingleOK 1 (load usedSt reText).st ∧ memOps 1 (load usedSt reText).st = 1 ∧
    dAcc (ArchSim.Lemmas.C11.singleRun 1 (load usedSt reText).st).mem = 2 ∧
    dHits (ArchSim.Lemmas.C11.singleRun 1 (load usedSt reText).st).mem = 0 ∧
    (ArchSim.Lemmas.C11.singleRun 1 (load usedSt reText).st).regs 1 = 0 ∧
    (ArchSim.Lemmas.C11.singleRun 2 asmStC).regs 10 = 7 := by
  rw [load_reText_used]; unfold SingleOK; decide

/-- Hypotheses of `reloaded_dcache_counters_equal_modes` for the example: the used cache is reloadable, `usedSt` has no
    instruction cache, 32-bit registers and has not exited; the five-stage loop on the reloaded program runs 5
    fault-free cycles and is done exactly then, with access counter 2 = 1 (old) + 1 (the second program's `lw`). -/
example : (∃ l ds, usedSt.mem = .cached l ds ∧ Reloadable l ds) ∧ usedSt.imem.cache = none ∧
    (∀ r, usedSt.regs r < 4294967296) ∧ usedSt.exitCode = none ∧
    runOK 5 (PSt.init (load usedSt reText).st true) ∧
    isDone (pipeRun 5 (PSt.init (load usedSt reText).st true)) = true ∧
    (∀ m, m < 5 → isDone (pipeRun m (PSt.init (load usedSt reText).st true)) = false) ∧
    dAcc (pipeRun 5 (PSt.init (load usedSt reText).st true)).st.mem = 2 := by
  refine ⟨stepHyp_reloadable usedSt_stepHyp, usedSt_stepHyp.nocache, usedSt_stepHyp.inv.regs, by decide, ?_⟩
  rw [load_reText_used]; decide

end

end ArchSim.Props.C09Asm2
