/-
C01, end to end: for EVERY source text the assembler accepts (without CSR instructions, `fence`, `ebreak`), the
single-cycle run of the loaded program refines the ISA reference semantics. No `ProgOK` / `StOK` hypothesis is
left: they are discharged by `C04Asm.loaded_program_wf` / `C04Asm.loaded_state_ok`.

Property theorems only (plus non-vacuity examples); helper lemmas: `ArchSim/Lemmas/E2E*.lean`.
`AllSupported prog` = `∀ i ∈ prog, i.op.supported = true` (decidable); `freshSt` = the power-on state;
`simN n` = `n` calls of `RiscvSimulation.step()`, `stepN n` = `n` raw single-cycle steps; `run` / `iter` = the
reference machine of `Spec/RvSpec.lean`; `α` = the abstraction of `Lemmas/C01Defs.lean`.
-/
import ArchSim.Props.C01
import ArchSim.Props.C04Asm

namespace ArchSim.Props.C01Asm
open ArchSim ArchSim.Rv ArchSim.Asm ArchSim.Spec.RvSpec ArchSim.Lemmas.C01 ArchSim.Lemmas.E2E

/-- END TO END, power-on state. Load ANY source text into the power-on simulator. If the assembler accepts it
    and the stored program contains no CSR instruction, `fence` or `ebreak`, then for EVERY `n`, `n` calls of
    the simulation's `step()` in single-cycle mode refine the reference machine run for at most `n` steps on the
    stored program from the abstraction of the loaded state: same registers, memory, pc, output and exit code,
    or the same fault. -/
theorem assembled_sim_refines (text : String) (h : (load freshSt text).err = none)
    (hsup : AllSupported (load freshSt text).st.imem.prog) (n : Nat) :
    αStep (simN n (load freshSt text).st) =
      some (run (load freshSt text).st.imem.prog n (α (load freshSt text).st)) :=
  ArchSim.Props.C01.sim_refines _ (ArchSim.Props.C04Asm.loaded_program_wf freshSt text h hsup).2.2.2 n _
    (load_imem freshSt text rfl) (load_stOK freshSt text freshSt_ok)

/-- END TO END, any start state: the same when the text is loaded into ANY state satisfying the state invariant
    `StOK` (for instance after an earlier run) that has no instruction cache; raw steps (`stepN`, which do not
    stop at `is_done()`) and simulation steps (`simN`). -/
theorem assembled_run_refines (s : St) (text : String) (hs : StOK s) (hc : s.imem.cache = none)
    (h : (load s text).err = none) (hsup : AllSupported (load s text).st.imem.prog) (n : Nat) :
    αStep (stepN n (load s text).st) = some (iter (load s text).st.imem.prog n (α (load s text).st)) ∧
    αStep (simN n (load s text).st) = some (run (load s text).st.imem.prog n (α (load s text).st)) :=
  have hp := (ArchSim.Props.C04Asm.loaded_program_wf s text h hsup).2.2.2
  ⟨ArchSim.Props.C01.run_refines _ hp n _ (load_imem s text hc) (load_stOK s text hs),
   ArchSim.Props.C01.sim_refines _ hp n _ (load_imem s text hc) (load_stOK s text hs)⟩

/-- The abstraction of the loaded power-on state, made explicit: all registers zero, pc zero, no output, no exit
    code (the memory is the `.data` image, see `C04Asm.loaded_state_ok` and C05). -/
theorem assembled_initial_state (text : String) :
    (α (load freshSt text).st).pc = 0 ∧ (α (load freshSt text).st).out = "" ∧
    (α (load freshSt text).st).exit = none ∧ ∀ r, (α (load freshSt text).st).x r = 0 := by
  obtain ⟨h1, h2, h3, h4, _⟩ := load_frame freshSt text
  refine ⟨?_, ?_, ?_, ?_⟩
  · show BitVec.ofInt 32 (load freshSt text).st.pc = 0
    rw [h2]; rfl
  · show (load freshSt text).st.output = ""
    rw [h3]; rfl
  · show (load freshSt text).st.exitCode = none
    rw [h4]; rfl
  · intro r
    show BitVec.ofNat 32 ((load freshSt text).st.regs r.val) = 0
    rw [h1]; rfl

/-! ### non-vacuity (the example text `asmText` of `Lemmas/E2EEx.lean`: a `.data` variable, the pseudo-instruction
`li`, a branch to an in-line label; see `Props/C04Asm.lean`) -/

section
open ArchSim.Lemmas.E2E.Ex

/-- Hypotheses of `assembled_sim_refines` for the example text. -/
example : (load freshSt asmText).err = none ∧ AllSupported (load freshSt asmText).st.imem.prog :=
  ⟨load_asmText.1, asmText_supported⟩

/-- Hypotheses of `assembled_run_refines` on the start state: the power-on state. -/
example : StOK freshSt ∧ freshSt.imem.cache = none := ⟨freshSt_ok, rfl⟩

/-- The model run of the assembled example: done after 5 steps (the `li a0, 0` behind the taken branch is skipped)
    with exit code 7 — the value of the `.data` variable `x`, loaded by `lw`. -/
example : (simN 100 (load freshSt asmText).st).st.exitCode = some 7 ∧
    (simN 100 (load freshSt asmText).st).st.pc = 24 ∧ (simN 100 (load freshSt asmText).st).st.instrs = 5 ∧
    (simN 100 (load freshSt asmText).st).fault = none ∧
    singleDone (simN 100 (load freshSt asmText).st).st = true := by
  rw [load_asmText_st]; decide

/-- The reference run on the assembled program from the abstraction of the loaded state: x10 = 7, pc = 24,
    exit code 7, and the byte at 0x4000 is 7 (instance of `assembled_sim_refines`). -/
example : observe 10 0x4000 (run (load freshSt asmText).st.imem.prog 100 (α (load freshSt asmText).st)) =
    .inr (7#32, 24#32, some 7, 7#8) := by
  rw [load_asmText_st]; decide

end

end ArchSim.Props.C01Asm
