/-
C08, refinement clause: with hazard detection DISABLED, a hazard-free program (no instruction reads a
non-x0 register written by one of the two instructions before it; `Lemmas.C07.HazardFree`, e.g. any
program after `pad`: two nops behind every instruction) computes on the five-stage pipeline exactly
what single-cycle mode computes.

The proof re-instantiates C02's `abs_step`: the only place where the interlock is used there is the
decode verification condition `RawFree p` ("in an unstalled cycle without stall signal, the
instruction in ID reads no register that the instructions in EX and MEM will still write"). With
detection on it follows from the absence of a stall signal; here it follows from `HazardFree` plus one
extra invariant, the NEIGHBOUR INVARIANT `NInv` (`ArchSim/Lemmas/C08Nb.lean`): every latch holds the
program instruction stored at its address, the IF/ID latch was fetched just before the current pc,
and the ID/EX resp. EX/MEM latches (under a stall: the preserved latches) hold the instructions
fetched directly before the one in the next younger latch — a taken transfer or exit flushes all
younger latches, an ECALL drain only adds bubbles ahead of the ECALL, and a bubble is never
followed by an instruction without a flush in between (C02's `Shape`). Hence the two older latches
below a decoding instruction always hold its fall-through neighbours at addresses −4 and −8.
All statements hold for either setting of the flag (`hzf`); C08 is the case `hzf = false`.
-/
import ArchSim.Lemmas.C08Raw
import ArchSim.Lemmas.C02Compose
import ArchSim.Props.C08

namespace ArchSim.Props.C08Main
open ArchSim ArchSim.Rv ArchSim.Pipe ArchSim.Lemmas.C07 ArchSim.Lemmas.C08

/-- The neighbour invariant holds initially. -/
theorem neighbour_inv_init (st : St) (hzf : Bool) : NInv (PSt.init st hzf) := NInv_init st hzf

/-- The neighbour invariant is preserved by every non-faulting cycle. -/
theorem neighbour_inv_step (p : PSt) (hI : PInv p) (hN : NInv p) (hf : (step p).fault = none) :
    NInv (step p).p := NInv_step p hI hN hf

/-- In a hazard-free program the decode condition holds in every state satisfying the invariants:
    the instruction in ID reads no register that the instructions in EX and MEM will still write
    (no interlock needed). -/
theorem hazard_free_decode (p : PSt) (hI : PInv p) (hN : NInv p) (hfree : HazardFree p.st.imem.prog) :
    RawFree p := rawFree_of_hazardFree p hI hN hfree

/-- C08's `abs_step`: for a hazard-free program, one non-faulting cycle WITHOUT hazard detection is
    one sequential step on the abstraction if the cycle performs a correct-path fetch, and leaves
    the abstraction unchanged otherwise; predicted fault and retire order evolve accordingly
    (same statement as C02's `abs_step`, the interlock replaced by `HazardFree`). -/
theorem hazard_free_refines (p : PSt) (hI : PInv p) (hN : NInv p) (hfree : HazardFree p.st.imem.prog)
    (hf : (step p).fault = none) :
    SimP (abs (step p).p) (if fetchOK p then seqStep (abs p) else abs p) ∧
    absF (step p).p = (if fetchOK p then seqFault (abs p) else absF p) ∧
    latchLog p.l3 ++ absLog (step p).p = absLog p ++ (if fetchOK p then seqLog (abs p) else []) :=
  abs_step_raw p hI (rawFree_of_hazardFree p hI hN hfree) hf

/-- MAIN THEOREM (C08): hazard-free program, five-stage mode with hazard detection off (`hzf = false`;
    the statement holds for either flag). If the loop `while not is_done(): step()` stops after `n`
    cycles without a fault, single-cycle mode stops after `k ≤ n` fault-free steps (`k` = its first
    done step) with the same registers, data memory, output, exit code, retired-instruction, branch
    and procedure counts and pc, and the five-stage retire order is the single-cycle execution
    order. -/
theorem hazard_free_equals_single_cycle (prog : List Instr) (hP : ProgWF prog) (hfree : HazardFree prog)
    (st : St) (hS : SOK prog st) (hzf : Bool) (hx : st.exitCode = none) (n : Nat)
    (hr : runOK n (PSt.init st hzf)) (hd : isDone (pipeRun n (PSt.init st hzf)) = true)
    (hprev : ∀ m, m < n → isDone (pipeRun m (PSt.init st hzf)) = false) :
    ∃ k, k ≤ n ∧
      (∀ j, j < k → (singleStep (singleRun j st)).fault = none ∧ singleDone (singleRun j st) = false) ∧
      singleDone (singleRun k st) = true ∧
      (pipeRun n (PSt.init st hzf)).st.regs = (singleRun k st).regs ∧
      (pipeRun n (PSt.init st hzf)).st.mem = (singleRun k st).mem ∧
      (pipeRun n (PSt.init st hzf)).st.output = (singleRun k st).output ∧
      (pipeRun n (PSt.init st hzf)).st.exitCode = (singleRun k st).exitCode ∧
      (pipeRun n (PSt.init st hzf)).st.instrs = (singleRun k st).instrs ∧
      (pipeRun n (PSt.init st hzf)).st.branches = (singleRun k st).branches ∧
      (pipeRun n (PSt.init st hzf)).st.procs = (singleRun k st).procs ∧
      (pipeRun n (PSt.init st hzf)).st.pc = (singleRun k st).pc ∧
      retireLog n (PSt.init st hzf) = singleTrace k st := by
  have hfree' : HazardFree st.imem.prog := by rw [hS.1]; exact hfree
  obtain ⟨k, hk, h1, h2, h3, h4⟩ := final_state_single_raw prog hP st hS hzf hx n hr
    (rawFree_run_of_hazardFree st hzf (hS.progOK hP) (hS.icoh hP) hfree' n hr) hd hprev
  exact ⟨k, hk, h1, h2, h3.1.regs, h3.1.mem, h3.1.output, h3.1.exitCode, h3.1.instrs, h3.1.branches,
    h3.1.procs, h3.2, h4⟩

/-- Termination transfers: if single-cycle mode is done, or raises a fault, after `kstar` fault-free
    steps, the five-stage run of a hazard-free program (detection off) has raised a fault or is done
    after at most `5 * (kstar + 2)` cycles. -/
theorem hazard_free_terminates (prog : List Instr) (hP : ProgWF prog) (hfree : HazardFree prog)
    (st : St) (hS : SOK prog st) (hzf : Bool) (kstar : Nat)
    (hnf : ∀ j, j < kstar → (singleStep (singleRun j st)).fault = none)
    (hh : singleDone (singleRun kstar st) = true ∨ (singleStep (singleRun kstar st)).fault.isSome = true) :
    ∃ N, N ≤ 5 * (kstar + 2) ∧
      (¬ runOK N (PSt.init st hzf) ∨ isDone (pipeRun N (PSt.init st hzf)) = true) :=
  terminates_single_raw prog hP st hS hzf
    (fun n hr => rawFree_run_of_hazardFree st hzf (hS.progOK hP) (hS.icoh hP)
      (by rw [hS.1]; exact hfree) n hr) kstar hnf hh

/-- Fault agreement: the first fault of the five-stage run of a hazard-free program (detection off)
    is the fault single-cycle mode raises, for the same instruction address, with the same registers
    and output at that point. -/
theorem hazard_free_fault_agrees (prog : List Instr) (hP : ProgWF prog) (hfree : HazardFree prog)
    (st : St) (hS : SOK prog st) (hzf : Bool) (n : Nat) (hr : runOK n (PSt.init st hzf)) (ft : PFault)
    (hft : (step (pipeRun n (PSt.init st hzf))).fault = some ft) :
    ∃ k, k ≤ n ∧ (∀ j, j < k → (singleStep (singleRun j st)).fault = none) ∧
      (singleStep (singleRun k st)).fault = some (ft.addr, ft.fault) ∧ (singleRun k st).pc = ft.addr ∧
      (step (pipeRun n (PSt.init st hzf))).p.st.regs = (singleRun k st).regs ∧
      (step (pipeRun n (PSt.init st hzf))).p.st.output = (singleRun k st).output :=
  fault_agrees_single_raw prog hP st hS hzf n hr
    (rawFree_run_of_hazardFree st hzf (hS.progOK hP) (hS.icoh hP) (by rw [hS.1]; exact hfree) n hr) ft hft

/-- Nop-padding instance: the padding `pad prog` of ANY program (two `addi x0,x0,0` behind every
    instruction) runs on the five-stage pipeline without hazard detection to the same final state
    as in single-cycle mode. -/
theorem padded_equals_single_cycle (prog : List Instr) (hP : ProgWF (pad prog)) (st : St)
    (hS : SOK (pad prog) st) (hx : st.exitCode = none) (n : Nat)
    (hr : runOK n (PSt.init st false)) (hd : isDone (pipeRun n (PSt.init st false)) = true)
    (hprev : ∀ m, m < n → isDone (pipeRun m (PSt.init st false)) = false) :
    ∃ k, k ≤ n ∧ singleDone (singleRun k st) = true ∧
      (pipeRun n (PSt.init st false)).st.regs = (singleRun k st).regs ∧
      (pipeRun n (PSt.init st false)).st.mem = (singleRun k st).mem ∧
      (pipeRun n (PSt.init st false)).st.output = (singleRun k st).output ∧
      (pipeRun n (PSt.init st false)).st.exitCode = (singleRun k st).exitCode := by
  obtain ⟨k, hk, _, h2, h3, h4, h5, h6, _⟩ :=
    hazard_free_equals_single_cycle (pad prog) hP (pad_hazardFree prog) st hS false hx n hr hd hprev
  exact ⟨k, hk, h2, h3, h4, h5, h6⟩

/-! ### Non-vacuity: the padded dependent pair of `Props/C08.lean`, detection off. -/

open ArchSim.Props.C08 in
example : ProgWF (pad depProg) := ⟨by decide, by decide⟩

open ArchSim.Props.C08 in
example : SOK (pad depProg) (stOf (pad depProg)) :=
  ⟨rfl, ⟨⟨_, rfl, rfl, ArchSim.Lemmas.C18.WF_empty _⟩, fun _ => by show (0 : Nat) < 4294967296; decide, rfl,
    by decide, by decide⟩⟩

open ArchSim.Props.C08 in
/-- The run: 10 fault-free cycles without detection, done exactly then, x2 = 10 (the fresh value). -/
example :
    runOK 10 (PSt.init (stOf (pad depProg)) false) ∧
    isDone (pipeRun 10 (PSt.init (stOf (pad depProg)) false)) = true ∧
    (∀ m, m < 10 → isDone (pipeRun m (PSt.init (stOf (pad depProg)) false)) = false) ∧
    (pipeRun 10 (PSt.init (stOf (pad depProg)) false)).st.regs 2 = 10 ∧
    retireLog 10 (PSt.init (stOf (pad depProg)) false) = [0, 4, 8, 12, 16, 20] := by decide

end ArchSim.Props.C08Main
