/-
C11 — The instruction cache is transparent and its fetch accounting matches a reference.

Model: `Rv.IMem` with `cache = some c` (`Model/Rv.lean`: `ICache`, `IMem.fetch`, `IMem.instrAt`,
`iBlockFromMem`, `ICache.reset`).  Reference for the accounting: the tag-only cache of
`Spec/TagCache.lean`, fed the fetch addresses as counted reads; `eraseI` forgets the cached
instructions.

`IInv im c` is the invariant of reachable instruction caches: `2^idxBits` sets of `assoc` ways,
well-formed policy states, and **every valid way holds exactly the block of the instruction memory
`im` that its tag and set index name**.  It holds for `ICache.init` / `ICache.reset` with *every*
program (`inv_init`, `reset_clears`) and after every fetch (`fetch_preserves_inv`).  The only
hypothesis on the configuration is `AssocOK isLru assoc` (`0 < assoc`; PLRU: a power of two); the
geometry is otherwise arbitrary.
-/
import ArchSim.Lemmas.C11Step
import ArchSim.Lemmas.C09Distinct

namespace ArchSim.Props.C11
open ArchSim ArchSim.Cache ArchSim.Rv ArchSim.Repl ArchSim.Spec.TagCache
open ArchSim.Lemmas.C09 ArchSim.Lemmas.C11

/-! ### 7. Transparency -/

/-- A freshly built instruction cache satisfies the invariant, whatever the program. -/
theorem inv_init (im : IMem) (isLru : Bool) (g : Geo) (penalty : Nat) (ha : AssocOK isLru g.assoc) :
    IInv im (ICache.init isLru g penalty) :=
  IInv_init im isLru g penalty ha

/-- A fetch keeps the invariant (and changes nothing of the instruction memory but the cache). -/
theorem fetch_preserves_inv {im : IMem} {c : ICache} (hc : im.cache = some c) (hinv : IInv im c)
    (pc : Int) :
    ∃ c', (im.fetch pc).imem = { im with cache := some c' } ∧ IInv (im.fetch pc).imem c' ∧
      c'.isLru = c.isLru ∧ c'.geo = c.geo ∧ c'.penalty = c.penalty := by
  obtain ⟨_, ⟨c', h1, h2, h3, h4⟩, _⟩ := fetch_spec hc hinv pc
  refine ⟨c', h1, ?_, h4, ?_, ?_⟩
  · rw [h1]; exact h2.congr rfl
  · have : (eraseI c').geo = (refRead (polOps c.isLru) (eraseI c) pc true).cache.geo := by rw [h3]
    exact this
  · have : (eraseI c').penalty = (refRead (polOps c.isLru) (eraseI c) pc true).cache.penalty := by
      rw [h3]
    exact this

/-- For **every** `pc` a fetch through the cache never raises (no policy error, no index error) and
    returns what the uncached instruction memory holds at the word-aligned, 32-bit-wrapped `pc`
    (an `EmptyInstruction`, i.e. `none`, where there is no instruction). -/
theorem icache_transparent_any_pc {im : IMem} {c : ICache} (hc : im.cache = some c)
    (hinv : IInv im c) (pc : Int) :
    (im.fetch pc).res = .ok (im.instrAt ((wrap32 pc - wrap32 pc % 4 : Nat) : Int)) :=
  (fetch_spec hc hinv pc).res

/-- For every word-aligned `pc` in `[0, 2^32)` — the only pcs at which the stages fetch — the
    fetch through the cache returns exactly `instrAt pc`, the content of the uncached instruction
    memory: on a hit, on a miss, for blocks that extend past the end of the program, for branches
    into the middle of a block. -/
theorem icache_transparent {im : IMem} {c : ICache} (hc : im.cache = some c) (hinv : IInv im c)
    {pc : Int} (h0 : 0 ≤ pc) (h1 : pc < 4294967296) (h4 : pc % 4 = 0) :
    (im.fetch pc).res = .ok (im.instrAt pc) := by
  rw [icache_transparent_any_pc hc hinv pc, aligned_wrap h0 h1 h4]

/-- Where an instruction exists, the cached and the uncached instruction memory system return the
    same instruction. -/
theorem icache_eq_uncached {im : IMem} {c : ICache} (hc : im.cache = some c) (hinv : IInv im c)
    {pc : Int} {i : Instr} (hi : im.instrAt pc = some i) (h1 : pc < 16384) :
    (im.fetch pc).res = .ok (some i) ∧
    (im.fetch pc).res = (({ im with cache := none } : IMem).fetch pc).res := by
  have h04 : 0 ≤ pc ∧ pc % 4 = 0 := by
    unfold IMem.instrAt at hi
    split at hi
    · assumption
    · cases hi
  have hr := icache_transparent hc hinv h04.1 (by omega) h04.2
  rw [hi] at hr
  refine ⟨hr, ?_⟩
  have hi' : ({ im with cache := none } : IMem).instrAt pc = some i := hi
  rw [hr]
  simp only [IMem.fetch, hi', h04.1, h1, and_self, if_true]

/-- Transparency along executions: after any sequence of fetches starting from an initial (or
    reset) cache, every further aligned fetch still returns `instrAt pc`. -/
theorem icache_transparent_run (prog : List Instr) (isLru : Bool) (g : Geo) (penalty : Nat)
    (ha : AssocOK isLru g.assoc) (pcs : List Int) {pc : Int} (h0 : 0 ≤ pc) (h1 : pc < 4294967296)
    (h4 : pc % 4 = 0) :
    let im : IMem := { prog := prog, cache := some (ICache.init isLru g penalty) }
    ((fetchRun im pcs).1.fetch pc).res = .ok (im.instrAt pc) := by
  intro im
  obtain ⟨c', h, hinv, _⟩ := fetchRun_spec (im := im) rfl (IInv_init im isLru g penalty ha) pcs
  rw [h]
  exact icache_transparent (im := { im with cache := some c' }) rfl (hinv.congr rfl) h0 h1 h4

/-- After any sequence of fetches from an initial (or reset) cache, two valid ways of one set never
    carry the same tag. -/
theorem icache_tags_distinct (prog : List Instr) (isLru : Bool) (g : Geo) (penalty : Nat)
    (ha : AssocOK isLru g.assoc) (pcs : List Int) :
    let im : IMem := { prog := prog, cache := some (ICache.init isLru g penalty) }
    ∀ c', (fetchRun im pcs).1.cache = some c' →
      ∀ cs ∈ c'.sets, ∀ (i j : Nat) (wi wj : Way (Option Instr)),
        cs.ways[i]? = some wi → cs.ways[j]? = some wj →
        wi.valid = true → wj.valid = true → wi.tag = wj.tag → i = j := by
  intro im c' hc' cs hcs i j wi wj hi hj hvi hvj ht
  obtain ⟨c'', h1, _, _, h4, _⟩ := fetchRun_spec (im := im) rfl (IInv_init im isLru g penalty ha) pcs
  rw [h1] at hc'
  cases hc'
  have he : eraseI (ICache.init isLru g penalty) = TagCache.init (polOps isLru) false g penalty := by
    simp [eraseI, ICache.init, TagCache.init, initSets, eraseSet, eraseWay, Way.empty]
  have hd := refRun_distinct (polOps isLru) _ (fetchOps pcs) (init_distinct (polOps isLru) false g penalty)
  rw [show (ICache.init isLru g penalty).isLru = isLru from rfl, he] at h4
  rw [← h4] at hd
  exact distinct_ways hd hcs hi hj hvi hvj ht

/-! ### 8. Reset -/

/-- `reset` of any instruction cache, whatever it held: no valid way remains (hence no instruction
    of the previous program can be returned), `hits = accesses = 0`, `lastHit = false`; it *is* the
    freshly built cache of the same configuration, and it satisfies the invariant for every new
    program. -/
theorem reset_clears (c : ICache) :
    (∀ cs ∈ (ICache.reset c).sets, ∀ w ∈ cs.ways, w.valid = false) ∧
    (ICache.reset c).hits = 0 ∧ (ICache.reset c).accesses = 0 ∧ (ICache.reset c).lastHit = false ∧
    ICache.reset c = ICache.init c.isLru c.geo c.penalty ∧
    (AssocOK c.isLru c.geo.assoc → ∀ im : IMem, IInv im (ICache.reset c)) := by
  refine ⟨?_, rfl, rfl, rfl, rfl, fun ha im => IInv_init im _ _ _ ha⟩
  intro cs hcs w hw
  simp only [ICache.reset, ICache.init, initSets] at hcs
  rw [List.eq_of_mem_replicate hcs] at hw
  rw [List.eq_of_mem_replicate hw]
  rfl

/-- After a reset and a reload the first fetch of every block is a miss served from the *new*
    program: a fetch right after `reset` returns the new program's instruction and is a miss. -/
theorem reset_then_fetch (c : ICache) (ha : AssocOK c.isLru c.geo.assoc) (prog' : List Instr)
    {pc : Int} (h0 : 0 ≤ pc) (h1 : pc < 4294967296) (h4 : pc % 4 = 0) :
    let im' : IMem := { prog := prog', cache := some (ICache.reset c) }
    (im'.fetch pc).res = .ok (im'.instrAt pc) ∧ (im'.fetch pc).extra = c.penalty := by
  intro im'
  have hinv : IInv im' (ICache.reset c) := IInv_init im' _ _ _ ha
  refine ⟨icache_transparent (im := im') rfl hinv h0 h1 h4, ?_⟩
  -- a reset cache has no valid way, so the lookup misses
  obtain ⟨cs, hs, hcs⟩ := hinv.getSet pc
  have hf : findWay cs.ways (decode (ICache.reset c).geo.idxBits (ICache.reset c).geo.blkBits pc).tag
      = none := by
    have hmem := List.mem_of_getElem? hs
    have hv := (reset_clears c).1 cs hmem
    unfold findWay
    simp only
    rw [if_neg]
    rw [Nat.not_lt]
    apply Nat.le_of_eq
    symm
    apply List.findIdx_eq_length_of_false
    intro w hw
    simp [hv w hw]
  obtain ⟨v, hv, hvlt⟩ := (polOps_ok ha).victim cs.pol hcs.pol
  obtain ⟨p, hp, _⟩ := (polOps_ok ha).access cs.pol v hcs.pol hvlt
  have hvl : v < cs.ways.length := hcs.nways ▸ hvlt
  rw [fetch_miss (im := im') rfl rfl hs hf hv (List.getElem?_eq_getElem hvl) hp]
  rfl

/-! ### 9. Accounting -/

/-- One fetch: `accesses` grows by exactly one; the erased cache, hence `hits` and `lastHit`, and
    the added cycles are those of the reference cache performing a counted read of `pc`; a miss
    adds exactly the penalty and a hit nothing. -/
theorem fetch_accounting {im : IMem} {c : ICache} (hc : im.cache = some c) (hinv : IInv im c)
    (pc : Int) :
    ∃ c', (im.fetch pc).imem.cache = some c' ∧
      c'.accesses = c.accesses + 1 ∧
      eraseI c' = (refRead (polOps c.isLru) (eraseI c) pc true).cache ∧
      c'.hits = (refRead (polOps c.isLru) (eraseI c) pc true).cache.hits ∧
      c'.lastHit = (refRead (polOps c.isLru) (eraseI c) pc true).cache.lastHit ∧
      (im.fetch pc).extra = (refRead (polOps c.isLru) (eraseI c) pc true).extra ∧
      (im.fetch pc).extra = (if c'.lastHit then 0 else c.penalty) ∧
      c'.hits = c.hits + (if c'.lastHit then 1 else 0) := by
  obtain ⟨_, ⟨c', h1, _, h3, _⟩, hx⟩ := fetch_spec hc hinv pc
  have ha : (eraseI c').accesses = (refRead (polOps c.isLru) (eraseI c) pc true).cache.accesses := by
    rw [h3]
  have hh : (eraseI c').hits = (refRead (polOps c.isLru) (eraseI c) pc true).cache.hits := by rw [h3]
  have hl : (eraseI c').lastHit = (refRead (polOps c.isLru) (eraseI c) pc true).cache.lastHit := by
    rw [h3]
  refine ⟨c', by rw [h1], ha, h3, hh, hl, hx, ?_, ?_⟩
  · rw [hx, show c'.lastHit = (eraseI c').lastHit from rfl, hl]
    simp only [refRead, TagCache.count, Bool.true_and, if_true]
    split <;> simp_all
    rfl
  · rw [show c'.lastHit = (eraseI c').lastHit from rfl, hl, show c'.hits = (eraseI c').hits from rfl, hh]
    rfl

/-- Sequences of fetches from an initial (or reset) cache: the access counter equals the number of
    fetches performed; the hit counter and the last-hit flag equal those of the reference cache fed
    the same addresses; hits + misses = fetches; the cycles added are penalty × number of misses. -/
theorem fetch_run_accounting (prog : List Instr) (isLru : Bool) (g : Geo) (penalty : Nat)
    (ha : AssocOK isLru g.assoc) (pcs : List Int) :
    let im : IMem := { prog := prog, cache := some (ICache.init isLru g penalty) }
    let ref := refRun (polOps isLru) (TagCache.init (polOps isLru) false g penalty) (fetchOps pcs)
    ∃ c', (fetchRun im pcs).1.cache = some c' ∧
      c'.accesses = pcs.length ∧
      c'.hits = ref.1.hits ∧ c'.lastHit = ref.1.lastHit ∧
      c'.hits + ref.2.2 = pcs.length ∧
      (fetchRun im pcs).2 = penalty * ref.2.2 := by
  intro im ref
  obtain ⟨c', h1, _, _, h4, h5⟩ := fetchRun_spec (im := im) rfl (IInv_init im isLru g penalty ha) pcs
  have he : eraseI (ICache.init isLru g penalty) = TagCache.init (polOps isLru) false g penalty := by
    simp [eraseI, ICache.init, TagCache.init, initSets, eraseSet, eraseWay, Way.empty]
  have hl : (ICache.init isLru g penalty).isLru = isLru := rfl
  rw [hl, he] at h4 h5
  have hacc := refRun_accesses (polOps isLru) (TagCache.init (polOps isLru) false g penalty) (fetchOps pcs)
  have hhm := refRun_hits_misses (polOps isLru) (TagCache.init (polOps isLru) false g penalty) (fetchOps pcs)
  have hex := refRun_extra (polOps isLru) (TagCache.init (polOps isLru) false g penalty) (fetchOps pcs)
  rw [fetchOps_counted] at hacc hhm
  refine ⟨c', by rw [h1], ?_, ?_, ?_, ?_, ?_⟩
  · show (eraseI c').accesses = _
    rw [h4, hacc]; exact Nat.zero_add _
  · show (eraseI c').hits = _
    rw [h4]
  · show (eraseI c').lastHit = _
    rw [h4]
  · show (eraseI c').hits + _ = _
    rw [h4, hhm]; exact Nat.zero_add _
  · rw [h5, hex]; rfl

/-! ### One fetch per executed instruction (single-cycle mode) -/

/-- One single-cycle step with a cached instruction memory: the instruction-cache access counter
    grows exactly as the instruction count does — by one if an instruction exists at `pc` (whatever
    it does, faulting or not), by zero otherwise — and the invariant is kept. -/
theorem single_step_one_fetch_per_instruction {s : St} {c : ICache} (hc : s.imem.cache = some c)
    (hinv : IInv s.imem c) :
    ∃ c', (singleStep s).st.imem.cache = some c' ∧ IInv (singleStep s).st.imem c' ∧
      c'.accesses + s.instrs = c.accesses + (singleStep s).st.instrs ∧
      (singleStep s).st.instrs = s.instrs + (if (s.imem.instrAt s.pc).isSome then 1 else 0) :=
  singleStep_fetch_count hc hinv

/-- After any number of single-cycle steps the access counter has grown by exactly the number of
    instructions executed. -/
theorem single_cycle_accesses_eq_instructions (n : Nat) {s : St} {c : ICache}
    (hc : s.imem.cache = some c) (hinv : IInv s.imem c) :
    ∃ c', (singleRun n s).imem.cache = some c' ∧
      c'.accesses + s.instrs = c.accesses + (singleRun n s).instrs := by
  obtain ⟨c', h1, _, h2⟩ := singleRun_fetch_count n hc hinv
  exact ⟨c', h1, h2⟩

/-! ### Non-vacuity -/

example : AssocOK true exIGeo.assoc := ⟨by decide, fun h => by cases h⟩
example : AssocOK false exIGeo.assoc := ⟨by decide, fun _ => ⟨1, rfl⟩⟩
example : IInv (exIM false) (ICache.init false exIGeo 7) :=
  inv_init _ _ _ _ ⟨by decide, fun _ => ⟨1, rfl⟩⟩
/-- pc = 8 holds an instruction; pc = 12 lies in the same block past the end of the program. -/
example : (exIM true).instrAt 8 = some { op := .beq, rs1 := 0, rs2 := 0, imm := -8 } := by decide
example : (exIM true).instrAt 12 = none := by decide
/-- The reference's verdict on a loop `0,4,8,0,4,8` with a detour is not trivial. -/
example : (let r := refRun (polOps true) (TagCache.init (polOps true) false exIGeo 7)
              (fetchOps [0, 4, 8, 0, 4, 8, 32, 64, 0])
           (r.1.accesses, r.1.hits, r.2.2, r.2.1)) = (9, 4, 5, 35) := by decide

end ArchSim.Props.C11
