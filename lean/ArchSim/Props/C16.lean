/-
C16 — inspection is pure. In the functional models every inspection function is `State → View`, so the
model-level statement is an erasure law over operation lists; the substantive content is that the only
state a display path can touch — the cache — is left unchanged by uncounted reads (C09). The purity
of the real getter *code* is witnessed by the correspondence check (the model treats every
inspection call as a no-op; any mutation by a getter shows in the next deep snapshot).
-/
import ArchSim.Props.C09

namespace ArchSim.Props.C16
open ArchSim ArchSim.Cache

/-- An operation of an API history: a state transformer, or an inspection (a view of the state that
    is thrown away). -/
inductive ApiOp (σ : Type) where
  | act (f : σ → σ)
  | inspect (view : σ → String)

/-- Running a history: inspections compute a view and leave the state alone. -/
def runApi {σ : Type} : List (ApiOp σ) → σ → σ
  | [], s => s
  | .act f :: rest, s => runApi rest (f s)
  | .inspect _ :: rest, s => runApi rest s

/-- The history with its inspection operations deleted. -/
def eraseInspections {σ : Type} : List (ApiOp σ) → List (ApiOp σ)
  | [] => []
  | .act f :: rest => .act f :: eraseInspections rest
  | .inspect _ :: rest => eraseInspections rest

/-- Deleting the inspection operations of any history leaves the final state — hence every later
    result and every later view — unchanged. -/
theorem inspect_irrelevant {σ : Type} (ops : List (ApiOp σ)) (s : σ) :
    runApi (eraseInspections ops) s = runApi ops s := by
  induction ops generalizing s with
  | nil => rfl
  | cons op rest ih => cases op <;> simp [runApi, eraseInspections, ih]

/-- Equal states give equal views, however often a view is taken in between. -/
theorem views_repeatable {σ : Type} (view : σ → String) (n : Nat) (s : σ) :
    runApi (List.replicate n (ApiOp.inspect view)) s = s := by
  induction n with
  | zero => rfl
  | succ k ih => simpa [List.replicate, runApi] using ih

/-- The only state a display path reads *through* is the data cache (uncounted reads): such a read
    changes neither the hit counter, the access counter, the last-hit flag nor the cycle counter. -/
theorem display_read_keeps_statistics {σ : Type} (P : PolicyOps σ) (s : DSys σ) (bits : Nat) (a : Int) :
    (s.read P bits a false).sys.hits = s.hits ∧
    (s.read P bits a false).sys.accesses = s.accesses ∧
    (s.read P bits a false).sys.lastHit = s.lastHit ∧
    (s.read P bits a false).extra = 0 :=
  C09.uncounted_read_counters (P := P) s bits a

example : runApi [ApiOp.inspect (fun n : Nat => toString n), .act (· + 1), .inspect (fun _ => "x")] 3 = 4 := by
  decide

end ArchSim.Props.C16
