/-
C04 (front end) — spelling independence of the RISC-V assembler model:
  (a) "ABI and xN register names are interchangeable",
  (b) "mnemonics are case-insensitive",
  (c) "numbers may be decimal, hexadecimal or binary with optional sign",
  (d) "Comments, blank lines and indentation never change the result."

Scanners: `Asm.pReg`, `Asm.pImm`, `PP.oneOfCaseless`, `PP.caselessLit`; line grammar: `Asm.parseLine`; text
passes: `Asm.sanitize`, `Asm.load`. Spellings (`RegStyle`, `NumStyle`, `Spelling`, `render`) are defined in
Lemmas/C04SpellReg, C04SpellNumSp, C04SpellRender; the default `Spelling` is the printer `Instr.repr`.

Findings (proved below as negative statements): register names are case-SENSITIVE (`X5`, `A0` are rejected);
the radix prefix is case-sensitive (`0X10` is read as `0` followed by garbage, so the line is rejected); a `+`
sign is rejected; a decimal numeral with a leading zero and a non-zero value is rejected; a mnemonic glued to
its first operand is accepted in lower case but may be rejected in upper case (`addra` vs `ADDRA`), which is
why the line-level case theorem requires a non-letter after the mnemonic.

Coverage of the whole-line theorems: every real instruction form with numeric operands (all classes), `li`, `mv`,
`nop`, branch / `jal` with a label target (with or without `+0x` offset), each also behind an in-line label for
the real instructions. Not covered at line level: `la` and the load/store-by-variable-name forms (their operand
spellings are covered by the token-level and the mnemonic-case theorems only).
-/
import ArchSim.Lemmas.C04SpellLab2
import ArchSim.Lemmas.C14Sound
namespace ArchSim.Props.C04Spell
open ArchSim ArchSim.PP ArchSim.Rv ArchSim.Asm ArchSim.Lemmas.C14 ArchSim.Lemmas.C04Spell

/-! ### (a) registers -/

/-- Every ABI name of the table is read as its register number, whatever follows — except that `s1` must
    not be followed by `0` or `1` (then the longer names `s10`, `s11` win: longest match). -/
theorem abi_register (name : String) (n : Nat) (hmem : (name, n) ∈ abiNames) (rest : List Char)
    (hr : name = "s1" → ∀ c ∈ rest.head?, c ≠ '0' ∧ c ≠ '1') :
    pReg (name.toList ++ rest) = .ok n rest :=
  pReg_abi name n hmem rest hr

/-- The side condition of `abi_register` is needed: `s1` followed by `0` is register 26 (`s10`), not 9. -/
theorem abi_longest_match : pReg ("s1".toList ++ "0".toList) = .ok 26 [] := by
  have := pReg_abi "s10" 26 (by decide) [] (by intro h; exact absurd h (by decide))
  simpa using this

/-- Every register number below 32 has an ABI name (and `x<n>`, see `C14.register_roundtrip`). -/
theorem abi_names_total (n : Nat) (hn : n < 32) : ∃ name, (name, n) ∈ abiNames := abi_total n hn

/-- ABI and xN names are interchangeable: for every entry `(name, n)` of the ABI table — in particular both
    `s0` and `fp` for register 8 — the ABI name and `x<n>`, each after any blanks (spaces/tabs) and followed by
    anything but a digit, are read as the same register number `n`. -/
theorem register_names_interchangeable (name : String) (n : Nat) (hmem : (name, n) ∈ abiNames)
    (ws ws' rest : List Char) (hws : ∀ c ∈ ws, isWs c = true) (hws' : ∀ c ∈ ws', isWs c = true)
    (hr : ∀ c ∈ rest.head?, isNum c = false) :
    pReg (ws ++ (name.toList ++ rest)) = .ok n rest ∧
    pReg (ws' ++ (("x" ++ toString n).toList ++ rest)) = .ok n rest := by
  have hn : n < 32 := abi_lt (name, n) hmem
  refine ⟨?_, ?_⟩
  · rw [pReg_ws ws _ hws]; exact pReg_abi name n hmem rest (regEnd_of_not_digit _ _ hr)
  · rw [pReg_ws ws' _ hws']
    have := pReg_regTxt n hn rest hr
    simpa [regTxt] using this

/-- The three spellings of a register operand (`RegStyle`: `x<n>`, ABI name, ABI name with `fp` for 8), after
    any blanks, are read as the register number. -/
theorem register_spellings (st : RegStyle) (n : Nat) (hn : n < 32) (ws rest : List Char)
    (hws : ∀ c ∈ ws, isWs c = true) (hr : ∀ c ∈ rest.head?, isNum c = false) :
    pReg (ws ++ (regSp st n ++ rest)) = .ok n rest :=
  pReg_sp st n hn ws rest hws hr

/-- FINDING: register names are case-sensitive. Nothing that starts with an upper-case letter is a register
    (`X5`, `A0`, `SP`, `Zero` are all rejected). -/
theorem register_names_case_sensitive (c : Char) (t : List Char) (h1 : 'A' ≤ c) (h2 : c ≤ 'Z') :
    pReg (c :: t) = .fail :=
  pReg_fail_upper c t h1 h2

/-! ### (c) numerals -/

/-- Hexadecimal: an optional `-`, `0x` and ANY non-empty string of hexadecimal digits — upper or lower case,
    any number of leading zeros, any length — is read as its value when no hexadecimal digit follows. -/
theorem numeral_hex (neg : Bool) (ds ws rest : List Char) (hws : ∀ c ∈ ws, isWs c = true)
    (hds : ∀ c ∈ ds, isHexNum c = true) (hne : ds ≠ []) (hr : ∀ c ∈ rest.head?, isHexNum c = false) :
    pImm (ws ++ ((if neg then ['-'] else []) ++ '0' :: 'x' :: (ds ++ rest)))
      = .ok (if neg then -(digitsVal 16 ds : Int) else (digitsVal 16 ds : Int)) rest := by
  rw [pImm_ws ws _ hws]; exact pImm_hex_digits neg ds rest hds hne hr

/-- Binary: an optional `-`, `0b` and any non-empty string of `0`/`1` (any length) is read as its value when
    neither `0` nor `1` follows. -/
theorem numeral_bin (neg : Bool) (ds ws rest : List Char) (hws : ∀ c ∈ ws, isWs c = true)
    (hds : ∀ c ∈ ds, isBin c = true) (hne : ds ≠ []) (hr : ∀ c ∈ rest.head?, isBin c = false) :
    pImm (ws ++ ((if neg then ['-'] else []) ++ '0' :: 'b' :: (ds ++ rest)))
      = .ok (if neg then -(digitsVal 2 ds : Int) else (digitsVal 2 ds : Int)) rest := by
  rw [pImm_ws ws _ hws]; exact pImm_bin_digits neg ds rest hds hne hr

/-- Decimal: an optional `-` and a string of at most 4300 digits that has no leading zero unless its value is
    zero is read as its value, when the next character is not a digit, `x` or `b`. -/
theorem numeral_dec (neg : Bool) (ds ws rest : List Char) (hws : ∀ c ∈ ws, isWs c = true)
    (hds : ∀ c ∈ ds, isNum c = true) (hne : ds ≠ []) (hlen : ds.length ≤ 4300)
    (hlead : digitsVal 10 ds ≠ 0 → ds.head? ≠ some '0')
    (hr : ∀ c ∈ rest.head?, isNum c = false ∧ c ≠ 'x' ∧ c ≠ 'b') :
    pImm (ws ++ ((if neg then ['-'] else []) ++ (ds ++ rest)))
      = .ok (if neg then -(digitsVal 10 ds : Int) else (digitsVal 10 ds : Int)) rest := by
  rw [pImm_ws ws _ hws]; exact pImm_dec_digits neg ds rest hds hne hlen hlead hr

/-- Decimal with a leading zero and a non-zero value (`007`) is REJECTED, like Python's `int(text, 0)`. -/
theorem numeral_dec_leading_zero_rejected (neg : Bool) (ds rest : List Char) (hds : ∀ c ∈ ds, isNum c = true)
    (hz : ds.head? = some '0') (hnz : digitsVal 10 ds ≠ 0)
    (hr : ∀ c ∈ rest.head?, isNum c = false ∧ c ≠ 'x' ∧ c ≠ 'b') :
    pImm ((if neg then ['-'] else []) ++ (ds ++ rest)) = .fail :=
  pImm_dec_leading_zero neg ds rest hds hz hnz hr

/-- Every integer in every spelling: for every integer `v` of at most 4300 decimal digits, its decimal text,
    its `0x` text (any number of leading zeros, each digit letter in either case) and its `0b` text (any number
    of leading zeros), with `-` for a negative value and after any blanks, are all read as `v` when the next
    character is not a letter, digit or underscore. -/
theorem numeral_spellings (st : NumStyle) (v : Int) (ws rest : List Char) (hws : ∀ c ∈ ws, isWs c = true)
    (hv : v.natAbs < 10 ^ 4300) (hr : ∀ c ∈ rest.head?, isLabelBody c = false) :
    pImm (ws ++ (numSp st v ++ rest)) = .ok v rest :=
  pImm_numSp st v ws rest hws hv hr

/-- The hexadecimal and binary spellings have no size limit at all. -/
theorem numeral_spellings_radix (st : NumStyle) (hst : st ≠ .dec) (v : Int) (ws rest : List Char)
    (hws : ∀ c ∈ ws, isWs c = true) (hr : ∀ c ∈ rest.head?, isLabelBody c = false) :
    pImm (ws ++ (numSp st v ++ rest)) = .ok v rest :=
  pImm_numSp_radix st hst v ws rest hws hr

/-- FINDING: the radix prefix is case-sensitive. `0X10` is read as the decimal `0`, leaving `X10` unread (so
    a line such as `addi x1, x1, 0X10` cannot be tokenized). -/
theorem numeral_upper_prefix_not_hex : pImm "0X10".toList = .ok 0 "X10".toList := by
  have := pImm_dec_digits false ['0'] "X10".toList (by decide) (by decide) (by decide) (by decide)
    (by intro c hc; simp at hc; subst hc; decide)
  have hd : (digitVal '0').getD 0 = 0 := by decide
  simpa [signTxt, signed, digitsVal, hd] using this

/-- FINDING: the optional sign is `-` only; a numeral with a `+` sign is rejected. -/
theorem numeral_plus_sign_rejected (t : List Char) : pImm ('+' :: t) = .fail :=
  pImm_fail_head '+' t (by decide) (by decide) (by decide)

/-! ### (b) mnemonics -/

/-- Mnemonic tables are case-insensitive: for ANY table `syms`, any lower-case symbol `m` of it and any ASCII
    case variant `w'` of `m` (same letters up to case: `w'.map toLowerAscii = m`), followed by ANY text,
    `one_of(syms, caseless=True)` gives the same result — the same canonical (lower-case) symbol and the same
    rest — as on `m` itself. -/
theorem mnemonic_table_case_insensitive (syms : List String) (m : String) (hm : m ∈ syms)
    (hlow : ∀ c ∈ m.toList, isLow c = true) (w' rest : List Char) (hv : w'.map toLowerAscii = m.toList) :
    oneOfCaseless syms (w' ++ rest) = oneOfCaseless syms (m.toList ++ rest) :=
  oneOfCaseless_caseVar syms m hm w' rest ⟨hv, hlow⟩

/-- The same for keywords matched with `CaselessLiteral` (`jal`, `fence`, `li`, `ecall`, `ebreak`, `nop`): on a
    lower-case word `w` no longer than the keyword and on any case variant `w'` of it the result is the same. -/
theorem keyword_case_insensitive (kw : String) (w' w rest : List Char) (hv : w'.map toLowerAscii = w)
    (hlow : ∀ c ∈ w, isLow c = true) (hlen : w.length ≤ kw.toList.length) :
    caselessLit kw (w' ++ rest) = caselessLit kw (w ++ rest) :=
  caselessLit_caseVar kw w' w rest ⟨hv, hlow⟩ hlen

/-- Mnemonics are case-insensitive, for whole lines. For every mnemonic `m` of the grammar (real or pseudo:
    `mnWords`), every case variant `w'` of it at the start of a line (after any blanks), followed by `rest`
    where `rest` is empty or starts with an ASCII character that is no letter, digit or underscore, and whose
    first non-blank character is not `:` (so that the word is not a label): the line is tokenized exactly as
    with the lower-case mnemonic — same token or same failure, whatever the operands are. -/
theorem mnemonic_case_insensitive_line (m : String) (hm : m ∈ mnWords) (ws w' rest : List Char)
    (hws : ∀ c ∈ ws, isWs c = true) (hv : w'.map toLowerAscii = m.toList)
    (hsep : ∀ c ∈ rest.head?, c.toNat < 128 ∧ isLabelBody c = false)
    (hcolon : (skipWs rest).head? ≠ some ':') :
    parseLine (ws ++ (w' ++ rest)) = parseLine (m.toList ++ rest) := by
  rw [parseLine_ws ws _ hws]
  exact parseLine_cv m hm w' rest ⟨hv, (mnWords_low m hm).1⟩ ⟨hsep, hcolon⟩

/-- Indentation of a single line: blanks (spaces, tabs) in front of ANY line never change its token. -/
theorem leading_blanks_invisible (ws l : List Char) (hws : ∀ c ∈ ws, isWs c = true) :
    parseLine (ws ++ l) = parseLine l :=
  parseLine_ws ws l hws

/-- FINDING: the side condition "a non-letter follows the mnemonic" of `mnemonic_case_insensitive_line` is
    needed. No blank is required after a mnemonic, so `addra, x1, x2` is read by the R-type alternative as
    `add ra, x1, x2`; with the glued word in upper case the register name `RA` is rejected (register names are
    case-sensitive). (The real assembler agrees: the first line loads, the second raises a syntax error.) -/
theorem glued_mnemonic_case_matters :
    pRType "addra, x1, x2".toList = .ok (.rtype "add" 1 1 2) [] ∧ pRType "ADDRA, x1, x2".toList = .fail :=
  ⟨pRType_addra, pRType_ADDRA⟩

/-! ### whole lines in any spelling -/

/-- Whole-line spelling independence. Let `i` be any instruction other than `fence` with register numbers
    below 32 and numbers of at most 4300 decimal digits (`Spellable`). EVERY spelling `sp` of its line — any
    blanks (spaces/tabs) at the start, at the end, after the mnemonic (at least one), around the commas and the
    parentheses; every letter of the mnemonic in either case; every register as `x<n>`, ABI name or `fp`; every
    number in decimal, `0x` hexadecimal (leading zeros, digits of either case) or `0b` binary (leading zeros)
    with `-` for negatives — is tokenized as the same label-free entry `itemOf i`. Covers all classes: R-type,
    I-type and shifts, `jalr`, loads, stores, branches, U-type, `jal`, `ecall`/`ebreak`, CSR and CSR-immediate. -/
theorem line_spelling_independent (sp : Spelling) (i : Instr) (hs : Spellable i) :
    parseLine (render sp i) = some { lbl := none, item := itemOf i } :=
  parseLine_render sp i hs

/-- The default spelling is the printed form `Instr.repr` (for a CSR form the csr number must not be negative,
    as the printer writes it with `hex`). -/
theorem default_spelling_is_repr (i : Instr) (hf : i.op ≠ .fence)
    (hcsr : i.op.ty = .csr ∨ i.op.ty = .csri → 0 ≤ i.aux) : render {} i = i.repr.toList :=
  render_default i hf hcsr

/-- Every spelling of a canonical instruction (hypotheses of `C14.repr_roundtrip`, csr number of at most 4300
    digits) is tokenized exactly like its printed form, and the assembler back end builds from that token, at
    the same address and for any label table, exactly the instruction `i`. -/
theorem spelled_line_roundtrip (sp : Spelling) (i : Instr) (addr : Int) (hc : i.Canon addr) (hf : i.op ≠ .fence)
    (haux : i.aux.natAbs < 10 ^ 4300) :
    parseLine (render sp i) = parseLine i.repr.toList ∧
    ∃ tok, parseLine (render sp i) = some tok ∧ tok.lbl = none ∧
      ∀ (ls : Labels) (k : Nat) (line : String), buildInstrs ls [(k, line, tok.item)] addr = .ok [i] := by
  obtain ⟨h1, h2, hb⟩ := render_roundtrip sp i addr hc hf haux
  generalize itemOf i = it at h2 hb
  refine ⟨h1, _, h2, rfl, ?_⟩
  intro ls k line
  rcases hb with ⟨_, hit, hi⟩ | ⟨_, hit, hi⟩ | ⟨_, _, pi, hit, hi⟩
  · simp [hit, buildInstrs, Except.map, hi]
  · simp [hit, buildInstrs, Except.map, hi]
  · simp [hit, buildInstrs, Except.map, hi ls k line]

/-- Program-level spelling independence. Let `prog` be a program of at most 4096 canonical non-`fence`
    instructions, the k-th at address 4k. If the entry texts of the source lines `ls` (what is left of each line
    after comment stripping; blank and comment-only lines have none) are the instructions of `prog`, the k-th in
    ANY spelling `sps[k]`, then loading the text succeeds and stores exactly `prog`. -/
theorem program_spelling_independent (s : St) (ls : List (List Char))
    (hnb : ∀ l ∈ ls, ∀ c ∈ l, isLineBreak c = false) (prog : List Instr) (sps : List Spelling)
    (hl : ls.filterMap entryOf = List.zipWith render sps prog) (hlen : sps.length = prog.length)
    (hc : ∀ k (hk : k < prog.length), prog[k].Canon (4 * k) ∧ prog[k].op ≠ .fence)
    (haux : ∀ i ∈ prog, i.aux.natAbs < 10 ^ 4300) (hsize : prog.length ≤ 4096) :
    (load s (joinLines ls)).err = none ∧ (load s (joinLines ls)).st.imem.prog = prog := by
  apply load_spelled_lines s ls hnb prog sps hl hlen ?_ haux hsize
  apply canonFrom_of_forall
  intro k hk
  simpa using hc k hk

/-- What `sanitize` makes of a spelled line, with or without a trailing comment `# …`: the same line without
    its leading and trailing blanks (so the hypothesis `hl` of `program_spelling_independent` can be checked
    line by line). -/
theorem spelled_line_entry (sp : Spelling) (i : Instr) (hs : Spellable i) (cmt : List Char)
    (hc : cmt = [] ∨ ∃ c, cmt = '#' :: c) :
    entryOf (render sp i ++ cmt) = some (render { sp with lead := [], trail := [] } i) :=
  entryOf_render sp i hs cmt hc

/-! ### pseudo-instructions and label targets in any spelling -/

/-- `li rd, imm`, `mv rd, rs` and `nop` in any spelling (blanks `lead` at the start, `g` (at least one) after the
    mnemonic, `w1`/`w2` around the comma, `tr` at the end; mnemonic letters in either case; any register and
    number spelling) are tokenized as the pseudo-instruction trees `.li rd imm`, `.mv rd rs` and the word `nop`. -/
theorem pseudo_line_spelling_independent (lead g w1 w2 tr : List Char) (hl : ∀ c ∈ lead, isWs c = true)
    (hg : ∀ c ∈ g, isWs c = true) (hgne : g ≠ []) (h1 : ∀ c ∈ w1, isWs c = true) (h2 : ∀ c ∈ w2, isWs c = true)
    (htr : ∀ c ∈ tr, isWs c = true) (sel : Nat → Bool) (a b : Nat) (v : Int) (ha : a < 32) (hb : b < 32)
    (hv : v.natAbs < 10 ^ 4300) (s1 s2 : RegStyle) (sn : NumStyle) :
    parseLine (lead ++ (recase sel "li".toList ++ (g ++ (regSp s1 a ++ (w1 ++ ',' :: (w2 ++ (numSp sn v ++ tr)))))))
      = some { lbl := none, item := .grp (.li a v) } ∧
    parseLine (lead ++ (recase sel "mv".toList ++ (g ++ (regSp s1 a ++ (w1 ++ ',' :: (w2 ++ (regSp s2 b ++ tr)))))))
      = some { lbl := none, item := .grp (.mv a b) } ∧
    parseLine (lead ++ (recase sel "nop".toList ++ tr)) = some { lbl := none, item := .str "nop" } :=
  ⟨parseLine_li lead g w1 w2 tr hl hg hgne h1 h2 htr sel a v ha hv s1 sn,
   parseLine_mv lead g w1 w2 tr hl hg hgne h1 h2 htr sel a b ha hb s1 s2,
   parseLine_nop lead tr hl htr sel⟩

/-- Branch and jump lines whose target is a label `lab`, alone or with an offset `+ 0x<hex digits>` (`OffSp`:
    blanks around the `+`, digits of either case, leading zeros): in any spelling of the mnemonic, the registers
    and the blanks they are tokenized as `.btypeLabel mn r1 r2 lab off` / `.jalLabel rd lab off`, where `off` is
    the value of the digits (0 without offset). -/
theorem label_target_line_spelling_independent (lead g w1 w2 w3 w4 tr : List Char)
    (hle : ∀ c ∈ lead, isWs c = true) (hg : ∀ c ∈ g, isWs c = true) (hgne : g ≠ [])
    (h1 : ∀ c ∈ w1, isWs c = true) (h2 : ∀ c ∈ w2, isWs c = true) (h3 : ∀ c ∈ w3, isWs c = true)
    (h4 : ∀ c ∈ w4, isWs c = true) (htr : ∀ c ∈ tr, isWs c = true) (sel : Nat → Bool) (op : Op)
    (h : op.ty = .b) (a b : Nat) (ha : a < 32) (hb : b < 32) (s1 s2 : RegStyle) (lab : List Char)
    (hl : IsLabel lab) (o : OffSp) (ho : OffOk o) :
    parseLine (lead ++ (recase sel op.mnemonic.toList ++ (g ++ (regSp s1 a ++ (w1 ++ ',' :: (w2 ++ (regSp s2 b ++
        (w3 ++ ',' :: (w4 ++ (lab ++ (offTxt o ++ tr)))))))))))
      = some { lbl := none, item := .grp (.btypeLabel op.mnemonic a b (String.ofList lab) (offVal o)) } ∧
    parseLine (lead ++ (recase sel "jal".toList ++ (g ++ (regSp s1 a ++ (w1 ++ ',' :: (w2 ++ (lab ++
        (offTxt o ++ tr))))))))
      = some { lbl := none, item := .grp (.jalLabel a (String.ofList lab) (offVal o)) } :=
  ⟨parseLine_branch_label lead g w1 w2 w3 w4 tr hle hg hgne h1 h2 h3 h4 htr sel op
      ((cls_ty op).2.2.2.2.2.1.mpr h) a b ha hb s1 s2 lab hl o ho,
   parseLine_jal_label lead g w1 w2 tr hle hg hgne h1 h2 htr sel a ha s1 lab hl o ho⟩

/-! ### lines with an in-line label -/

/-- Mnemonics are case-insensitive also behind an in-line label declaration: for `lab:` (a label, any blanks
    before it, before and after the colon) followed by a case variant `w'` of a mnemonic `m` and a rest that is
    empty or starts with an ASCII non-letter that is no digit or underscore, the line is tokenized exactly as
    with the lower-case mnemonic. -/
theorem mnemonic_case_insensitive_labelled_line (ws1 lab ws2 ws3 : List Char)
    (h1 : ∀ c ∈ ws1, isWs c = true) (hl : IsLabel lab) (h2 : ∀ c ∈ ws2, isWs c = true)
    (h3 : ∀ c ∈ ws3, isWs c = true) (m : String) (hm : m ∈ mnWords) (w' rest : List Char)
    (hv : w'.map toLowerAscii = m.toList) (hsep : ∀ c ∈ rest.head?, c.toNat < 128 ∧ isLabelBody c = false) :
    parseLine (ws1 ++ (lab ++ (ws2 ++ ':' :: (ws3 ++ (w' ++ rest)))))
      = parseLine (ws1 ++ (lab ++ (ws2 ++ ':' :: (ws3 ++ (m.toList ++ rest))))) := by
  have hmn : MnSep rest := by
    intro c hc
    obtain ⟨a, b⟩ := hsep c hc
    refine ⟨a, ?_⟩
    simp only [isLabelBody, isAlnum, Bool.or_eq_false_iff] at b
    exact b.1.1
  exact parseLine_labelled_cv ws1 lab ws2 ws3 h1 hl h2 h3 m hm w' rest ⟨hv, (mnWords_low m hm).1⟩ hmn
    (fun c hc => (hsep c hc).2)

/-- Whole-line spelling independence behind an in-line label: `lab:` followed by ANY spelling of the
    instruction `i` (as in `line_spelling_independent`) is tokenized as the entry `itemOf i` carrying that label. -/
theorem labelled_line_spelling_independent (ws1 lab ws2 ws3 : List Char) (h1 : ∀ c ∈ ws1, isWs c = true)
    (hl : IsLabel lab) (h2 : ∀ c ∈ ws2, isWs c = true) (h3 : ∀ c ∈ ws3, isWs c = true) (sp : Spelling)
    (i : Instr) (hs : Spellable i) :
    parseLine (ws1 ++ (lab ++ (ws2 ++ ':' :: (ws3 ++ render { sp with lead := [] } i))))
      = some { lbl := some (String.ofList lab), item := itemOf i } :=
  parseLine_labelled_render ws1 lab ws2 ws3 h1 hl h2 h3 sp i hs

/-! ### (d) comments, blank lines, indentation -/

/-- `sanitize`, line by line: the entry texts of a source text are, in order, the entries `entryOf l` of those
    of its lines `l` that have one — a line is kept iff it is not blank and its first non-blank character is
    not `#`; its entry is the line up to the first `#`, stripped — and their line numbers strictly increase. -/
theorem sanitize_per_line (text : String) :
    (sanitize text).map (·.2) = (splitLines text.toList).filterMap entryOf ∧
    ((sanitize text).map (·.1)).Pairwise (· < ·) :=
  ⟨sanitize_texts text, sanitize_sorted text⟩

/-- A trailing comment never changes the entry of a line: for `l` without `#`, `l ++ "#" ++ c` has the same
    entry as `l` (none, if `l` is blank). -/
theorem trailing_comment_invisible (l c : List Char) (h : '#' ∉ l) : entryOf (l ++ '#' :: c) = entryOf l :=
  entryOf_comment l c h

/-- Indentation never changes the entry of a line: blanks (any characters `str.isspace` accepts) in front of
    and behind a line do not change its entry; stripping is idempotent. -/
theorem indentation_invisible (a l b : List Char) (ha : ∀ c ∈ a, pyIsSpace c = true)
    (hb : ∀ c ∈ b, pyIsSpace c = true) :
    entryOf (a ++ l ++ b) = entryOf l ∧ pyStrip (pyStrip l) = pyStrip l :=
  ⟨entryOf_indent a l b ha hb, pyStrip_idem l⟩

/-- Blank lines and comment-only lines (indented or not) contribute no entry. -/
theorem blank_and_comment_lines_vanish (a c : List Char) (ha : ∀ d ∈ a, pyIsSpace d = true) :
    entryOf a = none ∧ entryOf (a ++ '#' :: c) = none :=
  ⟨entryOf_blank a ha, entryOf_commentLine a c ha⟩

/-- Comments, blank lines and indentation never change the result. If two source texts have the same entry
    texts in the same order (`entryTexts`: the line numbers may differ arbitrarily) and one of them loads
    without error, then loading the other one gives EXACTLY the same result: same instruction list, same data
    image, same state, no error. -/
theorem comments_blank_lines_indentation (s : St) (t1 t2 : String) (h : entryTexts t1 = entryTexts t2)
    (hok : (load s t1).err = none) : load s t2 = load s t1 :=
  load_same_entries s t1 t2 h hok

/-- Hence the two texts load successfully or fail together. -/
theorem same_entries_same_success (s : St) (t1 t2 : String) (h : entryTexts t1 = entryTexts t2) :
    (load s t1).err = none ↔ (load s t2).err = none := by
  constructor
  · intro hok; rw [load_same_entries s t1 t2 h hok]; exact hok
  · intro hok; rw [load_same_entries s t2 t1 h.symm hok]; exact hok

/-- For a text given by its lines (joined with "\n"; lines without line breaks), the entry texts are those of
    the lines that have one. Together with the four theorems above: inserting or deleting blank lines and
    comment lines, adding or removing trailing comments, and re-indenting lines never changes the result. -/
theorem entry_texts_of_lines (ls : List (List Char)) (hnb : ∀ l ∈ ls, ∀ c ∈ l, isLineBreak c = false) :
    entryTexts (joinLines ls) = ls.filterMap entryOf :=
  entryTexts_joinLines ls hnb

/-! ### non-vacuity -/

/-- `a0` followed by a comma is register 10; `fp` and `s0` are both register 8, like `x8`. -/
example : pReg "a0, x1".toList = .ok 10 ", x1".toList ∧
    pReg "fp)".toList = .ok 8 [')'] ∧ pReg "\t s0)".toList = .ok 8 [')'] ∧ pReg " x8)".toList = .ok 8 [')'] := by
  refine ⟨abi_register "a0" 10 (by decide) _ (by intro h; exact absurd h (by decide)), ?_, ?_, ?_⟩
  · exact (register_names_interchangeable "fp" 8 (by decide) [] [] [')'] (by decide) (by decide) (by decide)).1
  · exact (register_names_interchangeable "s0" 8 (by decide) ['\t', ' '] [] [')'] (by decide) (by decide)
      (by decide)).1
  · exact (register_names_interchangeable "s0" 8 (by decide) [] [' '] [')'] (by decide) (by decide)
      (by decide)).2

/-- `-0x00fF`, `0b100` and `-16` are read as -255, 4 and -16; `007` is rejected. -/
example : pImm " -0x00fF,".toList = .ok (-255) [','] ∧ pImm "0b100".toList = .ok 4 [] ∧
    pImm "-16)".toList = .ok (-16) [')'] ∧ pImm "007".toList = .fail := by
  refine ⟨?_, ?_, ?_, ?_⟩
  · exact numeral_hex true "00fF".toList [' '] [','] (by decide) (by decide) (by decide) (by decide)
  · exact numeral_bin false "100".toList [] [] (by decide) (by decide) (by decide) (by decide)
  · exact numeral_dec true "16".toList [] [')'] (by decide) (by decide) (by decide) (by decide) (by decide)
      (by decide)
  · exact numeral_dec_leading_zero_rejected false "007".toList [] (by decide) (by decide) (by decide) (by decide)

/-- The spellings used below are concrete strings. -/
example : render spAddi iAddi = "  addi\tsp , sp , -0x10  ".toList ∧
    render spBeq iBeq = "bEq zero, ra, 0b100".toList ∧ render spLw iLw = "LW\ta0 , 0x1F ( fp )".toList ∧
    render {} iLw = "lw x10, 31(x8)".toList := by
  decide +kernel

/-- The instructions of the examples satisfy the hypothesis of `line_spelling_independent`, so each of the
    three lines above is tokenized as the tree of its instruction. -/
example : parseLine "  addi\tsp , sp , -0x10  ".toList = some { lbl := none, item := .grp (.rri "addi" 2 2 (-16)) } ∧
    parseLine "bEq zero, ra, 0b100".toList = some { lbl := none, item := .grp (.rri "beq" 0 1 4) } ∧
    parseLine "LW\ta0 , 0x1F ( fp )".toList = some { lbl := none, item := .grp (.mem "lw" 10 31 8) } := by
  have h1 := line_spelling_independent spAddi iAddi
    (spellable_small _ (by decide) (by decide) (by decide) (by decide) (by decide) (by decide))
  have h2 := line_spelling_independent spBeq iBeq
    (spellable_small _ (by decide) (by decide) (by decide) (by decide) (by decide) (by decide))
  have h3 := line_spelling_independent spLw iLw
    (spellable_small _ (by decide) (by decide) (by decide) (by decide) (by decide) (by decide))
  rw [show render spAddi iAddi = "  addi\tsp , sp , -0x10  ".toList by decide +kernel] at h1
  rw [show render spBeq iBeq = "bEq zero, ra, 0b100".toList by decide +kernel] at h2
  rw [show render spLw iLw = "LW\ta0 , 0x1F ( fp )".toList by decide +kernel] at h3
  exact ⟨h1, h2, h3⟩

/-- `mnemonic_case_insensitive_line` applies to `  bEq zero, ra, 0b100`. -/
example : parseLine "  bEq zero, ra, 0b100".toList = parseLine "beq zero, ra, 0b100".toList :=
  mnemonic_case_insensitive_line "beq" (by decide) "  ".toList "bEq".toList " zero, ra, 0b100".toList
    (by decide) (by decide) (by decide) (by decide)

/-- A text with a comment line, blank lines, indentation and a trailing comment
    (`"# demo\n\n  ADDI a0, zero, 0x10   # set\n\tsw a0, 0b100(sp)\n\n"`) loads to exactly the same result as the
    cleaned two-line text (`"ADDI a0, zero, 0x10\nsw a0, 0b100(sp)"`), which loads without error to the program
    `addi x10, x0, 16; sw x10, 4(x2)`: hypotheses of `program_spelling_independent` and of
    `comments_blank_lines_indentation`. -/
example (s : St) : (load s tClean).err = none ∧ (load s tClean).st.imem.prog = exProg ∧
    load s tMessy = load s tClean := by
  have h := program_spelling_independent s exLines (by decide +kernel) exProg [spL1, spL2]
    (by decide +kernel) rfl exProg_canon exProg_aux (by decide)
  rw [show joinLines exLines = tClean by decide +kernel] at h
  exact ⟨h.1, h.2, comments_blank_lines_indentation s tClean tMessy (by decide +kernel) h.1⟩

/-- Line-by-line reading of the messy text: the comment line and the blank lines have no entry, the two
    instruction lines have the entries of the cleaned lines. -/
example : entryOf "# demo".toList = none ∧ entryOf [] = none ∧
    entryOf "  ADDI a0, zero, 0x10   # set".toList = some "ADDI a0, zero, 0x10".toList ∧
    entryOf "\tsw a0, 0b100(sp)".toList = some "sw a0, 0b100(sp)".toList := by
  decide +kernel

/-- `spelled_line_entry` applies to the indented line with a trailing comment. -/
example : entryOf (render { spL1 with lead := [false, false], trail := [false, false, false] }
      { op := .addi, rd := 10, rs1 := 0, imm := 16 } ++ "# set".toList)
    = some (render spL1 { op := .addi, rd := 10, rs1 := 0, imm := 16 }) :=
  spelled_line_entry _ _ (spellable_small _ (by decide) (by decide) (by decide) (by decide) (by decide) (by decide))
    _ (Or.inr ⟨_, rfl⟩)

/-- A canonical instruction for `spelled_line_roundtrip`: `sw x10, 4(x2)` at address 4. -/
example : ({ op := .sw, rs1 := 2, rs2 := 10, imm := 4 } : Instr).Canon 4 := by
  simp [Instr.Canon, Op.ty]

/-- `labelled_line_spelling_independent` applies to `loop : ADDI a0, zero, 0x10`. -/
example : parseLine "loop : ADDI a0, zero, 0x10".toList
    = some { lbl := some "loop", item := .grp (.rri "addi" 10 0 16) } := by
  have h := labelled_line_spelling_independent [] "loop".toList [' '] [' '] (by decide)
    ⟨'l', "oop".toList, by decide, by decide, by decide⟩ (by decide) (by decide) spL1
    { op := .addi, rd := 10, rs1 := 0, imm := 16 }
    (spellable_small _ (by decide) (by decide) (by decide) (by decide) (by decide) (by decide))
  rw [show ([] : List Char) ++ ("loop".toList ++ ([' '] ++ ':' :: ([' '] ++ render { spL1 with lead := [] }
      { op := .addi, rd := 10, rs1 := 0, imm := 16 }))) = "loop : ADDI a0, zero, 0x10".toList by decide +kernel] at h
  exact h

/-- The hypotheses of `label_target_line_spelling_independent` for `BNE a0, zero, loop + 0x0C`: a label, an
    offset text with a blank on both sides of the `+`, value 12. -/
example : IsLabel "loop".toList ∧ OffOk (.some [' '] [' '] "0C".toList) ∧
    offTxt (.some [' '] [' '] "0C".toList) = " + 0x0C".toList ∧ offVal (.some [' '] [' '] "0C".toList) = 12 :=
  ⟨⟨'l', "oop".toList, by decide, by decide, by decide⟩, ⟨by unfold AllWs; decide, by unfold AllWs; decide, by decide, by decide⟩,
    by decide, by decide⟩

/-- `BNE a0, zero, loop + 0x0C` is tokenized as a branch to `loop` with offset 12; `Li t0 , -0b101` as `li`. -/
example : parseLine "BNE a0, zero, loop + 0x0C".toList
      = some { lbl := none, item := .grp (.btypeLabel "bne" 10 0 "loop" 12) } ∧
    parseLine "Li t0 , -0b101".toList = some { lbl := none, item := .grp (.li 5 (-5)) } := by
  have hs : ∀ c ∈ [' '], isWs c = true := by decide
  have hn : ∀ c ∈ ([] : List Char), isWs c = true := by decide
  have h1 := (label_target_line_spelling_independent [] [' '] [] [' '] [] [' '] [] hn hs (by decide) hn hs hn hs hn
    (fun _ => true) .bne rfl 10 0 (by decide) (by decide) .abi .abi "loop".toList
    ⟨'l', "oop".toList, by decide, by decide, by decide⟩ (.some [' '] [' '] "0C".toList)
    ⟨by unfold AllWs; decide, by unfold AllWs; decide, by decide, by decide⟩).1
  have h2 := (pseudo_line_spelling_independent [] [' '] [' '] [' '] [] hn hs (by decide) hs hs hn
    (fun k => k == 0) 5 0 (-5) (by decide) (by decide) (small_natAbs _ (by decide) (by decide)) .abi .x (.bin 0)).1
  refine ⟨?_, ?_⟩
  · have e : "BNE a0, zero, loop + 0x0C".toList = [] ++ (recase (fun _ => true) Op.bne.mnemonic.toList ++ ([' '] ++
        (regSp .abi 10 ++ ([] ++ ',' :: ([' '] ++ (regSp .abi 0 ++ ([] ++ ',' :: ([' '] ++ ("loop".toList ++
        (offTxt (.some [' '] [' '] "0C".toList) ++ []))))))))))  := by decide +kernel
    rw [e, h1]
    have : offVal (.some [' '] [' '] "0C".toList) = 12 := by decide
    rw [this]; rfl
  · have e : "Li t0 , -0b101".toList = [] ++ (recase (fun k => k == 0) "li".toList ++ ([' '] ++ (regSp .abi 5 ++
        ([' '] ++ ',' :: ([' '] ++ (numSp (.bin 0) (-5) ++ [])))))) := by decide +kernel
    rw [e, h2]

end ArchSim.Props.C04Spell
