/-
C12 — write-through currency, write-back never loses a write.

Property theorems only (plus non-vacuity examples).  Same setting and vocabulary as `Props/C03.lean`
(`CInv`, `logical`, `resident`, `PolicyOK`, `runOps`, `flatOps`; definitions in
`ArchSim/Spec/CacheAbs.lean`, helper lemmas in `ArchSim/Lemmas/C03*.lean`, `C12Evict.lean`).
"The logical memory contents" of the property text is `logical s` — by `C03.history_refines` it is,
after any history, the content of the flat reference memory fed the same accepted writes.
-/
import ArchSim.Lemmas.C12Evict

namespace ArchSim.Props.C12
open ArchSim ArchSim.Cache ArchSim.Mem ArchSim.Spec.ByteStore ArchSim.Lemmas.C18 ArchSim.Spec.CacheAbs
open ArchSim.Lemmas.C03 ArchSim.Lemmas.C12

variable {σ : Type} {P : PolicyOps σ} {WFp : σ → Prop}

/-! ## Write-through -/

/-- Write-through, backing memory: at every point of any history (any operations, accepted or
    rejected, starting from any state satisfying the invariant that represents the flat memory `m`)
    the backing memory is identical, at every address, to the logical contents and to the flat
    reference memory fed the same accepted writes. -/
theorem wt_backing_current {s : DSys σ} (hP : PolicyOK P s.geo.assoc WFp) (hs : CInv WFp s)
    (hwt : s.wt = true) {m : Mem} (hm : MemOK m)
    (hL : ∀ a, logical s a = m.cells ((wrap32 a : Nat) : Int))
    (ops : List Spec.CacheAbs.Op) (ho : ∀ o, o ∈ ops → o.wf) (a : Int) :
    (runOps P s ops).1.mem.cells ((wrap32 a : Nat) : Int) = logical (runOps P s ops).1 a ∧
      (runOps P s ops).1.mem.cells ((wrap32 a : Nat) : Int) =
        (flatOps m ops).1.cells ((wrap32 a : Nat) : Int) := by
  obtain ⟨⟨h1, _, h3⟩, _, h5, _⟩ := history_agrees hP ⟨hs, hm, hL⟩ ops ho
  have := h1.wtc (h5.trans hwt) a
  exact ⟨this.symm, this.symm.trans (h3 a)⟩

/-- Write-through, resident blocks: at every point of any history every resident (valid) block is
    identical to its backing block — `read_word(base + 4j)` on the backing memory returns word `j`
    of the block, for every set `k`, way `i` and word index `j`. -/
theorem wt_resident_backed {s : DSys σ} (hP : PolicyOK P s.geo.assoc WFp) (hs : CInv WFp s)
    (hwt : s.wt = true) {m : Mem} (hm : MemOK m)
    (hL : ∀ a, logical s a = m.cells ((wrap32 a : Nat) : Int))
    (ops : List Spec.CacheAbs.Op) (ho : ∀ o, o ∈ ops → o.wf)
    (k i : Nat) (cs : CSet σ Nat) (w : Way Nat)
    (hk : (runOps P s ops).1.sets[k]? = some cs) (hi : cs.ways[i]? = some w) (hv : w.valid = true)
    (j : Nat) (hj : j < 2 ^ s.geo.blkBits) :
    Mem.read (runOps P s ops).1.mem 32 (((w.base + 4 * j : Nat) : Int)) =
      some (.ok (wordAt w.vals j)) := by
  obtain ⟨⟨h1, _, _⟩, h4, h5, _⟩ := history_agrees hP ⟨hs, hm, hL⟩ ops ho
  exact resident_backed h1 (h5.trans hwt) hk hi hv j (by rw [h4]; exact hj)

/-- The state-level facts behind the two theorems above: in ANY state satisfying the invariant with
    write-through, backing memory = logical contents everywhere and every resident block = its
    backing block (this is the clause `CInv.wtc`, which every operation preserves). -/
theorem wt_state {s : DSys σ} (hs : CInv WFp s) (hwt : s.wt = true) :
    (∀ a : Int, s.mem.cells ((wrap32 a : Nat) : Int) = logical s a) ∧
    ∀ (k i : Nat) (cs : CSet σ Nat) (w : Way Nat), s.sets[k]? = some cs → cs.ways[i]? = some w →
      w.valid = true → ∀ j, j < 2 ^ s.geo.blkBits →
        Mem.read s.mem 32 (((w.base + 4 * j : Nat) : Int)) = some (.ok (wordAt w.vals j)) :=
  ⟨fun a => (hs.wtc hwt a).symm, fun _ _ _ _ hk hi hv j hj => resident_backed hs hwt hk hi hv j hj⟩

/-! ## Write-back -/

/-- Write-back (indeed either write policy): at every point of any history the backing memory may
    differ from the logical contents — and from the flat reference memory — only at addresses whose
    block is currently resident: at every address whose block is NOT resident they coincide. -/
theorem wb_backing_lags_only_resident {s : DSys σ} (hP : PolicyOK P s.geo.assoc WFp)
    (hs : CInv WFp s) {m : Mem} (hm : MemOK m)
    (hL : ∀ a, logical s a = m.cells ((wrap32 a : Nat) : Int))
    (ops : List Spec.CacheAbs.Op) (ho : ∀ o, o ∈ ops → o.wf) (a : Int)
    (hnr : resident (runOps P s ops).1 a = false) :
    (runOps P s ops).1.mem.cells ((wrap32 a : Nat) : Int) = logical (runOps P s ops).1 a ∧
      (runOps P s ops).1.mem.cells ((wrap32 a : Nat) : Int) =
        (flatOps m ops).1.cells ((wrap32 a : Nat) : Int) := by
  obtain ⟨⟨_, _, h3⟩, _, _, _⟩ := history_agrees hP ⟨hs, hm, hL⟩ ops ho
  have := backing_of_not_resident _ a hnr
  exact ⟨this, this.trans (h3 a)⟩

/-- Eviction never loses a written value, block-fetch form: `_read_block` for a valid data address
    (which on a miss installs the fetched block in the policy's victim way and, under write-back,
    writes the displaced block back) succeeds, keeps the invariant and leaves the logical contents
    unchanged at EVERY address — in particular at the addresses of the displaced block, which are no
    longer resident. -/
theorem eviction_preserves {s : DSys σ} (hP : PolicyOK P s.geo.assoc WFp) (hs : CInv WFp s)
    (addr : Int) (hin : inData addr) :
    ∃ s1 vals hit,
      s.readBlockSys P (decode s.geo.idxBits s.geo.blkBits addr) = (s1, .ok (vals, hit)) ∧
      CInv WFp s1 ∧ (∀ a, logical s1 a = logical s a) ∧ resident s1 addr = true := by
  obtain ⟨s1, vals, hit, h1, h2, h3, _, h5, w, hw, _⟩ := readBlockSys_spec hP hs addr hin
  refine ⟨s1, vals, hit, h1, h2, h5, ?_⟩
  unfold resident
  rw [h3, hw]
  rfl

/-- Eviction never loses a written value, explicit form (write-back): whenever `Cache.write_block`
    hands back a displaced block `(b, ws)`, writing it back succeeds (`m'`), and afterwards every
    address that is not resident any more has its logical value in the backing memory `m'`, while
    every address outside the newly installed block keeps its logical value. -/
theorem eviction_writes_back {s : DSys σ} (hP : PolicyOK P s.geo.assoc WFp) (hs : CInv WFp s)
    (hwt : s.wt = false) (addr : Int) (hin : inData addr) (vals : List Nat)
    (hlen : vals.length = 2 ^ s.geo.blkBits) (hlt : ∀ x, x ∈ vals → x < 4294967296)
    (sets2 : List (CSet σ Nat)) (hit : Bool) (b : Nat) (ws : List Nat)
    (hwb : writeBlock P s.sets (decode s.geo.idxBits s.geo.blkBits addr) vals =
      .ok (sets2, hit, some (b, ws))) :
    ∃ m', writeBlockToMem s.mem b ws 0 = (m', none) ∧
      (∀ a, ¬ ((decode s.geo.idxBits s.geo.blkBits a).setIdx =
                (decode s.geo.idxBits s.geo.blkBits addr).setIdx ∧
              (decode s.geo.idxBits s.geo.blkBits a).tag =
                (decode s.geo.idxBits s.geo.blkBits addr).tag) →
        logical { s with sets := sets2, mem := m' } a = logical s a) ∧
      (∀ a, resident { s with sets := sets2, mem := m' } a = false →
        m'.cells ((wrap32 a : Nat) : Int) = logical s a) := by
  obtain ⟨m', h1, _, h3, h4⟩ :=
    displaced_written_back hP hs hwt addr hin vals hlen hlt sets2 hit b ws hwb
  exact ⟨m', h1, h3, h4⟩

/-- A cached write is never lost (either write policy): run an accepted write of `v`, then ANY further
    operations `ops` (with all the evictions, write-backs and re-fetches they cause), then read the
    same location again.  The final read succeeds and returns exactly what the flat reference memory
    returns at the end of the same history — which, by C18 (`read_after_write`, `write_frame`), is `v`
    whenever no accepted write in `ops` overlaps those bytes. -/
theorem wb_write_not_lost {s : DSys σ} (hP : PolicyOK P s.geo.assoc WFp) (hs : CInv WFp s) {m : Mem}
    (hm : MemOK m) (hL : ∀ a, logical s a = m.cells ((wrap32 a : Nat) : Int))
    (bits : Nat) (addr : Int) (v : Nat) (ops : List Spec.CacheAbs.Op)
    (ho : ∀ o, o ∈ (Spec.CacheAbs.Op.write bits addr v :: ops ++ [.read bits addr true]) → o.wf)
    (hacc : (Spec.CacheAbs.Op.read bits addr true).accepted) :
    ∃ r, (runOps P s (.write bits addr v :: ops ++ [.read bits addr true])).2.getLast? = some (.ok r) ∧
      (flatOps m (.write bits addr v :: ops ++ [.read bits addr true])).2.getLast? = some (some (.ok r)) := by
  obtain ⟨_, _, _, h4⟩ := history_agrees hP ⟨hs, hm, hL⟩ _ ho
  -- the last elements of pointwise-agreeing lists agree
  have key : ∀ (l : List Spec.CacheAbs.Op) (cs : List (Except Err Nat))
      (fs : List (Option (Except AddrErr Nat))) (o : Spec.CacheAbs.Op), agreesAll (l ++ [o]) cs fs →
      ∃ c f, cs.getLast? = some c ∧ fs.getLast? = some f ∧ agrees o c f := by
    intro l
    induction l with
    | nil =>
      intro cs fs o h
      match cs, fs, h with
      | [c], [f], h => exact ⟨c, f, rfl, rfl, h.1⟩
      | [], [], h => cases h
      | _ :: _ :: _, _ :: _ :: _, h => cases h.2
    | cons x l ih =>
      intro cs fs o h
      match cs, fs, h with
      | c :: cs, f :: fs, h =>
        obtain ⟨c', f', e1, e2, e3⟩ := ih cs fs o h.2
        refine ⟨c', f', ?_, ?_, e3⟩
        · cases cs with
          | nil => cases e1
          | cons _ _ => simpa using e1
        · cases fs with
          | nil => cases e2
          | cons _ _ => simpa using e2
  obtain ⟨c, f, e1, e2, e3⟩ := key (.write bits addr v :: ops) _ _ (.read bits addr true)
    (by simpa using h4)
  unfold agrees at e3
  rw [if_pos hacc] at e3
  obtain ⟨r, rfl, rfl⟩ := e3
  exact ⟨r, by simpa using e1, by simpa using e2⟩

/-! ## Non-vacuity -/

-- write-through after the example history of C03: backing cell = logical byte (instances of `wt_state`)
example : (runOps lruOps (DSys.init lruOps true exGeo 3 (Mem.empty riscvCfg)) exOps).1.mem.cells 0x4003 = 0xBE
    ∧ logical (runOps lruOps (DSys.init lruOps true exGeo 3 (Mem.empty riscvCfg)) exOps).1 0x4003 = 0xBE
    ∧ resident (runOps lruOps (DSys.init lruOps true exGeo 3 (Mem.empty riscvCfg)) exOps).1 0x4003 = true := by
  decide

-- write-back after the same history: the block of 0x4000 is resident and its backing cell lags
-- (0x11 vs 0xBE); the block of 0x4008 has been evicted and written back: backing = logical = 5
example : resident (runOps lruOps (DSys.init lruOps false exGeo 3 (Mem.empty riscvCfg)) exOps).1 0x4003 = true
    ∧ (runOps lruOps (DSys.init lruOps false exGeo 3 (Mem.empty riscvCfg)) exOps).1.mem.cells 0x4003 = 0x11
    ∧ logical (runOps lruOps (DSys.init lruOps false exGeo 3 (Mem.empty riscvCfg)) exOps).1 0x4003 = 0xBE
    ∧ resident (runOps lruOps (DSys.init lruOps false exGeo 3 (Mem.empty riscvCfg)) exOps).1 0x4008 = false
    ∧ (runOps lruOps (DSys.init lruOps false exGeo 3 (Mem.empty riscvCfg)) exOps).1.mem.cells 0x4008 = 5
    ∧ logical (runOps lruOps (DSys.init lruOps false exGeo 3 (Mem.empty riscvCfg)) exOps).1 0x4008 = 5 := by
  decide

-- an instance of the hypothesis of `eviction_writes_back`: in the write-back state after the first
-- three operations, installing the block of 0x4008 displaces the dirty block of 0x4000
example : (writeBlock lruOps
      (runOps lruOps (DSys.init lruOps false exGeo 3 (Mem.empty riscvCfg)) (exOps.take 3)).1.sets
      (decode 1 0 0x4008) [5]).map (fun r => r.2) = .ok (false, some (0x4000, [0x1122AA44])) := by
  decide

end ArchSim.Props.C12
