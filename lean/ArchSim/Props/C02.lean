import ArchSim.Model.Pipe
namespace ArchSim.Props.C02
open ArchSim.Pipe
/-- A freshly initialised pipeline has empty latches. -/
theorem init_empty (s : ArchSim.Rv.St) (h : Bool) : (PSt.init s h).l0 = none ∧ (PSt.init s h).stalled = none := by
  simp [PSt.init]
end ArchSim.Props.C02
