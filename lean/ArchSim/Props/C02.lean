/-
C02 (control half): the five-stage pipeline with hazard detection (interlock stalls, MEM/EX/WB
flushes, ECALL drain) refines the sequential execution of the instructions one after the other.

The sequential reference is `Pipe.seqStep` (`ArchSim/Spec/PipeSeq.lean`): `Pipe.splitStep` with a
faulting instruction left unexecuted; the data-path half of C02 relates `splitStep` to the
single-cycle `Rv.singleStep`. The proof uses completion functions: `Pipe.abs p` completes the
in-flight instructions of the pipeline state `p` oldest first and stops at the first one that
redirects, exits or faults (`ArchSim/Lemmas/C02Abs.lean`). States are compared by `Pipe.SimP`:
registers, data memory system (hence data cache state and counters), output, exit code, retired /
branch / procedure counters, program and pc; the cycle / stall / flush counters and the
instruction-cache state are not compared (wrong-path fetches touch the instruction cache).

Hypotheses: `ProgOK` (instructions as the Python constructors build them: `ecall` has `rd = 0`,
`srai` a non-negative stored shift amount) and `ICoh` (the instruction memory system returns the
stored instruction: trivial without instruction cache, C11 with one).
-/
import ArchSim.Lemmas.C02Conv

namespace ArchSim.Props.C02
open ArchSim ArchSim.Rv ArchSim.Pipe

/-- The shape invariant holds initially. -/
theorem inv_init (st : St) (hz : Bool) (hp : ProgOK st.imem) (hc : ICoh st.imem) :
    PInv (PSt.init st hz) := PInv_init st hz hp hc

/-- The shape invariant is preserved by every cycle that does not raise a fault (with or without
    hazard detection). -/
theorem inv_step (p : PSt) (hI : PInv p) (hf : (step p).fault = none) : PInv (step p).p :=
  PInv_step p hI hf

/-- (b1) One non-faulting cycle is one sequential step on the abstraction if the cycle performs a
    correct-path fetch (`fetchOK`: not stalled, an instruction exists at the physical pc, nothing in
    flight redirects / exits / faults) and leaves the abstraction unchanged otherwise (stalled cycle,
    no instruction at pc, wrong-path fetch, flush cycle); the fault predicted for the oldest faulting
    in-flight instruction (`absF`) evolves accordingly, and so does the retire order: the address
    retired by WB in this cycle followed by the addresses pending afterwards (`absLog`) = the
    addresses pending before followed by the address executed by the sequential step. Covers
    interlock stalls, ECALL drain, and flushes from EX, MEM and WB. -/
theorem abs_step (p : PSt) (hI : PInv p) (hz : p.hazard = true) (hf : (step p).fault = none) :
    SimP (abs (step p).p) (if fetchOK p then seqStep (abs p) else abs p) ∧
    absF (step p).p = (if fetchOK p then seqFault (abs p) else absF p) ∧
    latchLog p.l3 ++ absLog (step p).p = absLog p ++ (if fetchOK p then seqLog (abs p) else []) :=
  Pipe.abs_step p hI hz hf

/-- (b2) After `n` non-faulting cycles from the initial pipeline state, the abstraction of the
    pipeline state is the sequential state after `k ≤ n` steps (`k` = number of correct-path
    fetches). -/
theorem pipe_refines_seq (st : St) (hp : ProgOK st.imem) (hc : ICoh st.imem) (n : Nat)
    (hr : runOK n (PSt.init st true)) :
    ∃ k, k ≤ n ∧ SimP (abs (pipeRun n (PSt.init st true))) (seqRun k st) := by
  obtain ⟨k, hk, h, _⟩ := refine_run _ (PInv_init st true hp hc) rfl n hr
  rw [abs_init] at h
  exact ⟨k, hk, h⟩

/-- (b6) RETIRE ORDER: after `n` non-faulting cycles, the addresses that left WB so far
    (`retireLog`: `l4` non-empty after a cycle), followed by the addresses of the in-flight
    instructions that will still retire (`absLog`, oldest first; wrong-path and faulting entries
    excluded), are exactly the addresses executed by the first `k` sequential steps, in order, where
    `k` is the index of `pipe_refines_seq`. In particular the retired sequence is a prefix of the
    sequential address trace. -/
theorem retire_order (st : St) (hp : ProgOK st.imem) (hc : ICoh st.imem) (n : Nat)
    (hr : runOK n (PSt.init st true)) :
    ∃ k, k ≤ n ∧ SimP (abs (pipeRun n (PSt.init st true))) (seqRun k st) ∧
      retireLog n (PSt.init st true) ++ absLog (pipeRun n (PSt.init st true)) = seqTrace k st := by
  obtain ⟨k, hk, h, _, hl⟩ := refine_run _ (PInv_init st true hp hc) rfl n hr
  rw [abs_init] at h
  rw [abs_init, absLog_init] at hl
  exact ⟨k, hk, h, by simpa using hl⟩

/-- (b3) When `is_done()` holds and no exit code is set, all latches are empty and the abstraction
    *is* the physical architectural state. -/
theorem done_is_physical (p : PSt) (hI : PInv p) (hd : isDone p = true) (hx : p.st.exitCode = none) :
    abs p = p.st := done_noexit_physical p hI hd hx

/-- (b3) The cycle in which the exit code appears (the exiting ECALL retires) flushes all latches:
    instructions fetched behind the ECALL are dead, and the abstraction is the physical state. -/
theorem exit_is_physical (p : PSt) (hI : PInv p) (hf : (step p).fault = none)
    (hx : p.st.exitCode = none) (hx' : (step p).p.st.exitCode.isSome = true) :
    abs (step p).p = (step p).p.st := exit_retire_physical p hI hf hx hx'

/-- (b3) FINAL STATE: when the loop `while not is_done(): step()` stops after `n` cycles without a
    fault, the physical registers, data memory system (with data-cache state and counters), output,
    exit code, retired-instruction, branch and procedure counts and pc are those of the sequential
    machine after `k ≤ n` steps, where `k` is the first step at which the sequential machine is done
    (the point where the single-cycle loop stops), the sequence of retired instruction addresses is
    the sequence of addresses executed by these `k` sequential steps, and none of them faults. -/
theorem final_state (st : St) (hp : ProgOK st.imem) (hc : ICoh st.imem) (hx : st.exitCode = none)
    (n : Nat) (hr : runOK n (PSt.init st true)) (hd : isDone (pipeRun n (PSt.init st true)) = true)
    (hprev : ∀ m, m < n → isDone (pipeRun m (PSt.init st true)) = false) :
    ∃ k, k ≤ n ∧ SimP (pipeRun n (PSt.init st true)).st (seqRun k st) ∧ singleDone (seqRun k st) = true ∧
      (∀ j, j < k → singleDone (seqRun j st) = false) ∧
      retireLog n (PSt.init st true) = seqTrace k st ∧
      (∀ j, j < k → seqFault (seqRun j st) = none) :=
  final_state_init st hp hc hx n hr hd hprev

/-- (b4) A fault reported by a cycle is predicted by the abstraction: the abstraction is stuck in
    front of the instruction at that address with that fault, and the physical registers and output
    at the moment of the fault are those of the abstraction. -/
theorem fault_is_predicted (p : PSt) (hI : PInv p) (ft : PFault) (h : (step p).fault = some ft) :
    absF p = some (ft.addr, ft.fault) ∧ (abs p).pc = ft.addr ∧
      (step p).p.st.regs = (abs p).regs ∧ (step p).p.st.output = (abs p).output :=
  fault_local p hI ft h

/-- (b4) If cycle `n + 1` is the first to report a fault, for the instruction at address `a`, then
    the sequential machine after some `k ≤ n` steps stands at `a` and faults there with the same
    fault, and the physical registers and output at the moment of the fault are those of that
    sequential state (the state before the faulting instruction). -/
theorem fault_agrees (st : St) (hp : ProgOK st.imem) (hc : ICoh st.imem) (n : Nat)
    (hr : runOK n (PSt.init st true)) (ft : PFault)
    (hft : (step (pipeRun n (PSt.init st true))).fault = some ft) :
    ∃ k, k ≤ n ∧ seqFault (seqRun k st) = some (ft.addr, ft.fault) ∧ (seqRun k st).pc = ft.addr ∧
      (step (pipeRun n (PSt.init st true))).p.st.regs = (seqRun k st).regs ∧
      (step (pipeRun n (PSt.init st true))).p.st.output = (seqRun k st).output := by
  have := fault_agrees_run _ (PInv_init st true hp hc) rfl (absF_init st true) n hr ft hft
  rw [abs_init] at this
  exact this

/-- (b4, converse) If the sequential machine is stuck at a fault after `kstar` steps and was not done
    at any step up to there, the pipeline reports that fault (same address, same fault) after fewer
    than `5 * (kstar + 2)` cycles, all earlier cycles being fault-free. -/
theorem fault_complete (st : St) (hp : ProgOK st.imem) (hc : ICoh st.imem) (hx : st.exitCode = none)
    (kstar : Nat) (a : Int) (f : Fault) (hflt : seqFault (seqRun kstar st) = some (a, f))
    (hnd : ∀ k, k ≤ kstar → singleDone (seqRun k st) = false) :
    ∃ n ft, n < 5 * (kstar + 2) ∧ runOK n (PSt.init st true) ∧
      (step (pipeRun n (PSt.init st true))).fault = some ft ∧ ft.addr = a ∧ ft.fault = f :=
  fault_complete_init st hp hc hx kstar a f hflt hnd

/-- (b5) While an instruction that redirects (taken branch, JAL, JALR), exits or faults is in
    flight, nothing younger has any architectural effect: a cycle leaves the abstraction (which
    already contains the completion of that instruction and of everything older) unchanged, whatever
    is fetched, decoded or executed behind it. -/
theorem younger_no_effect (p : PSt) (hI : PInv p) (hz : p.hazard = true) (hf : (step p).fault = none)
    (hred : (absC p).red.isSome = true) :
    SimP (abs (step p).p) (abs p) ∧ absF (step p).p = absF p ∧
      latchLog p.l3 ++ absLog (step p).p = absLog p := by
  have h := Pipe.abs_step p hI hz hf
  rw [fetchOK_false_of_red hred] at h
  simpa using h

/-- (c) PROGRESS with K = 5: from every state satisfying the invariant, within 5 non-faulting
    cycles the pipeline is done or has retired at least one more instruction. -/
theorem pipe_progress (p : PSt) (hI : PInv p) (hok : runOK 5 p) :
    ∃ j, j ≤ 5 ∧ (isDone (pipeRun j p) = true ∨ p.st.instrs < (pipeRun j p).st.instrs) :=
  progress5 p hI hok

/-- (c) TERMINATION: if the sequential machine is done, or stuck at a fault, after `kstar` steps,
    the five-stage pipeline has raised a fault or is done after at most `5 * (kstar + 2)` cycles. -/
theorem pipe_terminates (st : St) (hp : ProgOK st.imem) (hc : ICoh st.imem) (kstar : Nat)
    (hh : singleDone (seqRun kstar st) = true ∨ (seqFault (seqRun kstar st)).isSome = true) :
    ∃ N, N ≤ 5 * (kstar + 2) ∧
      (¬ runOK N (PSt.init st true) ∨ isDone (pipeRun N (PSt.init st true)) = true) :=
  terminates_init st hp hc kstar hh

/-! ### Non-vacuity: a program with a RAW interlock, a store/load pair, a taken branch (one squashed
instruction) and an exiting ECALL (drain + three flushes) satisfies the hypotheses and runs to
completion in 23 cycles without a fault. -/

def exProg : List Instr :=
  [ { op := .addi, rd := 1, rs1 := 0, imm := 5 },
    { op := .add, rd := 2, rs1 := 1, rs2 := 1 },
    { op := .lui, rd := 5, imm := 4 },
    { op := .sw, rs1 := 5, rs2 := 2, imm := 0 },
    { op := .lw, rd := 3, rs1 := 5, imm := 0 },
    { op := .beq, rs1 := 3, rs2 := 2, imm := 8 },
    { op := .addi, rd := 4, rs1 := 0, imm := 1 },
    { op := .addi, rd := 17, rs1 := 0, imm := 10 },
    { op := .ecall } ]

def exSt : St :=
  { regs := fun _ => 0, pc := 0, mem := .flat (Mem.Mem.empty Mem.riscvCfg),
    imem := { prog := exProg, cache := none }, output := "", exitCode := none, cycles := 0, instrs := 0,
    branches := 0, procs := 0, stalls := 0, flushes := 0 }

example : ProgOK exSt.imem := ProgOK_of_allb _ (by decide)
example : ICoh exSt.imem := ICoh_nocache _ rfl (by decide)
example : PInv (PSt.init exSt true) := PInv_init _ _ (ProgOK_of_allb _ (by decide)) (ICoh_nocache _ rfl (by decide))

/-- The example run: 23 non-faulting cycles, done exactly then, 8 instructions retired (the
    instruction behind the taken branch is squashed), 4 stalls, 4 flushes, exit code 0. -/
example :
    runOK 23 (PSt.init exSt true) ∧ isDone (pipeRun 23 (PSt.init exSt true)) = true ∧
    (∀ m, m < 23 → isDone (pipeRun m (PSt.init exSt true)) = false) ∧
    (pipeRun 23 (PSt.init exSt true)).st.instrs = 8 ∧ (pipeRun 23 (PSt.init exSt true)).st.regs 4 = 0 ∧
    (pipeRun 23 (PSt.init exSt true)).st.stalls = 4 ∧ (pipeRun 23 (PSt.init exSt true)).st.flushes = 4 ∧
    (pipeRun 23 (PSt.init exSt true)).st.exitCode = some 0 ∧
    retireLog 23 (PSt.init exSt true) = [0, 4, 8, 12, 16, 20, 28, 32] := by decide

/-- The sequential machine is done after 8 steps on the example (hypothesis of `pipe_terminates`). -/
example : singleDone (seqRun 8 exSt) = true := by decide

end ArchSim.Props.C02
