/-
C08 — hazard detection off = interlock-free pipeline.
Property theorems only; helper lemmas are in `ArchSim/Lemmas/C08*.lean` (and `C07*.lean`).
-/
import ArchSim.Lemmas.C08Read
import ArchSim.Lemmas.C08Pad
import ArchSim.Lemmas.C08Stale
import ArchSim.Lemmas.C07SkelStep
import ArchSim.Spec.Iter

namespace ArchSim.Props.C08
open ArchSim ArchSim.Rv ArchSim.Pipe ArchSim.Lemmas.C02Split ArchSim.Lemmas.C07 ArchSim.Lemmas.C08

/-- With hazard detection off the ID stage never sets its stall signal on the latch it produces. -/
theorem idStage_no_stall (regs : Nat → Nat) (inp l1 l2 : Option Latch) :
    latchStall (idStage false regs inp l1 l2) = false :=
  latchStall_idStage_off regs inp l1 l2

/-! ### B. no decode-stage stall -/

/-- The initial pipeline has no decode stall in progress. -/
theorem no_id_stall_init (s : St) (hz : Bool) : NoIdStall (PSt.init s hz) := noIdStall_init s hz

/-- With hazard detection off a step (faulting or not) never starts a decode stall: if no decode stall
    (`k = 1`) is in progress before the step, none is afterwards. -/
theorem no_id_stall (p : PSt) (hz : p.hazard = false) (hp : NoIdStall p) : NoIdStall (step p).p :=
  step_noIdStall p hz hp

/-- `step` never changes the hazard-detection flag. -/
theorem hazard_flag_constant (p : PSt) : (step p).p.hazard = p.hazard := step_hazard p

/-- Hence along any run from the initial state with detection off no decode stall is ever recorded. -/
theorem no_id_stall_run (s : St) (n : Nat) :
    NoIdStall (iter (fun p => (step p).p) n (PSt.init s false)) ∧
    (iter (fun p => (step p).p) n (PSt.init s false)).hazard = false := by
  induction n with
  | zero => exact ⟨noIdStall_init s false, rfl⟩
  | succ n ih =>
    rw [iter_succ']
    exact ⟨step_noIdStall _ ih.2 ih.1, by rw [step_hazard]; exact ih.2⟩

/-- With detection off the `stalls` counter goes up by one exactly in the exception-free cycles in
    which the pipeline is not already stalled and the EX stage raises its stall signal … -/
theorem stalls_count_ex_only (p : PSt) (hz : p.hazard = false) (hp : NoIdStall p) :
    (step p).p.st.stalls = p.st.stalls +
      (if (step p).fault = none ∧ p.stalled = none ∧ latchStall (exO p).latch = true then 1 else 0) :=
  step_stalls_off p hz hp

/-- … and EX raises its stall signal exactly for an ecall that must wait for older instructions
    (an ecall drain). -/
theorem ex_stall_is_ecall_drain (s : St) (inp l2 l3 : Option Latch) :
    latchStall (exStage s inp l2 l3).latch = true ↔
      ∃ d, inp = some d ∧ d.instr.op = .ecall ∧ ecallMustWait d l2 l3 = true :=
  exStage_stall_iff s inp l2 l3

/-! ### C. stale-read semantics -/

/-- Only WB writes registers: after any step, faulting or not, the register file is the old one with
    this cycle's write-back of the MEM/WB register applied. -/
theorem regs_written_by_wb_only (p : PSt) : (step p).p.st.regs = regsAfterWB p.l3 p.st.regs :=
  step_regs p

/-- The ID stage reads the register file after this cycle's write-back and before anything else: its
    output is `idStage` on the registers `regsAfterWB p.l3 p.st.regs`. -/
theorem id_reads_after_wb (p : PSt) :
    nID p = idStage p.hazard (regsAfterWB p.l3 p.st.regs) (idInput p) p.l1 p.l2 :=
  nID_eq p

/-- No forwarding: the operands latched for the instruction in ID are read from that register file,
    independently of the instructions in the ID/EX and EX/MEM registers — a producer one or two slots
    ahead has not written yet, so the consumer sees the old value; a producer three slots ahead (in
    MEM/WB) has. -/
theorem id_operands_stale (p : PSt) (f : Latch) (h : idInput p = some f) :
    ∃ x, nID p = some x ∧ x.instr = f.instr ∧ x.addr = f.addr ∧
      x.rr = accessRegs f.instr (regsAfterWB p.l3 p.st.regs) :=
  nID_rr p f h

/-- In an exception-free step the new ID/EX register is that ID output (or empty after a flush). -/
theorem id_output_latched (p : PSt) (h : (step p).fault = none) :
    (step p).p.l1 = nID p ∨ (step p).p.l1 = none :=
  step_l1 p h

/-- When the consumer has no register conflict with a producer, the producer's (later) write-back does
    not change the operands the consumer latched: the stale read of the interlock-free pipeline is then
    the read single-cycle mode would make. -/
theorem stale_read_harmless (c : Instr) (m : Latch) (regs : Nat → Nat) (hw : m.wreg = writeReg m.instr)
    (h : conflict c m.instr = false) : accessRegs c (wbRegs m regs) = accessRegs c regs :=
  accessRegs_wbRegs c m regs hw h

/-- With detection off the pipeline simulates the schedule skeleton with the interlock rule removed:
    the skeleton's ID stall signal is constantly false, while the erasure equation (`erase` commutes
    with every exception-free cycle; redirects and ecall draining are the skeleton's) still holds. -/
theorem skeleton_interlock_off (p : PSt) (hz : p.hazard = false) (h : (step p).fault = none) :
    ArchSim.Spec.Skeleton.idStallSig (erase p) = false ∧
    erase (step p).p = ArchSim.Spec.Skeleton.step (erase p) (outcomes p) :=
  ⟨idStallSig_off (erase p) hz, erase_step p h⟩

/-! ### F. hazard-free programs and nop padding -/

/-- Padding every instruction with two `addi x0,x0,0` makes ANY program hazard-free: no instruction
    reads a non-x0 register written by one of the two instructions before it. -/
theorem pad_hazard_free (prog : List Instr) : HazardFree (pad prog) := pad_hazardFree prog

/-- The padded program has the original instruction `m` at index `3 m` and is three times as long. -/
theorem pad_layout (prog : List Instr) (m : Nat) :
    (pad prog)[3 * m]? = prog[m]? ∧ (pad prog).length = 3 * prog.length :=
  ⟨pad_at prog m, pad_length prog⟩

/-- In a hazard-free program the decode hazard test — even with detection ON — is negative whenever the
    ID/EX and EX/MEM registers are empty or hold program instructions one or two places before the
    instruction in decode (its fall-through neighbours): no interlock would ever fire. -/
theorem hazard_free_no_interlock (prog : List Instr) (hfree : HazardFree prog) (hz : Bool) (a : Nat)
    (c : Instr) (hc : prog[a]? = some c) (regs : Nat → Nat) (l1 l2 : Option Latch)
    (h1 : ∀ x, l1 = some x → ∃ b, b < a ∧ a ≤ b + 2 ∧ prog[b]? = some x.instr)
    (h2 : ∀ x, l2 = some x → ∃ b, b < a ∧ a ≤ b + 2 ∧ prog[b]? = some x.instr) :
    idStall hz (accessRegs c regs) l1 l2 = false :=
  idStall_hazardFree prog hfree hz a c hc regs l1 l2 h1 h2

/-! ### Non-vacuity -/

/-- `addi x1,x0,5 ; add x2,x1,x1` has a distance-1 dependence; its padding has none. -/
def depProg : List Instr :=
  [{ op := .addi, rd := 1, rs1 := 0, imm := 5 }, { op := .add, rd := 2, rs1 := 1, rs2 := 1 }]

example : ¬ HazardFree depProg := by decide
example : HazardFree (pad depProg) := pad_hazard_free depProg
example : (pad depProg).length = 6 := by decide

/-- With detection off the dependent pair reads the stale x1 (x2 = 0), the padded program the new
    one (x2 = 10), and neither ever records a stall. -/
def stOf (prog : List Instr) : St :=
  { regs := fun _ => 0, pc := 0, mem := .flat (Mem.Mem.empty Mem.riscvCfg),
    imem := { prog := prog, cache := none }, output := "", exitCode := none, cycles := 0,
    instrs := 0, branches := 0, procs := 0, stalls := 0, flushes := 0 }

example : (iter (fun p => (step p).p) 6 (PSt.init (stOf depProg) false)).st.regs 2 = 0 ∧
    (iter (fun p => (step p).p) 6 (PSt.init (stOf depProg) false)).st.stalls = 0 ∧
    (iter (fun p => (step p).p) 10 (PSt.init (stOf (pad depProg)) false)).st.regs 2 = 10 ∧
    (iter (fun p => (step p).p) 10 (PSt.init (stOf (pad depProg)) false)).st.stalls = 0 ∧
    isDone (iter (fun p => (step p).p) 10 (PSt.init (stOf (pad depProg)) false)) = true := by
  decide

end ArchSim.Props.C08
