import ArchSim.Model.Pipe
namespace ArchSim.Props.C08
open ArchSim.Pipe
/-- With hazard detection off the ID stage never sets its stall signal on the latch it produces. -/
theorem idStage_no_stall (regs : Nat → Nat) (inp l1 l2 : Option Latch) :
    latchStall (idStage false regs inp l1 l2) = false := by
  cases inp <;> simp [idStage, latchStall, idStall]
end ArchSim.Props.C08
