/-
C03, program-level clause — "Consequently every program produces the same registers, output and exit
code with the data cache enabled as with it disabled, in both pipeline modes."

Property theorems only (plus non-vacuity examples).  Definitions and helper lemmas:
`ArchSim/Lemmas/C03Prog{Mem,Defs,Step,Run,Init,Pipe,Five,Term,All,Ex}.lean`.

Setting.  `sc`, `sf : Rv.St` are the architectural states of the same program run with a data cache
(`sc.mem = .cached l s`) and with the flat data memory (`sf.mem = .flat m`).

`CacheRel sc sf` (Lemmas/C03ProgDefs):
  * memory systems related (`MRel`, Lemmas/C03ProgMem): `sc.mem = .cached l s`, `sf.mem = .flat m` with
    `CRep l s m` = the invariant `CInv (Pol.WF s.geo.assoc) s` of C03 (it contains `GeoOK s.geo`), the
    invariant `Inv (Pol.WF s.geo.assoc) s` of C09 (needed for re-read neutrality in five-stage mode),
    `AssocOK l s.geo.assoc` (`0 < assoc`, PLRU ⇒ power of two), `m` well formed (`m.cfg = riscvCfg`,
    C18 `WF m`) and `∀ a, logical s a = m.cells (wrap32 a)`;
  * registers, pc, instruction memory (with the state of an instruction cache, if any), output, exit
    code, instruction / branch / procedure counts EQUAL;
  * NOT compared: cycles (miss penalties), the data-cache hit/access counters, stalls, flushes.

`StepAccepted s`: the instruction `singleStep` executes in `s` (`fetched s`; without instruction cache
this is the instruction at pc, `fetched_is_instrAt`) performs accepted data accesses only (`AccessOK`):
a load / store accesses width 8/16/32 within one word of the data range (`Accepted` at the address
`behavior()` computes), and an `ecall` print-string (a7 = 4) does not leave the data range before its
terminating zero byte (`PrintOK`: the print-string loop does not raise).  The hypothesis is always
placed on the FLAT run — it is a property of the program's behaviour with the cache disabled.
`RunAccepted sf` (Lemmas/C03ProgFive): every step the flat single-cycle run takes before it is first
done is `StepAccepted` (nothing is asked of the code behind the exit).
`ProgWF prog` (Lemmas/C03ProgPipe): at most 4096 instructions, each `Instr.WF` (supported op, register
numbers < 32, stored immediate in its constructor's range, `ecall` as constructed).
`singleRun n` (Lemmas/C03ProgRun): `n` raw single-cycle steps; `C01.simN n`: `n` calls of the simulation's
`step()`; `Pipe.pipeRun n (Pipe.PSt.init s true)`: `n` cycles of the five-stage pipeline with hazard
detection.
-/
import ArchSim.Lemmas.C03ProgEx
import ArchSim.Lemmas.C03ProgFive
import ArchSim.Lemmas.C03ProgAll

namespace ArchSim.Props.C03Prog
open ArchSim ArchSim.Cache ArchSim.Mem ArchSim.Rv ArchSim.Spec.CacheAbs ArchSim.Spec.TagCache
open ArchSim.Lemmas.C03Prog

/-! ## 1  The relation holds at power-on -/

/-- Two initial states that differ only in the data memory — a freshly constructed cache system (any
    admissible geometry `g`, LRU or PLRU with a suitable associativity, write-back or write-through,
    any miss penalty) after the parser's `.data` preloads `h` (any list of direct writes) versus the
    flat memory after the same preloads — and in the cycle / stall / flush counters are related. -/
theorem rel_init (s : St) (g : Geo) (hg : GeoOK g) (l : Bool)
    (ha : ArchSim.Lemmas.C09.AssocOK l g.assoc) (wt : Bool) (penalty : Nat)
    (h : List Spec.ByteStore.Op) (c st fl : Nat) :
    CacheRel
      { s with mem := .cached l (preload (DSys.init (polOps l) wt g penalty (Mem.empty riscvCfg)) h) }
      { s with mem := .flat (Spec.ByteStore.run riscvCfg h), cycles := c, stalls := st, flushes := fl } :=
  cacheRel_init s g hg l ha wt penalty h c st fl

/-- Related states are observably equal: same registers, output, exit code, pc, instruction count,
    and the same `is_done()` verdict. -/
theorem rel_observables {sc sf : St} (h : CacheRel sc sf) :
    sc.regs = sf.regs ∧ sc.output = sf.output ∧ sc.exitCode = sf.exitCode ∧ sc.pc = sf.pc ∧
      sc.instrs = sf.instrs ∧ singleDone sc = singleDone sf :=
  ⟨h.regs, h.output, h.exitCode, h.pc, h.instrs, h.singleDone⟩

/-- Without instruction cache (program of at most 4096 instructions) the instruction `StepAccepted`
    talks about is the one stored at pc. -/
theorem fetched_is_instrAt (s : St) (hc : s.imem.cache = none) (hl : s.imem.prog.length ≤ 4096) :
    fetched s = s.imem.instrAt s.pc :=
  fetched_uncached s hc hl

/-! ## 2  One single-cycle step -/

/-- One `Pipeline.step()` in single-cycle mode on related states, when the step of the flat run
    performs accepted accesses: both sides report the same fault (none — loads, stores and print-string
    cannot raise here — or one that does not involve the data memory: invalid ecall code, `ebreak` /
    `fence` / CSR, fetch error), and the states afterwards are related again.  Covers every instruction,
    write-back and write-through, hits, misses, evictions and write-backs, and the uncounted display
    re-read after a load. -/
theorem step_preserves_rel {sc sf : St} (h : CacheRel sc sf) (hacc : StepAccepted sf) :
    (singleStep sc).fault = (singleStep sf).fault ∧ CacheRel (singleStep sc).st (singleStep sf).st :=
  singleStep_rel h hacc

/-! ## 3  Runs in single-cycle mode -/

/-- Any number `n` of single-cycle steps from related states, the first `n` steps of the flat run
    performing accepted accesses: after the `n` steps the registers, output, exit code, pc, instruction
    count and the `is_done()` verdict are equal (indeed the states are related), and each of the `n`
    steps reported the same fault on both sides. -/
theorem cached_run_equals_flat_run {sc sf : St} (h : CacheRel sc sf) (n : Nat)
    (hacc : ∀ j, j < n → StepAccepted (singleRun j sf)) :
    (singleRun n sc).regs = (singleRun n sf).regs ∧
    (singleRun n sc).output = (singleRun n sf).output ∧
    (singleRun n sc).exitCode = (singleRun n sf).exitCode ∧
    (singleRun n sc).pc = (singleRun n sf).pc ∧
    (singleRun n sc).instrs = (singleRun n sf).instrs ∧
    singleDone (singleRun n sc) = singleDone (singleRun n sf) ∧
    CacheRel (singleRun n sc) (singleRun n sf) ∧
    ∀ j, j < n → (singleStep (singleRun j sc)).fault = (singleStep (singleRun j sf)).fault := by
  obtain ⟨hr, hf⟩ := singleRun_rel h n hacc
  exact ⟨hr.regs, hr.output, hr.exitCode, hr.pc, hr.instrs, hr.singleDone, hr, hf⟩

/-- The simulation loop itself (`C01.simN n` = `n` calls of `RiscvSimulation.step()`: no step once
    `is_done()`, stop at the first fault), every state in which the flat loop takes a step (not done)
    performing accepted accesses:
    for every `n` the loop with the data cache reports the same fault (or none) as the loop without,
    and ends with the same registers, output, exit code, pc and instruction count.  In particular a
    program that terminates without cache terminates with cache after the same number of steps with the
    same registers, output and exit code. -/
theorem cached_sim_equals_flat_sim {sc sf : St} (h : CacheRel sc sf)
    (hacc : ∀ j, singleDone (ArchSim.Lemmas.C01.simN j sf).st = false →
      StepAccepted (ArchSim.Lemmas.C01.simN j sf).st) (n : Nat) :
    (ArchSim.Lemmas.C01.simN n sc).fault = (ArchSim.Lemmas.C01.simN n sf).fault ∧
    (ArchSim.Lemmas.C01.simN n sc).st.regs = (ArchSim.Lemmas.C01.simN n sf).st.regs ∧
    (ArchSim.Lemmas.C01.simN n sc).st.output = (ArchSim.Lemmas.C01.simN n sf).st.output ∧
    (ArchSim.Lemmas.C01.simN n sc).st.exitCode = (ArchSim.Lemmas.C01.simN n sf).st.exitCode ∧
    (ArchSim.Lemmas.C01.simN n sc).st.pc = (ArchSim.Lemmas.C01.simN n sf).st.pc ∧
    (ArchSim.Lemmas.C01.simN n sc).st.instrs = (ArchSim.Lemmas.C01.simN n sf).st.instrs ∧
    singleDone (ArchSim.Lemmas.C01.simN n sc).st = singleDone (ArchSim.Lemmas.C01.simN n sf).st ∧
    CacheRel (ArchSim.Lemmas.C01.simN n sc).st (ArchSim.Lemmas.C01.simN n sf).st := by
  obtain ⟨hf, hr⟩ := simN_rel n h hacc
  exact ⟨hf, hr.regs, hr.output, hr.exitCode, hr.pc, hr.instrs, hr.singleDone, hr⟩

/-! ## 4  Five-stage mode -/

/-- FIVE-STAGE PIPELINE.  Related initial states over a well-formed program (`ProgWF`: at most 4096
    supported, well-formed instructions) without instruction cache, the flat initial state satisfying
    C01's state invariant (`StOK`: 32-bit registers, `x0 = 0`, 32-bit pc, well-formed flat RISC-V
    memory), no exit code yet, every step the flat single-cycle run takes before it is done performing
    accepted accesses (`RunAccepted`; nothing is required of instructions behind the exit).
    If the five-stage simulation loop `while not is_done(): step()` (hazard detection on) stops without
    a fault after `nc` cycles with the data cache and after `nf` cycles without it, then the two final
    physical states have the same registers, output, exit code, pc, retired-instruction, branch and
    procedure counts, the final cache system represents the final flat memory (`MRel`), and the two
    runs retired the same sequence of instruction addresses.  Moreover these are the results of the
    single-cycle runs (with and without cache) after the same number `k` of steps, `k` being where the
    single-cycle loop stops: all four configurations agree.
    Proof: C02 `final_state` (pipeline = sequential machine `seqRun`), C02Split `split_agrees_anymem`
    (sequential step = single-cycle step; `MemOK` for the cache from `CInv`, value `< 2^32`, and C09
    re-read neutrality), and `step_preserves_rel`. -/
theorem five_stage_cached_equals_flat {sc sf : St} (h : CacheRel sc sf) (prog : List Instr)
    (hp : ProgWF prog) (him : sf.imem = { prog := prog, cache := none })
    (hs : ArchSim.Lemmas.C01.StOK sf) (hx : sf.exitCode = none)
    (hacc : RunAccepted sf)
    (nc : Nat) (hrc : Pipe.runOK nc (Pipe.PSt.init sc true))
    (hdc : Pipe.isDone (Pipe.pipeRun nc (Pipe.PSt.init sc true)) = true)
    (hpc : ∀ m, m < nc → Pipe.isDone (Pipe.pipeRun m (Pipe.PSt.init sc true)) = false)
    (nf : Nat) (hrf : Pipe.runOK nf (Pipe.PSt.init sf true))
    (hdf : Pipe.isDone (Pipe.pipeRun nf (Pipe.PSt.init sf true)) = true)
    (hpf : ∀ m, m < nf → Pipe.isDone (Pipe.pipeRun m (Pipe.PSt.init sf true)) = false) :
    (Pipe.pipeRun nc (Pipe.PSt.init sc true)).st.regs = (Pipe.pipeRun nf (Pipe.PSt.init sf true)).st.regs ∧
    (Pipe.pipeRun nc (Pipe.PSt.init sc true)).st.output = (Pipe.pipeRun nf (Pipe.PSt.init sf true)).st.output ∧
    (Pipe.pipeRun nc (Pipe.PSt.init sc true)).st.exitCode = (Pipe.pipeRun nf (Pipe.PSt.init sf true)).st.exitCode ∧
    (Pipe.pipeRun nc (Pipe.PSt.init sc true)).st.pc = (Pipe.pipeRun nf (Pipe.PSt.init sf true)).st.pc ∧
    (Pipe.pipeRun nc (Pipe.PSt.init sc true)).st.instrs = (Pipe.pipeRun nf (Pipe.PSt.init sf true)).st.instrs ∧
    (Pipe.pipeRun nc (Pipe.PSt.init sc true)).st.branches = (Pipe.pipeRun nf (Pipe.PSt.init sf true)).st.branches ∧
    (Pipe.pipeRun nc (Pipe.PSt.init sc true)).st.procs = (Pipe.pipeRun nf (Pipe.PSt.init sf true)).st.procs ∧
    MRel (Pipe.pipeRun nc (Pipe.PSt.init sc true)).st.mem (Pipe.pipeRun nf (Pipe.PSt.init sf true)).st.mem ∧
    Pipe.retireLog nc (Pipe.PSt.init sc true) = Pipe.retireLog nf (Pipe.PSt.init sf true) ∧
    ∃ k, k ≤ nc ∧ k ≤ nf ∧ singleDone (singleRun k sf) = true ∧
      (∀ j, j < k → singleDone (singleRun j sf) = false) ∧
      Pipe.SimP (Pipe.pipeRun nc (Pipe.PSt.init sc true)).st (singleRun k sc) ∧
      Pipe.SimP (Pipe.pipeRun nf (Pipe.PSt.init sf true)).st (singleRun k sf) := by
  obtain ⟨k, k1, k2, a, b, r, d, nd, l⟩ :=
    five_stage_rel h prog hp him hs hx hacc nc hrc hdc hpc nf hrf hdf hpf
  refine ⟨?_, ?_, ?_, ?_, ?_, ?_, ?_, ?_, l, k, k1, k2, d, nd, a, b⟩
  · rw [a.1.regs, b.1.regs, r.regs]
  · rw [a.1.output, b.1.output, r.output]
  · rw [a.1.exitCode, b.1.exitCode, r.exitCode]
  · rw [a.2, b.2, r.pc]
  · rw [a.1.instrs, b.1.instrs, r.instrs]
  · rw [a.1.branches, b.1.branches, r.branches]
  · rw [a.1.procs, b.1.procs, r.procs]
  · rw [a.1.mem, b.1.mem]; exact r.mem

/-- ALL FOUR CONFIGURATIONS, from the flat single-cycle run alone.  Same setting as above, and the
    single-cycle run WITHOUT cache is first done after `k` steps (`is_done()` for the first time), none
    of which raises.  Then both five-stage loops — with the data cache and without — stop without a
    fault after at most `5 * (k + 2)` calls of `step()`, and their final registers, output and exit code
    are those of the flat single-cycle run after its `k` steps; so are (by `cached_run_equals_flat_run`)
    those of the single-cycle run with the cache.  Hence every such program produces the same
    registers, output and exit code with the data cache enabled as with it disabled, in both pipeline
    modes.  (No assumption that the cached runs terminate or are fault-free: this is derived — C02
    `pipe_terminates` plus `no_fault_before_done` in `Lemmas/C03ProgTerm.lean`.) -/
theorem program_same_result_all_modes {sc sf : St} (h : CacheRel sc sf) (prog : List Instr)
    (hp : ProgWF prog) (him : sf.imem = { prog := prog, cache := none })
    (hs : ArchSim.Lemmas.C01.StOK sf) (hx : sf.exitCode = none) (hacc : RunAccepted sf)
    (k : Nat) (hd : singleDone (singleRun k sf) = true)
    (hnd : ∀ j, j < k → singleDone (singleRun j sf) = false)
    (hnf : ∀ j, j < k → (singleStep (singleRun j sf)).fault = none) :
    ∃ nc nf, nc ≤ 5 * (k + 2) ∧ nf ≤ 5 * (k + 2) ∧
      Pipe.runOK nc (Pipe.PSt.init sc true) ∧ Pipe.isDone (Pipe.pipeRun nc (Pipe.PSt.init sc true)) = true ∧
      (∀ m, m < nc → Pipe.isDone (Pipe.pipeRun m (Pipe.PSt.init sc true)) = false) ∧
      Pipe.runOK nf (Pipe.PSt.init sf true) ∧ Pipe.isDone (Pipe.pipeRun nf (Pipe.PSt.init sf true)) = true ∧
      (∀ m, m < nf → Pipe.isDone (Pipe.pipeRun m (Pipe.PSt.init sf true)) = false) ∧
      (Pipe.pipeRun nc (Pipe.PSt.init sc true)).st.regs = (singleRun k sf).regs ∧
      (Pipe.pipeRun nc (Pipe.PSt.init sc true)).st.output = (singleRun k sf).output ∧
      (Pipe.pipeRun nc (Pipe.PSt.init sc true)).st.exitCode = (singleRun k sf).exitCode ∧
      (Pipe.pipeRun nf (Pipe.PSt.init sf true)).st.regs = (singleRun k sf).regs ∧
      (Pipe.pipeRun nf (Pipe.PSt.init sf true)).st.output = (singleRun k sf).output ∧
      (Pipe.pipeRun nf (Pipe.PSt.init sf true)).st.exitCode = (singleRun k sf).exitCode ∧
      (singleRun k sc).regs = (singleRun k sf).regs ∧
      (singleRun k sc).output = (singleRun k sf).output ∧
      (singleRun k sc).exitCode = (singleRun k sf).exitCode := by
  obtain ⟨⟨nc, bc, c1, c2, c3⟩, ⟨nf, bf, f1, f2, f3⟩⟩ := both_complete h prog hp him hs hacc k hd hnd hnf
  obtain ⟨e1, e2, e3, _, _, _, _, _, _, k', _, _, d', nd', _, b⟩ :=
    five_stage_cached_equals_flat h prog hp him hs hx hacc nc c1 c2 c3 nf f1 f2 f3
  have hk : k' = k := by
    rcases Nat.lt_trichotomy k' k with hlt | heq | hgt
    · rw [hnd k' hlt] at d'; cases d'
    · exact heq
    · rw [nd' k hgt] at hd; cases hd
  subst hk
  have hr := (singleRun_rel h k' (fun j hj => hacc j (fun j' hj' => hnd j' (by omega)))).1
  exact ⟨nc, nf, bc, bf, c1, c2, c3, f1, f2, f3, by rw [e1, b.1.regs], by rw [e2, b.1.output],
    by rw [e3, b.1.exitCode], b.1.regs, b.1.output, b.1.exitCode, hr.regs, hr.output, hr.exitCode⟩

/-! ## 5  The restriction to accepted accesses is necessary -/

/-- Without `StepAccepted` the step theorem is FALSE: from related states, a word load that crosses a
    word boundary inside the data range (`lw x3, 1(x5)`, x5 = 0x4000) succeeds on the flat memory and
    raises `ByteOffsetError` on the cached one (C03 §5, `crossing_rejected_read`).  This is why the
    program-level clause quantifies over programs "that use aligned accesses". -/
theorem unaligned_access_distinguishes :
    ∃ sc sf : St, CacheRel sc sf ∧ ¬ StepAccepted sf ∧ (singleStep sf).fault = none ∧
      (singleStep sc).fault = some (0, .mem (.byteOffset 1 0)) :=
  ⟨Ex.oddSt Ex.cache1 { op := .lw, rd := 3, rs1 := 5, imm := 1 },
   Ex.oddSt Ex.flat1 { op := .lw, rd := 3, rs1 := 5, imm := 1 }, Ex.rel_odd _,
   fun h => absurd ((h { op := .lw, rd := 3, rs1 := 5, imm := 1 } (by decide)).1 (by decide)) (by decide),
   by decide, by decide⟩

/-- A print-string that starts below the data range raises on both sides, but not with the same
    error value: the flat memory reports the byte address, the cache the address of the block it tried
    to fetch.  (Both are `MemoryAddressError`s; only the reported address differs.) -/
theorem rejected_print_string_error_differs :
    ∃ sc sf : St, CacheRel sc sf ∧ ¬ StepAccepted sf ∧
      (singleStep sf).fault = some (0, .mem (.addr 16383)) ∧
      (singleStep sc).fault = some (0, .mem (.addr 16380)) := by
  refine ⟨Ex.oddSt Ex.cache1 { op := .ecall }, Ex.oddSt Ex.flat1 { op := .ecall }, Ex.rel_odd _, ?_,
    by decide, by decide⟩
  intro h
  obtain ⟨cs, hcs⟩ := (h { op := .ecall } (by decide)).2.2 rfl (by decide)
  have e : (printStrLoop printStrFuel (Ex.oddSt Ex.flat1 { op := .ecall }).mem
      ((Ex.oddSt Ex.flat1 { op := .ecall }).regs 10) []).2 = .error (.addr 16383) := by decide
  rw [e] at hcs
  cases hcs

/-! ## Non-vacuity -/

section
open ArchSim.Lemmas.C03Prog.Ex

-- the example: `lui x5,4; addi x1,x0,5; sw x1,0(x5); lw x3,0(x5); lbu x2,1(x5); addi a7,x0,10; ecall` on
-- a one-set, one-way, one-word write-back LRU cache (penalty 10) over the empty memory, vs flat memory

-- the initial states are related (instance of `rel_init`, via `init_inv`)
example : CacheRel sc sf := rel0
example : GeoOK geo1 ∧ ArchSim.Lemmas.C09.AssocOK true geo1.assoc := ⟨geo1_ok, assoc1_ok⟩

-- every step of the flat run performs accepted accesses (hypothesis of `cached_run_equals_flat_run`;
-- proved instruction by instruction in `Lemmas/C03ProgEx.lean`)
example : ∀ j, j < 7 → StepAccepted (singleRun j sf) := acc7

-- what the two runs compute: same registers and exit code; the cached run pays one miss penalty
-- (the `sw` misses, `lw` and `lbu` hit), so the cycle counters differ — they are not compared
example : (singleRun 7 sc).regs 3 = 5 ∧ (singleRun 7 sf).regs 3 = 5 ∧
    (singleRun 7 sc).exitCode = some 0 ∧ (singleRun 7 sf).exitCode = some 0 ∧
    singleDone (singleRun 7 sc) = true ∧ singleDone (singleRun 6 sc) = false ∧
    (singleRun 7 sc).cycles = 17 ∧ (singleRun 7 sf).cycles = 7 := by decide

-- five-stage mode: the hypotheses of `five_stage_cached_equals_flat` hold for the example …
example : ProgWF prog ∧ sf.imem = { prog := prog, cache := none } ∧ ArchSim.Lemmas.C01.StOK sf ∧
    sf.exitCode = none ∧ RunAccepted sf := ⟨progWF, rfl, stOK_sf, rfl, runAccepted_sf⟩

-- … both pipelines stop after 15 calls of `step()` without a fault (the miss penalty is added to the
-- cycle counter, it does not add calls), with x3 = 5 and exit code 0; the cycle counters differ
example : Pipe.runOK 15 (Pipe.PSt.init sc true) ∧ Pipe.isDone (Pipe.pipeRun 15 (Pipe.PSt.init sc true)) = true ∧
    (∀ m, m < 15 → Pipe.isDone (Pipe.pipeRun m (Pipe.PSt.init sc true)) = false) ∧
    Pipe.runOK 15 (Pipe.PSt.init sf true) ∧ Pipe.isDone (Pipe.pipeRun 15 (Pipe.PSt.init sf true)) = true ∧
    (∀ m, m < 15 → Pipe.isDone (Pipe.pipeRun m (Pipe.PSt.init sf true)) = false) := by decide
example : (Pipe.pipeRun 15 (Pipe.PSt.init sc true)).st.regs 3 = 5 ∧
    (Pipe.pipeRun 15 (Pipe.PSt.init sc true)).st.exitCode = some 0 ∧
    (Pipe.pipeRun 15 (Pipe.PSt.init sc true)).st.cycles = 25 ∧
    (Pipe.pipeRun 15 (Pipe.PSt.init sf true)).st.cycles = 15 ∧
    Pipe.retireLog 15 (Pipe.PSt.init sc true) = [0, 4, 8, 12, 16, 20, 24] := by decide

-- the remaining hypotheses of `program_same_result_all_modes`: the flat single-cycle run is first
-- done after 7 steps, none of which raises
example : singleDone (singleRun 7 sf) = true ∧ (∀ j, j < 7 → singleDone (singleRun j sf) = false) ∧
    (∀ j, j < 7 → (singleStep (singleRun j sf)).fault = none) := by decide

-- `PrintOK` (print-string stays in the data range) is satisfiable on both kinds of memory system, and
-- fails for a string that starts below the data range
example : PrintOK (.flat (Spec.ByteStore.run riscvCfg strData)) 0x4000 := ⟨['H', 'i'], by decide⟩
example : PrintOK (.cached true (preload (DSys.init (polOps true) false geo1 10 (Mem.empty riscvCfg)) strData))
    0x4000 := ⟨['H', 'i'], by decide⟩
example : ¬ PrintOK (.flat (Spec.ByteStore.run riscvCfg strData)) 0x3FFF := by
  rintro ⟨cs, h⟩
  have e : (printStrLoop printStrFuel (.flat (Spec.ByteStore.run riscvCfg strData)) 0x3FFF []).2 =
      .error (.addr 16383) := by decide
  rw [e] at h
  cases h

end

end ArchSim.Props.C03Prog
