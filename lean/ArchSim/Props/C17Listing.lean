/-
C17, the STAGE COLUMN of the instruction listing — `RiscvSimulation.get_instruction_memory_entries()` as modelled by
`SimViews.listing` / `listingOf` (`Model/SimViews.lean`).  It is the RISC-V counterpart of the TOY memory table's cycle
mark (`C17Views.toyMemTable_mark`): the listing marks every instruction with the pipeline stage whose register
currently holds it.

The theorems say, for EVERY pipeline state: a row is marked with the name of a register that holds its address, or not
at all; in five-stage mode the mark is given by an explicit priority (WB over MEM over EX over ID over IF — the later
register wins when an instruction is held twice, as in a stalled decode); an instruction held by no register is
unmarked; and in single-stage mode after a step exactly the instruction that was executed is marked `Single`.
Property theorems only; helper lemmas are in `Lemmas/SimViews.lean`.
-/
import ArchSim.Lemmas.SimViews

namespace ArchSim.Props.C17Listing
open ArchSim ArchSim.Rv ArchSim.SimViews ArchSim.Lemmas.SimViews

/-- The stage text of any row is empty or the name of a register that holds the row's address; and it is empty when
    no register holds it.  (Whatever the list of registers: both modes.) -/
theorem stage_sound (prog : List Instr) (marks : Marks) (k : Nat) (row : ListRow)
    (h : (listing prog marks)[k]? = some row) :
    (row.stage = "" ∨ (some row.addr, row.stage) ∈ marks) ∧
    ((∀ m ∈ marks, m.1 ≠ some row.addr) → row.stage = "") := by
  rw [listing_getElem?] at h
  cases hp : prog[k]? with
  | none => rw [hp] at h; cases h
  | some i =>
    rw [hp] at h
    obtain rfl : listRow marks k i = row := by simpa using h
    exact ⟨stageOf_mem marks _, stageOf_none marks _⟩

/-- The address a pipeline register holds (`none` for a bubble). -/
def holds (l : Option Pipe.Latch) (a : Int) : Bool := l.map (·.addr) == some a

/-- Five-stage mode, closed form: the mark of address `a` is `WB` if the write-back output register holds `a`, else
    `MEM` if the MEM/WB register does, else `EX`, else `ID`, else `IF`, else empty — the LAST register in pipeline
    order wins, so an instruction whose decode is stalled (held by IF/ID and by ID/EX) shows `ID`. -/
theorem five_stage_mark (p : Pipe.PSt) (a : Int) :
    stageOf (fiveMarks p) a =
      if holds p.l4 a then "WB" else if holds p.l3 a then "MEM" else if holds p.l2 a then "EX"
      else if holds p.l1 a then "ID" else if holds p.l0 a then "IF" else "" := by
  have e : fiveMarks p = ((((([] : Marks) ++ [(p.l0.map (·.addr), "IF")]) ++ [(p.l1.map (·.addr), "ID")]) ++
      [(p.l2.map (·.addr), "EX")]) ++ [(p.l3.map (·.addr), "MEM")]) ++ [(p.l4.map (·.addr), "WB")] := rfl
  rw [e]
  simp only [stageOf_snoc, stageOf_nil, holds]
  rfl

/-- Row `k` of the listing of a five-stage simulation carries exactly that mark for address `4k`. -/
theorem five_stage_rows (s : Sim.RSim) (before : Option St) (hf : s.five = true) (k : Nat) (i : Instr)
    (hk : s.p.st.imem.prog[k]? = some i) :
    ∃ row, (listingOf s before)[k]? = some row ∧ row.addr = 4 * (k : Int) ∧ row.instr = i.repr ∧
      row.stage =
        if holds s.p.l4 (4 * k) then "WB" else if holds s.p.l3 (4 * k) then "MEM" else if holds s.p.l2 (4 * k) then "EX"
        else if holds s.p.l1 (4 * k) then "ID" else if holds s.p.l0 (4 * k) then "IF" else "" := by
  refine ⟨listRow (fiveMarks s.p) k i, ?_, rfl, rfl, five_stage_mark s.p _⟩
  simp [listingOf, hf, listing_getElem?, hk]

/-- Single-stage mode after a `step()` that executed an instruction (the simulation was not done, the step did not
    fault, the instruction has a visualisation): exactly the row of the executed instruction — the one at the program
    counter BEFORE the step — is marked `Single`, every other row is unmarked. -/
theorem single_stage_rows (s : Sim.RSim) (before : Option St) (hs : s.five = false)
    (hnd : Sim.isDone s = false) (hnf : (Sim.step s).fault = none) (i : Instr)
    (hi : s.p.st.imem.instrAt s.p.st.pc = some i) (hv : noVis i.op = false)
    (k : Nat) (j : Instr) (hk : (Sim.step s).sim.p.st.imem.prog[k]? = some j) :
    ∃ row, (listingOf (Sim.step s).sim (beforeAfter s before))[k]? = some row ∧
      row.stage = if 4 * (k : Int) = s.p.st.pc then "Single" else "" := by
  have hfive : (Sim.step s).sim.five = false := by
    simp [Sim.step, hnd, hs]
    split <;> simp
  have hb : beforeAfter s before = some s.p.st := by simp [beforeAfter, hs, hnd, hnf]
  refine ⟨listRow (singleMarks (some s.p.st)) k j, ?_, ?_⟩
  · simp [listingOf, hfive, hb, listing_getElem?, hk]
  · simp only [listRow, singleMarks, singleLatch, hi, hv, stageOf, List.reverse_cons, List.reverse_nil,
      List.nil_append, List.find?_cons, List.find?_nil]
    by_cases h : 4 * (k : Int) = s.p.st.pc
    · simp [h]
    · have : (some s.p.st.pc == some (4 * (k : Int))) = false := by
        simp; exact fun e => h e.symm
      simp [h, this]

/-- Before anything was stepped (and after a step onto an address without instruction) no row is marked. -/
theorem single_stage_unmarked (prog : List Instr) (k : Nat) (row : ListRow)
    (h : (listing prog (singleMarks none))[k]? = some row) : row.stage = "" :=
  (stage_sound prog _ k row h).2 (by simp [singleMarks, singleLatch])

/-- A five-stage simulation that ran to completion without an exit call (the pipeline has drained: `is_done()` because the
    registers are empty and the program counter holds no instruction) marks at most the instruction that retired last: every
    row is unmarked or marked `WB`. -/
theorem drained_pipeline_marks (p : Pipe.PSt) (hd : Pipe.isDone p = true) (hx : p.st.exitCode = none) (a : Int) :
    stageOf (fiveMarks p) a = "" ∨ stageOf (fiveMarks p) a = "WB" := by
  have h : p.l0 = none ∧ p.l1 = none ∧ p.l2 = none ∧ p.l3 = none := by
    simp [Pipe.isDone, hx] at hd
    exact ⟨hd.1.1.1.1, hd.1.1.1.2, hd.1.1.2, hd.1.2⟩
  rw [five_stage_mark]
  simp only [holds, h.1, h.2.1, h.2.2.1, h.2.2.2, Option.map_none]
  by_cases h4 : (p.l4.map (·.addr) == some a) = true
  · right; simp [h4]
  · left; simp [h4]

/-- Before the first step nothing is marked (all registers are empty). -/
theorem power_on_unmarked (st : St) (hz : Bool) (a : Int) : stageOf (fiveMarks (Pipe.PSt.init st hz)) a = "" := by
  rw [five_stage_mark]; simp [holds, Pipe.PSt.init]

/-! ### non-vacuity -/

-- a stalled decode: the instruction at 8 sits in IF/ID and ID/EX, its producer at 4 in EX/MEM
example :
    let x : Pipe.Latch := { instr := { op := .add, rd := 3, rs1 := 1, rs2 := 2 }, addr := 8, pc4 := 12 }
    let y : Pipe.Latch := { instr := { op := .addi, rd := 1, imm := 5 }, addr := 4, pc4 := 8 }
    let p : Pipe.PSt := { Pipe.PSt.init Asm.freshSt true with l0 := some x, l1 := some x, l2 := some y }
    stageOf (fiveMarks p) 8 = "ID" ∧ stageOf (fiveMarks p) 4 = "EX" ∧ stageOf (fiveMarks p) 0 = "" := by decide

end ArchSim.Props.C17Listing
