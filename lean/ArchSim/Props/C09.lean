/-
C09 — Data-cache hit/miss accounting and miss penalties match a reference cache.

Model: `ArchSim.Cache.DSys` (`Model/Cache.lean`).  Reference: the tag-only set-associative cache
`ArchSim.Spec.TagCache` (no data, no dirty bits, no backing store; same geometry, write policy and
replacement policy).  `erase` forgets everything of a model state the reference does not have.

The theorems are generic in the replacement policy `P : PolicyOps σ`, assuming only the interface
`PolicyOK P assoc ok` (on `ok` states `access i` for `i < assoc` and `victim` never fail, `victim`
names a way `< assoc`, `ok` is preserved) and — where writes are involved — `PolicyIdem P ok`
(`access i; access i = access i`; the model tells the policy twice about a block it rewrites).  The
last section instantiates them for the real LRU / PLRU (`polOps isLru`, `ok := Pol.WF assoc`).

Hypotheses: `Inv ok s` is the invariant of reachable states (`2^idxBits` sets of `assoc` ways, policy
states `ok`, lower memory with the RISC-V configuration, dirty blocks inside the data range, geometry
with `idxBits + blkBits + 2 ≤ 32`, `blkBits ≤ 12`, `0 < assoc`); it holds for `DSys.init` and is
preserved by every operation covered (`inv_init`, and the `Inv` conjuncts below).
`Accepted bits a`: width 8/16/32, no word-boundary crossing, wrapped address in `[16384, 2^32)`.
-/
import ArchSim.Lemmas.C09Pol
import ArchSim.Lemmas.C09Distinct

namespace ArchSim.Props.C09
open ArchSim ArchSim.Cache ArchSim.Spec.TagCache ArchSim.Lemmas.C09 ArchSim.Repl

variable {σ : Type} {P : PolicyOps σ} {ok : σ → Prop}

/-! ### 0. The invariant holds initially -/

/-- A freshly constructed data-cache system over a RISC-V data memory satisfies the invariant. -/
theorem inv_init {g : Geo} (hg : GeoOK g) (hP : PolicyOK P g.assoc ok) (wt : Bool) (penalty : Nat)
    (m : Mem.Mem) (hm : m.cfg = Mem.riscvCfg) : Inv ok (DSys.init P wt g penalty m) :=
  Inv_init hg hP wt penalty m hm

/-- The erasure of the initial model state is the initial reference cache. -/
theorem erase_init (wt : Bool) (g : Geo) (penalty : Nat) (m : Mem.Mem) :
    erase (DSys.init P wt g penalty m) = TagCache.init P wt g penalty := by
  simp [erase, DSys.init, TagCache.init, initSets, eraseSet, eraseWay, Way.empty]

/-! ### 1. Every accepted operation commutes with the erasure -/

/-- An accepted read (counted or not) of the model is a read of the reference: the erased state
    after it, and the cycles it adds, are the reference's; the invariant is kept; the read does not
    raise. -/
theorem erase_commutes_read {s : DSys σ} (hP : PolicyOK P s.geo.assoc ok) (hinv : Inv ok s)
    {bits : Nat} {a : Int} (hacc : Accepted bits a) (counted : Bool) :
    erase (s.read P bits a counted).sys = (refRead P (erase s) a counted).cache ∧
    (s.read P bits a counted).extra = (refRead P (erase s) a counted).extra ∧
    Inv ok (s.read P bits a counted).sys ∧
    (∃ v, (s.read P bits a counted).res = .ok v) :=
  let h := read_sim hP hinv hacc counted
  ⟨h.erase_eq, h.extra_eq, h.inv, h.succeeds⟩

/-- An accepted (non-direct) write of the model, under either write policy, is a write of the
    reference (write-back: allocate on a miss; write-through: no allocation): erased state and added
    cycles agree, the invariant is kept, the write does not raise (hence is counted). -/
theorem erase_commutes_write {s : DSys σ} (hP : PolicyOK P s.geo.assoc ok) (hI : PolicyIdem P ok)
    (hinv : Inv ok s) {bits : Nat} {a : Int} (hacc : Accepted bits a) (v : Nat) :
    erase (s.write P bits a v false).sys = (refWrite P (erase s) a).cache ∧
    (s.write P bits a v false).extra = (refWrite P (erase s) a).extra ∧
    Inv ok (s.write P bits a v false).sys ∧
    (s.write P bits a v false).res = .ok 0 := by
  have h := write_sim hP hI hinv hacc v
  exact ⟨h.1.erase_eq, h.1.extra_eq, h.1.inv, h.2⟩

/-- Any operation of a history (accepted access through the cache, or a direct write of any kind)
    is simulated by the reference's step. -/
theorem erase_commutes_op {s : DSys σ} (hP : PolicyOK P s.geo.assoc ok) (hI : PolicyIdem P ok)
    (hinv : Inv ok s) {op : Op} (hop : op.ok) :
    erase (applyOp P s op).sys = (refOp P (erase s) op).cache ∧
    (applyOp P s op).extra = (refOp P (erase s) op).extra ∧
    Inv ok (applyOp P s op).sys :=
  let h := applyOp_sim hP hI hinv hop
  ⟨h.erase_eq, h.extra_eq, h.inv⟩

/-! ### 2. Histories -/

/-- After any history of accepted operations the erased model state *is* the reference state — in
    particular the hit counter, the access counter and the last-hit flag are the reference's — the
    total of added cycles is the reference's, and the invariant holds. -/
theorem counters_refine {s : DSys σ} (hP : PolicyOK P s.geo.assoc ok) (hI : PolicyIdem P ok)
    (hinv : Inv ok s) (ops : List Op) (hops : ∀ op ∈ ops, op.ok) :
    erase (run P s ops).1 = (refRun P (erase s) ops).1 ∧
    (run P s ops).1.hits = (refRun P (erase s) ops).1.hits ∧
    (run P s ops).1.accesses = (refRun P (erase s) ops).1.accesses ∧
    (run P s ops).1.lastHit = (refRun P (erase s) ops).1.lastHit ∧
    (run P s ops).2 = (refRun P (erase s) ops).2.1 ∧
    Inv ok (run P s ops).1 := by
  obtain ⟨h1, h2, h3⟩ := run_sim hP hI hinv ops hops
  refine ⟨h1, ?_, ?_, ?_, h2, h3⟩
  · rw [← h1]; rfl
  · rw [← h1]; rfl
  · rw [← h1]; rfl

/-- The same after every prefix of the history. -/
theorem counters_refine_prefix {s : DSys σ} (hP : PolicyOK P s.geo.assoc ok) (hI : PolicyIdem P ok)
    (hinv : Inv ok s) (ops : List Op) (hops : ∀ op ∈ ops, op.ok) (n : Nat) :
    (run P s (ops.take n)).1.hits = (refRun P (erase s) (ops.take n)).1.hits ∧
    (run P s (ops.take n)).1.accesses = (refRun P (erase s) (ops.take n)).1.accesses ∧
    (run P s (ops.take n)).1.lastHit = (refRun P (erase s) (ops.take n)).1.lastHit ∧
    (run P s (ops.take n)).2 = (refRun P (erase s) (ops.take n)).2.1 := by
  obtain ⟨_, h1, h2, h3, h4, _⟩ :=
    counters_refine hP hI hinv (ops.take n) (fun op h => hops op (List.mem_of_mem_take h))
  exact ⟨h1, h2, h3, h4⟩

/-- Every counted miss adds exactly the configured penalty, and nothing else adds cycles: the cycles
    a history adds are `penalty × (number of counted misses of the reference)`. -/
theorem penalty_per_counted_miss {s : DSys σ} (hP : PolicyOK P s.geo.assoc ok)
    (hI : PolicyIdem P ok) (hinv : Inv ok s) (ops : List Op) (hops : ∀ op ∈ ops, op.ok) :
    (run P s ops).2 = s.penalty * (refRun P (erase s) ops).2.2 := by
  rw [(run_sim hP hI hinv ops hops).2.1, refRun_extra]
  rfl

/-- One operation: the cycles added are the penalty if the reference has a counted miss, else 0;
    after a counted operation the last-hit flag is `true` iff it was not a miss. -/
theorem penalty_one_op {s : DSys σ} (hP : PolicyOK P s.geo.assoc ok) (hI : PolicyIdem P ok)
    (hinv : Inv ok s) {op : Op} (hop : op.ok) :
    (applyOp P s op).extra = (if (refOp P (erase s) op).miss then s.penalty else 0) ∧
    (op.counted = true → (applyOp P s op).sys.lastHit = !(refOp P (erase s) op).miss) := by
  have h := applyOp_sim hP hI hinv hop
  refine ⟨by rw [h.extra_eq, refOp_extra]; rfl, fun hc => ?_⟩
  rw [← refOp_lastHit P (erase s) op hc, ← h.erase_eq]
  rfl

/-- The model is a proper set-associative cache: if no set holds a tag twice (true initially), then
    after any history of accepted operations no set does — two valid ways of one set never carry the
    same tag. -/
theorem tags_distinct {s : DSys σ} (hP : PolicyOK P s.geo.assoc ok) (hI : PolicyIdem P ok)
    (hinv : Inv ok s) (hd : Distinct (erase s).sets) (ops : List Op) (hops : ∀ op ∈ ops, op.ok)
    {cs : CSet σ Nat} (hcs : cs ∈ (run P s ops).1.sets) {i j : Nat} {wi wj : Way Nat}
    (hi : cs.ways[i]? = some wi) (hj : cs.ways[j]? = some wj)
    (hvi : wi.valid = true) (hvj : wj.valid = true) (ht : wi.tag = wj.tag) : i = j := by
  have h1 := (run_sim hP hI hinv ops hops).1
  have h2 := refRun_distinct P (erase s) ops hd
  rw [← h1] at h2
  exact distinct_ways h2 hcs hi hj hvi hvj ht

/-- Initially no set holds a tag (so none holds one twice). -/
theorem tags_distinct_init (wt : Bool) (g : Geo) (penalty : Nat) (m : Mem.Mem) :
    Distinct (erase (DSys.init P wt g penalty m)).sets := by
  rw [erase_init]; exact init_distinct P wt g penalty

/-! ### 3. Uncounted reads and direct writes -/

/-- An uncounted (inspection) read — of *any* address and width, accepted or rejected, hit or miss —
    leaves the hit counter, the access counter and the last-hit flag unchanged and adds no cycles. -/
theorem uncounted_read_counters (s : DSys σ) (bits : Nat) (a : Int) :
    (s.read P bits a false).sys.hits = s.hits ∧
    (s.read P bits a false).sys.accesses = s.accesses ∧
    (s.read P bits a false).sys.lastHit = s.lastHit ∧
    (s.read P bits a false).extra = 0 :=
  read_uncounted_frame s bits a

/-- A direct write (parser preload) — of any address, width and value, successful or rejected —
    changes nothing but the lower memory: counters, last-hit flag and all cache sets (tags, data,
    policy states) are untouched, and it adds no cycles. -/
theorem direct_write_noop (s : DSys σ) (bits : Nat) (a : Int) (v : Nat) :
    ∃ m', (s.write P bits a v true).sys = { s with mem := m' } ∧
      (s.write P bits a v true).extra = 0 := by
  obtain ⟨m', h1, _, h3⟩ := writeDirect_spec s bits a v
  have hw : s.write P bits a v true = s.writeDirect bits a v := by simp [DSys.write]
  exact ⟨m', by rw [hw, h1], by rw [hw, h3]⟩

/-! ### 4. What the access counter counts -/

/-- After a history of accepted operations the access counter has grown by the number of counted
    reads plus the number of non-direct writes; the hit counter plus the number of counted misses
    has grown by the same amount; hence `hits ≤ accesses` is preserved. -/
theorem accesses_counts_counted_ops {s : DSys σ} (hP : PolicyOK P s.geo.assoc ok)
    (hI : PolicyIdem P ok) (hinv : Inv ok s) (ops : List Op) (hops : ∀ op ∈ ops, op.ok) :
    (run P s ops).1.accesses = s.accesses + (ops.filter Op.counted).length ∧
    (run P s ops).1.hits + (refRun P (erase s) ops).2.2 = s.hits + (ops.filter Op.counted).length ∧
    (s.hits ≤ s.accesses → (run P s ops).1.hits ≤ (run P s ops).1.accesses) := by
  obtain ⟨_, h1, h2, _, _, _⟩ := counters_refine hP hI hinv ops hops
  have h3 := refRun_accesses P (erase s) ops
  have h4 := refRun_hits_misses P (erase s) ops
  rw [h1, h2, h3]
  have e1 : (erase s).accesses = s.accesses := rfl
  have e2 : (erase s).hits = s.hits := rfl
  rw [e1] at *
  rw [e2] at h4
  exact ⟨rfl, h4, fun h => by omega⟩

/-! ### 5. Re-read neutrality -/

/-- After an accepted read at `a` (counted or not), an uncounted read of any width at any address of
    the same block leaves the **entire** state (sets, policy states, lower memory, counters) as the
    first read left it, and adds no cycles. -/
theorem reread_neutral {s s1 : DSys σ} (hP : PolicyOK P s.geo.assoc ok) (hI : PolicyIdem P ok)
    (hinv : Inv ok s) {bits : Nat} {a : Int} (hacc : Accepted bits a) (counted : Bool)
    (hs1 : (s.read P bits a counted).sys = s1) (bits' : Nat) {a' : Int}
    (hsame : SameBlock s.geo a a') :
    (s1.read P bits' a' false).sys = s1 ∧ (s1.read P bits' a' false).extra = 0 := by
  subst hs1
  exact reread_same_block hP hI hinv hacc counted bits' hsame

/-- Re-reading the same (wrapped) address with the same width also returns the same result. -/
theorem reread_same_result {s : DSys σ} (hP : PolicyOK P s.geo.assoc ok) (hI : PolicyIdem P ok)
    (hinv : Inv ok s) {bits : Nat} {a : Int} (hacc : Accepted bits a) (counted : Bool) {a' : Int}
    (haa : wrap32 a' = wrap32 a) :
    (s.read P bits a counted).sys.read P bits a' false =
      { sys := (s.read P bits a counted).sys, res := (s.read P bits a counted).res, extra := 0 } :=
  reread_same_address hP hI hinv hacc counted haa

/-- The same after an accepted write that leaves the block resident: every write-back write, and a
    write-through write that hit. -/
theorem reread_neutral_after_write {s s1 : DSys σ} (hP : PolicyOK P s.geo.assoc ok)
    (hI : PolicyIdem P ok) (hinv : Inv ok s) {bits : Nat} {a : Int} (hacc : Accepted bits a) (v : Nat)
    (hs1 : (s.write P bits a v false).sys = s1) (hcase : s.wt = false ∨ s1.lastHit = true)
    (bits' : Nat) {a' : Int} (hsame : SameBlock s.geo a a') :
    (s1.read P bits' a' false).sys = s1 ∧ (s1.read P bits' a' false).extra = 0 := by
  subst hs1
  exact reread_after_write hP hI hinv hacc v hcase bits' hsame

/-! ### 6. The real policies: LRU and PLRU -/

/-- LRU (any associativity ≥ 1) and PLRU (associativity a power of two) satisfy the policy interface
    with `ok := Pol.WF assoc`, and their `access` is idempotent. -/
theorem real_policies_ok {isLru : Bool} {assoc : Nat} (h : AssocOK isLru assoc) :
    PolicyOK (polOps isLru) assoc (Pol.WF assoc) ∧ PolicyIdem (polOps isLru) (Pol.WF assoc) :=
  ⟨polOps_ok h, polOps_idem isLru assoc⟩

/-- `erase_commutes_read` / `erase_commutes_write` for the data cache the simulator builds (LRU or
    PLRU, invariant with `ok := Pol.WF assoc`): every accepted read and every accepted non-direct
    write is the reference's, does not raise, and keeps the invariant. -/
theorem real_erase_commutes {isLru : Bool} {s : DSys Pol} (ha : AssocOK isLru s.geo.assoc)
    (hinv : Inv (Pol.WF s.geo.assoc) s) {bits : Nat} {a : Int} (hacc : Accepted bits a) :
    (∀ counted,
      erase (s.read (polOps isLru) bits a counted).sys
        = (refRead (polOps isLru) (erase s) a counted).cache ∧
      (s.read (polOps isLru) bits a counted).extra
        = (refRead (polOps isLru) (erase s) a counted).extra ∧
      Inv (Pol.WF s.geo.assoc) (s.read (polOps isLru) bits a counted).sys ∧
      (∃ v, (s.read (polOps isLru) bits a counted).res = .ok v)) ∧
    (∀ v,
      erase (s.write (polOps isLru) bits a v false).sys = (refWrite (polOps isLru) (erase s) a).cache ∧
      (s.write (polOps isLru) bits a v false).extra = (refWrite (polOps isLru) (erase s) a).extra ∧
      Inv (Pol.WF s.geo.assoc) (s.write (polOps isLru) bits a v false).sys ∧
      (s.write (polOps isLru) bits a v false).res = .ok 0) :=
  ⟨fun counted => erase_commutes_read (polOps_ok ha) hinv hacc counted,
   fun v => erase_commutes_write (polOps_ok ha) (polOps_idem isLru _) hinv hacc v⟩

/-- `reread_neutral` / `reread_same_result` for LRU and PLRU: after an accepted read, an uncounted
    read in the same block changes nothing and adds no cycles, and re-reading the same address with
    the same width returns the same result. -/
theorem real_reread_neutral {isLru : Bool} {s : DSys Pol} (ha : AssocOK isLru s.geo.assoc)
    (hinv : Inv (Pol.WF s.geo.assoc) s) {bits : Nat} {a : Int} (hacc : Accepted bits a)
    (counted : Bool) :
    (∀ bits' a', SameBlock s.geo a a' →
      ((s.read (polOps isLru) bits a counted).sys.read (polOps isLru) bits' a' false).sys
        = (s.read (polOps isLru) bits a counted).sys ∧
      ((s.read (polOps isLru) bits a counted).sys.read (polOps isLru) bits' a' false).extra = 0) ∧
    (∀ a', wrap32 a' = wrap32 a →
      (s.read (polOps isLru) bits a counted).sys.read (polOps isLru) bits a' false =
        { sys := (s.read (polOps isLru) bits a counted).sys,
          res := (s.read (polOps isLru) bits a counted).res, extra := 0 }) :=
  ⟨fun bits' _ hsame =>
     reread_neutral (polOps_ok ha) (polOps_idem isLru _) hinv hacc counted rfl bits' hsame,
   fun _ haa => reread_same_result (polOps_ok ha) (polOps_idem isLru _) hinv hacc counted haa⟩

/-- Accounting for the data cache the simulator builds: for every geometry, write policy, penalty and
    replacement policy, after every history of accepted operations starting from the freshly
    constructed system, the counters and the last-hit flag equal those of the reference cache started
    empty, the access counter is the number of counted operations, hits + counted misses = accesses,
    and the added cycles are penalty × counted misses. -/
theorem real_counters_refine (isLru wt : Bool) (g : Geo) (penalty : Nat) (m : Mem.Mem)
    (hg : GeoOK g) (ha : AssocOK isLru g.assoc) (hm : m.cfg = Mem.riscvCfg)
    (ops : List Op) (hops : ∀ op ∈ ops, op.ok) :
    let fin := run (polOps isLru) (DSys.init (polOps isLru) wt g penalty m) ops
    let ref := refRun (polOps isLru) (TagCache.init (polOps isLru) wt g penalty) ops
    fin.1.hits = ref.1.hits ∧ fin.1.accesses = ref.1.accesses ∧ fin.1.lastHit = ref.1.lastHit ∧
    fin.1.accesses = (ops.filter Op.counted).length ∧
    fin.1.hits + ref.2.2 = fin.1.accesses ∧
    fin.2 = penalty * ref.2.2 := by
  intro fin ref
  have hP := polOps_ok ha
  have hI := polOps_idem isLru g.assoc
  have hinv : Inv (Pol.WF g.assoc) (DSys.init (polOps isLru) wt g penalty m) :=
    Inv_init hg hP wt penalty m hm
  obtain ⟨_, h1, h2, h3, _, _⟩ := counters_refine (s := DSys.init (polOps isLru) wt g penalty m)
    hP hI hinv ops hops
  obtain ⟨h4, h5, _⟩ := accesses_counts_counted_ops (s := DSys.init (polOps isLru) wt g penalty m)
    hP hI hinv ops hops
  have h6 := penalty_per_counted_miss (s := DSys.init (polOps isLru) wt g penalty m)
    hP hI hinv ops hops
  rw [erase_init] at h1 h2 h3 h5 h6
  have e1 : (DSys.init (polOps isLru) wt g penalty m).accesses = 0 := rfl
  have e2 : (DSys.init (polOps isLru) wt g penalty m).hits = 0 := rfl
  have e3 : (DSys.init (polOps isLru) wt g penalty m).penalty = penalty := rfl
  rw [e1, Nat.zero_add] at h4
  rw [e2, Nat.zero_add] at h5
  rw [e3] at h6
  exact ⟨h1, h2, h3, h4, by rw [h5, h4], h6⟩

/-- The display re-read of the single-cycle stage is harmless: after `behavior` executed a load on a
    state with a cached data memory (counted read at `regs[rs1] + imm`, accepted), the stage's
    `memory_access(UInt32(regs[rs1]) + imm, update_statistics=False)` leaves the memory system
    exactly as `behavior` left it and adds no cycles — so each executed load is counted once. -/
theorem display_reread_harmless (i : Rv.Instr) (st : Rv.St) (hty : i.op.ty = .memI)
    {l : Bool} {s : DSys Pol} (hmem : st.mem = .cached l s) (ha : AssocOK l s.geo.assoc)
    (hinv : Inv (Pol.WF s.geo.assoc) s)
    (hacc : Accepted (Rv.accessBits i.op) ((st.regs i.rs1 : Int) + i.imm)) :
    ∃ r, Rv.memoryAccess i (some ((Rv.wrapU (st.regs i.rs1) : Int) + i.imm)) none
        (Rv.behavior i st).st.mem false
      = some { mem := (Rv.behavior i st).st.mem, extra := 0, res := r } :=
  behavior_load_reread i st hty hmem ha hinv hacc

/-! ### The idempotence hypothesis is necessary -/

/-- `PolicyIdem` cannot be dropped from `erase_commutes_write`: on a write **hit** the model informs
    the policy twice (`read_block`, then `write_block` of the same block), the reference once.  With
    a policy that counts its `access` calls (total, so `PolicyOK` holds, but not idempotent) the
    erased state after an accepted write hit differs from the reference's.  For LRU and PLRU the
    second notification is invisible (`real_policies_ok`). -/
theorem write_hit_notifies_policy_twice :
    ∃ s : DSys Nat, PolicyOK counterOps s.geo.assoc (fun _ => True) ∧ Inv (fun _ => True) s ∧
      Accepted 32 16384 ∧
      erase (s.write counterOps 32 16384 5 false).sys ≠ (refWrite counterOps (erase s) 16384).cache := by
  have hP : PolicyOK counterOps counterGeo.assoc (fun _ => True) :=
    ⟨trivial, fun s _ _ _ => ⟨s + 1, rfl, trivial⟩, fun _ _ => ⟨0, rfl, by decide⟩⟩
  have hacc : Accepted 32 16384 := by decide
  refine ⟨counterState, hP, ?_, hacc, ?_⟩
  · exact (read_sim (s := DSys.init counterOps false counterGeo 3 (Mem.Mem.empty Mem.riscvCfg)) hP
      (Inv_init (by decide) hP _ _ _ rfl) hacc true).inv
  · intro h
    have h' := congrArg (fun c => c.sets.map (·.pol)) h
    revert h'
    decide

/-! ### Non-vacuity -/

example : GeoOK exGeo := by decide
example : AssocOK true exGeo.assoc := ⟨by decide, fun h => by cases h⟩
example : AssocOK false exGeo.assoc := ⟨by decide, fun _ => ⟨1, rfl⟩⟩
example : ∀ op ∈ exOps, op.ok := by decide
example : (Mem.Mem.empty Mem.riscvCfg).cfg = Mem.riscvCfg := rfl

/-- The hypotheses of `counters_refine` are satisfiable (LRU, write-back). -/
example : Inv (Pol.WF exGeo.assoc)
    (DSys.init (polOps true) false exGeo 10 (Mem.Mem.empty Mem.riscvCfg)) :=
  inv_init (by decide) (polOps_ok ⟨by decide, fun h => by cases h⟩) _ _ _ rfl

/-- The reference's verdict on the example history is not trivial: 9 counted accesses, hits and
    counted misses both occur, and the two write policies disagree. -/
example : (let r := refRun (polOps true) (TagCache.init (polOps true) false exGeo 10) exOps
           (r.1.accesses, r.1.hits, r.2.2, r.2.1)) = (9, 4, 5, 50) := by decide
example : (let r := refRun (polOps false) (TagCache.init (polOps false) true exGeo 10) exOps
           (r.1.accesses, r.1.hits, r.2.2, r.2.1)) = (9, 3, 6, 60) := by decide

/-- `reread_neutral`: two distinct addresses in one block. -/
example : SameBlock exGeo 16384 16391 := by unfold SameBlock; decide
example : Accepted 32 16384 := by decide

end ArchSim.Props.C09
