/-
C03 (program-level clause), end to end: for EVERY source text the assembler accepts (without CSR instructions,
`fence`, `ebreak`) and every admissible data-cache configuration, the loaded program produces the same registers,
output and exit code with the data cache as without it, in both pipeline modes. No `CacheRel` / `ProgWF` / `StOK`
hypothesis is left (`C04Asm.loaded_program_wf`, `loaded_state_ok`, `loaded_state_ok_cached`); what remains are the
hypotheses about the RUN of the flat single-cycle simulation (accepted accesses, fault-free until first done).

Property theorems only (plus non-vacuity examples); helper lemmas: `ArchSim/Lemmas/E2E*.lean`.
`sf` = the state after loading `text` into `s` (flat data memory); `sc` = the state after loading the same text
into `withCache s l wt g penalty` (`s` with a freshly built data cache). `RunAccepted`, `StepAccepted`, `singleRun`
as in `Props/C03Prog.lean`.
-/
import ArchSim.Props.C03Prog
import ArchSim.Props.C04Asm

namespace ArchSim.Props.C03Asm
open ArchSim ArchSim.Rv ArchSim.Asm ArchSim.Cache ArchSim.Lemmas.E2E ArchSim.Lemmas.C03Prog

/-- END TO END (C03Prog, all four configurations). Load ANY source text into a state `s` satisfying `StOK`, without
    instruction cache, not exited (e.g. the power-on state), once with the flat data memory (`sf`) and once with a
    freshly built data cache of any admissible geometry, policy, write mode and penalty (`sc`). If the assembler
    accepts the text, the program has no CSR / fence / ebreak, every step of the flat single-cycle run before it is
    first done performs accepted accesses, and that run is first done after `k` fault-free steps, then both
    five-stage loops (with and without the cache) stop without a fault within `5 * (k + 2)` cycles, and all four
    configurations end with the same registers, output and exit code. -/
theorem assembled_same_result_all_modes (s : St) (hs : ArchSim.Lemmas.C01.StOK s) (hic : s.imem.cache = none)
    (hx : s.exitCode = none) (l wt : Bool) (g : Geo) (hg : Spec.CacheAbs.GeoOK g)
    (ha : ArchSim.Lemmas.C09.AssocOK l g.assoc) (penalty : Nat) (text : String)
    (sc sf : St) (hsc : sc = (load (withCache s l wt g penalty) text).st) (hsf : sf = (load s text).st)
    (h : (load s text).err = none) (hsup : AllSupported sf.imem.prog) (hacc : RunAccepted sf)
    (k : Nat) (hd : singleDone (singleRun k sf) = true)
    (hnd : ∀ j, j < k → singleDone (singleRun j sf) = false)
    (hnf : ∀ j, j < k → (singleStep (singleRun j sf)).fault = none) :
    ∃ nc nf, nc ≤ 5 * (k + 2) ∧ nf ≤ 5 * (k + 2) ∧
      Pipe.runOK nc (Pipe.PSt.init sc true) ∧ Pipe.isDone (Pipe.pipeRun nc (Pipe.PSt.init sc true)) = true ∧
      (∀ m, m < nc → Pipe.isDone (Pipe.pipeRun m (Pipe.PSt.init sc true)) = false) ∧
      Pipe.runOK nf (Pipe.PSt.init sf true) ∧ Pipe.isDone (Pipe.pipeRun nf (Pipe.PSt.init sf true)) = true ∧
      (∀ m, m < nf → Pipe.isDone (Pipe.pipeRun m (Pipe.PSt.init sf true)) = false) ∧
      (Pipe.pipeRun nc (Pipe.PSt.init sc true)).st.regs = (singleRun k sf).regs ∧
      (Pipe.pipeRun nc (Pipe.PSt.init sc true)).st.output = (singleRun k sf).output ∧
      (Pipe.pipeRun nc (Pipe.PSt.init sc true)).st.exitCode = (singleRun k sf).exitCode ∧
      (Pipe.pipeRun nf (Pipe.PSt.init sf true)).st.regs = (singleRun k sf).regs ∧
      (Pipe.pipeRun nf (Pipe.PSt.init sf true)).st.output = (singleRun k sf).output ∧
      (Pipe.pipeRun nf (Pipe.PSt.init sf true)).st.exitCode = (singleRun k sf).exitCode ∧
      (singleRun k sc).regs = (singleRun k sf).regs ∧
      (singleRun k sc).output = (singleRun k sf).output ∧
      (singleRun k sc).exitCode = (singleRun k sf).exitCode := by
  subst hsc hsf
  obtain ⟨m, hm, hc, _⟩ := hs.flat
  exact ArchSim.Props.C03Prog.program_same_result_all_modes
    (load_cacheRel s m hm hc l wt g hg ha penalty text) _ (load_progWF_c03 s text h hsup)
    (load_imem s text hic) (load_stOK s text hs) (by rw [load_exitCode]; exact hx) hacc k hd hnd hnf

/-- END TO END (C03Prog, the simulation loop in single-cycle mode). No condition on the program at all: for ANY
    source text (accepted or not, CSR instructions included) loaded into a state with a flat RISC-V data memory
    and into the same state with a freshly built data cache, if every state in which the flat loop takes a step
    performs accepted accesses, then for every `n` the loop with the cache reports the same fault (or none) as
    the loop without, with the same registers, output, exit code, pc and instruction count. -/
theorem assembled_cached_sim_equals_flat_sim (s : St) (m : Mem.Mem) (hm : s.mem = .flat m)
    (hc : m.cfg = Mem.riscvCfg) (l wt : Bool) (g : Geo) (hg : Spec.CacheAbs.GeoOK g)
    (ha : ArchSim.Lemmas.C09.AssocOK l g.assoc) (penalty : Nat) (text : String)
    (sc sf : St) (hsc : sc = (load (withCache s l wt g penalty) text).st) (hsf : sf = (load s text).st)
    (hacc : ∀ j, singleDone (ArchSim.Lemmas.C01.simN j sf).st = false →
      StepAccepted (ArchSim.Lemmas.C01.simN j sf).st) (n : Nat) :
    (ArchSim.Lemmas.C01.simN n sc).fault = (ArchSim.Lemmas.C01.simN n sf).fault ∧
    (ArchSim.Lemmas.C01.simN n sc).st.regs = (ArchSim.Lemmas.C01.simN n sf).st.regs ∧
    (ArchSim.Lemmas.C01.simN n sc).st.output = (ArchSim.Lemmas.C01.simN n sf).st.output ∧
    (ArchSim.Lemmas.C01.simN n sc).st.exitCode = (ArchSim.Lemmas.C01.simN n sf).st.exitCode ∧
    (ArchSim.Lemmas.C01.simN n sc).st.pc = (ArchSim.Lemmas.C01.simN n sf).st.pc ∧
    (ArchSim.Lemmas.C01.simN n sc).st.instrs = (ArchSim.Lemmas.C01.simN n sf).st.instrs ∧
    singleDone (ArchSim.Lemmas.C01.simN n sc).st = singleDone (ArchSim.Lemmas.C01.simN n sf).st := by
  subst hsc hsf
  obtain ⟨h1, h2, h3, h4, h5, h6, h7, _⟩ := ArchSim.Props.C03Prog.cached_sim_equals_flat_sim
    (load_cacheRel s m hm hc l wt g hg ha penalty text) hacc n
  exact ⟨h1, h2, h3, h4, h5, h6, h7⟩

/-! ### non-vacuity (the example text `asmText` of `Lemmas/E2EEx.lean`: a `.data` variable, the pseudo-instruction
`li`, a branch to an in-line label; cache: one set, one way, one word, write-back LRU, penalty 10) -/

section
open ArchSim.Lemmas.E2E.Ex ArchSim.Lemmas.C03Prog.Ex

/-- Hypotheses of `assembled_same_result_all_modes` for the example text loaded into the power-on state: admissible
    cache configuration, the text loads, supported program, accepted accesses along the flat run, which is first
    done after 5 fault-free steps. -/
example : ArchSim.Lemmas.C01.StOK freshSt ∧ freshSt.imem.cache = none ∧ freshSt.exitCode = none ∧
    Spec.CacheAbs.GeoOK geo1 ∧ ArchSim.Lemmas.C09.AssocOK true geo1.assoc ∧
    (load freshSt asmText).err = none ∧ AllSupported (load freshSt asmText).st.imem.prog ∧
    RunAccepted (load freshSt asmText).st ∧
    singleDone (singleRun 5 (load freshSt asmText).st) = true ∧
    (∀ j, j < 5 → singleDone (singleRun j (load freshSt asmText).st) = false) ∧
    (∀ j, j < 5 → (singleStep (singleRun j (load freshSt asmText).st)).fault = none) := by
  refine ⟨freshSt_ok, rfl, rfl, geo1_ok, assoc1_ok, load_asmText.1, asmText_supported, ?_, ?_⟩
  · rw [load_asmText_st]; exact runAccepted_asmSt
  · rw [load_asmText_st]; decide

/-- The state loaded with the cache, explicitly: the cache system built over the empty memory after the preload
    `write_word(0x4000, 7)` (conclusion (2) of `C04Asm.loaded_state_ok_cached` for the example). -/
example : (load (withCache freshSt true false geo1 10) asmText).st.mem =
    .cached true (Spec.CacheAbs.preload (DSys.init (polOps true) false geo1 10 (Mem.Mem.empty Mem.riscvCfg))
      [.write 32 16384 7]) := by
  obtain ⟨_, h, h1, h2⟩ := load_withCache freshSt _ rfl rfl true false geo1 10 asmText
  rw [load_asmText_st] at h1
  have : Spec.ByteStore.run Mem.riscvCfg h = Spec.ByteStore.run Mem.riscvCfg asmHist := by
    have := h1.symm; simpa [asmSt] using this
  rw [h2, preload_eq, preload_eq]
  show MemSys.cached true { DSys.init (polOps true) false geo1 10 (Mem.Mem.empty Mem.riscvCfg) with
    mem := Spec.ByteStore.run Mem.riscvCfg h } = _
  rw [this]; rfl

end

end ArchSim.Props.C03Asm
