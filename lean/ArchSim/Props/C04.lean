import ArchSim.Model.Asm
namespace ArchSim.Props.C04
open ArchSim.Asm
/-- The lui/addi split leaves a low part below 4096. -/
theorem hiLo_lo_lt (v : Int) : 0 ≤ (hiLo v).2 ∧ (hiLo v).2 < 4096 := by
  simp only [hiLo]; omega
end ArchSim.Props.C04
