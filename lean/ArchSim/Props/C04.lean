/-
C04 (back end) — RISC-V assembler: pseudo-instruction groups, labels, branch/jump displacements.

Property theorems only (plus non-vacuity examples); helper lemmas live in `ArchSim/Lemmas/C04*.lean`
(and `C05Li`, `C05Groups` for the groups shared with C05).

Vocabulary (from the lemma files):
* `emits it` — an expanded text entry produces an instruction: a group with a base-ISA mnemonic, or one
  of the bare words `ecall` / `ebreak`;  `isLabel it` — it is a stand-alone label (any other bare
  word);  `countE es` — the number of emitting entries of `es`.
* `isPseudo it` — `nop`, `li`, `mv`, `la`/load/store by variable name;  `addrFree g` — no entry of `g`
  refers to a label or to its own address.
* `BuildSpec ls es addr instrs` — the specification of `buildInstrs` spelled out in
  `instructions_in_order` below.
* `runSeq`, `luiAddi`, `liInstrs` as in C05.
-/
import ArchSim.Lemmas.C04Ex

namespace ArchSim.Props.C04
open ArchSim ArchSim.Asm ArchSim.Rv ArchSim.Lemmas.C04 ArchSim.Lemmas.C05

/-! ## 6  Pseudo-instructions: the same group wherever they occur, with the documented effect -/

/-- Expansion is entry by entry: the expansion of `pre ++ e :: post` succeeds exactly when the three
    parts expand, and is then `expand pre ++ group e ++ expand post`. -/
theorem expansion_in_context (vars : Vars) (pre post : List TEntry) (e : TEntry) (R : List TEntry) :
    expandAll vars (pre ++ e :: post) = .ok R ↔
      ∃ P g Q, expandAll vars pre = .ok P ∧ expandOne vars e = .ok g ∧ expandAll vars post = .ok Q ∧
        R = P ++ g ++ Q := by
  rw [expandAll_append_ok]
  constructor
  · rintro ⟨A, B, hA, hB, rfl⟩
    simp only [expandAll] at hB
    cases hg : expandOne vars e with
    | error x => rw [hg] at hB; cases hB
    | ok g =>
      cases hQ : expandAll vars post with
      | error x => rw [hg, hQ] at hB; cases hB
      | ok Q =>
        rw [hg, hQ] at hB
        cases hB
        exact ⟨A, g, Q, hA, rfl, rfl, by simp⟩
  · rintro ⟨P, g, Q, hP, hg, hQ, rfl⟩
    exact ⟨P, g ++ Q, hP, by simp only [expandAll, hg, hQ], by simp⟩

/-- The group depends only on the item and the variable table, not on the line: the same item on
    another line `(k', line')` expands to the same items, and every entry of a group carries the line
    number and text of its source line. -/
theorem expansion_uniform (vars : Vars) (k k' : Nat) (line line' : String) (it : Item) (g : List TEntry)
    (h : expandOne vars (k, line, it) = .ok g) :
    expandOne vars (k', line', it) = .ok (g.map fun e => (k', line', e.2.2)) ∧
      ∀ e ∈ g, e.1 = k ∧ e.2.1 = line :=
  expandOne_relocate vars k k' line line' it g h

/-- Entries that are not pseudo-instructions are passed through unchanged. -/
theorem expansion_identity (vars : Vars) (k : Nat) (line : String) (it : Item) (h : isPseudo it = false) :
    expandOne vars (k, line, it) = .ok [(k, line, it)] :=
  expandOne_plain vars k line it h

/-- The instruction objects built from a pseudo-instruction's group are the same for every label table
    and every address: the group never refers to a label or to its own position. -/
theorem pseudo_group_position_independent (vars : Vars) (k : Nat) (line : String) (it : Item) (g : List TEntry)
    (hp : isPseudo it = true) (h : expandOne vars (k, line, it) = .ok g)
    (ls ls' : Labels) (a a' : Int) :
    buildInstrs ls g a = buildInstrs ls' g a' :=
  buildInstrs_indep ls ls' g a a' (pseudo_group_addrFree vars k line it g hp h)

/-- Building a concatenation: the second part is built at the address after the first part's
    instructions (so a group in the middle of a listing is built exactly as on its own, shifted). -/
theorem build_in_context (ls : Labels) (es₁ es₂ : List TEntry) (addr : Int) (i₁ : List Instr)
    (h : buildInstrs ls es₁ addr = .ok i₁) :
    buildInstrs ls (es₁ ++ es₂) addr = (buildInstrs ls es₂ (addr + 4 * (i₁.length : Int))).map (i₁ ++ ·) := by
  rw [buildInstrs_append, h]; rfl

/-- `nop` is `addi x0, x0, 0`, and executing it changes nothing at all. -/
theorem nop_effect (vars : Vars) (ls : Labels) (addr : Int) (k : Nat) (line : String) (s : St) :
    ∃ es, expandOne vars (k, line, .str "nop") = .ok es ∧
      buildInstrs ls es addr = .ok [mkInstr .addi 0 0 0 0] ∧
      behavior (mkInstr .addi 0 0 0 0) s = { st := s, fault := none } := by
  refine ⟨_, expandOne_nop vars k line, ?_, behavior_nop s⟩
  simp only [buildInstrs, instantiate_addi, Except.map]

/-- `mv rd, rs` is `addi rd, rs, 0`; executing it writes the value of `rs` (a `UInt32`; the model reduces
    it modulo 2^32, the identity on reachable states) to `rd` and changes nothing else. -/
theorem mv_effect (vars : Vars) (ls : Labels) (addr : Int) (k : Nat) (line : String) (rd rs : Nat) (s : St) :
    ∃ es, expandOne vars (k, line, .grp (.mv rd rs)) = .ok es ∧
      buildInstrs ls es addr = .ok [mkInstr .addi rd rs 0 0] ∧
      behavior (mkInstr .addi rd rs 0 0) s =
        { st := { s with regs := Rv.setReg s.regs rd (s.regs rs % 4294967296) }, fault := none } := by
  refine ⟨_, expandOne_mv vars k line rd rs, ?_, behavior_mv rd rs s⟩
  simp only [buildInstrs, instantiate_addi, Except.map]

/-- `mv` on a state whose registers are 32-bit values: `rd` (`0 < rd < 32`) receives exactly `rs`. -/
theorem mv_copies (rd rs : Nat) (hrd : 0 < rd ∧ rd < 32) (s : St) (hs : s.regs rs < 4294967296) :
    (behavior (mkInstr .addi rd rs 0 0) s).st.regs rd = s.regs rs ∧
    (∀ r, r ≠ rd → (behavior (mkInstr .addi rd rs 0 0) s).st.regs r = s.regs r) := by
  rw [behavior_mv]
  simp only [St.setReg]
  exact ⟨by rw [setReg_same _ _ _ hrd, Nat.mod_eq_of_lt hs], fun r hr => setReg_other _ _ _ _ hr⟩

/-- `li rd, c` in context: the group has the documented effect for every constant (this is C05's
    `li_value`, restated here for the group as it sits in a listing: built at any address with any
    labels it is `liInstrs rd c`, and running it leaves `c mod 2^32` in `rd`). -/
theorem li_effect (vars : Vars) (ls : Labels) (addr : Int) (k : Nat) (line : String) (rd : Nat) (c : Int)
    (s : St) (h0 : s.regs 0 = 0) :
    ∃ es, expandOne vars (k, line, .grp (.li rd c)) = .ok es ∧ buildInstrs ls es addr = .ok (liInstrs rd c) ∧
      runSeq (liInstrs rd c) s = { st := { s with regs := Rv.setReg s.regs rd (wrapU c) }, fault := none } :=
  ⟨_, expandOne_li vars k line rd c, build_li ls addr k line rd c, runSeq_li rd c s h0⟩

/-- The lui/addi split used by `li`, `la` and the load/store pseudo-instructions leaves a low part in
    `[0, 4096)` and a high part in `[0, 2^20]` (2^20 only when the constant's low 12 bits are ≥ 2048 and
    its upper 20 bits are all ones; the `lui` constructor wraps it to 0). -/
theorem hiLo_lo_lt (v : Int) :
    0 ≤ (hiLo v).2 ∧ (hiLo v).2 < 4096 ∧ 0 ≤ (hiLo v).1 ∧ (hiLo v).1 ≤ 1048576 := by
  simp only [hiLo]; split <;> omega

/-! ## 7  Labels denote the address of the next emitted instruction -/

/-- Stand-alone labels. If the label pass succeeds on an expanded listing `es` (started, as `load` does,
    with no labels and address 0; any table of pending in-line labels), then every stand-alone label —
    an entry `.str s` at position `p` with `s` not `ecall`/`ebreak` — is bound to
    `4 × (number of instruction-producing entries strictly before p)`: the address of the next emitted
    instruction. -/
theorem label_denotes_next_instruction (es : List TEntry) (pending : List (Nat × String)) (ls : Labels)
    (h : processLabels es pending [] 0 = .ok ls)
    (p : Nat) (hp : p < es.length) (s : String) (hs : es[p].2.2 = .str s) (hne : s ≠ "ecall" ∧ s ≠ "ebreak") :
    lookupLabel ls s = some (4 * (countE (es.take p) : Int)) := by
  have := (processLabels_spec es pending [] ls 0 h).2.1 p hp s hs (by simp [isLabel, hne])
  simpa using this

/-- In-line labels. The label `l` that the pending table holds for source line `k` is bound exactly once,
    at the FIRST expanded entry of line `k` (an instruction entry; a pseudo-instruction's group shares
    its line number), to `4 × (number of instruction-producing entries strictly before it)` — the
    address of the first instruction of the group, also when the line expands to several
    instructions. -/
theorem inline_label_denotes_first_instruction (es : List TEntry) (pending : List (Nat × String)) (ls : Labels)
    (h : processLabels es pending [] 0 = .ok ls)
    (k k0 : Nat) (l : String) (hpend : pending.find? (fun q => q.1 == k) = some (k0, l))
    (p : Nat) (hp : p < es.length) (hk : es[p].1 = k) (hins : isLabel es[p].2.2 = false)
    (hfirst : ∀ (q : Nat) (hq : q < p), (es[q]'(by omega)).1 = k → isLabel (es[q]'(by omega)).2.2 = true) :
    lookupLabel ls l = some (4 * (countE (es.take p) : Int)) := by
  have := (processLabels_spec es pending [] ls 0 h).2.2 k k0 l hpend p hp hk hins hfirst
  simpa using this

/-- In-line labels are bound ONCE. Let `g` be the group a line `k` with a pending in-line label `l` expands
    to (non-empty, all entries of line `k`, none a stand-alone label — e.g. the two or three entries of
    `foo: li x1, 100000` or `foo: lw x1, v`). Wherever the group stands, the label pass binds `l` to the
    address `addr` of the group's first entry (failing only if `l` is already bound), consumes the pending
    entry, and then only advances the address by `4 × (instructions of the group)`: the remaining entries
    of the group bind nothing, so an expanding pseudo-instruction raises no spurious
    `DuplicateLabelException`. -/
theorem inline_label_bound_once (k : Nat) (g rest : List TEntry) (hne : g ≠ []) (pending : List (Nat × String))
    (ls : Labels) (addr : Int) (hg : lineGroup k g) (k0 : Nat) (l : String)
    (hp : pending.find? (fun p => p.1 == k) = some (k0, l)) :
    processLabels (g ++ rest) pending ls addr =
      match addLabel ls l addr k (g.head hne).2.1 with
      | .error e => .error e
      | .ok ls' => processLabels rest (pending.filter (fun p => p.1 != k)) ls' (addr + 4 * (countE g : Int)) :=
  processLabels_group k g rest hne pending ls addr hg k0 l hp

/-- The hypotheses of `inline_label_bound_once` hold for the group of every pseudo-instruction: it is
    non-empty, its entries carry the line number of the source line and are instruction entries. -/
theorem pseudo_group_is_line_group (vars : Vars) (k : Nat) (line : String) (it : Item) (g : List TEntry)
    (hp : isPseudo it = true) (h : expandOne vars (k, line, it) = .ok g) : g ≠ [] ∧ lineGroup k g := by
  obtain ⟨hne, hgrp⟩ := pseudo_group_grp vars k line it g hp h
  refine ⟨hne, fun e he => ⟨((expandOne_relocate vars k k line line it g h).2 e he).1, ?_⟩⟩
  obtain ⟨pi, hpi⟩ := hgrp e he
  rw [hpi]; rfl

/-- `addLabel` fails exactly when the name is already bound (`DuplicateLabelException`), and otherwise
    appends the binding. -/
theorem addLabel_spec (ls : Labels) (n : String) (v : Int) (k : Nat) (line : String) :
    addLabel ls n v k line =
      if (lookupLabel ls n).isSome then .error (.parser "DuplicateLabelException" k line)
      else .ok (ls ++ [(n, v)]) := rfl

/-- A label at the very end of the listing denotes `4 × (number of instructions)`. -/
theorem label_at_end (es : List TEntry) (k : Nat) (line s : String) (pending : List (Nat × String)) (ls : Labels)
    (hne : s ≠ "ecall" ∧ s ≠ "ebreak")
    (h : processLabels (es ++ [(k, line, .str s)]) pending [] 0 = .ok ls) :
    lookupLabel ls s = some (4 * (countE es : Int)) := by
  have := label_denotes_next_instruction _ pending ls h es.length (by simp) s (by simp) hne
  simpa using this

/-- The instruction pass emits exactly the instruction-producing entries, in order, at addresses
    0, 4, 8, …: if `buildInstrs ls es addr` succeeds with `instrs`, then
    * `instrs.length = countE es`;
    * a group entry at position `p` is instruction-producing, was instantiated at address
      `addr + 4j` for `j = countE (es.take p)` (the number of instruction-producing entries before it)
      and its object is `instrs[j]`;
    * an `ecall` / `ebreak` word at position `p` gives its object at `instrs[j]` likewise;
    * every entry is a bare word or a group (stand-alone labels emit nothing). -/
theorem instructions_in_order (ls : Labels) (es : List TEntry) (addr : Int) (instrs : List Instr)
    (h : buildInstrs ls es addr = .ok instrs) :
    instrs.length = countE es ∧
    (∀ (p : Nat) (hp : p < es.length) (pi : PInstr), es[p].2.2 = .grp pi →
      emits (.grp pi) = true ∧
      ∃ ins, instantiate ls (addr + 4 * (countE (es.take p) : Int)) es[p].1 es[p].2.1 pi = .ok ins ∧
        instrs[countE (es.take p)]? = some ins) ∧
    (∀ (p : Nat) (hp : p < es.length), es[p].2.2 = .str "ecall" →
      instrs[countE (es.take p)]? = some { op := .ecall }) ∧
    (∀ (p : Nat) (hp : p < es.length), es[p].2.2 = .str "ebreak" →
      instrs[countE (es.take p)]? = some { op := .ebreak, imm := 1 }) ∧
    (∀ (p : Nat) (hp : p < es.length), (∃ s, es[p].2.2 = .str s) ∨ (∃ pi, es[p].2.2 = .grp pi)) :=
  buildInstrs_spec ls es addr instrs h

/-- Instruction `j` of the listing sits at address `4j` of the instruction memory. -/
theorem instruction_address (prog : List Instr) (c : Option ICache) (j : Nat) :
    IMem.instrAt { prog := prog, cache := c } (4 * (j : Int)) = prog[j]? :=
  instrAt_four_mul prog c j

/-- Labels and instructions fit together: with the labels of the label pass, the instruction pass from
    address 0 places the object of the first instruction-producing entry at or after a stand-alone
    label exactly at the label's address. (`q` is the position of that entry: every entry between the
    label and `q` emits nothing.) -/
theorem label_points_at_instruction (es : List TEntry) (pending : List (Nat × String)) (ls : Labels)
    (instrs : List Instr) (hl : processLabels es pending [] 0 = .ok ls) (hb : buildInstrs ls es 0 = .ok instrs)
    (p : Nat) (hp : p < es.length) (s : String) (hs : es[p].2.2 = .str s) (hne : s ≠ "ecall" ∧ s ≠ "ebreak")
    (q : Nat) (hq : q < es.length) (pi : PInstr) (hpi : es[q].2.2 = .grp pi)
    (hsame : countE (es.take q) = countE (es.take p)) (c : Option ICache) :
    ∃ a ins, lookupLabel ls s = some a ∧ instantiate ls a es[q].1 es[q].2.1 pi = .ok ins ∧
      IMem.instrAt { prog := instrs, cache := c } a = some ins := by
  have h1 := label_denotes_next_instruction es pending ls hl p hp s hs hne
  obtain ⟨_, ins, hins, hget⟩ := (buildInstrs_spec ls es 0 instrs hb).2.1 q hq pi hpi
  refine ⟨_, ins, h1, ?_, ?_⟩
  · rw [← hsame]; simpa using hins
  · rw [instrAt_four_mul, ← hsame]; exact hget

/-! ## 8  Branch and jump operands encode the pc-relative displacement -/

/-- B-type with a label operand (`label` or `label + 0x…`): when the displacement `L + offset − a` is
    even, the instruction at address `a` gets the immediate `sext13 (L + offset − a)` where `L` is the
    label's address. -/
theorem branch_label_displacement (ls : Labels) (a : Int) (k : Nat) (line : String) (mn : String) (op : Op)
    (hop : Op.ofMnemonic mn = some op) (hty : op.ty = .b) (r1 r2 : Nat) (l : String) (off L : Int)
    (hl : lookupLabel ls l = some L) (heven : (L + off - a) % 2 = 0) :
    instantiate ls a k line (.btypeLabel mn r1 r2 l off) =
      .ok { op := op, rd := 0, rs1 := r1, rs2 := r2, imm := sextImm 13 (L + off - a), aux := 0 } :=
  instantiate_btypeLabel ls a k line mn op hop hty r1 r2 l off L hl heven

/-- B-type with a label operand whose displacement `L + offset − a` is odd (e.g. `beq x0, x0, foo+0x3`):
    rejected with `ParserOddImmediateException`, exactly like an odd number. -/
theorem branch_label_odd_rejected (ls : Labels) (a : Int) (k : Nat) (line : String) (mn : String) (op : Op)
    (hop : Op.ofMnemonic mn = some op) (r1 r2 : Nat) (l : String) (off L : Int)
    (hl : lookupLabel ls l = some L) (hodd : (L + off - a) % 2 ≠ 0) :
    instantiate ls a k line (.btypeLabel mn r1 r2 l off) =
      .error (.parser "ParserOddImmediateException" k line) :=
  instantiate_btypeLabel_odd ls a k line mn op hop r1 r2 l off L hl hodd

/-- An undefined label is rejected with `ParserLabelException`. -/
theorem branch_label_unknown (ls : Labels) (a : Int) (k : Nat) (line : String) (mn : String) (op : Op)
    (hop : Op.ofMnemonic mn = some op) (r1 r2 : Nat) (l : String) (off : Int) (hl : lookupLabel ls l = none) :
    instantiate ls a k line (.btypeLabel mn r1 r2 l off) = .error (.parser "ParserLabelException" k line) :=
  instantiate_btypeLabel_unknown ls a k line mn op hop r1 r2 l off hl

/-- The parity of a label displacement is the parity of the written offset: every label of a successful
    label pass (stand-alone or in-line) is a multiple of 4, and so is every instruction address `4j`; hence
    `L + off − 4j` is even exactly when `off` is. -/
theorem label_displacement_even_iff (es : List TEntry) (pending : List (Nat × String)) (ls : Labels)
    (h : processLabels es pending [] 0 = .ok ls) (l : String) (L : Int) (hl : lookupLabel ls l = some L)
    (off : Int) (j : Nat) :
    L % 4 = 0 ∧ ((L + off - 4 * (j : Int)) % 2 = 0 ↔ off % 2 = 0) := by
  have hL := label_mult4 es pending ls h l L hl
  exact ⟨hL, disp_even_iff_off_even L off (4 * (j : Int)) hL (by omega)⟩

/-- B-type with a numeric operand: an even number `n` is itself the displacement (stored sign-extended
    to 13 bits, whatever the address); an odd number is rejected. -/
theorem branch_number_displacement (ls : Labels) (a : Int) (k : Nat) (line : String) (mn : String) (op : Op)
    (hop : Op.ofMnemonic mn = some op) (hty : op.ty = .b) (r1 r2 : Nat) (n : Int) :
    instantiate ls a k line (.rri mn r1 r2 n) =
      if n % 2 ≠ 0 then .error (.parser "ParserOddImmediateException" k line)
      else .ok { op := op, rd := 0, rs1 := r1, rs2 := r2, imm := sextImm 13 n, aux := 0 } :=
  instantiate_btypeImm ls a k line mn op hop hty r1 r2 n

/-- `jal rd, N` with a number: `N` is an ABSOLUTE target; the stored immediate is `sext21 (N − a)` and the
    printed target (`abs_addr`) is `N`; an odd number is rejected. -/
theorem jal_number_displacement (ls : Labels) (a : Int) (k : Nat) (line : String) (rd : Nat) (n : Int) :
    instantiate ls a k line (.jalImm rd n) =
      if n % 2 ≠ 0 then .error (.parser "ParserOddImmediateException" k line)
      else .ok { op := .jal, rd := rd, rs1 := 0, rs2 := 0, imm := sextImm 21 (n - a), aux := n } :=
  instantiate_jalImm ls a k line rd n

/-- `jal rd, label (+ offset)` with an even displacement `L + offset − a`: the stored immediate is
    `sext21 (L + offset − a)`, the printed target is `L + offset`. -/
theorem jal_label_displacement (ls : Labels) (a : Int) (k : Nat) (line : String) (rd : Nat) (l : String)
    (off L : Int) (hl : lookupLabel ls l = some L) (heven : (L + off - a) % 2 = 0) :
    instantiate ls a k line (.jalLabel rd l off) =
      .ok { op := .jal, rd := rd, rs1 := 0, rs2 := 0, imm := sextImm 21 (L + off - a), aux := L + off } :=
  instantiate_jalLabel ls a k line rd l off L hl heven

/-- `jal rd, label + offset` with an odd displacement is rejected with `ParserOddImmediateException`. -/
theorem jal_label_odd_rejected (ls : Labels) (a : Int) (k : Nat) (line : String) (rd : Nat) (l : String)
    (off L : Int) (hl : lookupLabel ls l = some L) (hodd : (L + off - a) % 2 ≠ 0) :
    instantiate ls a k line (.jalLabel rd l off) = .error (.parser "ParserOddImmediateException" k line) :=
  instantiate_jalLabel_odd ls a k line rd l off L hl hodd

/-- `jal rd, label` with an undefined label is rejected with `ParserLabelException`. -/
theorem jal_label_unknown (ls : Labels) (a : Int) (k : Nat) (line : String) (rd : Nat) (l : String)
    (off : Int) (hl : lookupLabel ls l = none) :
    instantiate ls a k line (.jalLabel rd l off) = .error (.parser "ParserLabelException" k line) :=
  instantiate_jalLabel_unknown ls a k line rd l off hl

/-- Sign extension is the identity on the encodable range (±4 KiB for branches, ±1 MiB for `jal`); in
    general the stored value is congruent to the displacement modulo 2^13 (2^21) and encodable. -/
theorem displacement_encodable (d : Int) :
    (-4096 ≤ d ∧ d < 4096 → sextImm 13 d = d) ∧ (-1048576 ≤ d ∧ d < 1048576 → sextImm 21 d = d) ∧
    ((sextImm 13 d - d) % 8192 = 0 ∧ -4096 ≤ sextImm 13 d ∧ sextImm 13 d < 4096) ∧
    ((sextImm 21 d - d) % 2097152 = 0 ∧ -1048576 ≤ sextImm 21 d ∧ sextImm 21 d < 1048576) :=
  ⟨sext13_id d, sext21_id d, sext13_spec d, sext21_spec d⟩

/-- A taken branch to a label transfers control to the label (plus offset). Precisely: let the
    instruction memory (uncached) hold at `s.pc` the object `instantiate` built at address `s.pc` for
    `mn r1, r2, l + off` (any of the six branch mnemonics), the label `l` be bound to `L`, the
    displacement `L + off − pc` be encodable (it is even, since `instantiate` succeeded), and the branch
    condition hold. Then one single-cycle step
    raises no fault, sets the pc to `(L + off) mod 2^32`, and changes no register and not the memory. -/
theorem branch_taken_transfers (s : St) (ls : Labels) (k : Nat) (line : String) (mn : String) (op : Op)
    (hop : Op.ofMnemonic mn = some op) (hty : op.ty = .b) (r1 r2 : Nat) (l : String) (off L : Int)
    (hl : lookupLabel ls l = some L) (i : Instr)
    (hi : instantiate ls s.pc k line (.btypeLabel mn r1 r2 l off) = .ok i)
    (hrange : -4096 ≤ L + off - s.pc ∧ L + off - s.pc < 4096)
    (hc : s.imem.cache = none) (hpc : 0 ≤ s.pc ∧ s.pc < 16384) (hat : s.imem.instrAt s.pc = some i)
    (hcond : branchCond op (s.regs r1) (s.regs r2) = true) :
    (singleStep s).fault = none ∧ (singleStep s).st.pc = (L + off) % 4294967296 ∧
    (singleStep s).st.regs = s.regs ∧ (singleStep s).st.mem = s.mem := by
  have heven : (L + off - s.pc) % 2 = 0 := by
    by_cases hodd : (L + off - s.pc) % 2 ≠ 0
    · rw [instantiate_btypeLabel_odd ls s.pc k line mn op hop r1 r2 l off L hl hodd] at hi; cases hi
    · omega
  rw [instantiate_btypeLabel ls s.pc k line mn op hop hty r1 r2 l off L hl heven] at hi
  cases hi
  have hb := behavior_branch
    { op := op, rd := 0, rs1 := r1, rs2 := r2, imm := sextImm 13 (L + off - s.pc), aux := 0 } hty
    { s with cycles := s.cycles + 1, instrs := s.instrs + 1 }
  simp only [hcond, if_true] at hb
  rw [singleStep_of_behavior s _ hc hpc hat (by rw [hty]; decide) (by rw [hb])]
  rw [hb, sext13_id _ hrange]
  refine ⟨rfl, ?_, rfl, rfl⟩
  show (s.pc + (L + off - s.pc - 4) + 4) % 4294967296 = (L + off) % 4294967296
  congr 1; omega

/-- The instance named in the property: `beq` with equal operands. -/
theorem beq_taken_transfers (s : St) (ls : Labels) (k : Nat) (line : String) (r1 r2 : Nat) (l : String)
    (off L : Int) (hl : lookupLabel ls l = some L) (i : Instr)
    (hi : instantiate ls s.pc k line (.btypeLabel "beq" r1 r2 l off) = .ok i)
    (hrange : -4096 ≤ L + off - s.pc ∧ L + off - s.pc < 4096)
    (hc : s.imem.cache = none) (hpc : 0 ≤ s.pc ∧ s.pc < 16384) (hat : s.imem.instrAt s.pc = some i)
    (heq : s.regs r1 = s.regs r2) :
    (singleStep s).fault = none ∧ (singleStep s).st.pc = (L + off) % 4294967296 ∧
    (singleStep s).st.regs = s.regs ∧ (singleStep s).st.mem = s.mem :=
  branch_taken_transfers s ls k line "beq" .beq (by decide) rfl r1 r2 l off L hl i hi hrange hc hpc hat
    (by simp [branchCond, heq])

/-- A branch that is not taken falls through to `pc + 4`. -/
theorem branch_not_taken_falls_through (s : St) (i : Instr) (hty : i.op.ty = .b)
    (hc : s.imem.cache = none) (hpc : 0 ≤ s.pc ∧ s.pc < 16384) (hat : s.imem.instrAt s.pc = some i)
    (hcond : branchCond i.op (s.regs i.rs1) (s.regs i.rs2) = false) :
    (singleStep s).fault = none ∧ (singleStep s).st.pc = (s.pc + 4) % 4294967296 ∧
    (singleStep s).st.regs = s.regs ∧ (singleStep s).st.mem = s.mem := by
  have hb := behavior_branch i hty { s with cycles := s.cycles + 1, instrs := s.instrs + 1 }
  simp only [hcond, Bool.false_eq_true, if_false] at hb
  rw [singleStep_of_behavior s _ hc hpc hat (by rw [hty]; decide) (by rw [hb])]
  rw [hb]
  exact ⟨rfl, rfl, rfl, rfl⟩

/-- `jal rd, label (+ offset)` transfers control to the label (plus offset) and links: under the same
    assumptions as for branches (displacement within ±1 MiB), one single-cycle step raises no fault, sets
    the pc to `(L + off) mod 2^32`, writes `pc + 4` to `rd` and leaves every other register and the
    memory unchanged. -/
theorem jal_label_transfers (s : St) (ls : Labels) (k : Nat) (line : String) (rd : Nat) (l : String)
    (off L : Int) (hl : lookupLabel ls l = some L) (i : Instr)
    (hi : instantiate ls s.pc k line (.jalLabel rd l off) = .ok i)
    (hrange : -1048576 ≤ L + off - s.pc ∧ L + off - s.pc < 1048576)
    (hc : s.imem.cache = none) (hpc : 0 ≤ s.pc ∧ s.pc < 16384) (hat : s.imem.instrAt s.pc = some i) :
    (singleStep s).fault = none ∧ (singleStep s).st.pc = (L + off) % 4294967296 ∧
    (singleStep s).st.regs = Rv.setReg s.regs rd (wrapU (s.pc + 4)) ∧ (singleStep s).st.mem = s.mem := by
  have heven : (L + off - s.pc) % 2 = 0 := by
    by_cases hodd : (L + off - s.pc) % 2 ≠ 0
    · rw [instantiate_jalLabel_odd ls s.pc k line rd l off L hl hodd] at hi; cases hi
    · omega
  rw [instantiate_jalLabel ls s.pc k line rd l off L hl heven] at hi
  cases hi
  have hb := behavior_jal
    { op := .jal, rd := rd, rs1 := 0, rs2 := 0, imm := sextImm 21 (L + off - s.pc), aux := L + off } rfl
    { s with cycles := s.cycles + 1, instrs := s.instrs + 1 }
  rw [singleStep_of_behavior s _ hc hpc hat (by show Op.jal.ty ≠ Ty.memI; decide) (by rw [hb])]
  rw [hb, sext21_id _ hrange]
  refine ⟨rfl, ?_, rfl, rfl⟩
  show (s.pc + (L + off - s.pc - 4) + 4) % 4294967296 = (L + off) % 4294967296
  congr 1; omega

/-- `jal rd, N` with an even number transfers control to the absolute address `N` (mod 2^32) when
    `N − pc` is encodable. -/
theorem jal_number_transfers (s : St) (ls : Labels) (k : Nat) (line : String) (rd : Nat) (n : Int)
    (heven : n % 2 = 0) (i : Instr) (hi : instantiate ls s.pc k line (.jalImm rd n) = .ok i)
    (hrange : -1048576 ≤ n - s.pc ∧ n - s.pc < 1048576)
    (hc : s.imem.cache = none) (hpc : 0 ≤ s.pc ∧ s.pc < 16384) (hat : s.imem.instrAt s.pc = some i) :
    (singleStep s).fault = none ∧ (singleStep s).st.pc = n % 4294967296 ∧
    (singleStep s).st.regs = Rv.setReg s.regs rd (wrapU (s.pc + 4)) ∧ (singleStep s).st.mem = s.mem := by
  rw [instantiate_jalImm ls s.pc k line rd n] at hi
  simp only [heven, ne_eq, not_true_eq_false, if_false] at hi
  cases hi
  have hb := behavior_jal
    { op := .jal, rd := rd, rs1 := 0, rs2 := 0, imm := sextImm 21 (n - s.pc), aux := n } rfl
    { s with cycles := s.cycles + 1, instrs := s.instrs + 1 }
  rw [singleStep_of_behavior s _ hc hpc hat (by show Op.jal.ty ≠ Ty.memI; decide) (by rw [hb])]
  rw [hb, sext21_id _ hrange]
  refine ⟨rfl, ?_, rfl, rfl⟩
  show (s.pc + (n - s.pc - 4) + 4) % 4294967296 = n % 4294967296
  congr 1; omega

/-! ## Non-vacuity: a concrete listing

```
start:
foo: li x5, 100000
loop:
beq x5, x0, end
ecall
jal x0, loop+0x4
end:
```
-/

-- expansion: the `li` with in-line label becomes two entries of line 2
example : expandAll [] exSource = .ok exText := by rfl
-- the label pass succeeds: `start` and the in-line `foo` denote the `lui` (0), `loop` the `beq` (8),
-- the final `end` the address after the last instruction (20 = 4 × 5)
example : processLabels exText exPending [] 0 = .ok exLabels := by rfl
example : exLabels = [("start", 0), ("foo", 0), ("loop", 8), ("end", 20)] := rfl
example : countE exText = 5 := by decide
-- hypotheses of `inline_label_denotes_first_instruction` for `foo` (line 2, first entry at position 1)
example : exPending.find? (fun q => q.1 == 2) = some (2, "foo") ∧ (exText[1]).1 = 2 ∧ isLabel (exText[1]).2.2 = false := by
  decide
-- the instruction pass: five objects; `beq` at 8 with displacement 20 − 8 = 12, `jal` at 16 with
-- displacement (8 + 4) − 16 = −4 and printed target 12
example : buildInstrs exLabels exText 0 = .ok exProg := by rfl
example : exProg[2]? = some { op := .beq, rs1 := 5, rs2 := 0, imm := 12 }
    ∧ exProg[4]? = some { op := .jal, rd := 0, imm := -4, aux := 12 } := by decide
-- an odd offset is rejected: `jal x0, loop+0x3` at address 16 (displacement 8 + 3 − 16 = −5), and
-- `beq x5, x0, end+0x1` at address 8 (hypotheses of `jal_label_odd_rejected` / `branch_label_odd_rejected`)
example : lookupLabel exLabels "loop" = some 8 ∧ ((8 : Int) + 3 - 16) % 2 ≠ 0 ∧
    instantiate exLabels 16 6 "jal x0, loop+0x3" (.jalLabel 0 "loop" 3) =
      .error (.parser "ParserOddImmediateException" 6 "jal x0, loop+0x3") := ⟨by decide, by decide, by rfl⟩
example : lookupLabel exLabels "end" = some 20 ∧ ((20 : Int) + 1 - 8) % 2 ≠ 0 ∧
    instantiate exLabels 8 4 "beq x5, x0, end+0x1" (.btypeLabel "beq" 5 0 "end" 1) =
      .error (.parser "ParserOddImmediateException" 4 "beq x5, x0, end+0x1") := ⟨by decide, by decide, by rfl⟩
-- the even case (hypotheses of `branch_label_displacement`): `end` − 8 = 12
example : lookupLabel exLabels "end" = some 20 ∧ ((20 : Int) + 0 - 8) % 2 = 0 := by decide
-- executing the program from a fresh state: after `lui; addi`, x5 = 100000, the branch is not taken
example : ((runSeq (exProg.take 2) freshSt).st.regs 5) = 100000 := by decide

end ArchSim.Props.C04
