import ArchSim.Model.Cache
namespace ArchSim.Props.C03
open ArchSim.Cache
/-- The decoded byte offset is always below 4. -/
theorem decode_byteOff_lt (i b : Nat) (a : Int) : (decode i b a).byteOff < 4 := by
  simp only [decode]; omega
end ArchSim.Props.C03
