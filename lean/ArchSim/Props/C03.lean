/-
C03 — data cache transparency.

Property theorems only (plus non-vacuity examples).  Definitions: `ArchSim/Spec/CacheAbs.lean`
(`PolicyOK`, `GeoOK`, `CInv`, `logical`, `updBytes`, `Op`, `runOps`, `flatOps`, `agrees`, `preload`);
helper lemmas: `ArchSim/Lemmas/C03*.lean`.

Setting.  `s : DSys σ` is a data-cache memory system (write-through if `s.wt`, else write-back) of any
geometry `s.geo` with `GeoOK` (tag+index+block+byte bits ≤ 32, at least one way, `blkBits ≤ 12`), over
the RISC-V data memory (8-bit cells, addresses modulo 2^32, valid range [16384, 2^32)), with ANY
replacement policy `P` that satisfies the three-clause interface `PolicyOK P assoc WFp` (instances:
LRU, PLRU, and the "forced victim" policy of the differential harness, which makes the theorems cover
every possible victim choice).  The miss penalty and the hit/access counters are arbitrary: no theorem
constrains them.

`CInv WFp s` is the representation invariant of reachable states, `logical s a` the byte the system
holds at (wrapped) address `a`: the byte lane of the resident block if the block of `a` is resident,
else the backing cell.  An access is *accepted* when `widthOK bits` (8/16/32), `inWord bits addr`
(it does not cross a word boundary) and `inData addr` (wrapped address ≥ 16384).
-/
import ArchSim.Lemmas.C03Hist

namespace ArchSim.Props.C03
open ArchSim ArchSim.Cache ArchSim.Mem ArchSim.Spec.ByteStore ArchSim.Lemmas.C18 ArchSim.Spec.CacheAbs
open ArchSim.Lemmas.C03

variable {σ : Type} {P : PolicyOps σ} {WFp : σ → Prop}

/-- The decoded byte offset is always below 4. -/
theorem decode_byteOff_lt (i b : Nat) (a : Int) : (decode i b a).byteOff < 4 := by
  simp only [decode]; omega

/-! ## 0  The policies of the simulator satisfy the policy interface -/

/-- LRU (any associativity ≥ 1) and PLRU (associativity a power of two, as the Python constructor
    asserts) satisfy `PolicyOK` with `Pol.WF assoc` as the well-formedness predicate. -/
theorem policy_ok_lru_plru (isLru : Bool) (assoc : Nat) (ha : 0 < assoc)
    (h : isLru = false → ∃ d, assoc = 2 ^ d) :
    PolicyOK (polOps isLru) assoc (Repl.Pol.WF assoc) :=
  pol_ok isLru assoc ha h

/-- The forced-victim policy (state = the way to displace next, any way of the set) satisfies
    `PolicyOK`: the theorems below therefore hold for every victim choice whatsoever. -/
theorem policy_ok_forced (assoc : Nat) (ha : 0 < assoc) :
    PolicyOK forcedOps assoc (fun v => v < assoc) :=
  forced_ok assoc ha

/-! ## 1  Initial state and preloads -/

/-- A freshly constructed memory system (any admissible geometry, write policy, penalty, policy)
    over the empty RISC-V memory satisfies the invariant and holds 0 everywhere. -/
theorem init_inv (g : Geo) (hg : GeoOK g) (hP : PolicyOK P g.assoc WFp) (wt : Bool) (penalty : Nat) :
    CInv WFp (DSys.init P wt g penalty (Mem.empty riscvCfg)) ∧
      ∀ a, logical (DSys.init P wt g penalty (Mem.empty riscvCfg)) a = 0 := by
  obtain ⟨h1, h2⟩ := CInv_of_empty (WFp := WFp) (s := DSys.init P wt g penalty (Mem.empty riscvCfg))
    hg (initSets_ok g hP) MemOK_empty (fun k t => lookup_initSets g k t)
  exact ⟨h1, fun a => (h2 a).trans rfl⟩

/-- After any sequence `h` of direct writes to the lower memory (the parser's `.data` preloads: any
    widths, addresses and values, failing and truncated writes included) performed before anything is
    cached, the invariant holds, the backing memory is the flat memory `run riscvCfg h` of C18, and
    the logical contents are its history-defined cell map `B`. -/
theorem preload_inv (g : Geo) (hg : GeoOK g) (hP : PolicyOK P g.assoc WFp) (wt : Bool) (penalty : Nat)
    (h : List Spec.ByteStore.Op) :
    CInv WFp (preload (DSys.init P wt g penalty (Mem.empty riscvCfg)) h) ∧
      (preload (DSys.init P wt g penalty (Mem.empty riscvCfg)) h).mem = run riscvCfg h ∧
      ∀ a, logical (preload (DSys.init P wt g penalty (Mem.empty riscvCfg)) h) a =
        B riscvCfg h ((wrap32 a : Nat) : Int) := by
  obtain ⟨e1, e2, e3, _⟩ := preload_spec (DSys.init P wt g penalty (Mem.empty riscvCfg)) h
  have hm : (preload (DSys.init P wt g penalty (Mem.empty riscvCfg)) h).mem = run riscvCfg h := e1
  obtain ⟨h1, h2⟩ := CInv_of_empty (WFp := WFp)
    (s := preload (DSys.init P wt g penalty (Mem.empty riscvCfg)) h)
    (by rw [e3]; exact hg) (by rw [e2, e3]; exact initSets_ok g hP) (by rw [hm]; exact MemOK_run h)
    (fun k t => by rw [e2]; exact lookup_initSets g k t)
  refine ⟨h1, hm, fun a => ?_⟩
  rw [h2 a, hm, run_eq, applyCells_cells]
  rfl

/-- `reset()` (a new cache, the lower memory cleared, counters kept) re-establishes the invariant with
    all-zero logical contents, from any state with an admissible geometry and RISC-V memory. -/
theorem reset_inv {s : DSys σ} (hg : GeoOK s.geo) (hc : s.mem.cfg = riscvCfg)
    (hP : PolicyOK P s.geo.assoc WFp) :
    CInv WFp (s.reset P) ∧ ∀ a, logical (s.reset P) a = 0 := by
  have hm : (s.reset P).mem = Mem.empty riscvCfg := by
    show Mem.empty s.mem.cfg = _; rw [hc]
  obtain ⟨h1, h2⟩ := CInv_of_empty (WFp := WFp) (s := s.reset P) hg (initSets_ok s.geo hP)
    (by rw [hm]; exact MemOK_empty) (fun k t => lookup_initSets s.geo k t)
  exact ⟨h1, fun a => by rw [h2 a, hm]; rfl⟩

/-! ## 2  Reads -/

/-- C03, reads.  An accepted read (byte, half-word or word within one word of the data range, counted
    in the statistics or not) through the cached system returns exactly the value a flat memory
    holding the logical contents returns — the little-endian composition of the logical bytes at the
    accessed addresses.  The invariant is kept and the logical contents do not change, although the
    read may fill a block and evict (and, under write-back, write back) another. -/
theorem read_refines {s : DSys σ} (hP : PolicyOK P s.geo.assoc WFp) (hs : CInv WFp s)
    (bits : Nat) (addr : Int) (counted : Bool) (hb : widthOK bits) (hw : inWord bits addr)
    (hin : inData addr) :
    (s.read P bits addr counted).res =
        .ok (leSum riscvCfg (bits / 8) (fun i => logical s (addr + (i : Int)))) ∧
      Mem.read (flatOf s) bits addr =
        some (.ok (leSum riscvCfg (bits / 8) (fun i => logical s (addr + (i : Int))))) ∧
      CInv WFp (s.read P bits addr counted).sys ∧
      (∀ a, logical (s.read P bits addr counted).sys a = logical s a) ∧
      (s.read P bits addr counted).sys.geo = s.geo ∧ (s.read P bits addr counted).sys.wt = s.wt := by
  obtain ⟨e1, e2, e3, e4, e5⟩ := read_accepted hP hs bits addr counted hb hw hin
  exact ⟨e1, read_flatOf hs.toCInvS bits hb addr hw hin, e2, e3, e4, e5⟩

/-! ## 3  Writes -/

/-- C03, writes.  An accepted write of `v < 2^bits` through the cache (write-back: write-allocate,
    possibly evicting and writing back; write-through: no-allocate, cache updated on a hit, lower
    memory always) succeeds, keeps the invariant, and changes the logical contents exactly as the flat
    memory changes: the `bits/8` bytes from `addr` become the little-endian bytes of `v`, every other
    byte is unchanged (`updBytes`; `flat_write_updBytes` shows this is what `Mem.write` does). -/
theorem write_refines {s : DSys σ} (hP : PolicyOK P s.geo.assoc WFp) (hs : CInv WFp s)
    (bits : Nat) (addr : Int) (v : Nat) (hb : widthOK bits) (hw : inWord bits addr)
    (hin : inData addr) (hv : v < 2 ^ bits) :
    (s.write P bits addr v false).res = .ok 0 ∧ CInv WFp (s.write P bits addr v false).sys ∧
      (∀ a, logical (s.write P bits addr v false).sys a = updBytes (logical s) addr (bits / 8) v a) ∧
      (s.write P bits addr v false).sys.geo = s.geo ∧ (s.write P bits addr v false).sys.wt = s.wt := by
  unfold DSys.write
  simp only [Bool.false_eq_true, if_false]
  by_cases hwt : s.wt = true
  · rw [if_pos hwt]; exact writeWT_accepted hP hs hwt bits addr v hb hw hin hv
  · rw [if_neg hwt]; exact writeWB_accepted hP hs (by simpa using hwt) bits addr v hb hw hin hv

/-- `write_refines` for the write-back system, stated on `writeWB` itself. -/
theorem write_refines_wb {s : DSys σ} (hP : PolicyOK P s.geo.assoc WFp) (hs : CInv WFp s)
    (hwt : s.wt = false) (bits : Nat) (addr : Int) (v : Nat) (hb : widthOK bits)
    (hw : inWord bits addr) (hin : inData addr) (hv : v < 2 ^ bits) :
    (s.writeWB P bits addr v).res = .ok 0 ∧ CInv WFp (s.writeWB P bits addr v).sys ∧
      (∀ a, logical (s.writeWB P bits addr v).sys a = updBytes (logical s) addr (bits / 8) v a) :=
  let h := writeWB_accepted hP hs hwt bits addr v hb hw hin hv
  ⟨h.1, h.2.1, h.2.2.1⟩

/-- `write_refines` for the write-through system, stated on `writeWT` itself. -/
theorem write_refines_wt {s : DSys σ} (hP : PolicyOK P s.geo.assoc WFp) (hs : CInv WFp s)
    (hwt : s.wt = true) (bits : Nat) (addr : Int) (v : Nat) (hb : widthOK bits)
    (hw : inWord bits addr) (hin : inData addr) (hv : v < 2 ^ bits) :
    (s.writeWT P bits addr v).res = .ok 0 ∧ CInv WFp (s.writeWT P bits addr v).sys ∧
      (∀ a, logical (s.writeWT P bits addr v).sys a = updBytes (logical s) addr (bits / 8) v a) :=
  let h := writeWT_accepted hP hs hwt bits addr v hb hw hin hv
  ⟨h.1, h.2.1, h.2.2.1⟩

/-- `updBytes` is what the flat memory does: an accepted `Mem.write` on the flat memory holding the
    logical contents succeeds and leaves exactly `updBytes (logical s) addr (bits/8) v`. -/
theorem flat_write_updBytes (s : DSys σ) (bits : Nat) (hb : widthOK bits) (addr : Int) (v : Nat)
    (hw : inWord bits addr) (hin : inData addr) :
    ∃ m', Mem.write (flatOf s) bits addr v = some (m', none) ∧
      ∀ a, m'.cells ((wrap32 a : Nat) : Int) = updBytes (logical s) addr (bits / 8) v a :=
  write_flatOf s bits hb addr v hw hin

/-! ## 4  Histories -/

/-- C03, main theorem.  Let the cached state `s` (invariant `CInv`) represent the well-formed flat
    memory `m` (`logical s` = cells of `m`).  Run ANY list of operations — reads (counted or not) and
    writes of offered widths with values that fit, at arbitrary addresses, accepted or not — on the
    cached system (`runOps`) and on the flat memory (`flatOps`: `Mem.read` / `Mem.write`, skipping
    what the cached system rejects).  Then every accepted operation returns exactly the flat value,
    every other one returns an error, and at the end the cached state still satisfies the invariant
    and represents the final flat memory. -/
theorem history_refines {s : DSys σ} (hP : PolicyOK P s.geo.assoc WFp) (hs : CInv WFp s) {m : Mem}
    (hm : MemOK m) (hL : ∀ a, logical s a = m.cells ((wrap32 a : Nat) : Int))
    (ops : List Spec.CacheAbs.Op) (ho : ∀ o, o ∈ ops → o.wf) :
    agreesAll ops (runOps P s ops).2 (flatOps m ops).2 ∧ CInv WFp (runOps P s ops).1 ∧
      MemOK (flatOps m ops).1 ∧
      ∀ a, logical (runOps P s ops).1 a = (flatOps m ops).1.cells ((wrap32 a : Nat) : Int) := by
  obtain ⟨⟨h1, h2, h3⟩, _, _, h4⟩ := history_agrees hP ⟨hs, hm, hL⟩ ops ho
  exact ⟨h4, h1, h2, h3⟩

/-- The same from power-on, for the policies of the simulator: every admissible geometry, write-back or
    write-through, LRU or PLRU, any miss penalty, any `.data` preload `h`, any history `ops`: the
    cached system answers like the flat memory `run riscvCfg h` fed the same accepted writes. -/
theorem history_refines_from_reset (g : Geo) (hg : GeoOK g) (wt isLru : Bool) (penalty : Nat)
    (hplru : isLru = false → ∃ d, g.assoc = 2 ^ d) (h : List Spec.ByteStore.Op)
    (ops : List Spec.CacheAbs.Op) (ho : ∀ o, o ∈ ops → o.wf) :
    agreesAll ops
      (runOps (polOps isLru)
        (preload (DSys.init (polOps isLru) wt g penalty (Mem.empty riscvCfg)) h) ops).2
      (flatOps (run riscvCfg h) ops).2 := by
  have hP := pol_ok isLru g.assoc hg.assoc hplru
  obtain ⟨h1, h2, h3⟩ := preload_inv (P := polOps isLru) g hg hP wt penalty h
  obtain ⟨_, _, e3, _⟩ := preload_spec (DSys.init (polOps isLru) wt g penalty (Mem.empty riscvCfg)) h
  refine (history_refines (by rw [e3]; exact hP) h1 (MemOK_run h) (fun a => ?_) ops ho).1
  rw [h3 a, run_eq, applyCells_cells]
  rfl

/-- Replacement-policy states never matter: overwriting the policy state of every set by arbitrary
    well-formed states (for the forced-victim policy: forcing, per set, ANY way as the next victim)
    keeps the invariant and the logical contents.  Together with `read_refines` / `write_refines`,
    which hold in every state satisfying the invariant, this covers every possible victim choice. -/
theorem policy_state_irrelevant {s : DSys σ} (hs : CInv WFp s) (f : Nat → σ) (hf : ∀ k, WFp (f k)) :
    CInv WFp (setPols s f) ∧ ∀ a, logical (setPols s f) a = logical s a :=
  setPols_inv hs f hf

/-- The history theorem against an adversary: before EVERY operation all policy states are
    overwritten (by any well-formed states — `runOpsAdv`); still every accepted operation returns the
    flat value and every other one an error. -/
theorem history_refines_adversarial {s : DSys σ} (hP : PolicyOK P s.geo.assoc WFp) (hs : CInv WFp s)
    {m : Mem} (hm : MemOK m) (hL : ∀ a, logical s a = m.cells ((wrap32 a : Nat) : Int))
    (ops : List (Spec.CacheAbs.Op × (Nat → σ))) (ho : ∀ p, p ∈ ops → p.1.wf ∧ ∀ k, WFp (p.2 k)) :
    agreesAll (ops.map Prod.fst) (runOpsAdv P s ops).2 (flatOps m (ops.map Prod.fst)).2 ∧
      CInv WFp (runOpsAdv P s ops).1 ∧
      ∀ a, logical (runOpsAdv P s ops).1 a =
        (flatOps m (ops.map Prod.fst)).1.cells ((wrap32 a : Nat) : Int) := by
  obtain ⟨⟨h1, _, h3⟩, h4⟩ := history_agrees_adv hP ⟨hs, hm, hL⟩ ops ho
  exact ⟨h4, h1, h3⟩

/-- …in particular from power-on with the forced-victim policy, where the adversary names, before
    each operation and for each set, the way to displace next (`vict k < assoc`): for EVERY sequence of
    victim choices the cached system answers like the flat memory.  This is the form the differential
    harness replays (it forces the victims the real LRU/PLRU objects chose). -/
theorem history_refines_forced (g : Geo) (hg : GeoOK g) (wt : Bool) (penalty : Nat)
    (h : List Spec.ByteStore.Op) (ops : List (Spec.CacheAbs.Op × (Nat → Nat)))
    (ho : ∀ p, p ∈ ops → p.1.wf ∧ ∀ k, p.2 k < g.assoc) :
    agreesAll (ops.map Prod.fst)
      (runOpsAdv forcedOps (preload (DSys.init forcedOps wt g penalty (Mem.empty riscvCfg)) h) ops).2
      (flatOps (run riscvCfg h) (ops.map Prod.fst)).2 := by
  have hP := forced_ok g.assoc hg.assoc
  obtain ⟨h1, h2, h3⟩ := preload_inv (P := forcedOps) g hg hP wt penalty h
  obtain ⟨_, _, e3, _⟩ := preload_spec (DSys.init forcedOps wt g penalty (Mem.empty riscvCfg)) h
  refine (history_refines_adversarial (by rw [e3]; exact hP) h1 (MemOK_run h) (fun a => ?_) ops ho).1
  rw [h3 a, run_eq, applyCells_cells]
  rfl

/-! ## 5  Accesses that cross a word boundary -/

/-- A read in the data range that crosses a word boundary (half-word at byte offset 3, word at offset
    ≠ 0) is rejected with `ByteOffsetError(offset, max)`; the block has been fetched into the cache by
    then, but the invariant holds and every stored value (the logical contents) is unchanged. -/
theorem crossing_rejected_read {s : DSys σ} (hP : PolicyOK P s.geo.assoc WFp) (hs : CInv WFp s)
    (bits : Nat) (addr : Int) (counted : Bool) (hb : widthOK bits) (hw : ¬ inWord bits addr)
    (hin : inData addr) :
    (s.read P bits addr counted).res =
        .error (.byteOffset (wrap32 addr % 4) (if bits = 16 then 2 else 0)) ∧
      CInv WFp (s.read P bits addr counted).sys ∧
      ∀ a, logical (s.read P bits addr counted).sys a = logical s a :=
  let h := read_crossing hP hs bits addr counted hb hw hin
  ⟨h.1, h.2.1, h.2.2.1⟩

/-- A cached write in the data range that crosses a word boundary is rejected with
    `ByteOffsetError` under write-back and under write-through, on a hit and on a miss; the
    policy state and (write-through) the counters may have changed, the stored values have not. -/
theorem crossing_rejected_write {s : DSys σ} (hP : PolicyOK P s.geo.assoc WFp) (hs : CInv WFp s)
    (bits : Nat) (addr : Int) (v : Nat) (hb : widthOK bits) (hw : ¬ inWord bits addr)
    (hin : inData addr) :
    (s.write P bits addr v false).res =
        .error (.byteOffset (wrap32 addr % 4) (if bits = 16 then 2 else 0)) ∧
      CInv WFp (s.write P bits addr v false).sys ∧
      ∀ a, logical (s.write P bits addr v false).sys a = logical s a := by
  unfold DSys.write
  simp only [Bool.false_eq_true, if_false]
  by_cases hwt : s.wt = true
  · rw [if_pos hwt]
    have h := writeWT_crossing hP hs bits addr v hb hw
    exact ⟨h.1, h.2.1, h.2.2.1⟩
  · rw [if_neg hwt]
    have h := writeWB_crossing hP hs bits addr v hb hw hin
    exact ⟨h.1, h.2.1, h.2.2.1⟩

/-- The write-through MISS case on its own (the check added by the fix for finding F1): when the
    block of `addr` is not resident, a crossing write-through write is rejected before the lower
    memory is touched — at any address, inside or outside the data range — and the backing memory
    itself is unchanged. -/
theorem crossing_rejected_wt_miss {s : DSys σ} (hP : PolicyOK P s.geo.assoc WFp) (hs : CInv WFp s)
    (bits : Nat) (addr : Int) (v : Nat) (hb : widthOK bits) (hw : ¬ inWord bits addr)
    (hmiss : resident s addr = false) :
    (s.writeWT P bits addr v).res =
        .error (.byteOffset (wrap32 addr % 4) (if bits = 16 then 2 else 0)) ∧
      (s.writeWT P bits addr v).sys.mem = s.mem ∧
      CInv WFp (s.writeWT P bits addr v).sys ∧
      ∀ a, logical (s.writeWT P bits addr v).sys a = logical s a := by
  have h := writeWT_crossing hP hs bits addr v hb hw
  refine ⟨h.1, ?_, h.2.1, h.2.2.1⟩
  have hk : (dec s addr).setIdx < 2 ^ s.geo.idxBits := ArchSim.Lemmas.C03.decode_setIdx_lt _ _ _
  obtain ⟨sets1, hrb, _, _⟩ := readBlock_spec hP hs.sets (dec s addr) hk
  have hl : lookup s.sets (dec s addr).setIdx (dec s addr).tag = none := by
    unfold resident at hmiss
    cases hlk : lookup s.sets (dec s addr).setIdx (dec s addr).tag with
    | none => rfl
    | some w =>
      have : (lookup s.sets (dec s addr).setIdx (dec s addr).tag).isSome = false := hmiss
      rw [hlk] at this; cases this
  rw [hl] at hrb
  have hoff : ¬ (dec s addr).byteOff + bits / 8 ≤ 4 := hw
  rw [writeWT_miss s bits addr v sets1 hrb,
    laneErr_crossing bits (dec s addr) hb hoff (ArchSim.Lemmas.C03.decode_byteOff_lt _ _ _)]
  rfl

/-! ## 6  Accesses below the data range -/

/-- A read whose wrapped address is below 16384 raises the address error (carrying the block-aligned
    address, the first word the block fetch touches); invariant and stored values are unchanged. -/
theorem out_of_range_rejected_read {s : DSys σ} (hP : PolicyOK P s.geo.assoc WFp) (hs : CInv WFp s)
    (bits : Nat) (addr : Int) (counted : Bool) (hin : ¬ inData addr) :
    (s.read P bits addr counted).res =
        .error (.addr (((decode s.geo.idxBits s.geo.blkBits addr).blockBase : Nat) : Int)) ∧
      CInv WFp (s.read P bits addr counted).sys ∧
      ∀ a, logical (s.read P bits addr counted).sys a = logical s a :=
  let h := read_bad hP hs bits addr counted hin
  ⟨h.1, h.2.1, h.2.2.1⟩

/-- A cached write whose wrapped address is below 16384 is rejected: write-back raises the address
    error of the block fetch; write-through raises the address error of the lower-memory write (or,
    if the access also crosses a word boundary, the byte-offset error, see `crossing_rejected_wt_miss`).
    Invariant and stored values are unchanged. -/
theorem out_of_range_rejected_write {s : DSys σ} (hP : PolicyOK P s.geo.assoc WFp) (hs : CInv WFp s)
    (bits : Nat) (addr : Int) (v : Nat) (hb : widthOK bits) (hin : ¬ inData addr) :
    (s.write P bits addr v false).res =
        (if s.wt = true then
          (if inWord bits addr then .error (.addr ((wrap32 addr : Nat) : Int))
           else .error (.byteOffset (wrap32 addr % 4) (if bits = 16 then 2 else 0)))
         else .error (.addr (((decode s.geo.idxBits s.geo.blkBits addr).blockBase : Nat) : Int))) ∧
      CInv WFp (s.write P bits addr v false).sys ∧
      ∀ a, logical (s.write P bits addr v false).sys a = logical s a := by
  unfold DSys.write
  simp only [Bool.false_eq_true, if_false]
  by_cases hwt : s.wt = true
  · rw [if_pos hwt, if_pos hwt]
    by_cases hw : inWord bits addr
    · rw [if_pos hw]
      have h := writeWT_bad hP hs bits addr v hb hw hin
      exact ⟨h.1, h.2.1, h.2.2.1⟩
    · rw [if_neg hw]
      have h := writeWT_crossing hP hs bits addr v hb hw
      exact ⟨h.1, h.2.1, h.2.2.1⟩
  · rw [if_neg hwt, if_neg hwt]
    have h := writeWB_bad hP hs bits addr v hin
    exact ⟨h.1, h.2.1, h.2.2.1⟩

/-! ## 7  Why `blkBits ≤ 12` is required (known finding F6) -/

/-- With 2^13 words per block the property is FALSE: the block containing the first valid data
    address 16384 starts at address 0, so the block fetch of an accepted word read at 16384 on a fresh
    system raises `MemoryAddressError(0)` although the flat memory answers 0; a write-back write at
    16384 fails the same way (write-through succeeds: it does not allocate). -/
theorem blockbits13_counterexample :
    ∃ g : Geo, g.idxBits + g.blkBits + 2 ≤ 32 ∧ 0 < g.assoc ∧ g.blkBits = 13 ∧
      widthOK 32 ∧ inWord 32 16384 ∧ inData 16384 ∧
      ∀ wt : Bool,
        (DSys.read lruOps (DSys.init lruOps wt g 0 (Mem.empty riscvCfg)) 32 16384 true).res =
          .error (.addr 0) ∧
        Mem.read (Mem.empty riscvCfg) 32 16384 = some (.ok 0) ∧
        (DSys.write lruOps (DSys.init lruOps wt g 0 (Mem.empty riscvCfg)) 32 16384 7 false).res =
          (if wt then .ok 0 else .error (.addr 0)) :=
  ⟨⟨0, 13, 1⟩, by decide, by decide, rfl, by decide, by decide, by decide, by decide⟩

/-! ## Non-vacuity -/

-- the hypotheses are satisfiable: geometries, policies, the initial invariant
example : GeoOK exGeo ∧ GeoOK exGeo2 := ⟨⟨by decide, by decide, by decide⟩, ⟨by decide, by decide, by decide⟩⟩
example : PolicyOK lruOps exGeo.assoc (Repl.Pol.WF exGeo.assoc) := lru_ok _ (by decide)
example : PolicyOK plruOps exGeo2.assoc (Repl.Pol.WF exGeo2.assoc) := plru_ok 1
example (wt : Bool) : CInv (Repl.Pol.WF 1) (DSys.init lruOps wt exGeo 3 (Mem.empty riscvCfg)) :=
  (init_inv exGeo ⟨by decide, by decide, by decide⟩ (lru_ok _ (by decide)) wt 3).1
-- every operation of the example history is well formed; accepted and rejected ones both occur
example : ∀ o, o ∈ exOps → o.wf := by decide
example : exOps.map (fun o => decide o.accepted) =
    [true, true, true, true, true, true, false, false, true, true, false, false, true] := by decide
-- the cached results (write-back and write-through, LRU) and the flat results of the example history:
-- instances of `history_refines_from_reset`, evaluated
example : (runOps lruOps (DSys.init lruOps false exGeo 3 (Mem.empty riscvCfg)) exOps).2 =
    [.ok 0, .ok 0, .ok 0xAA44, .ok 0, .ok 0x1122AA44, .ok 5, .error (.byteOffset 3 2),
     .error (.addr 256), .ok 0, .ok 0xBEEFAA44, .error (.byteOffset 1 0), .error (.addr 64),
     .ok 0xAA] := by decide
example : (runOps lruOps (DSys.init lruOps true exGeo 3 (Mem.empty riscvCfg)) exOps).2 =
    [.ok 0, .ok 0, .ok 0xAA44, .ok 0, .ok 0x1122AA44, .ok 5, .error (.byteOffset 3 2),
     .error (.addr 256), .ok 0, .ok 0xBEEFAA44, .error (.byteOffset 1 0), .error (.addr 64),
     .ok 0xAA] := by decide
example : (flatOps (Mem.empty riscvCfg) exOps).2 =
    [some (.ok 0), some (.ok 0), some (.ok 0xAA44), some (.ok 0), some (.ok 0x1122AA44), some (.ok 5),
     none, none, some (.ok 0), some (.ok 0xBEEFAA44), none, none, some (.ok 0xAA)] := by decide
-- the same history on the 2-way PLRU cache with 4-word blocks
example : (runOps plruOps (DSys.init plruOps false exGeo2 0 (Mem.empty riscvCfg)) exOps).2 =
    (runOps lruOps (DSys.init lruOps true exGeo 3 (Mem.empty riscvCfg)) exOps).2 := by decide
-- `logical` after the history at specific addresses (write-back: the backing cell differs)
example : logical (runOps lruOps (DSys.init lruOps false exGeo 3 (Mem.empty riscvCfg)) exOps).1 0x4003 = 0xBE
    ∧ (runOps lruOps (DSys.init lruOps false exGeo 3 (Mem.empty riscvCfg)) exOps).1.mem.cells 0x4003 = 0x11 := by
  decide

-- the forced-victim run of the same history on the 2-way cache, the adversary alternating between
-- forcing way 1 and way 0 in every set: an instance of `history_refines_forced`, evaluated
example : (runOpsAdv forcedOps (DSys.init forcedOps false exGeo2 0 (Mem.empty riscvCfg))
      (exOps.zipIdx.map (fun p => (p.1, fun _ => (p.2 + 1) % 2)))).2 =
    (runOps lruOps (DSys.init lruOps true exGeo 3 (Mem.empty riscvCfg)) exOps).2 := by decide
example : ∀ p, p ∈ exOps.zipIdx.map (fun p => (p.1, fun (_ : Nat) => (p.2 + 1) % 2)) →
    p.1.wf ∧ ∀ k, p.2 k < exGeo2.assoc := by
  intro p hp
  simp only [List.mem_map] at hp
  obtain ⟨q, hq, rfl⟩ := hp
  refine ⟨?_, fun _ => Nat.mod_lt _ (by decide)⟩
  have : ∀ o, o ∈ exOps → o.wf := by decide
  exact this q.1 (List.fst_mem_of_mem_zipIdx hq)

end ArchSim.Props.C03
