/-
C07 — retire times / cycle count follow the documented pipeline schedule.
Property theorems only; helper lemmas are in `ArchSim/Lemmas/C07*.lean`.
-/
import ArchSim.Lemmas.C07Flat
import ArchSim.Lemmas.C07LineStep
import ArchSim.Lemmas.C07Ecall
import ArchSim.Lemmas.C07SkelStep

namespace ArchSim.Props.C07
open ArchSim ArchSim.Rv ArchSim.Pipe ArchSim.Lemmas.C07 ArchSim.Lemmas.C02Split ArchSim.Spec

/-- With hazard detection switched off the ID stage never raises its stall signal. -/
theorem idStall_off (rr : ArchSim.Rv.RegRead) (l1 l2 : Option Latch) : idStall false rr l1 l2 = false := by
  simp [idStall]

/-! ### A. the cycle counter -/

/-- Every five-stage step that raises no exception advances the cycle counter by exactly one, plus the
    extra cycles of this cycle's instruction fetch (`fetchExtra`: 0 while stalled or with nothing at the
    pc), plus the extra cycles of the MEM stage's memory access (`memExtra`: 0 for a bubble). -/
theorem cycle_increment (p : PSt) (h : (step p).fault = none) :
    (step p).p.st.cycles = p.st.cycles + 1 + fetchExtra p + memExtra p :=
  step_cycles_ok p h

/-- The same when the EX stage raises (the MEM stage does not run in that cycle): one plus the fetch. -/
theorem cycle_increment_ex_fault (p : PSt) (h : (exO p).fault.isSome) :
    (step p).p.st.cycles = p.st.cycles + 1 + fetchExtra p :=
  step_cycles_exFault p h

/-- The same when EX does not raise, whether or not the MEM stage then raises: one plus the fetch plus
    the extra cycles of the (possibly faulting) memory access. -/
theorem cycle_increment_mem_fault (p : PSt) (h : (exO p).fault = none) :
    (step p).p.st.cycles = p.st.cycles + 1 + fetchExtra p + memExtra p :=
  step_cycles_memFault p h

/-- The fetch term is zero or the miss penalty of the instruction cache; without an instruction cache
    it is zero. -/
theorem fetch_extra_is_penalty (im : IMem) (pc : Int) :
    (im.fetch pc).extra = 0 ∨ ∃ c, im.cache = some c ∧ (im.fetch pc).extra = c.penalty :=
  fetch_extra_cases im pc

/-- Unless EX is handed an ecall this cycle, the MEM term is the extra of `memory_access` on the
    memory system of the start of the cycle. -/
theorem mem_extra_start_of_cycle (p : PSt) (h : ∀ d, exInput p = some d → d.instr.op ≠ .ecall) :
    memExtra p = maExtra p.st.mem (memInput p) := by
  unfold memExtra; rw [exO_mem_nonEcall p h]

/-- Without caches every five-stage step (faulting or not) adds exactly one cycle. -/
theorem cycle_increment_no_cache (p : PSt) (m : Mem.Mem) (hm : p.st.mem = .flat m)
    (hc : p.st.imem.cache = none) : (step p).p.st.cycles = p.st.cycles + 1 := by
  rw [step_cycles, fetchExtra_none p hc]
  unfold memExtraRun; rw [memExtra_flat p m hm]; simp

/-- A single-cycle step adds one, plus the fetch extra, plus the extra of the instruction's counted data
    access (`singleExtra`); the uncounted display re-read of a load adds nothing, also on a fault. -/
theorem single_cycle_increment (s : St) : (singleStep s).st.cycles = s.cycles + 1 + singleExtra s :=
  singleStep_cycles s

/-- The uncounted re-read of a load never adds cycles (flat or cached, hit or miss). -/
theorem uncounted_reread_free (ms : MemSys) (bits : Nat) (a : Int) : (ms.read bits a false).extra = 0 :=
  read_uncounted_extra ms bits a

/-- Without caches a single-cycle step adds exactly one cycle. -/
theorem single_cycle_increment_no_cache (s : St) (m : Mem.Mem) (hm : s.mem = .flat m)
    (hc : s.imem.cache = none) : (singleStep s).st.cycles = s.cycles + 1 := by
  rw [singleStep_cycles, singleExtra_flat s m hm hc]

/-! ### D. straight-line programs take n + 4 cycles -/

/-- A straight-line program `prog` of `n ≤ 4096` plain instructions (register/immediate arithmetic,
    shifts, lui/auipc) in which no instruction reads a non-x0 register written by one of the two
    instructions before it (`HazardFree`), started at pc 0 in an empty pipeline with an uncached
    instruction memory — any data memory system, any register contents, hazard detection on or off:
    no step ever raises; after `k` cycles exactly `min n (k - 4)` instructions have retired
    (instruction `m` retires in cycle `m + 5`) and `k` cycles were counted; the pipeline is done after
    exactly `n + 4` steps and, for `n ≥ 1`, after no smaller number of steps. -/
theorem straight_line_n_plus_4 (prog : List Instr) (hplain : ∀ i ∈ prog, PlainInstr i)
    (hfree : HazardFree prog) (hlen : prog.length ≤ 4096) (p0 : PSt) (hstart : LineStart prog p0) :
    (∀ k, (step (iter stepP k p0)).fault = none) ∧
    (∀ k, (iter stepP k p0).st.instrs = p0.st.instrs + min prog.length (k - 4) ∧
          (iter stepP k p0).st.cycles = p0.st.cycles + k ∧ (iter stepP k p0).stalled = none) ∧
    isDone (iter stepP (prog.length + 4) p0) = true ∧
    (iter stepP (prog.length + 4) p0).st.instrs = p0.st.instrs + prog.length ∧
    (iter stepP (prog.length + 4) p0).st.cycles = p0.st.cycles + prog.length + 4 ∧
    (0 < prog.length → ∀ k, k < prog.length + 4 → isDone (iter stepP k p0) = false) := by
  have hrun := line_run prog hplain hfree hlen _ _ p0 (lineInv_start prog p0 hstart)
  refine ⟨fun k => (hrun k).2, fun k => ⟨(hrun k).1.instrs, (hrun k).1.cycles, (hrun k).1.stl⟩,
    ?_, ?_, ?_, ?_⟩
  · exact (line_isDone prog _ _ _ _ (hrun _).1).2 (Or.inr (Nat.le_refl _))
  · rw [(hrun _).1.instrs]; simp
  · rw [(hrun _).1.cycles]; omega
  · intro hn k hk
    cases hd : isDone (iter stepP k p0) with
    | false => rfl
    | true => have := (line_isDone prog _ _ _ _ (hrun k).1).1 hd; omega

/-- The empty program is done immediately. -/
theorem straight_line_empty (p0 : PSt) (hstart : LineStart [] p0) : isDone p0 = true :=
  (line_isDone [] _ _ 0 p0 (lineInv_start [] p0 hstart)).2 (Or.inl rfl)

/-! ### E. closed forms of the schedule rules -/

/-- ID raises its stall signal exactly when detection is on and its (non-empty) input reads a non-x0
    register written by the instruction in ID/EX or EX/MEM (`idStall`). -/
theorem interlock_condition (p : PSt) :
    latchStall (nID p) = true ↔
      ∃ f, idInput p = some f ∧ idStall p.hazard (accessRegs f.instr (sWB p).regs) p.l1 p.l2 = true :=
  nID_stall_iff p

/-- Decode interlock = exactly two bubbles. If an unstalled pipeline's ID raises its stall signal
    (and EX does not), and the detection cycle and the two following cycles neither raise nor flush:
    EX is fed a bubble in the two following cycles while ID keeps re-decoding the (flagged) consumer
    and IF/ID keeps the instruction fetched in the detection cycle; after the third cycle the pipeline
    is unstalled and EX's input is the consumer as decoded in the last stalled cycle — two cycles
    later than without the hazard; the `stalls` counter went up by one. -/
theorem interlock_two_bubbles (p : PSt) (hs : p.stalled = none)
    (hid : latchStall (nID p) = true) (hex : latchStall (exO p).latch = false)
    (q0 : NoFault p ∧ NoFlush p) (q1 : NoFault (step p).p ∧ NoFlush (step p).p)
    (q2 : NoFault (step (step p).p).p ∧ NoFlush (step (step p).p).p) :
    exInput (step p).p = none ∧ exInput (step (step p).p).p = none ∧
    idInput (step p).p = setFlag p.l0 ∧ idInput (step (step p).p).p = setFlag p.l0 ∧
    (step p).p.l0 = nIF p ∧ (step (step p).p).p.l0 = nIF p ∧ (step (step (step p).p).p).p.l0 = nIF p ∧
    (step (step (step p).p).p).p.stalled = none ∧
    exInput (step (step (step p).p).p).p = nID (step (step p).p).p ∧
    (step (step (step p).p).p).p.st.stalls = p.st.stalls + 1 :=
  interlock_three_cycles p hs hid hex q0 q1 q2

/-- The detection cycle itself records an ID stall with two cycles to go. -/
theorem interlock_recorded (p : PSt) (hf : NoFault p) (hfl : NoFlush p) (hs : p.stalled = none)
    (hid : latchStall (nID p) = true) (hex : latchStall (exO p).latch = false) :
    (step p).p.stalled = some { k := 1, rem := 2, p0 := setFlag p.l0, p1 := none } :=
  (interlock_start p hf hfl hs hid hex).1

/-- Control transfers are resolved in MEM: when MEM processes (without exception, and with no exiting
    ecall in WB) a latch whose flush decision is `some a` — a taken branch, `jal`, `jalr` — then after
    that cycle the three younger registers are empty, no stall is recorded, the pc is `a mod 2^32`,
    the flush counter went up by one and the transfer sits in MEM/WB: three slots are squashed and
    the next cycle fetches at the target. -/
theorem redirect_three_slots (p : PSt) (e : Latch) (a : Int) (hin : memInput p = some e)
    (hfl : memFlush e = some a) (hf : NoFault p) (hwb : latchFlush (nWB p) = none) :
    (step p).p.l0 = none ∧ (step p).p.l1 = none ∧ (step p).p.l2 = none ∧ (step p).p.stalled = none ∧
    (step p).p.st.pc = a % 4294967296 ∧ (step p).p.st.flushes = p.st.flushes + 1 ∧
    ∃ rd, (step p).p.l3 = some (memLatch e rd) :=
  redirect_from_mem p e a hin hfl hf hwb

/-- Which latches redirect: `jal` to pc+imm, `jalr` to the ALU result, a branch whose comparison is
    true to pc+imm; a branch whose comparison is false does not. -/
theorem redirect_targets (e : Latch) :
    (e.instr.op = .jal → memFlush e = e.pcImm) ∧ (e.instr.op = .jalr → memFlush e = e.result) ∧
    (e.instr.op.ty = .b → e.cmp = some true → memFlush e = e.pcImm) ∧
    (e.instr.op.ty = .b → e.cmp = some false → e.exitCode = none → memFlush e = none) :=
  ⟨memFlush_jal e, memFlush_jalr e, memFlush_branch_taken e, memFlush_branch_not_taken e⟩

/-- An unstalled pipeline fetches at the current pc: the latch IF produces carries that address. -/
theorem fetch_at_pc (p : PSt) (hs : p.stalled = none) (x : Latch) (h : nIF p = some x) :
    x.addr = p.st.pc :=
  fetch_after_redirect p hs x h

/-- ECALL drain. An unstalled EX holding an (unflagged) ecall while EX/MEM is occupied: the service does
    not run in that cycle (EX leaves the state as WB left it) and a stall is counted; in the next
    cycle MEM gets a bubble and the service again does not run; in the cycle after, MEM gets a bubble
    and the service runs exactly then (`ecallRun`, on the state after that cycle's WB, all older
    instructions having left MEM); if that cycle neither raises nor flushes (no exit) the pipeline is
    unstalled afterwards with the finished ecall in EX/MEM. -/
theorem ecall_drain (p : PSt) (d : Latch) (hs : p.stalled = none) (hl1 : p.l1 = some d)
    (hop : d.instr.op = .ecall) (hfg : d.flagged = false) (hl2 : p.l2.isSome = true)
    (q0 : NoFault p ∧ NoFlush p) (q1 : NoFault (step p).p ∧ NoFlush (step p).p) :
    (exO p).st = sWB p ∧ (step p).p.st.stalls = p.st.stalls + 1 ∧
    memInput (step p).p = none ∧ (exO (step p).p).st = sWB (step p).p ∧
    memInput (step (step p).p).p = none ∧
    exO (step (step p).p).p = ecallRun (sWB (step (step p).p).p) { d with flagged := true } ∧
    (NoFault (step (step p).p).p → NoFlush (step (step p).p).p →
      (step (step (step p).p).p).p.stalled = none ∧
      (step (step (step p).p).p).p.l2 = (exO (step (step p).p).p).latch ∧
      (step (step (step p).p).p).p.l0 = nIF p ∧
      (step (step (step p).p).p).p.st.stalls = p.st.stalls + 1) :=
  ecall_drain_two p d hs hl1 hop hfg hl2 q0 q1

/-- Why `ecall_drain` assumes an occupied EX/MEM register: in a configuration with the ecall in EX,
    EX/MEM empty and only MEM/WB occupied (one bubble between the ecall and the older instruction —
    no such state arises from stalls, which insert two bubbles, or flushes, which insert three) the
    two-cycle stall quantum outlasts the drain and the service runs in BOTH stalled cycles. -/
theorem ecall_drain_needs_exmem (p : PSt) (d : Latch) (hs : p.stalled = none) (hl1 : p.l1 = some d)
    (hop : d.instr.op = .ecall) (hfg : d.flagged = false) (hl2 : p.l2 = none)
    (hl3 : p.l3.isSome = true)
    (q0 : NoFault p ∧ NoFlush p) (q1 : NoFault (step p).p ∧ NoFlush (step p).p) :
    exO (step p).p = ecallRun (sWB (step p).p) { d with flagged := true } ∧
    exO (step (step p).p).p = ecallRun (sWB (step (step p).p).p) { d with flagged := true } :=
  ecall_drain_l3_only p d hs hl1 hop hfg hl2 hl3 q0 q1

/-! ### G. the pipeline simulates the data-free schedule skeleton -/

/-- Erasing all data from the pipeline state (`erase`: per register only which instruction, its
    address, the stall-preservation mark and the exit mark; plus pc, stall record and the data-free
    counters) commutes with every cycle that raises no exception: the next skeleton is
    `Skeleton.step` of the current skeleton and the cycle's outcomes (what IF delivered, EX's exit
    decision, MEM's redirect decision). So slot occupancy, stalls, flushes and retirements follow the
    documented rules encoded in `ArchSim/Spec/Skeleton.lean`, for every state, reachable or not. -/
theorem pipe_sim_skeleton (p : PSt) (h : (step p).fault = none) :
    erase (step p).p = Skeleton.step (erase p) (outcomes p) :=
  erase_step p h

/-- Along any exception-free run the skeleton of the pipeline is the skeleton run on the outcomes. -/
theorem pipe_run_skeleton (p : PSt) (k : Nat)
    (h : ∀ j, j < k → (step (iter (fun q => (step q).p) j p)).fault = none) :
    erase (iter (fun q => (step q).p) k p) = skRun p k :=
  erase_run p k h

/-- `is_done` is a function of the skeleton and of whether an instruction exists at the pc. -/
theorem is_done_skeleton (p : PSt) :
    Pipe.isDone p = Skeleton.isDone (erase p) (p.st.imem.instrAt p.st.pc).isSome :=
  erase_isDone p

/-! ### Non-vacuity: a concrete three-instruction program -/

/-- `addi x1,x0,5 ; slli x2,x0,3 ; lui x3,1` — plain and hazard-free. -/
def demoProg : List Instr :=
  [{ op := .addi, rd := 1, rs1 := 0, imm := 5 }, { op := .slli, rd := 2, rs1 := 0, imm := 3 },
   { op := .lui, rd := 3, imm := 1 }]

def demoSt : St :=
  { regs := fun _ => 0, pc := 0, mem := .flat (Mem.Mem.empty Mem.riscvCfg),
    imem := { prog := demoProg, cache := none }, output := "", exitCode := none, cycles := 0,
    instrs := 0, branches := 0, procs := 0, stalls := 0, flushes := 0 }

def demoP : PSt := PSt.init demoSt true

example : (∀ i ∈ demoProg, PlainInstr i) := by decide
example : HazardFree demoProg := by decide
example : LineStart demoProg demoP := ⟨rfl, rfl, rfl, rfl, rfl, rfl, rfl, rfl⟩

/-- Direct evaluation of the model agrees: 3 instructions, 7 cycles, done, x1 = 5, x2 = 0, x3 = 4096,
    and not done after 6 cycles. -/
example : (iter stepP 7 demoP).st.cycles = 7 ∧ (iter stepP 7 demoP).st.instrs = 3 ∧
    isDone (iter stepP 7 demoP) = true ∧ isDone (iter stepP 6 demoP) = false ∧
    (iter stepP 7 demoP).st.regs 1 = 5 ∧ (iter stepP 7 demoP).st.regs 3 = 4096 := by
  decide

/-- `cycle_increment` on the first cycle of the demo (no fault). -/
example : (step demoP).fault = none ∧ (step demoP).p.st.cycles = 1 := by decide

/-! ### Non-vacuity of the cycle equation with caches -/

/-- `lw x1, 0(x5)` with x5 = 0x4000; instruction cache (LRU, 2 sets × 2 words, 1 way, penalty 10),
    write-back data cache (LRU, penalty 7). -/
def cachedSt : St :=
  { demoSt with
    regs := fun r => if r = 5 then 16384 else 0
    imem := { prog := [{ op := .lw, rd := 1, rs1 := 5, imm := 0 }, { op := .addi, rd := 2, imm := 1 }],
              cache := some (ICache.init true { idxBits := 1, blkBits := 1, assoc := 1 } 10) }
    mem := .cached true (Cache.DSys.init (Cache.polOps true) false
             { idxBits := 1, blkBits := 1, assoc := 1 } 7 (Mem.Mem.empty Mem.riscvCfg)) }

def cachedAfter (k : Nat) : PSt := iter stepP k (PSt.init cachedSt true)

/-- Cycle 1 misses in the instruction cache (+10), cycle 2 hits (+0), cycle 4 has the load in MEM
    missing in the data cache (+7); the totals follow the equation. Single-cycle mode: 1 + 10 + 7. -/
example : fetchExtra (cachedAfter 0) = 10 ∧ memExtra (cachedAfter 0) = 0 ∧
    fetchExtra (cachedAfter 1) = 0 ∧ memExtra (cachedAfter 3) = 7 ∧
    (cachedAfter 1).st.cycles = 11 ∧ (cachedAfter 2).st.cycles = 12 ∧ (cachedAfter 3).st.cycles = 13 ∧
    (cachedAfter 4).st.cycles = 21 ∧ (step (cachedAfter 3)).fault = none ∧
    singleExtra cachedSt = 17 ∧ (singleStep cachedSt).st.cycles = 18 ∧
    (singleStep cachedSt).fault = none := by decide

/-! ### Non-vacuity of the closed forms -/

def stOf (prog : List Instr) : St := { demoSt with imem := { prog := prog, cache := none } }
def after (prog : List Instr) (k : Nat) : PSt := iter stepP k (PSt.init (stOf prog) true)

/-- E1: `addi x1,x0,5 ; add x2,x1,x1` — the hazard is detected in cycle 3. -/
def depProg : List Instr :=
  [{ op := .addi, rd := 1, rs1 := 0, imm := 5 }, { op := .add, rd := 2, rs1 := 1, rs2 := 1 }]

example : (after depProg 2).stalled = none ∧ latchStall (nID (after depProg 2)) = true ∧
    latchStall (exO (after depProg 2)).latch = false ∧
    (NoFault (after depProg 2) ∧ NoFlush (after depProg 2)) ∧
    (NoFault (after depProg 3) ∧ NoFlush (after depProg 3)) ∧
    (NoFault (after depProg 4) ∧ NoFlush (after depProg 4)) := by decide

/-- … and the run takes 2 + 4 + 2 cycles and computes x2 = 10. -/
example : isDone (after depProg 8) = true ∧ isDone (after depProg 7) = false ∧
    (after depProg 8).st.regs 2 = 10 ∧ (after depProg 8).st.stalls = 1 := by decide

/-- E2: `jal x1, 8` at address 0 is in MEM in cycle 4. -/
def jalProg : List Instr :=
  [{ op := .jal, rd := 1, imm := 8 }, { op := .addi, rd := 5, imm := 1 },
   { op := .addi, rd := 6, imm := 2 }, { op := .addi, rd := 7, imm := 3 }]

example : (memInput (after jalProg 3)).map memFlush = some (some 8) ∧ NoFault (after jalProg 3) ∧
    latchFlush (nWB (after jalProg 3)) = none ∧ (after jalProg 4).st.pc = 8 ∧
    (after jalProg 4).l0 = none ∧ (after jalProg 4).st.flushes = 1 := by decide

/-- E3: `addi a7,x0,1 ; addi a0,x0,7 ; ecall` — the ecall is in EX in cycle 5 behind an occupied
    EX/MEM register (print-integer service). -/
def ecallProg : List Instr :=
  [{ op := .addi, rd := 17, imm := 1 }, { op := .addi, rd := 10, imm := 7 }, { op := .ecall }]

example : (after ecallProg 4).stalled = none ∧
    (after ecallProg 4).l1.map (fun d => (d.instr.op, d.flagged)) = some (.ecall, false) ∧
    (after ecallProg 4).l2.isSome = true ∧
    (NoFault (after ecallProg 4) ∧ NoFlush (after ecallProg 4)) ∧
    (NoFault (after ecallProg 5) ∧ NoFlush (after ecallProg 5)) ∧
    (NoFault (after ecallProg 6) ∧ NoFlush (after ecallProg 6)) ∧
    (after ecallProg 7).stalled = none ∧ (after ecallProg 7).st.stalls = 1 ∧
    isDone (after ecallProg 9) = true := by decide

/-- The same with the exit service (`a7 = 93`, `a0 = 7`): the hypotheses up to the cycle in which the
    service runs hold, and the exit code appears when the ecall retires. -/
def exitProg : List Instr :=
  [{ op := .addi, rd := 17, imm := 93 }, { op := .addi, rd := 10, imm := 7 }, { op := .ecall }]

example : (NoFault (after exitProg 4) ∧ NoFlush (after exitProg 4)) ∧
    (NoFault (after exitProg 5) ∧ NoFlush (after exitProg 5)) ∧
    (after exitProg 8).st.exitCode = none ∧ (after exitProg 9).st.exitCode = some 7 := by decide

/-- G on the interlock example: the skeleton after cycle 3 records the ID stall, and the erasure
    equation holds by evaluation. -/
example : (erase (after depProg 3)).stalled.map (fun s => (s.k, s.rem)) = some (1, 2) ∧
    erase (after depProg 3) = Skeleton.step (erase (after depProg 2)) (outcomes (after depProg 2)) ∧
    erase (after jalProg 4) = Skeleton.step (erase (after jalProg 3)) (outcomes (after jalProg 3)) := by
  decide

end ArchSim.Props.C07
