import ArchSim.Model.Pipe
namespace ArchSim.Props.C07
open ArchSim.Pipe
/-- With hazard detection switched off the ID stage never raises its stall signal. -/
theorem idStall_off (rr : ArchSim.Rv.RegRead) (l1 l2 : Option Latch) : idStall false rr l1 l2 = false := by
  simp [idStall]
end ArchSim.Props.C07
