/-
C02 (data-path half) — the two implementations of every instruction agree.

Every RISC-V instruction of the simulator is implemented twice: `behavior()` (single-cycle mode) and
the split `access_register_file / alu_compute / memory_access / write_back` + control signals +
flush decision (five-stage pipeline). `Pipe.splitStep` runs the five stage functions back to back
on ONE instruction with nothing else in flight; `Rv.singleStep` is one single-cycle step.

Property theorems only (plus non-vacuity examples). Helper lemmas: `ArchSim/Lemmas/C02Split*.lean`
(`…Stages`: the stage functions on non-empty inputs and the completion functions, exported for the
pipeline-control proof; `…Arith`: `Instr.WF` and the ALU arithmetic; `…Families`, `…Alu`, `…Mem`: one
agreement lemma per instruction family; `…Main`: dispatch, observation records).

Hypotheses of the main theorems (all satisfied by every state the simulator reaches with an uncached
instruction memory and the flat data memory):
  `i.WF`                      supported op (no csr*, fence, ebreak), `rd, rs1, rs2 < 32`, stored immediate in
                              its constructor's range, `ecall` with the fields its constructor forces
  `s.imem.cache = none`       no instruction cache
  `s.imem.instrAt s.pc = some i`, `0 ≤ s.pc < 16384`   (`instrAt` already implies `s.pc % 4 = 0`)
  `∀ r, s.regs r < 2^32`      registers hold `UInt32` values
  `s.mem = .flat m`, `m.cfg.overflow = true`, `m.cfg.addrBits = 32`   flat memory that wraps addresses
                              modulo 2^32 (true of `Mem.riscvCfg`; without the wrap the store address of the
                              split path, the UNWRAPPED sum `x[rs1] + imm`, would not alias `behavior()`'s)
-/
import ArchSim.Lemmas.C02SplitEx

namespace ArchSim.Props.C02Split
open ArchSim ArchSim.Rv ArchSim.Pipe ArchSim.Lemmas.C02Split

/-- MAIN THEOREM (stronger than the observation form asked for). For every well-formed supported
    instruction and every state as above, `splitStep` and `singleStep` raise the SAME fault (same
    faulting address, same `Fault` value) or both none; when there is no fault the two resulting
    architectural states are EQUAL as whole `St` records (registers as functions, data memory,
    instruction memory, output, exit code, pc, cycle / instruction / branch / procedure / stall / flush
    counters); when there is a fault the two states are equal except for the instruction count, which
    single-cycle mode has already incremented. -/
theorem split_agrees (s : St) (i : Instr) (m : Mem.Mem) (hwf : i.WF)
    (hic : s.imem.cache = none) (hi : s.imem.instrAt s.pc = some i)
    (hpc0 : 0 ≤ s.pc) (hpc1 : s.pc < 16384)
    (hregs : ∀ r, s.regs r < 4294967296) (hmem : s.mem = .flat m)
    (hov : m.cfg.overflow = true) (hab : m.cfg.addrBits = 32) :
    (splitStep s).fault = (singleStep s).fault ∧
    ((singleStep s).fault = none → (splitStep s).st = (singleStep s).st) ∧
    ((singleStep s).fault ≠ none → (splitStep s).st = { (singleStep s).st with instrs := s.instrs }) :=
  agree_step s i m hwf hic hi hpc0 hpc1 hregs hmem hov hab

/-- Observation form: same fault; without a fault the same observation record `obs` (registers,
    data memory, output, exit code, next pc, branch / procedure / instruction / cycle counts); and in
    every case, fault or not, the same `faultObs` (everything in `obs` but the instruction count). -/
theorem split_agrees_obs (s : St) (i : Instr) (m : Mem.Mem) (hwf : i.WF)
    (hic : s.imem.cache = none) (hi : s.imem.instrAt s.pc = some i)
    (hpc0 : 0 ≤ s.pc) (hpc1 : s.pc < 16384)
    (hregs : ∀ r, s.regs r < 4294967296) (hmem : s.mem = .flat m)
    (hov : m.cfg.overflow = true) (hab : m.cfg.addrBits = 32) :
    (splitStep s).fault = (singleStep s).fault ∧
    ((singleStep s).fault = none → obs (splitStep s).st = obs (singleStep s).st) ∧
    faultObs (splitStep s).st = faultObs (singleStep s).st :=
  have h := agree_step s i m hwf hic hi hpc0 hpc1 hregs hmem hov hab
  ⟨h.1, h.obs, h.faultObs⟩

/-- The one difference: when the step faults, single-cycle mode has counted the instruction (it
    counts before executing) and the split path has not (it counts in WB, never reached). -/
theorem split_fault_instruction_count (s : St) (i : Instr) (m : Mem.Mem) (hwf : i.WF)
    (hic : s.imem.cache = none) (hi : s.imem.instrAt s.pc = some i)
    (hpc0 : 0 ≤ s.pc) (hpc1 : s.pc < 16384)
    (hregs : ∀ r, s.regs r < 4294967296) (hmem : s.mem = .flat m)
    (hov : m.cfg.overflow = true) (hab : m.cfg.addrBits = 32)
    (hf : (singleStep s).fault ≠ none) :
    (singleStep s).st.instrs = s.instrs + 1 ∧ (splitStep s).st.instrs = s.instrs :=
  fault_instrs s i m hwf hic hi hpc0 hpc1 hregs hmem hov hab hf

/-- The instance for the data memory the simulator builds (`Mem.riscvCfg`). -/
theorem split_agrees_riscv (s : St) (i : Instr) (m : Mem.Mem) (hwf : i.WF)
    (hic : s.imem.cache = none) (hi : s.imem.instrAt s.pc = some i) (hpc1 : s.pc < 16384)
    (hregs : ∀ r, s.regs r < 4294967296) (hmem : s.mem = .flat m) (hcfg : m.cfg = Mem.riscvCfg) :
    (splitStep s).fault = (singleStep s).fault ∧
    ((singleStep s).fault = none → (splitStep s).st = (singleStep s).st) ∧
    ((singleStep s).fault ≠ none → (splitStep s).st = { (singleStep s).st with instrs := s.instrs }) :=
  agree_step s i m hwf hic hi (instrAt_some_aligned _ _ _ hi).1 hpc1 hregs hmem
    (by rw [hcfg]; rfl) (by rw [hcfg]; rfl)

/-- The same over ANY data memory system (flat or cached) that satisfies `MemOK i s`: stores are taken
    modulo 2^32 (`WriteAlias`), and — only if `i` is a load — a successful counted read at the load
    address returns a value `< 2^32` and the uncounted re-read single-cycle mode performs for the
    visualisation returns the same value, leaves the memory system unchanged and adds no cycles
    (`LoadOK`). `split_agrees` is the instance for the flat memory (`memOK_flat`). -/
theorem split_agrees_anymem (s : St) (i : Instr) (hwf : i.WF)
    (hic : s.imem.cache = none) (hi : s.imem.instrAt s.pc = some i)
    (hpc0 : 0 ≤ s.pc) (hpc1 : s.pc < 16384)
    (hregs : ∀ r, s.regs r < 4294967296) (hm : MemOK i s) :
    (splitStep s).fault = (singleStep s).fault ∧
    ((singleStep s).fault = none → (splitStep s).st = (singleStep s).st) ∧
    ((singleStep s).fault ≠ none → (splitStep s).st = { (singleStep s).st with instrs := s.instrs }) :=
  agree_step_anymem s i hwf hic hi hpc0 hpc1 hregs hm

/-
FULL STATEMENT for a cached data memory (not proved here in this form): as `split_agrees`, with
`s.mem = .cached l ds` for a cache state `ds` reachable from `DSys.init` over a RISC-V data memory, and
no `hre` hypothesis. What is missing is exactly `hre` below for reachable cache states: re-read
neutrality (an uncounted read of a block that a counted read has just made resident is a hit that
returns the same value, re-touches the same way — idempotent for LRU and PLRU — and changes no counter)
together with the invariant that cached words are `< 2^32`. Re-read neutrality is proved in the C09
development (`memsys_reread`, `behavior_load_reread` in `Lemmas/C09Pol.lean`); plugging it in here
discharges `hre`.
-/
/-- Cached data memory (write-back or write-through, LRU or PLRU) over a lower memory that wraps
    addresses modulo 2^32: everything but loads agrees unconditionally (stores included: the cache
    decodes `UInt32(address)` and the lower memory wraps); loads agree provided the re-read of the
    load address is neutral (`hre`, see the comment above). Full `St` equality, cache contents,
    replacement state, hit / access counters and miss-penalty cycles included. -/
theorem split_agrees_cached_partial (s : St) (i : Instr) (l : Bool) (ds : Cache.DSys Repl.Pol)
    (hwf : i.WF) (hic : s.imem.cache = none) (hi : s.imem.instrAt s.pc = some i)
    (hpc0 : 0 ≤ s.pc) (hpc1 : s.pc < 16384)
    (hregs : ∀ r, s.regs r < 4294967296) (hmem : s.mem = .cached l ds)
    (hov : ds.mem.cfg.overflow = true) (hab : ds.mem.cfg.addrBits = 32)
    (hre : i.op.ty = .memI → LoadOK s.mem (accessBits i.op) ((s.regs i.rs1 : Int) + i.imm)) :
    (splitStep s).fault = (singleStep s).fault ∧
    ((singleStep s).fault = none → (splitStep s).st = (singleStep s).st) ∧
    ((singleStep s).fault ≠ none → (splitStep s).st = { (singleStep s).st with instrs := s.instrs }) :=
  agree_step_anymem s i hwf hic hi hpc0 hpc1 hregs
    ⟨by rw [hmem]; exact writeAlias_cached l ds hov hab, hre⟩

/-- `WF` is what the constructors produce: for every supported op other than `ecall`, register numbers
    below 32 and ANY raw immediate, the instruction object holding the stored immediate is
    well-formed; so is the `ecall` object. -/
theorem constructed_wf (op : Op) (rd rs1 rs2 : Nat) (raw aux : Int) (hs : op.supported = true)
    (hrd : rd < 32) (hrs1 : rs1 < 32) (hrs2 : rs2 < 32) (hne : op ≠ .ecall) :
    Instr.WF { op := op, rd := rd, rs1 := rs1, rs2 := rs2, imm := storedImm op raw, aux := aux } ∧
    Instr.WF { op := .ecall } :=
  ⟨⟨hs, hrd, hrs1, hrs2, immRange_storedImm op raw, fun h => absurd h hne⟩, by decide⟩

/-- By-product for the pipeline-control proof: `splitStep` is the cycle tick, IF, ID, and then the
    completion (EX, MEM, WB, flush target) of the decoded instruction. -/
theorem splitStep_is_completion (s : St) :
    splitStep s =
      completeIDEX
        (idStage false (ifStage { s with cycles := s.cycles + 1 }).1.regs
          (ifStage { s with cycles := s.cycles + 1 }).2 none none)
        (ifStage { s with cycles := s.cycles + 1 }).1 :=
  splitStep_eq_complete s

/-- By-product for the pipeline-control proof, GENERAL POSITION: an ID/EX register `d` holding a
    well-formed instruction at address `d.addr` (`0 ≤ d.addr < 16384`), with `pc4 = addr + 4`, the write
    register of the instruction, and operands read from the registers of `t` (whatever its `stall` /
    `flagged` bits, whatever the pc of `t`). Completing it from `t` through EX (nothing older in
    flight), MEM, WB and applying its flush target, compared with single-cycle mode run on `t` with
    the pc at `d.addr` (`sAt t d.addr`, instruction counted): same fault; with a fault the same state
    except the instruction count; without a fault either the same state (the instruction redirected:
    taken branch, jal, jalr, exiting ecall) or the same state except that the completion left the pc
    of `t` untouched where single-cycle mode moved to `d.addr + 4`. -/
theorem complete_agrees_general (d : Latch) (t : St) (hwf : d.instr.WF)
    (hpc4 : d.pc4 = d.addr + 4) (hrr : d.rr = accessRegs d.instr t.regs) (hwr : d.wreg = writeReg d.instr)
    (hregs : ∀ r, t.regs r < 4294967296) (hm : MemOK d.instr t) (h0 : 0 ≤ d.addr) (h1 : d.addr < 16384) :
    (completeIDEX (some d) t).fault = (singleTail d.instr (sAt t d.addr)).fault ∧
    ((singleTail d.instr (sAt t d.addr)).fault = none →
      (completeIDEX (some d) t).st = (singleTail d.instr (sAt t d.addr)).st ∨
      ((completeIDEX (some d) t).st = { (singleTail d.instr (sAt t d.addr)).st with pc := t.pc } ∧
        (singleTail d.instr (sAt t d.addr)).st.pc = d.addr + 4)) ∧
    ((singleTail d.instr (sAt t d.addr)).fault ≠ none →
      (completeIDEX (some d) t).st = { (singleTail d.instr (sAt t d.addr)).st with instrs := t.instrs }) :=
  agree_all_latch d t hwf hpc4 hrr hwr hregs hm h0 h1

/-- `singleTail` in the theorem above IS single-cycle mode: with an uncached instruction memory holding
    `i` at `s.pc`, `singleStep s` is `singleTail i` applied to `s` after the cycle tick and the
    instruction count (`sSingle s`). -/
theorem singleStep_is_singleTail (s : St) (i : Instr) (hic : s.imem.cache = none)
    (hi : s.imem.instrAt s.pc = some i) (hpc0 : 0 ≤ s.pc) (hpc1 : s.pc < 16384) :
    singleStep s = singleTail i (sSingle s) :=
  singleStep_eq s i hic hi hpc0 hpc1

/-! ## Non-vacuity: concrete instances of the hypotheses, and what the two sides compute there -/

section
open ArchSim.Lemmas.C02Split.Ex

-- `Hyps s i m` (defined next to the example states) = all hypotheses of `split_agrees` for `s`, `i`, `m`.

-- a load: `lb x5, 4(x1)` reads the byte 0x80 and sign-extends it; no fault; pc 4 → 8
example : Hyps loadSt loadI loadM :=
  ⟨by decide, rfl, by decide, by decide, by decide,
   fun r => by simp only [loadSt, mkSt, loadRegs]; split <;> omega, rfl, rfl, rfl⟩
example : (splitStep loadSt).fault = none ∧ (singleStep loadSt).fault = none ∧
    (splitStep loadSt).st.regs 5 = 0xFFFFFF80 ∧ (singleStep loadSt).st.regs 5 = 0xFFFFFF80 ∧
    (splitStep loadSt).st.pc = 8 ∧ (singleStep loadSt).st.pc = 8 := by decide

-- a faulting load: address 0 is below the data segment; same fault on both sides
example : Hyps badLoadSt badLoadI (Mem.Mem.empty Mem.riscvCfg) :=
  ⟨by decide, rfl, by decide, by decide, by decide, fun r => by simp [badLoadSt, mkSt], rfl, rfl, rfl⟩
example : (splitStep badLoadSt).fault = some (0, .mem (.addr 0)) ∧
    (singleStep badLoadSt).fault = some (0, .mem (.addr 0)) ∧
    (splitStep badLoadSt).st.instrs = 0 ∧ (singleStep badLoadSt).st.instrs = 1 := by decide

-- a store whose split address is negative (−2) while `behavior()` uses 2^32 − 2: the word straddles the
-- top of memory, both sides store two bytes and raise for address 0
example : Hyps storeSt storeI (Mem.Mem.empty Mem.riscvCfg) :=
  ⟨by decide, rfl, by decide, by decide, by decide,
   fun r => by simp only [storeSt, mkSt, storeRegs]; split <;> (try split) <;> omega, rfl, rfl, rfl⟩
example : (splitStep storeSt).fault = some (0, .mem (.addr 0)) ∧
    (singleStep storeSt).fault = some (0, .mem (.addr 0)) ∧
    (splitStep storeSt).st.mem.backing.keys = [4294967294, 4294967295] ∧
    (singleStep storeSt).st.mem.backing.keys = [4294967294, 4294967295] := by decide

-- a taken branch: `blt x1, x2, -8` at pc 8 with x1 = −1 (signed), x2 = 1; pc 8 → 0, one branch counted
example : Hyps branchSt branchI (Mem.Mem.empty Mem.riscvCfg) :=
  ⟨by decide, rfl, by decide, by decide, by decide,
   fun r => by simp only [branchSt, mkSt, branchRegs]; split <;> (try split) <;> omega, rfl, rfl, rfl⟩
example : (splitStep branchSt).st.pc = 0 ∧ (singleStep branchSt).st.pc = 0 ∧
    (splitStep branchSt).st.branches = 1 ∧ (singleStep branchSt).st.branches = 1 ∧
    (splitStep branchSt).fault = none := by decide

-- jalr with rd = rs1: `jalr x1, x1, -3`, x1 = 0x1003; target 0x1000 (bit 0 cleared), x1 := 4
example : Hyps jalrSt jalrI (Mem.Mem.empty Mem.riscvCfg) :=
  ⟨by decide, rfl, by decide, by decide, by decide,
   fun r => by simp only [jalrSt, mkSt, jalrRegs]; split <;> omega, rfl, rfl, rfl⟩
example : (splitStep jalrSt).st.pc = 4096 ∧ (singleStep jalrSt).st.pc = 4096 ∧
    (splitStep jalrSt).st.regs 1 = 4 ∧ (singleStep jalrSt).st.regs 1 = 4 := by decide

-- an exiting ecall: a7 = 93, a0 = 7; exit code 7 set, pc 4 → 8, instruction counted
example : Hyps ecallSt ecallI (Mem.Mem.empty Mem.riscvCfg) :=
  ⟨by decide, rfl, by decide, by decide, by decide,
   fun r => by simp only [ecallSt, mkSt, ecallRegs]; split <;> (try split) <;> omega, rfl, rfl, rfl⟩
example : (splitStep ecallSt).st.exitCode = some 7 ∧ (singleStep ecallSt).st.exitCode = some 7 ∧
    (splitStep ecallSt).st.pc = 8 ∧ (singleStep ecallSt).st.pc = 8 ∧
    (splitStep ecallSt).st.instrs = 1 ∧ (singleStep ecallSt).st.instrs = 1 := by decide

-- an ecall with an invalid code: the same `ValueError` on both sides, raised in EX
example : Hyps badEcallSt ecallI (Mem.Mem.empty Mem.riscvCfg) :=
  ⟨by decide, rfl, by decide, by decide, by decide,
   fun r => by simp only [badEcallSt, mkSt, badEcallRegs]; split <;> omega, rfl, rfl, rfl⟩
example : (splitStep badEcallSt).fault = some (0, .ecallCode 5) ∧
    (singleStep badEcallSt).fault = some (0, .ecallCode 5) := by decide

-- cached data memory: the load example over a write-back LRU cache. `hre` holds at the load address
-- (the re-read hits the block the counted read has just loaded); the miss costs 10 cycles on both sides
example : LoadOK cachedLoadSt.mem (accessBits loadI.op) ((cachedLoadSt.regs loadI.rs1 : Int) + loadI.imm) := by
  intro v hv
  have h : (cachedLoadSt.mem.read (accessBits loadI.op) ((cachedLoadSt.regs loadI.rs1 : Int) + loadI.imm) true).res
      = .ok 128 := rfl
  rw [h] at hv
  cases hv
  exact ⟨by decide, rfl⟩
example : cachedLoadSt.mem = .cached true cacheSys ∧ cacheSys.mem.cfg.overflow = true ∧
    cacheSys.mem.cfg.addrBits = 32 ∧ cachedLoadSt.imem.instrAt cachedLoadSt.pc = some loadI :=
  ⟨rfl, rfl, rfl, by decide⟩
example : (splitStep cachedLoadSt).st.cycles = 11 ∧ (singleStep cachedLoadSt).st.cycles = 11 ∧
    (splitStep cachedLoadSt).st.regs 5 = 0xFFFFFF80 ∧ (singleStep cachedLoadSt).st.regs 5 = 0xFFFFFF80 := by
  decide
-- cached data memory: the straddling store (split address −2): same fault on both sides
example : cachedStoreSt.mem = .cached true cacheSys ∧ cachedStoreSt.imem.instrAt cachedStoreSt.pc = some storeI ∧
    (storeI.op.ty = .memI → False) := ⟨rfl, by decide, by decide⟩
example : (splitStep cachedStoreSt).fault = (singleStep cachedStoreSt).fault ∧
    (singleStep cachedStoreSt).fault ≠ none := by decide

-- general position (`complete_agrees_general`): the jalr at address 8, completing from a state whose pc is
-- 20: redirect, the two states are equal (first disjunct), pc = 0x1000
example : genLatch.instr.WF ∧ genLatch.pc4 = genLatch.addr + 4 ∧
    genLatch.rr = accessRegs genLatch.instr genSt.regs ∧ genLatch.wreg = writeReg genLatch.instr ∧
    (∀ r, genSt.regs r < 4294967296) ∧ MemOK genLatch.instr genSt ∧ 0 ≤ genLatch.addr ∧ genLatch.addr < 16384 :=
  ⟨by decide, rfl, rfl, rfl, fun r => by simp only [genSt, jalrSt, mkSt, jalrRegs]; split <;> omega,
   memOK_flat _ _ (Mem.Mem.empty Mem.riscvCfg) rfl rfl rfl, by decide, by decide⟩
example : (completeIDEX (some genLatch) genSt).st.pc = 4096 ∧
    (singleTail genLatch.instr (sAt genSt genLatch.addr)).st.pc = 4096 ∧
    (completeIDEX (some genLatch) genSt).st.regs 1 = 12 := by decide
-- general position, no redirect: the load at address 8 leaves the pc of the state (20) alone, single-cycle
-- mode moves to 12 (second disjunct)
example : genLatch2.rr = accessRegs genLatch2.instr genSt2.regs ∧ MemOK genLatch2.instr genSt2 :=
  ⟨rfl, memOK_flat _ _ loadM rfl rfl rfl⟩
example : (completeIDEX (some genLatch2) genSt2).st.pc = 20 ∧
    (singleTail genLatch2.instr (sAt genSt2 genLatch2.addr)).st.pc = 12 ∧
    (completeIDEX (some genLatch2) genSt2).st.regs 5 = 0xFFFFFF80 := by decide

-- `constructed_wf` is not vacuous: e.g. `sw` with an out-of-range raw immediate
example : Op.supported .sw = true ∧ Op.sw ≠ .ecall := by decide

end

end ArchSim.Props.C02Split
