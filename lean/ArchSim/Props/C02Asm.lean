/-
C02, end to end: for EVERY source text the assembler accepts (without CSR instructions, `fence`, `ebreak`), the
five-stage pipeline with hazard detection, started on the loaded program from the loaded state, is equivalent
to single-cycle mode. No `ProgWF` / `SOK` hypothesis is left (`C04Asm.loaded_program_wf`, `loaded_state_ok`);
what remains are the hypotheses about the RUN (fault-free, runs until `is_done()`).

Property theorems only (plus non-vacuity examples); helper lemmas: `ArchSim/Lemmas/E2E*.lean`.
`pipeRun`, `runOK`, `isDone`, `retireLog`, `PSt.init st true` (hazard detection on), `singleRun`, `singleTrace` as
in `Props/C02Main.lean`.
-/
import ArchSim.Props.C02Main
import ArchSim.Props.C04Asm

namespace ArchSim.Props.C02Asm
open ArchSim ArchSim.Rv ArchSim.Asm ArchSim.Pipe ArchSim.Lemmas.E2E

/-- END TO END (C02 main theorem), any start state. Load ANY source text into a state `s` that satisfies `StOK`,
    has no instruction cache and has not exited (for instance the power-on state). If the assembler accepts the
    text and the stored program has no CSR instruction, `fence` or `ebreak`, and the five-stage loop
    `while not is_done(): step()` (hazard detection on) stops after `n` cycles without a fault, then the
    single-cycle loop from the same loaded state stops after `k ≤ n` fault-free steps with the same registers,
    data memory, output, exit code, instruction / branch / procedure counts and pc, and the addresses leaving
    write-back are exactly the addresses single-cycle mode executes. -/
theorem assembled_pipe_equals_single_cycle (s : St) (text : String) (hs : ArchSim.Lemmas.C01.StOK s)
    (hc : s.imem.cache = none) (hx : s.exitCode = none) (h : (load s text).err = none)
    (hsup : AllSupported (load s text).st.imem.prog) (n : Nat)
    (hr : runOK n (PSt.init (load s text).st true))
    (hd : isDone (pipeRun n (PSt.init (load s text).st true)) = true)
    (hprev : ∀ m, m < n → isDone (pipeRun m (PSt.init (load s text).st true)) = false) :
    ∃ k, k ≤ n ∧
      (∀ j, j < k → (singleStep (singleRun j (load s text).st)).fault = none ∧
        singleDone (singleRun j (load s text).st) = false) ∧
      singleDone (singleRun k (load s text).st) = true ∧
      (pipeRun n (PSt.init (load s text).st true)).st.regs = (singleRun k (load s text).st).regs ∧
      (pipeRun n (PSt.init (load s text).st true)).st.mem = (singleRun k (load s text).st).mem ∧
      (pipeRun n (PSt.init (load s text).st true)).st.output = (singleRun k (load s text).st).output ∧
      (pipeRun n (PSt.init (load s text).st true)).st.exitCode = (singleRun k (load s text).st).exitCode ∧
      (pipeRun n (PSt.init (load s text).st true)).st.instrs = (singleRun k (load s text).st).instrs ∧
      (pipeRun n (PSt.init (load s text).st true)).st.branches = (singleRun k (load s text).st).branches ∧
      (pipeRun n (PSt.init (load s text).st true)).st.procs = (singleRun k (load s text).st).procs ∧
      (pipeRun n (PSt.init (load s text).st true)).st.pc = (singleRun k (load s text).st).pc ∧
      retireLog n (PSt.init (load s text).st true) = singleTrace k (load s text).st :=
  ArchSim.Props.C02Main.pipe_equals_single_cycle _ (load_progWF_pipe s text h hsup) _ (load_sok s text hs hc)
    (by rw [load_exitCode]; exact hx) n hr hd hprev

/-- END TO END, power-on state: the hypotheses on the start state are discharged too. Only "the assembler
    accepts the text", "no CSR / fence / ebreak" and the hypotheses on the five-stage run remain; the conclusion
    is stated for registers, output, exit code and the retired addresses (the full list is in
    `assembled_pipe_equals_single_cycle`). -/
theorem assembled_pipe_equals_single_cycle_power_on (text : String) (h : (load freshSt text).err = none)
    (hsup : AllSupported (load freshSt text).st.imem.prog) (n : Nat)
    (hr : runOK n (PSt.init (load freshSt text).st true))
    (hd : isDone (pipeRun n (PSt.init (load freshSt text).st true)) = true)
    (hprev : ∀ m, m < n → isDone (pipeRun m (PSt.init (load freshSt text).st true)) = false) :
    ∃ k, k ≤ n ∧ singleDone (singleRun k (load freshSt text).st) = true ∧
      (∀ j, j < k → (singleStep (singleRun j (load freshSt text).st)).fault = none ∧
        singleDone (singleRun j (load freshSt text).st) = false) ∧
      (pipeRun n (PSt.init (load freshSt text).st true)).st.regs = (singleRun k (load freshSt text).st).regs ∧
      (pipeRun n (PSt.init (load freshSt text).st true)).st.mem = (singleRun k (load freshSt text).st).mem ∧
      (pipeRun n (PSt.init (load freshSt text).st true)).st.output = (singleRun k (load freshSt text).st).output ∧
      (pipeRun n (PSt.init (load freshSt text).st true)).st.exitCode =
        (singleRun k (load freshSt text).st).exitCode ∧
      retireLog n (PSt.init (load freshSt text).st true) = singleTrace k (load freshSt text).st := by
  obtain ⟨k, hk, h1, h2, h3, h4, h5, h6, _, _, _, _, h7⟩ :=
    assembled_pipe_equals_single_cycle freshSt text freshSt_ok rfl rfl h hsup n hr hd hprev
  exact ⟨k, hk, h2, h1, h3, h4, h5, h6, h7⟩

/-- END TO END, termination: if single-cycle mode on the loaded program, after `kstar` fault-free steps, is done
    or faults in its next step, five-stage mode has faulted or is done after at most `5 * (kstar + 2)` cycles. -/
theorem assembled_pipe_terminates (s : St) (text : String) (hs : ArchSim.Lemmas.C01.StOK s)
    (hc : s.imem.cache = none) (h : (load s text).err = none)
    (hsup : AllSupported (load s text).st.imem.prog) (kstar : Nat)
    (hnf : ∀ j, j < kstar → (singleStep (singleRun j (load s text).st)).fault = none)
    (hh : singleDone (singleRun kstar (load s text).st) = true ∨
      (singleStep (singleRun kstar (load s text).st)).fault.isSome = true) :
    ∃ N, N ≤ 5 * (kstar + 2) ∧
      (¬ runOK N (PSt.init (load s text).st true) ∨ isDone (pipeRun N (PSt.init (load s text).st true)) = true) :=
  ArchSim.Props.C02Main.pipe_terminates_when_single_does _ (load_progWF_pipe s text h hsup) _
    (load_sok s text hs hc) kstar hnf hh

/-- END TO END, fault agreement: if cycle `n + 1` of five-stage mode on the loaded program is the first to
    report a fault, single-cycle mode reports the same fault for the instruction at the same address after
    `k ≤ n` fault-free steps, with the same registers and output at that point. -/
theorem assembled_fault_agrees (s : St) (text : String) (hs : ArchSim.Lemmas.C01.StOK s)
    (hc : s.imem.cache = none) (h : (load s text).err = none)
    (hsup : AllSupported (load s text).st.imem.prog) (n : Nat)
    (hr : runOK n (PSt.init (load s text).st true)) (ft : PFault)
    (hft : (step (pipeRun n (PSt.init (load s text).st true))).fault = some ft) :
    ∃ k, k ≤ n ∧ (∀ j, j < k → (singleStep (singleRun j (load s text).st)).fault = none) ∧
      (singleStep (singleRun k (load s text).st)).fault = some (ft.addr, ft.fault) ∧
      (singleRun k (load s text).st).pc = ft.addr ∧
      (step (pipeRun n (PSt.init (load s text).st true))).p.st.regs = (singleRun k (load s text).st).regs ∧
      (step (pipeRun n (PSt.init (load s text).st true))).p.st.output = (singleRun k (load s text).st).output :=
  ArchSim.Props.C02Main.fault_agrees_single_cycle _ (load_progWF_pipe s text h hsup) _
    (load_sok s text hs hc) n hr ft hft

/-! ### non-vacuity (the example text `asmText` of `Lemmas/E2EEx.lean`: a `.data` variable, the pseudo-instruction
`li`, a branch to an in-line label; see `Props/C04Asm.lean`) -/

section
open ArchSim.Lemmas.E2E.Ex

/-- Hypotheses of `assembled_pipe_equals_single_cycle_power_on` for the example text: it loads, its program is in
    the supported set, and the five-stage loop runs 14 fault-free cycles and is done exactly then (a load-use
    stall after `lw`, a flush after the taken `beq`). -/
example : (load freshSt asmText).err = none ∧ AllSupported (load freshSt asmText).st.imem.prog ∧
    runOK 14 (PSt.init (load freshSt asmText).st true) ∧
    isDone (pipeRun 14 (PSt.init (load freshSt asmText).st true)) = true ∧
    (∀ m, m < 14 → isDone (pipeRun m (PSt.init (load freshSt asmText).st true)) = false) := by
  refine ⟨load_asmText.1, asmText_supported, ?_⟩
  rw [load_asmText_st]; decide

/-- What the two modes compute on the assembled example: exit code 7 (the `.data` variable) in both, five
    instructions retired / executed at the same addresses — the `li a0, 0` at address 16 is squashed / skipped. -/
example : (pipeRun 14 (PSt.init (load freshSt asmText).st true)).st.exitCode = some 7 ∧
    singleDone (singleRun 5 (load freshSt asmText).st) = true ∧
    (singleRun 5 (load freshSt asmText).st).exitCode = some 7 ∧
    retireLog 14 (PSt.init (load freshSt asmText).st true) = [0, 4, 8, 12, 20] ∧
    singleTrace 5 (load freshSt asmText).st = [0, 4, 8, 12, 20] := by
  rw [load_asmText_st]; decide

/-- Hypotheses of `assembled_pipe_terminates` for the example (`kstar = 5`). -/
example : (∀ j, j < 5 → (singleStep (singleRun j (load freshSt asmText).st)).fault = none) ∧
    singleDone (singleRun 5 (load freshSt asmText).st) = true := by
  rw [load_asmText_st]; decide

end

end ArchSim.Props.C02Asm
