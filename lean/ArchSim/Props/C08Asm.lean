/-
C08, end to end: for EVERY source text the assembler accepts (without CSR instructions, `fence`, `ebreak`) whose stored
program is hazard-free, the five-stage pipeline WITHOUT hazard detection computes what single-cycle mode computes;
and the source-level padding clause: inserting two `nop` lines behind every instruction line of a text makes the
stored program the padding `pad` of the original program, hence hazard-free.
No `ProgWF` / `SOK` hypothesis is left (`C04Asm.loaded_program_wf`, `loaded_state_ok`); what remains are the
hypotheses about the RUN and the decidable condition `HazardFree` on the stored program.

Property theorems only (plus non-vacuity examples); helper lemmas: `ArchSim/Lemmas/E2E2*.lean`.
`HazardFree prog`: no instruction reads a non-x0 register written by one of the two before it (decidable);
`pad prog`: two `addi x0,x0,0` behind every instruction; `NoIdStall p`: no decode stall is in progress;
`pipeRun`, `runOK`, `isDone`, `retireLog`, `singleRun`, `singleTrace` as in `Props/C08Main.lean`.
-/
import ArchSim.Props.C08Main
import ArchSim.Props.C04Asm
import ArchSim.Lemmas.E2E2Ex
import ArchSim.Lemmas.E2E2PadEx

namespace ArchSim.Props.C08Asm
open ArchSim ArchSim.Rv ArchSim.Asm ArchSim.Pipe ArchSim.Lemmas.C07 ArchSim.Lemmas.C08
open ArchSim.Lemmas.E2E ArchSim.Lemmas.E2E2

/-- END TO END (C08 main theorem). Load an accepted text without CSR / fence / ebreak into a state `s` satisfying
    `StOK`, without instruction cache, not exited (e.g. the power-on state). If the stored program is hazard-free and
    the five-stage loop with hazard detection OFF (`hzf = false`; the statement holds for either flag) stops after
    `n` cycles without a fault, then single-cycle mode from the same loaded state stops after `k ≤ n` fault-free
    steps with the same registers, data memory, output, exit code, instruction / branch / procedure counts and pc,
    and the five-stage retire order is the single-cycle execution order. -/
theorem assembled_hazard_free_equals_single_cycle (s : St) (text : String) (hs : ArchSim.Lemmas.C01.StOK s)
    (hc : s.imem.cache = none) (hx : s.exitCode = none) (h : (load s text).err = none)
    (hsup : AllSupported (load s text).st.imem.prog) (hfree : HazardFree (load s text).st.imem.prog)
    (hzf : Bool) (n : Nat) (hr : runOK n (PSt.init (load s text).st hzf))
    (hd : isDone (pipeRun n (PSt.init (load s text).st hzf)) = true)
    (hprev : ∀ m, m < n → isDone (pipeRun m (PSt.init (load s text).st hzf)) = false) :
    ∃ k, k ≤ n ∧
      (∀ j, j < k → (singleStep (singleRun j (load s text).st)).fault = none ∧
        singleDone (singleRun j (load s text).st) = false) ∧
      singleDone (singleRun k (load s text).st) = true ∧
      (pipeRun n (PSt.init (load s text).st hzf)).st.regs = (singleRun k (load s text).st).regs ∧
      (pipeRun n (PSt.init (load s text).st hzf)).st.mem = (singleRun k (load s text).st).mem ∧
      (pipeRun n (PSt.init (load s text).st hzf)).st.output = (singleRun k (load s text).st).output ∧
      (pipeRun n (PSt.init (load s text).st hzf)).st.exitCode = (singleRun k (load s text).st).exitCode ∧
      (pipeRun n (PSt.init (load s text).st hzf)).st.instrs = (singleRun k (load s text).st).instrs ∧
      (pipeRun n (PSt.init (load s text).st hzf)).st.branches = (singleRun k (load s text).st).branches ∧
      (pipeRun n (PSt.init (load s text).st hzf)).st.procs = (singleRun k (load s text).st).procs ∧
      (pipeRun n (PSt.init (load s text).st hzf)).st.pc = (singleRun k (load s text).st).pc ∧
      retireLog n (PSt.init (load s text).st hzf) = singleTrace k (load s text).st :=
  ArchSim.Props.C08Main.hazard_free_equals_single_cycle _ (load_progWF_pipe s text h hsup) hfree _
    (load_sok s text hs hc) hzf (by rw [load_exitCode]; exact hx) n hr hd hprev

/-- END TO END, termination: if single-cycle mode on the loaded hazard-free program, after `kstar` fault-free steps,
    is done or faults in its next step, five-stage mode (detection off or on) has faulted or is done after at most
    `5 * (kstar + 2)` cycles. -/
theorem assembled_hazard_free_terminates (s : St) (text : String) (hs : ArchSim.Lemmas.C01.StOK s)
    (hc : s.imem.cache = none) (h : (load s text).err = none)
    (hsup : AllSupported (load s text).st.imem.prog) (hfree : HazardFree (load s text).st.imem.prog)
    (hzf : Bool) (kstar : Nat)
    (hnf : ∀ j, j < kstar → (singleStep (singleRun j (load s text).st)).fault = none)
    (hh : singleDone (singleRun kstar (load s text).st) = true ∨
      (singleStep (singleRun kstar (load s text).st)).fault.isSome = true) :
    ∃ N, N ≤ 5 * (kstar + 2) ∧
      (¬ runOK N (PSt.init (load s text).st hzf) ∨ isDone (pipeRun N (PSt.init (load s text).st hzf)) = true) :=
  ArchSim.Props.C08Main.hazard_free_terminates _ (load_progWF_pipe s text h hsup) hfree _
    (load_sok s text hs hc) hzf kstar hnf hh

/-- END TO END, fault agreement: if cycle `n + 1` of the five-stage run (detection off or on) of the loaded
    hazard-free program is the first to report a fault, single-cycle mode reports the same fault for the
    instruction at the same address after `k ≤ n` fault-free steps, with the same registers and output. -/
theorem assembled_hazard_free_fault_agrees (s : St) (text : String) (hs : ArchSim.Lemmas.C01.StOK s)
    (hc : s.imem.cache = none) (h : (load s text).err = none)
    (hsup : AllSupported (load s text).st.imem.prog) (hfree : HazardFree (load s text).st.imem.prog)
    (hzf : Bool) (n : Nat) (hr : runOK n (PSt.init (load s text).st hzf)) (ft : PFault)
    (hft : (step (pipeRun n (PSt.init (load s text).st hzf))).fault = some ft) :
    ∃ k, k ≤ n ∧ (∀ j, j < k → (singleStep (singleRun j (load s text).st)).fault = none) ∧
      (singleStep (singleRun k (load s text).st)).fault = some (ft.addr, ft.fault) ∧
      (singleRun k (load s text).st).pc = ft.addr ∧
      (step (pipeRun n (PSt.init (load s text).st hzf))).p.st.regs = (singleRun k (load s text).st).regs ∧
      (step (pipeRun n (PSt.init (load s text).st hzf))).p.st.output = (singleRun k (load s text).st).output :=
  ArchSim.Props.C08Main.hazard_free_fault_agrees _ (load_progWF_pipe s text h hsup) hfree _
    (load_sok s text hs hc) hzf n hr ft hft

/-- NO DECODE STALL, end to end. Load ANY text (accepted or not, any instruction) into ANY state (any caches) and
    run the five-stage pipeline with hazard detection off for ANY number `n` of cycles, faulting or not: no decode
    stall is ever in progress, the detection flag stays off, and the `stalls` counter moves only in the cycles in
    which EX raises its stall signal — an ecall drain (`C08.stalls_count_ex_only`). -/
theorem assembled_no_id_stall_run (s : St) (text : String) (n : Nat) :
    NoIdStall (pipeRun n (PSt.init (load s text).st false)) ∧
    (pipeRun n (PSt.init (load s text).st false)).hazard = false ∧
    (pipeRun (n + 1) (PSt.init (load s text).st false)).st.stalls =
      (pipeRun n (PSt.init (load s text).st false)).st.stalls +
        (if (step (pipeRun n (PSt.init (load s text).st false))).fault = none ∧
            (pipeRun n (PSt.init (load s text).st false)).stalled = none ∧
            latchStall (exO (pipeRun n (PSt.init (load s text).st false))).latch = true then 1 else 0) := by
  obtain ⟨h1, h2⟩ := ArchSim.Props.C08.no_id_stall_run (load s text).st n
  have e : iter (fun p => (step p).p) n (PSt.init (load s text).st false) =
      pipeRun n (PSt.init (load s text).st false) := (pipeRun_eq_iter n _).symm
  rw [e] at h1 h2
  exact ⟨h1, h2, ArchSim.Props.C08.stalls_count_ex_only _ h2 h1⟩

/-! ### F. padding at the source level

`padText t`: the text `t` with two lines `nop` inserted behind every line that is not blank and not a comment line
(comments, blank lines and indentation of the original lines are kept; `Lemmas/E2E2Pad.lean`).
`AllSimple t` (decidable): every line of `t` is SIMPLE — tokenized without label into an instruction whose object depends
neither on its address nor on the label table and that is ONE instruction: R / I / shift / U instructions, loads,
stores and branches with NUMERIC operands, CSR forms, `fence`, `ecall`, `ebreak`, `nop`, `mv`, and `li` with a 12-bit
constant. Excluded — and each exclusion is necessary, see `padding_class_is_sharp`: label operands and the absolute
numeric target of `jal` (address dependent), `li` with a large constant and the variable pseudo-instructions `la`, `lw
rd, var`, … (several instructions: `pad` would put nops between them), declarations, directives and label lines. -/

/-- PADDING CLAUSE AT THE SOURCE. Let every line of `t` be simple, let `t` load into `s` (any state), and let the padded
    program fit the instruction memory (`3 n ≤ 4096`). Then `padText t` loads too, and loading it gives exactly the
    state loading `t` gives with the stored program replaced by `pad` of it: two `addi x0,x0,0` behind every
    instruction. Hence the stored program of the padded text is hazard-free. -/
theorem padded_text_loads_pad (s : St) (t : String) (hsimple : AllSimple t) (h : (load s t).err = none)
    (hfit : 3 * (load s t).st.imem.prog.length ≤ 4096) :
    (load s (padText t)).err = none ∧
    (load s (padText t)).st.imem.prog = pad (load s t).st.imem.prog ∧
    (load s (padText t)).st =
      { (load s t).st with imem := { (load s t).st.imem with prog := pad (load s t).st.imem.prog } } ∧
    HazardFree (load s (padText t)).st.imem.prog := by
  obtain ⟨hp, _⟩ := load_simple_prog s t hsimple h
  obtain ⟨_, _, h3, h4⟩ := load_padText s t hsimple (by rw [← hp]; exact hfit)
  have h5 : (load s (padText t)).st.imem.prog = pad (load s t).st.imem.prog := by rw [h4]
  exact ⟨h3, h5, h4, by rw [h5]; exact ArchSim.Props.C08.pad_hazard_free _⟩

/-- PADDED TEXT = SINGLE-CYCLE, END TO END. Let `s` satisfy `StOK`, have no instruction cache and not have exited; let
    every line of `t` be simple, `t` load, contain no CSR instruction / `fence` / `ebreak`, and its padding fit. Then
    the five-stage pipeline WITHOUT hazard detection on the program of `padText t` — if its loop stops after `n`
    cycles without a fault — ends with the registers, data memory, output and exit code of single-cycle mode on that
    same padded program, after `k ≤ n` steps. No hypothesis on hazards is left: the padding removes them. -/
theorem padded_text_equals_single_cycle (s : St) (t : String) (hs : ArchSim.Lemmas.C01.StOK s)
    (hc : s.imem.cache = none) (hx : s.exitCode = none) (hsimple : AllSimple t) (h : (load s t).err = none)
    (hsup : AllSupported (load s t).st.imem.prog) (hfit : 3 * (load s t).st.imem.prog.length ≤ 4096)
    (n : Nat) (hr : runOK n (PSt.init (load s (padText t)).st false))
    (hd : isDone (pipeRun n (PSt.init (load s (padText t)).st false)) = true)
    (hprev : ∀ m, m < n → isDone (pipeRun m (PSt.init (load s (padText t)).st false)) = false) :
    ∃ k, k ≤ n ∧ singleDone (singleRun k (load s (padText t)).st) = true ∧
      (pipeRun n (PSt.init (load s (padText t)).st false)).st.regs = (singleRun k (load s (padText t)).st).regs ∧
      (pipeRun n (PSt.init (load s (padText t)).st false)).st.mem = (singleRun k (load s (padText t)).st).mem ∧
      (pipeRun n (PSt.init (load s (padText t)).st false)).st.output =
        (singleRun k (load s (padText t)).st).output ∧
      (pipeRun n (PSt.init (load s (padText t)).st false)).st.exitCode =
        (singleRun k (load s (padText t)).st).exitCode ∧
      retireLog n (PSt.init (load s (padText t)).st false) = singleTrace k (load s (padText t)).st := by
  obtain ⟨h1, h2, _, h4⟩ := padded_text_loads_pad s t hsimple h hfit
  have hsup' : AllSupported (load s (padText t)).st.imem.prog := by rw [h2]; exact pad_supported hsup
  obtain ⟨k, hk, _, e1, e2, e3, e4, e5, _, _, _, _, e6⟩ :=
    assembled_hazard_free_equals_single_cycle s (padText t) hs hc hx h1 hsup' h4 false n hr hd hprev
  exact ⟨k, hk, e1, e2, e3, e4, e5, e6⟩

/-- THE CLASS IS SHARP: BRANCHES TO LABELS AND NUMERIC `jal` TARGETS. For a text with a branch to a label, and for a text
    with a `jal` whose operand is a number, both the text and its padding load, but the program of the padded text is
    NOT `pad` of the program: the assembler re-resolves the label (displacement 12 instead of 4 — the padded text is
    the semantically right padding, `pad` is not), and a numeric `jal` operand is an absolute address, so its
    displacement depends on where the instruction ends up (-4 instead of 4). -/
theorem padding_class_is_sharp :
    (∃ t, (load freshSt t).err = none ∧ (load freshSt (padText t)).err = none ∧
      (load freshSt t).st.imem.prog = [{ op := .beq, imm := 4 }, { op := .ecall }] ∧
      (load freshSt (padText t)).st.imem.prog = [{ op := .beq, imm := 12 }, nop, nop, { op := .ecall }, nop, nop] ∧
      (load freshSt (padText t)).st.imem.prog ≠ pad (load freshSt t).st.imem.prog) ∧
    (∃ t, (load freshSt t).err = none ∧ (load freshSt (padText t)).err = none ∧
      (load freshSt t).st.imem.prog = [{ op := .ecall }, { op := .jal, rd := 1, imm := 4, aux := 8 }] ∧
      (load freshSt (padText t)).st.imem.prog =
        [{ op := .ecall }, nop, nop, { op := .jal, rd := 1, imm := -4, aux := 8 }, nop, nop] ∧
      (load freshSt (padText t)).st.imem.prog ≠ pad (load freshSt t).st.imem.prog) := by
  open ArchSim.Lemmas.E2E2.Ex in
  refine ⟨⟨brText, load_brText.1, load_pad_brText.1, load_brText.2, load_pad_brText.2, ?_⟩,
    ⟨jalText, load_jalText.1, load_pad_jalText.1, load_jalText.2, load_pad_jalText.2, ?_⟩⟩
  · rw [load_pad_brText.2, load_brText.2]; decide
  · rw [load_pad_jalText.2, load_jalText.2]; decide

/-- … AND MULTI-INSTRUCTION PSEUDO-INSTRUCTIONS. `li` with a constant outside 12 bits expands to `lui` + `addi`, the
    variable forms to two or three instructions: `pad` of the program separates them by nops, the padded text does
    not. (Stated on the expansion pass: one source line, two entries.) -/
theorem padding_class_excludes_long_pseudo (vars : Vars) (k : Nat) (line : String) :
    expandOne vars (k, line, .grp (.li 10 5000)) =
      .ok [(k, line, .grp (.utype "lui" 10 1)), (k, line, .grp (.rri "addi" 10 10 904))] ∧
    itemInstr (.grp (.li 10 5000)) = none ∧ itemInstr (.grp (.li 10 5)) = some { op := .addi, rd := 10, imm := 5 } :=
  ⟨by rfl, by decide, by decide⟩

/-! ### non-vacuity (the text `hazText` of `Lemmas/E2E2PadEx.lean`: its `lw` reads the register the `lui` right before it
writes) -/

section
open ArchSim.Lemmas.E2E2.Ex

example : hazText = "lui t0, 4\nlw a0, 0(t0)\nli a7, 93" ∧
    padText hazText = "lui t0, 4\nnop\nnop\nlw a0, 0(t0)\nnop\nnop\nli a7, 93\nnop\nnop" := ⟨rfl, padText_hazText⟩

/-- Hypotheses of `padded_text_loads_pad` / `padded_text_equals_single_cycle` for `hazText` in the power-on state: simple
    lines (abi register names and the pseudo-instruction `li` included), it loads, supported, fits. -/
example : AllSimple hazText ∧ (load freshSt hazText).err = none ∧
    (load freshSt hazText).st.imem.prog = hazProg ∧ AllSupported (load freshSt hazText).st.imem.prog ∧
    3 * (load freshSt hazText).st.imem.prog.length ≤ 4096 := by
  obtain ⟨h1, h2, _⟩ := load_padText freshSt hazText hazText_simple (by rw [lineInstrs_hazText]; decide)
  rw [lineInstrs_hazText] at h2
  refine ⟨hazText_simple, h1, h2, ?_, ?_⟩ <;> rw [h2] <;> decide

/-- The original program is NOT hazard-free, and without detection its `lw` reads the stale `t0 = 0` and faults. -/
example : ¬ HazardFree (load freshSt hazText).st.imem.prog ∧
    (step (pipeRun 4 (PSt.init (load freshSt hazText).st false))).fault =
      some ⟨4, { op := .lw, rd := 10, rs1 := 5, imm := 0 }, .mem (.addr 0)⟩ := by
  rw [load_hazText_st]; decide

/-- Hypotheses of `assembled_hazard_free_equals_single_cycle` (detection off) for the PADDED text: it loads, is
    supported and hazard-free; the loop runs 13 fault-free cycles (9 instructions + 4) and is done exactly then; the
    `lw` now reads `t0 = 0x4000`. -/
example : (load freshSt (padText hazText)).err = none ∧
    AllSupported (load freshSt (padText hazText)).st.imem.prog ∧
    HazardFree (load freshSt (padText hazText)).st.imem.prog ∧
    runOK 13 (PSt.init (load freshSt (padText hazText)).st false) ∧
    isDone (pipeRun 13 (PSt.init (load freshSt (padText hazText)).st false)) = true ∧
    (∀ m, m < 13 → isDone (pipeRun m (PSt.init (load freshSt (padText hazText)).st false)) = false) ∧
    (pipeRun 13 (PSt.init (load freshSt (padText hazText)).st false)).st.regs 5 = 16384 ∧
    (pipeRun 13 (PSt.init (load freshSt (padText hazText)).st false)).st.stalls = 0 := by
  refine ⟨(load_padText freshSt hazText hazText_simple (by rw [lineInstrs_hazText]; decide)).2.2.1, ?_⟩
  rw [load_pad_hazText_st]; decide

/-- Hypotheses of `assembled_hazard_free_terminates` for the padded text (`kstar = 9`: single-cycle mode is done). -/
example : (∀ j, j < 9 → (singleStep (singleRun j (load freshSt (padText hazText)).st)).fault = none) ∧
    singleDone (singleRun 9 (load freshSt (padText hazText)).st) = true := by
  rw [load_pad_hazText_st]; decide

/-- Hypotheses of `assembled_hazard_free_fault_agrees` for `faultText` (`addi x2, x0, 1 ; lw x1, 0(x0)`, hazard-free,
    the load reads below the data range): four fault-free cycles without detection, the fifth raises for the `lw`. -/
example : (load freshSt faultText).err = none ∧ AllSupported (load freshSt faultText).st.imem.prog ∧
    HazardFree (load freshSt faultText).st.imem.prog ∧
    runOK 4 (PSt.init (load freshSt faultText).st false) ∧
    (step (pipeRun 4 (PSt.init (load freshSt faultText).st false))).fault =
      some ⟨4, { op := .lw, rd := 1, rs1 := 0, imm := 0 }, .mem (.addr 0)⟩ := by
  refine ⟨(listing_loads freshSt faultProg (by decide) (by decide)).1, ?_⟩
  rw [load_faultText_st]; decide

end

end ArchSim.Props.C08Asm
