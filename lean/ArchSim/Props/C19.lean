/-
C19 — TOY instruction words (`encode`/`decode` round trips) and the TOY assembler
(`ToyAsm.load`, the model of `ToyParser.parse` + `ToySimulation.load_program`):
instruction placement, data placement, label resolution, segment order, numerals, examples.
Property theorems only; the lemmas are in `ArchSim/Lemmas/ToyAsm*.lean`.

The assembler theorems are stated for *tokenised* programs (`List Entry`, one entry
`(line number, line, tokens)` per non-empty source line): `loadToks t toks` is `load` after
`tokenize (sanitize text)` succeeded (`load_tokenised`).  `segData / segText / codeLabels /
allLabels / instrsOf` are the results of the passes (`segment`, `processLabels`, `writeData`,
`buildInstrs`); `instrCount l` counts the instruction lines of `l`, `dataSize l` the data words
declared in `l`.
-/
import ArchSim.Model.Toy
import ArchSim.Lemmas.ToyAsmMain
import ArchSim.Lemmas.ToyAsmFront
import ArchSim.Lemmas.ToyAsmExamples

namespace ArchSim.Props.C19
open ArchSim ArchSim.Toy ArchSim.ToyAsm ArchSim.PP

/-- Every TOY instruction (opcode 0..12, 12-bit address section) encodes to a 16-bit word whose top
    four bits are the opcode and whose low twelve bits are the address, and that word decodes back
    to the very same instruction (opcode *and* address section, also for the address-less ones). -/
theorem decode_encode (i : TInstr) (hop : i.opcode ≤ 12) (haddr : i.addr < 4096) :
    decode (encode i) = i ∧ encode i < 65536 ∧ encode i / 4096 = i.opcode ∧ encode i % 4096 = i.addr := by
  obtain ⟨op, a⟩ := i
  simp only [encode, decode] at *
  refine ⟨?_, by omega, by omega, by omega⟩
  have h1 : (op * 4096 + a) / 4096 % 16 = op := by omega
  have h2 : (op * 4096 + a) % 4096 = a := by omega
  simp only [h1, h2]
  by_cases h : op ≤ 11
  · simp [h]
  · have : op = 12 := by omega
    simp [this]

/-- Every 16-bit word decodes to the instruction its top four bits denote, with the low twelve
    bits as address section: for opcodes 0..12 re-encoding gives the word back (so decoding is
    injective there and the decoded opcode is exactly `w / 4096`); the words with opcode 13, 14, 15
    decode to `NOP` (opcode 12) with the address section kept. -/
theorem encode_decode (w : Nat) (hw : w < 65536) :
    (decode w).opcode ≤ 12 ∧ (decode w).addr = w % 4096 ∧
    (w / 4096 ≤ 12 → encode (decode w) = w ∧ (decode w).opcode = w / 4096) ∧
    (12 < w / 4096 → decode w = ⟨12, w % 4096⟩) := by
  simp only [encode, decode]
  have h1 : w / 4096 % 16 = w / 4096 := by omega
  simp only [h1]
  refine ⟨by split <;> omega, trivial, ?_, ?_⟩
  · intro h; split <;> omega
  · intro h
    have : ¬ w / 4096 ≤ 11 := by omega
    simp [this]

/-- Decoding ignores everything above bit 15 (the Python code masks with `0xF` / `0xFFF`), so the
    two statements above cover `decode` on all naturals. -/
theorem decode_mod (w : Nat) : decode (w % 65536) = decode w := by
  simp only [decode]
  have h1 : w % 65536 / 4096 % 16 = w / 4096 % 16 := by omega
  have h2 : w % 65536 % 4096 = w % 4096 := by omega
  simp only [h1, h2]

/-- Non-vacuity: `ADD 0x123` is the word `0x3123`, and `0xF00A` (opcode 15) decodes to `NOP` with
    address section `0x00A`. -/
example : encode ⟨3, 0x123⟩ = 0x3123 ∧ decode 0x3123 = ⟨3, 0x123⟩ ∧ decode 0xF00A = ⟨12, 0x00A⟩ := by
  decide


/-! ## The assembler -/

/-- `load` is: tokenise the sanitised text; on a syntax error return the fresh state and the error;
    otherwise run the remaining passes (`loadToks`) on the token list. The token list of a text has
    pairwise distinct (strictly increasing) line numbers. -/
theorem load_tokenised (t : TSim) (text : String) :
    (load t text =
      match tokenize (sanitize text) with
      | .error e => ({ t with s := {} }, some e)
      | .ok toks => loadToks t toks) ∧
    ∀ toks, tokenize (sanitize text) = .ok toks → (toks.map (·.1)).Nodup :=
  ⟨load_eq_loadToks t text, fun toks h => tokenize_sanitize_nodup text toks h⟩

/-- **Instruction placement.** If loading succeeds then every pass succeeded, and with `is` the
    instruction list built from the text segment (one instruction per instruction line):
    the memory holds `encode is[i]` at address `i` for every `i < is.length`; code and data do not
    overlap (`is.length + number of data words ≤ 4096`, all data addresses are
    `≥ 4096 − dataSize ≥ is.length`) and every cell in between is zero; `maxPc = is.length − 1`;
    the pre-loaded instruction is `is[0]` (none for an empty program); `pc = 1`, `accu = 0` and the
    counters are 0 as in a fresh state; `nextCycle` and `started` are inherited from `t`. -/
theorem instr_placement (t : TSim) (toks : List Entry) (h : (loadToks t toks).2 = none) :
    segment toks = .ok (segData toks, segText toks) ∧
    processLabels toks [] 0 = .ok (codeLabels toks) ∧
    buildInstrs (segText toks) (allLabels toks) = .ok (instrsOf toks) ∧
    (instrsOf toks).length = instrCount (segText toks) ∧
    (∀ (i : Nat) (hi : i < (instrsOf toks).length),
      (loadToks t toks).1.s.mem.cells (i : Int) = encode (instrsOf toks)[i] % 65536) ∧
    (instrsOf toks).length + dataSize (segData toks) ≤ 4096 ∧
    (∀ x : Int, ((instrsOf toks).length : Int) ≤ x → x < 4096 - dataSize (segData toks) →
      (loadToks t toks).1.s.mem.cells x = 0) ∧
    (loadToks t toks).1.s.maxPc = some (((instrsOf toks).length : Int) - 1) ∧
    (loadToks t toks).1.s.loaded = (instrsOf toks)[0]? ∧
    (loadToks t toks).1.s.pc = 1 ∧ (loadToks t toks).1.s.accu = 0 ∧
    (loadToks t toks).1.s.cycles = 0 ∧ (loadToks t toks).1.s.instrs = 0 ∧
    (loadToks t toks).1.s.branches = 0 ∧
    (loadToks t toks).1.nextCycle = t.nextCycle ∧ (loadToks t toks).1.started = t.started := by
  have hok := loadToks_ok t toks h
  obtain ⟨f1, f2, f3, f4, f5, f6, f7, f8, f9⟩ := hok.fields
  exact ⟨hok.seg, hok.labels, hok.build, hok.buildSpec.length, hok.instr_cell, hok.size,
    hok.gap_cell, f1, f2, f3, f4, f5, f6, f7, f8, f9⟩

/-- The instruction words are proper: every instruction object built has an opcode in 0..12 and a
    12-bit address section, so the cell at address `i` is exactly `encode is[i]` (no truncation) and
    decodes back to `is[i]` — the link to the encoding half of this property. -/
theorem instr_words_decode (t : TSim) (toks : List Entry) (h : (loadToks t toks).2 = none) :
    (∀ i ∈ instrsOf toks, i.opcode ≤ 12 ∧ i.addr < 4096) ∧
    ∀ (i : Nat) (hi : i < (instrsOf toks).length),
      (loadToks t toks).1.s.mem.cells (i : Int) = encode (instrsOf toks)[i] ∧
      decode ((loadToks t toks).1.s.mem.cells (i : Int)) = (instrsOf toks)[i] :=
  ⟨buildInstrs_wf _ _ _ (loadToks_ok t toks h).build, (loadToks_ok t toks h).instr_word⟩

/-- The state a successful load produces is exactly the `Toy.loadImage` of the instruction list and
    the data words (so every theorem about `loadImage` — boundary invariant, refinement of the
    reference machine, C06 — applies to assembled programs). -/
theorem load_is_loadImage (t : TSim) (toks : List Entry) (h : (loadToks t toks).2 = none) :
    (loadToks t toks).1 = Toy.loadImage t (instrsOf toks) (dataWords 4095 (segData toks)) :=
  (loadToks_ok t toks h).image

/-- **Data placement, the recurrence.** One step of `writeData` on a variable declaration whose
    name is new and whose block fits: the block of `vals.length` words is put directly below the
    words placed so far (`last` is the highest address not yet used, initially 4095), the values
    are written ascending from the block's first address `last − len + 1`, and the name is bound to
    that address. -/
theorem data_placement_step (k : Nat) (line name : String) (vals : List String) (rest : List Entry)
    (o : DataOut) (hfit : 0 ≤ o.last - vals.length + 1) (hnew : lookup o.labels name = none) :
    writeData ((k, line, .varDecl name vals) :: rest) o =
      writeData rest { o with mem := writeVals o.mem (o.last - vals.length + 1) vals,
                              labels := o.labels ++ [(name, o.last - vals.length + 1)],
                              last := o.last - vals.length } :=
  writeData_cons_var k line name vals rest o hfit hnew

/-- **Data placement, closed form.** If the data pass over `data` succeeds (starting from any
    record `o` over the TOY memory with `last ≤ 4095`) then every line of `data` is a variable
    declaration, `last` went down by the total number of words, and variable number `j`
    (declaration order) with values `vals` got the address
    `a = o.last + 1 − Σ_{i ≤ j} len_i`: its name was new, the final table maps it to `a`, and
    element `e` of the array is at `a + e` with value `valueToInt vals[e] mod 2^16`.  Cells outside
    the data block are untouched and old bindings are kept. -/
theorem data_placement (data : List Entry) (o : DataOut) (hc : o.mem.cfg = Mem.toyCfg)
    (hl : o.last ≤ 4095) (h : (writeData data o).err = none) :
    (∀ e ∈ data, isVarDecl e.2.2 = true) ∧
    (writeData data o).last = o.last - dataSize data ∧
    (∀ (j k : Nat) (line name : String) (vals : List String),
      data[j]? = some (k, line, .varDecl name vals) →
      lookup o.labels name = none ∧
      lookup (writeData data o).labels name = some (o.last + 1 - dataSize (data.take (j + 1))) ∧
      ∀ (e : Nat) (he : e < vals.length),
        (writeData data o).mem.cells (o.last + 1 - dataSize (data.take (j + 1)) + e) =
          valueToInt vals[e] % 65536) ∧
    (∀ x : Int, ¬ ((writeData data o).last < x ∧ x ≤ o.last) →
      (writeData data o).mem.cells x = o.mem.cells x) ∧
    (∀ n x, lookup o.labels n = some x → lookup (writeData data o).labels n = some x) := by
  have sp := writeData_spec data o hc hl h
  exact ⟨sp.allVar, sp.last, sp.var, sp.frame, sp.keep⟩

/-- **Data placement in the loaded program.** After a successful load, variable number `j` of the
    data segment has the address `a = 4096 − Σ_{i ≤ j} len_i` — the first variable ends at 4095, each
    further one lies directly below its predecessor —, `a` is above the code, the final label table
    maps the variable's name to `a`, and the memory of the loaded state holds
    `valueToInt vals[e] mod 2^16` at `a + e` (array elements ascending). -/
theorem data_placement_load (t : TSim) (toks : List Entry) (h : (loadToks t toks).2 = none)
    (j k : Nat) (line name : String) (vals : List String)
    (hj : (segData toks)[j]? = some (k, line, .varDecl name vals)) :
    ((instrsOf toks).length : Int) ≤ 4096 - dataSize ((segData toks).take (j + 1)) ∧
    lookup (allLabels toks) name = some (4096 - dataSize ((segData toks).take (j + 1)) : Int) ∧
    ∀ (e : Nat) (he : e < vals.length),
      (loadToks t toks).1.s.mem.cells (4096 - dataSize ((segData toks).take (j + 1)) + e) =
        valueToInt vals[e] % 65536 :=
  (loadToks_ok t toks h).var j k line name vals hj

/-- **Labels.** After a successful load: (1) a stand-alone label or in-line label declared on
    entry `j` of the WHOLE token list is bound, in the final table, to the number of instruction
    lines strictly before entry `j`; (2) the data segment consists of variable declarations only
    (no instructions, no labels); (3) instruction line `j` of the text segment is instruction
    number `instrCount (text.take j)` of the program, its opcode is that of the mnemonic, and for an
    address-type mnemonic (opcode ≤ 7) a numeric operand `v` gives the address section
    `valueToInt v mod 4096` while a name `r` gives `x mod 4096` where `x` is what the final label
    table (labels and variables) binds `r` to; the other instructions get address section 0. -/
theorem labels_resolve (t : TSim) (toks : List Entry) (h : (loadToks t toks).2 = none) :
    (∀ (j k : Nat) (line : String) (s : TStmt) (n : String),
      toks[j]? = some (k, line, s) → declaredLabel s = some n →
      lookup (allLabels toks) n = some ((instrCount (toks.take j) : Nat) : Int)) ∧
    (∀ e ∈ segData toks, isVarDecl e.2.2 = true) ∧
    (∀ (j k : Nat) (line : String) (lbl : Option String) (mn : String) (addr ref : Option String),
      (segText toks)[j]? = some (k, line, .instr lbl mn addr ref) →
      ∃ a : Nat,
        (instrsOf toks)[instrCount ((segText toks).take j)]? = some { opcode := opcodeOf mn, addr := a } ∧
        (∀ v, opcodeOf mn ≤ 7 → addr = some v → a = valueToInt v % 4096) ∧
        (∀ r, opcodeOf mn ≤ 7 → addr = none → ref = some r →
          ∃ x, lookup (allLabels toks) r = some x ∧ a = (x % 4096).toNat) ∧
        (7 < opcodeOf mn → a = 0)) := by
  have hok := loadToks_ok t toks h
  refine ⟨hok.label, hok.dataSpec.allVar, ?_⟩
  intro j k line lbl mn addr ref hj
  obtain ⟨x, hx, hi⟩ := hok.buildSpec.instr j k line lbl mn addr ref hj
  refine ⟨(x % 4096).toNat, hi, ?_, ?_, ?_⟩
  · intro v hop hv
    subst hv
    simp only [operand, hop, if_true, Option.some.injEq] at hx
    subst hx
    omega
  · intro r hop ha hr
    subst ha hr
    simp only [operand, hop, if_true] at hx
    exact ⟨x, hx, rfl⟩
  · intro hop
    have : ¬ opcodeOf mn ≤ 7 := by omega
    simp only [operand, this, if_false, Option.some.injEq] at hx
    subst hx
    rfl

/-- **Labels are instruction addresses.** For a token list with distinct line numbers (as every
    tokenised text has) and a successful load: a label declared on line `p` of the text segment is
    bound to the number of instruction lines of the text segment before it — which is the index in
    `instrsOf`, i.e. the memory address, of the first instruction at or after the label — no matter
    where the data segment stands. -/
theorem labels_are_instruction_addresses (t : TSim) (toks : List Entry)
    (hnd : (toks.map (·.1)).Nodup) (h : (loadToks t toks).2 = none)
    (p k : Nat) (line : String) (s : TStmt) (n : String)
    (hp : (segText toks)[p]? = some (k, line, s)) (hn : declaredLabel s = some n) :
    lookup (allLabels toks) n = some ((instrCount ((segText toks).take p) : Nat) : Int) :=
  (loadToks_ok t toks h).text_label hnd p k line s n hp hn

/-- **Segment order.** For a `.data` line `dD`, a `.text` line `dT`, and lists `data`, `text` without
    segment directives (the directives' line numbers not occurring earlier): `.data … .text …`,
    `.text … .data …` and `… .data …` (implicit text segment, non-empty) are all split into the
    same `(data, text)`. -/
theorem segment_order (dD dT : Entry) (hD : isDir "data" dD = true) (hT : isDir "text" dT = true)
    (data text : List Entry) (hd : ∀ e ∈ data, isSegDir e = false) (ht : ∀ e ∈ text, isSegDir e = false)
    (hlineT : ∀ e ∈ data, e.1 ≠ dT.1) (hlineD : ∀ e ∈ text, e.1 ≠ dD.1) :
    segment (dD :: (data ++ dT :: text)) = .ok (data, text) ∧
    segment (dT :: (text ++ dD :: data)) = .ok (data, text) ∧
    (text ≠ [] → segment (text ++ dD :: data) = .ok (data, text)) :=
  ⟨segment_data_text dD dT hD hT data text hd ht hlineT,
   segment_text_data dT dD hT hD text data ht hd hlineD,
   fun hne => segment_implicit_text_data dD hD text data hne ht hd hlineD⟩

/-- The degenerate orders: no directive at all — everything is text; `.data` only — no text;
    `.text` only — no data. -/
theorem segment_order_single (d : Entry) (l : List Entry) (hl : ∀ e ∈ l, isSegDir e = false) :
    segment l = .ok ([], l) ∧
    (isDir "data" d = true → segment (d :: l) = .ok (l, [])) ∧
    (isDir "text" d = true → segment (d :: l) = .ok ([], l)) :=
  ⟨segment_text_only l hl, fun h => segment_data_only d h l hl, fun h => segment_textdir_only d h l hl⟩

/-- Conversely, a token list with distinct line numbers that `segment` accepts has one of these six
    shapes (`SegShape`): anything else — a second `.data` or `.text` — is rejected. -/
theorem segment_accepts_only (toks data text : List Entry) (hnd : (toks.map (·.1)).Nodup)
    (h : segment toks = .ok (data, text)) : SegShape toks data text :=
  segment_shape toks data text hnd h

/-- **The segment order does not matter.** `processLabels` runs over the whole token list in text
    order but skips directives and variable declarations, so labels are numbered by their position
    among the instructions wherever the data segment stands: if the data lines are variable
    declarations, the three orders give the *same* result of `loadToks` — the same state
    (memory, `maxPc`, loaded instruction, …) and the same error, if any. -/
theorem segment_order_same_image (t : TSim) (dD dT : Entry) (hD : isDir "data" dD = true)
    (hT : isDir "text" dT = true) (data text : List Entry)
    (hd : ∀ e ∈ data, isVarDecl e.2.2 = true) (ht : ∀ e ∈ text, isSegDir e = false)
    (hlineT : ∀ e ∈ data, e.1 ≠ dT.1) (hlineD : ∀ e ∈ text, e.1 ≠ dD.1) :
    loadToks t (dT :: (text ++ dD :: data)) = loadToks t (dD :: (data ++ dT :: text)) ∧
    (text ≠ [] → loadToks t (text ++ dD :: data) = loadToks t (dD :: (data ++ dT :: text))) :=
  loadToks_orders t dD dT hD hT data text hd ht hlineT hlineD

/-- The same for the success case without assuming anything about the data lines: if the program in
    the order `.data … .text …` loads, then the two other orders load to the very same state. -/
theorem segment_order_same_image_of_ok (t : TSim) (dD dT : Entry) (hD : isDir "data" dD = true)
    (hT : isDir "text" dT = true) (data text : List Entry)
    (hd : ∀ e ∈ data, isSegDir e = false) (ht : ∀ e ∈ text, isSegDir e = false)
    (hlineT : ∀ e ∈ data, e.1 ≠ dT.1) (hlineD : ∀ e ∈ text, e.1 ≠ dD.1)
    (h : (loadToks t (dD :: (data ++ dT :: text))).2 = none) :
    loadToks t (dT :: (text ++ dD :: data)) = loadToks t (dD :: (data ++ dT :: text)) ∧
    (text ≠ [] → loadToks t (text ++ dD :: data) = loadToks t (dD :: (data ++ dT :: text))) :=
  loadToks_orders t dD dT hD hT data text
    (loadToks_ok_data_varDecl t _ data text (segment_data_text dD dT hD hT data text hd ht hlineT) h)
    ht hlineT hlineD

/-- **Numerals denote numbers.** For every `n` the decimal numeral of `n` and the `0x` numeral of
    `n` (upper- or lower-case digits) are read by `_value_to_int` as `n`: decimal and hexadecimal
    operands denote the same number. -/
theorem numerals_denote (n : Nat) :
    valueToInt (decNumeral n) = n ∧ valueToInt (hexNumeral n) = n ∧ valueToInt (hexNumeralLower n) = n :=
  ⟨valueToInt_decNumeral n, valueToInt_hexNumeral n, valueToInt_hexNumeralLower n⟩

/-- **Numerals are accepted.** A line `<mnemonic> <numeral>` — an address-type mnemonic in any
    upper/lower-case spelling (`addrSpellings`: all 60 of them), one blank, then either a non-empty
    string of at most 4300 decimal digits or `0x` followed by a non-empty string of hex digits of
    any length — is tokenised as that instruction (canonical mnemonic `s`, no label) with the
    numeral as its address operand. -/
theorem numerals_accepted (m : List Char) (s : String) (hp : (m, s) ∈ addrSpellings)
    (ds : List Char) (hne : ds ≠ []) :
    ((∀ c ∈ ds, isNum c = true) → ds.length ≤ 4300 →
      parseLine (m ++ ' ' :: ds) = some (.instr none s (some (String.ofList ds)) none)) ∧
    ((∀ c ∈ ds, isHexNum c = true) →
      parseLine (m ++ ' ' :: '0' :: 'x' :: ds) =
        some (.instr none s (some ("0x" ++ String.ofList ds)) none)) :=
  ⟨fun hnum hlen => parseLine_addr_dec m s hp ds hne hnum hlen,
   fun hhex => parseLine_addr_hex m s hp ds hne hhex⟩

/-- In particular the numerals of `n`: `ADD <decimal n>` (for `n < 10^4300`) and `ADD 0x<hex n>`
    are both accepted, for every spelling of every address mnemonic, and — by `numerals_denote` —
    produce instructions with the same address section `n mod 4096`. -/
theorem numerals_of_n_accepted (m : List Char) (s : String) (hp : (m, s) ∈ addrSpellings) (n : Nat) :
    (n < 10 ^ 4300 →
      parseLine (m ++ ' ' :: (decNumeral n).toList) = some (.instr none s (some (decNumeral n)) none)) ∧
    parseLine (m ++ ' ' :: (hexNumeral n).toList) = some (.instr none s (some (hexNumeral n)) none) ∧
    parseLine (m ++ ' ' :: (hexNumeralLower n).toList) =
      some (.instr none s (some (hexNumeralLower n)) none) ∧
    ∀ (k : Nat) (line : String) (lbl : Option String) (ls : Labels),
      buildInstrs [(k, line, .instr lbl s (some (decNumeral n)) none)] ls =
        buildInstrs [(k, line, .instr lbl s (some (hexNumeral n)) none)] ls ∧
      buildInstrs [(k, line, .instr lbl s (some (decNumeral n)) none)] ls =
        buildInstrs [(k, line, .instr lbl s (some (hexNumeralLower n)) none)] ls := by
  refine ⟨?_, ?_, ?_, ?_⟩
  · intro hn
    have := parseLine_addr_dec m s hp (digitStr Fmt.digitChar 10 n) (digitStr_ne_nil _ _ _)
      (digitStr_isNum _ isDigitTable_upper n)
      (digitStr_length_le _ 10 (by omega) n 4300 (by omega) hn)
    simpa [decNumeral] using this
  · have := parseLine_addr_hex m s hp (digitStr Fmt.digitChar 16 n) (digitStr_ne_nil _ _ _)
      (digitStr_isHexNum _ isDigitTable_upper n)
    simpa [hexNumeral] using this
  · have := parseLine_addr_hex m s hp (digitStr lowerDigit 16 n) (digitStr_ne_nil _ _ _)
      (digitStr_isHexNum _ isDigitTable_lower n)
    simpa [hexNumeralLower] using this
  · intro k line lbl ls
    simp only [buildInstrs, valueToInt_decNumeral, valueToInt_hexNumeral, valueToInt_hexNumeralLower,
      and_self]

/-! ## Non-vacuity examples (a concrete 3-line program) -/

/-- `prog3` loads (hypothesis of `instr_placement`, `data_placement_load`, `labels_resolve`), has
    distinct line numbers, one instruction `LDA 4094 = 0x1FFE` at address 0, the array at
    4094, 4095, and the label table `loop ↦ 0, x ↦ 4094`. -/
example :
    (loadToks {} prog3).2 = none ∧ (prog3.map (·.1)).Nodup ∧
    instrsOf prog3 = [⟨1, 4094⟩] ∧
    segData prog3 = [(3, "x: .word 7, 0x10", .varDecl "x" ["7", "0x10"])] ∧
    allLabels prog3 = [("loop", 0), ("x", 4094)] ∧
    (loadToks {} prog3).1.s.mem.cells 0 = 0x1FFE ∧
    (loadToks {} prog3).1.s.mem.cells 4094 = 7 ∧ (loadToks {} prog3).1.s.mem.cells 4095 = 16 := by
  decide

/-- The data pass of `prog3` on its own (hypotheses of `data_placement`). -/
example :
    (writeData (segData prog3) (dataInit [("loop", 0)])).err = none ∧
    (dataInit [("loop", 0)]).mem.cfg = Mem.toyCfg ∧ (dataInit [("loop", 0)]).last ≤ 4095 := by
  decide

/-- The hypotheses of `segment_order` / `segment_order_same_image` hold for the pieces of `prog3`,
    and `prog3'` (data first) indeed loads to the same cells. -/
example :
    let dD : Entry := (2, ".data", .directive "data")
    let dT : Entry := (4, ".text", .directive "text")
    let data : List Entry := [(3, "x: .word 7, 0x10", .varDecl "x" ["7", "0x10"])]
    let text : List Entry := [(1, "loop: LDA x", .instr (some "loop") "LDA" none (some "x"))]
    isDir "data" dD = true ∧ isDir "text" dT = true ∧
    (∀ e ∈ data, isVarDecl e.2.2 = true) ∧ (∀ e ∈ data, isSegDir e = false) ∧
    (∀ e ∈ text, isSegDir e = false) ∧ (∀ e ∈ data, e.1 ≠ dT.1) ∧ (∀ e ∈ text, e.1 ≠ dD.1) ∧
    text ≠ [] ∧ prog3 = text ++ dD :: data ∧ prog3' = dD :: (data ++ dT :: text) ∧
    (loadToks {} prog3').2 = none ∧ (loadToks {} prog3').1.s.mem.cells 0 = 0x1FFE := by
  decide

/-- Hypotheses of `numerals_accepted`: `aDd` is a spelling of `ADD`; `4095`, `0xFFF`, `0xfff`. -/
example :
    ("aDd".toList, "ADD") ∈ addrSpellings ∧ addrSpellings.length = 60 ∧
    decNumeral 4095 = "4095" ∧ hexNumeral 4095 = "0xFFF" ∧ hexNumeralLower 4095 = "0xfff" ∧
    (∀ c ∈ "4095".toList, isNum c = true) ∧ (∀ c ∈ "fFf".toList, isHexNum c = true) := by
  decide

/-! ## Example programs (evaluated in the model; examples, not universal claims) -/

/-- `countdown` is tokenised (by the real front end `tokenize ∘ sanitize`) into six instruction
    lines, the `.data` directive and the declaration of `x`. -/
theorem countdown_tokens :
    tokenize (sanitize countdown) = .ok
      [(1, "LDA x", .instr none "LDA" none (some "x")),
       (2, "loop: DEC", .instr (some "loop") "DEC" none none),
       (3, "BRZ end", .instr none "BRZ" none (some "end")),
       (4, "ZRO", .instr none "ZRO" none none),
       (5, "BRZ loop", .instr none "BRZ" none (some "loop")),
       (6, "end: STO x", .instr (some "end") "STO" none (some "x")),
       (7, ".data", .directive "data"),
       (8, "x: .word 3", .varDecl "x" ["3"])] := by
  rw [tokenize_of_tokenizes countdown (by decide +kernel)]
  exact congrArg _ (by decide +kernel)

/-- `countdown` assembles to `LDA 4095, DEC, BRZ 5, ZRO, BRZ 1, STO 4095` at addresses 0..5 with
    `x = 3` at 4095, `loop ↦ 1`, `end ↦ 5`, `x ↦ 4095`.  (Executing it never reaches `end`: `ZRO`
    clears the accumulator before the jump back, so after the first round `DEC` always produces
    65535 — in the model the program is still running after 1000 steps, with `x` unchanged.) -/
theorem countdown_image :
    (load {} countdown).2 = none ∧
    (List.range 6).map (fun (i : Nat) => (load {} countdown).1.s.mem.cells (i : Int)) =
      [0x1FFF, 0xA000, 0x2005, 0xB000, 0x2001, 0x0FFF] ∧
    (load {} countdown).1.s.mem.cells 4095 = 3 ∧
    (load {} countdown).1.s.maxPc = some 5 ∧
    isDone (run 1000 (load {} countdown).1) = false ∧
    (run 1000 (load {} countdown).1).s.mem.cells 4095 = 3 := by
  rw [(load_tokenised {} countdown).1, countdown_tokens]
  decide +kernel

/-- The text of the help-page example is tokenised (by the real front end) into `helpExample`,
    and the text of `sum.toy` into `sumToy`; hence `load` on these texts is `loadToks` on these
    token lists, and the two results below are results about the documented program *texts*. -/
theorem documented_examples_tokens (t : TSim) :
    tokenize (sanitize (textOfLines helpLines)) = .ok helpExample ∧
    tokenize (sanitize (textOfLines sumLines)) = .ok sumToy ∧
    load t (textOfLines helpLines) = loadToks t helpExample ∧
    load t (textOfLines sumLines) = loadToks t sumToy := by
  have h1 : tokenize (sanitize (textOfLines helpLines)) = .ok helpExample :=
    tokenize_of_tokenizesTo _ _ (by decide +kernel)
  have h2 : tokenize (sanitize (textOfLines sumLines)) = .ok sumToy :=
    tokenize_of_tokenizesTo _ _ (by decide +kernel)
  refine ⟨h1, h2, ?_, ?_⟩
  · rw [(load_tokenised t _).1, h1]
  · rw [(load_tokenised t _).1, h2]

/-- The help-page example: the array is at 4093..4095 (`7, 15, 3`), `my_var` at 4092, `my_result`
    at 4091; the labels are `true ↦ 5`, `end ↦ 7`; the run halts after 5 instructions with
    `my_result = 1` (the first array element equals `my_var`). -/
theorem help_example_result :
    (loadToks {} helpExample).2 = none ∧
    allLabels helpExample =
      [("true", 5), ("end", 7), ("my_array", 4093), ("my_var", 4092), ("my_result", 4091)] ∧
    (List.range 5).map (fun (i : Nat) => (loadToks {} helpExample).1.s.mem.cells (4091 + (i : Int))) =
      [0, 7, 7, 15, 3] ∧
    isDone (run 10 (loadToks {} helpExample).1) = true ∧
    (run 10 (loadToks {} helpExample).1).s.instrs = 5 ∧
    (run 10 (loadToks {} helpExample).1).s.mem.cells 4091 = 1 := by
  decide +kernel

/-- `sum.toy`: `n` is at 4095, `result` at 4094, `loop ↦ 2`, `end ↦ 11`; the run halts after 90
    instructions with `result = 55 = 1 + … + 10` and `n = 0`. -/
theorem sum_toy_result :
    (loadToks {} sumToy).2 = none ∧
    allLabels sumToy = [("loop", 2), ("end", 11), ("n", 4095), ("result", 4094)] ∧
    isDone (run 100 (loadToks {} sumToy).1) = true ∧
    (run 100 (loadToks {} sumToy).1).s.instrs = 90 ∧
    (run 100 (loadToks {} sumToy).1).s.mem.cells 4094 = 55 ∧
    (run 100 (loadToks {} sumToy).1).s.mem.cells 4095 = 0 := by
  decide +kernel

end ArchSim.Props.C19
