/-
C19 (encoding part) — TOY instruction words: `encode`/`decode` round trips.
Property theorems only. (The assembler part of C19 lives elsewhere.)
-/
import ArchSim.Model.Toy

namespace ArchSim.Props.C19
open ArchSim.Toy

/-- Every TOY instruction (opcode 0..12, 12-bit address section) encodes to a 16-bit word whose top
    four bits are the opcode and whose low twelve bits are the address, and that word decodes back
    to the very same instruction (opcode *and* address section, also for the address-less ones). -/
theorem decode_encode (i : TInstr) (hop : i.opcode ≤ 12) (haddr : i.addr < 4096) :
    decode (encode i) = i ∧ encode i < 65536 ∧ encode i / 4096 = i.opcode ∧ encode i % 4096 = i.addr := by
  obtain ⟨op, a⟩ := i
  simp only [encode, decode] at *
  refine ⟨?_, by omega, by omega, by omega⟩
  have h1 : (op * 4096 + a) / 4096 % 16 = op := by omega
  have h2 : (op * 4096 + a) % 4096 = a := by omega
  simp only [h1, h2]
  by_cases h : op ≤ 11
  · simp [h]
  · have : op = 12 := by omega
    simp [this]

/-- Every 16-bit word decodes to the instruction its top four bits denote, with the low twelve
    bits as address section: for opcodes 0..12 re-encoding gives the word back (so decoding is
    injective there and the decoded opcode is exactly `w / 4096`); the words with opcode 13, 14, 15
    decode to `NOP` (opcode 12) with the address section kept. -/
theorem encode_decode (w : Nat) (hw : w < 65536) :
    (decode w).opcode ≤ 12 ∧ (decode w).addr = w % 4096 ∧
    (w / 4096 ≤ 12 → encode (decode w) = w ∧ (decode w).opcode = w / 4096) ∧
    (12 < w / 4096 → decode w = ⟨12, w % 4096⟩) := by
  simp only [encode, decode]
  have h1 : w / 4096 % 16 = w / 4096 := by omega
  simp only [h1]
  refine ⟨by split <;> omega, trivial, ?_, ?_⟩
  · intro h; split <;> omega
  · intro h
    have : ¬ w / 4096 ≤ 11 := by omega
    simp [this]

/-- Decoding ignores everything above bit 15 (the Python code masks with `0xF` / `0xFFF`), so the
    two statements above cover `decode` on all naturals. -/
theorem decode_mod (w : Nat) : decode (w % 65536) = decode w := by
  simp only [decode]
  have h1 : w % 65536 / 4096 % 16 = w / 4096 % 16 := by omega
  have h2 : w % 65536 % 4096 = w % 4096 := by omega
  simp only [h1, h2]

/-- Non-vacuity: `ADD 0x123` is the word `0x3123`, and `0xF00A` (opcode 15) decodes to `NOP` with
    address section `0x00A`. -/
example : encode ⟨3, 0x123⟩ = 0x3123 ∧ decode 0x3123 = ⟨3, 0x123⟩ ∧ decode 0xF00A = ⟨12, 0x00A⟩ := by
  decide

end ArchSim.Props.C19
