import ArchSim.Model.Rv
namespace ArchSim.Props.C01
open ArchSim.Rv
/-- Register x0 is never written. -/
theorem x0_unchanged (regs : Nat → Nat) (v : Nat) : setReg regs 0 v 0 = regs 0 := by
  simp [setReg]
end ArchSim.Props.C01
