/-
C01 — single-cycle RV32IM execution = ISA reference semantics.

Property theorems only (plus non-vacuity examples).  The reference semantics `RvSpec` (bit-vector
registers, byte memory, ecall table) is in `ArchSim/Spec/RvSpec.lean`; the abstraction `α`, the
well-formedness predicates and the iterated steps are in `ArchSim/Lemmas/C01Defs.lean`; one refinement
lemma per mnemonic (`exec_add`, …, `exec_ecall`) and all helper lemmas are in `ArchSim/Lemmas/C01*.lean`.

Vocabulary
 * `InstrWF i`   : register numbers `< 32`, stored immediate in the range of its format;
 * `Supported op`: every mnemonic except CSR*, FENCE, EBREAK;
 * `StOK s`      : flat RISC-V data memory whose cells are bytes (`C18.WF`), register values `< 2^32`,
                   `x0 = 0`, `0 ≤ pc < 2^32` — preserved by every step (`invariant_preserved`);
 * `ProgOK prog` : at most 4096 instructions (the instruction memory ends at 2^14), all well-formed
                   and supported;
 * `α s`         : registers ↦ `BitVec.ofNat 32`, memory cells ↦ `BitVec.ofNat 8`,
                   pc ↦ `BitVec.ofInt 32`, output and exit code unchanged; counters are dropped;
 * `execOne i s` : `behavior i s` followed by the stage's `pc := (pc + 4) % 2^32` (not at a fault);
 * `αBeh`/`αStep`: outcome ↦ `some (.ok (α st))`, or `some (.error f)` with the model fault mapped by
                   `αFault` (address error ↦ access fault, invalid ecall code ↦ ecall fault).
-/
import ArchSim.Lemmas.C01More

namespace ArchSim.Props.C01
open ArchSim ArchSim.Rv ArchSim.Spec.RvSpec ArchSim.Lemmas.C01

/-! ## (a) one instruction -/

/-- For EVERY supported instruction (all 46 mnemonics: integer register/immediate, shifts, M extension,
    loads, stores, branches, LUI/AUIPC, JAL/JALR, ecall), every register triple (aliasing and x0
    included), every immediate of its format, and every state with a flat memory: executing it in
    single-cycle mode and abstracting gives exactly what the reference semantics prescribes — same
    registers, memory, pc, output, exit code, or the same fault. -/
theorem exec_refines (i : Instr) (s : St) (hi : InstrWF i) (hsup : Supported i.op) (hs : StOK s) :
    αBeh (execOne i s) = some (exec i (α s)) :=
  exec_refines_all i s hi hsup hs

/-- At a fault (unmapped data address, invalid ecall code) registers, pc, output and exit code are
    unchanged, and memory is unchanged except that a store has written the bytes preceding the first
    unmapped one — the state the specification's `atFault` describes. -/
theorem fault_state (i : Instr) (s : St) (hi : InstrWF i) (hs : StOK s) (f : Fault)
    (hf : (execOne i s).fault = some f) : α (execOne i s).st = atFault i (α s) :=
  fault_state_lem i s hi hs f hf

/-- `InstrWF` is what the Python constructors guarantee: whatever raw immediate is passed, the stored
    one lies in the range of the instruction's format. -/
theorem constructor_imm_wf (op : Op) (raw : Int) (h : Supported op) : ImmOK op (storedImm op raw) :=
  storedImm_ok op raw h

/-! ## (b) x0 -/

/-- Register 0 is never written: one step (of ANY state — cached or flat memory, any instruction
    memory, any instruction) leaves `regs 0` unchanged. -/
theorem x0_unchanged (s : St) : (singleStep s).st.regs 0 = s.regs 0 :=
  singleStep_regs0 s

/-- Hence register 0 reads 0 in every state reachable from a state with `regs 0 = 0`, by raw steps or
    by simulation steps, for every number of steps. -/
theorem x0_zero (s : St) (h : s.regs 0 = 0) (n : Nat) :
    (stepN n s).st.regs 0 = 0 ∧ (simN n s).st.regs 0 = 0 := by
  rw [stepN_regs0, simN_regs0]; exact ⟨h, h⟩

/-- In the reference semantics register number 0 reads zero by construction, whatever the state. -/
theorem spec_x0_zero (σ : SpecSt) : σ.get 0 = 0 := rfl

/-! ## (c) steps and runs -/

/-- One `singleStep` (fetch, count, execute, uncounted re-read for loads, pc update) refines one step
    of the reference machine on the same program. -/
theorem step_refines (prog : List Instr) (hp : ProgOK prog) (s : St)
    (him : s.imem = { prog := prog, cache := none }) (hs : StOK s) :
    αStep (singleStep s) = some (step prog (α s)) :=
  step_refines_lem prog hp s him hs

/-- The hypotheses are an invariant: a step keeps the instruction memory and re-establishes `StOK`
    (also when it faults); a reported fault carries the address of the faulting instruction. -/
theorem invariant_preserved (prog : List Instr) (hp : ProgOK prog) (s : St)
    (him : s.imem = { prog := prog, cache := none }) (hs : StOK s) :
    (singleStep s).st.imem = s.imem ∧ StOK (singleStep s).st ∧
      (∀ a f, (singleStep s).fault = some (a, f) → a = s.pc) :=
  ⟨(step_preserves prog hp s him hs).1, StOK_step prog hp s him hs, (step_preserves prog hp s him hs).2.2⟩

/-- On a flat memory the uncounted re-read of a load returns a value and changes nothing. -/
theorem load_reread_noop (i : Instr) (s : St) (m : Mem.Mem) (hm : s.mem = .flat m)
    (hc : m.cfg = Mem.riscvCfg) (hr : s.regs i.rs1 < 4294967296) (hty : i.op.ty = .memI)
    (hf : (behavior i s).fault = none) :
    ∃ r, memoryAccess i (some ((wrapU (s.regs i.rs1 : Int) : Int) + i.imm)) none (behavior i s).st.mem false =
      some { mem := (behavior i s).st.mem, extra := 0, res := .ok r } :=
  reread_flat i s m hm hc hr hty hf

/-- For EVERY number of steps `n`: `n` raw `singleStep`s (stopping at the first fault) refine `n` steps
    of the reference machine. -/
theorem run_refines (prog : List Instr) (hp : ProgOK prog) (n : Nat) (s : St)
    (him : s.imem = { prog := prog, cache := none }) (hs : StOK s) :
    αStep (stepN n s) = some (iter prog n (α s)) :=
  (stepN_refines_lem prog hp n s him hs).1

/-- The simulation is done exactly when the reference machine has halted: the pc holds no instruction
    or an exit code is set. -/
theorem done_iff (prog : List Instr) (s : St) (him : s.imem = { prog := prog, cache := none })
    (h0 : 0 ≤ s.pc) (h1 : s.pc < 4294967296) : singleDone s = true ↔ halted prog (α s) :=
  done_iff_lem prog s him h0 h1

/-- For EVERY `n`: `n` calls of `RiscvSimulation.step()` (which does nothing once done) refine the
    reference machine run for at most `n` steps — same final state, or the same fault. -/
theorem sim_refines (prog : List Instr) (hp : ProgOK prog) (n : Nat) (s : St)
    (him : s.imem = { prog := prog, cache := none }) (hs : StOK s) :
    αStep (simN n s) = some (run prog n (α s)) :=
  (simN_refines_lem prog hp n s him hs).1

/-! ## (d) the program counter stays a 32-bit value -/

/-- After a step of ANY state with `0 ≤ pc < 2^32` (cached or flat memory, any instruction, fault or
    not) the pc is again in `[0, 2^32)`. -/
theorem pc_normal (s : St) (h0 : 0 ≤ s.pc) (h1 : s.pc < 4294967296) :
    0 ≤ (singleStep s).st.pc ∧ (singleStep s).st.pc < 4294967296 :=
  singleStep_pc s h0 h1

/-- … and therefore after every number of steps. -/
theorem pc_normal_run (n : Nat) (s : St) (h0 : 0 ≤ s.pc) (h1 : s.pc < 4294967296) :
    0 ≤ (stepN n s).st.pc ∧ (stepN n s).st.pc < 4294967296 :=
  stepN_pc n s h0 h1

/-! ## (e) the ecall table, clause by clause (a7 = x17 selects, a0 = x10 is the argument)

These hold for EVERY state (no hypothesis on memory or registers) except the print-string clause. -/

/-- a7 = 1: print a0 as a signed decimal number (two's complement reading of its 32 bits). -/
theorem ecall_print_int (i : Instr) (s : St) (hop : i.op = .ecall) (h : s.regs 17 = 1) :
    behavior i s =
      { st := { s with output := s.output ++ toString (BitVec.ofNat 32 (s.regs 10)).toInt }, fault := none } := by
  simp only [behavior, hop, Op.ty, processEcall, h, toInt_W, intToDec_eq]
  rfl

/-- a7 = 2: print a0 as a float (the float formatting itself is opaque: `floatMarker`). -/
theorem ecall_print_float (i : Instr) (s : St) (hop : i.op = .ecall) (h : s.regs 17 = 2) :
    behavior i s = { st := { s with output := s.output ++ floatMarker (s.regs 10) }, fault := none } := by
  simp only [behavior, hop, Op.ty, processEcall, h]
  rfl

/-- a7 = 4: print the NUL-terminated string at address a0 — the bytes up to the first zero byte, each
    as the character `byte mod 128` (`readStr`); if an address below the data base 16384 is reached
    first (directly, or by running off the top of the address space), a memory address error for that
    address and nothing is printed. -/
theorem ecall_print_string (i : Instr) (s : St) (hop : i.op = .ecall) (h : s.regs 17 = 4) (hs : StOK s) :
    (∀ cs, readStr (α s).mem (s.regs 10) = .ok cs →
      behavior i s = { st := { s with output := s.output ++ String.ofList cs }, fault := none }) ∧
    (∀ f, readStr (α s).mem (s.regs 10) = .error f →
      ∃ a : Int, f = .access (BitVec.ofInt 32 a) ∧
        behavior i s = { st := s, fault := some (.mem (.addr a)) }) := by
  obtain ⟨m, hm, hc, _⟩ := hs.flat
  obtain ⟨p1, p2, p3⟩ := printStr_flat s m hm hc (hs.regs_lt 10)
  have hb : behavior i s = match printStrLoop printStrFuel s.mem (s.regs 10 : Int) [] with
      | (m, .ok cs) => { st := { s with mem := m, output := s.output ++ String.ofList cs }, fault := none }
      | (m, .error e) => { st := { s with mem := m }, fault := some (.mem e) } := by
    simp only [behavior, hop, Op.ty, processEcall, h]
    rcases printStrLoop printStrFuel s.mem (s.regs 10 : Int) [] with ⟨m', _ | _⟩ <;> rfl
  rcases hps : printStrLoop printStrFuel s.mem (s.regs 10 : Int) [] with ⟨m', r⟩
  rw [hps] at p1 p2 p3 hb
  simp only at p1 p2 p3
  subst p1
  cases r with
  | ok cs =>
    refine ⟨fun cs' h' => ?_, fun f h' => ?_⟩
    · rw [← p2] at h'; cases h'; exact hb
    · rw [← p2] at h'; cases h'
  | error e =>
    obtain ⟨x, rfl⟩ := p3 e rfl
    refine ⟨fun cs' h' => ?_, fun f h' => ?_⟩
    · rw [← p2] at h'; cases h'
    · rw [← p2] at h'; cases h'; exact ⟨x, rfl, hb⟩

/-- What `readStr` (used by the print-string clause) denotes: it returns `cs` iff there is a first zero
    byte at `a + k`, every address `a .. a + k` is a mapped data address (`≥ 16384`, `< 2^32`), and `cs`
    is the list of the `k` bytes before it, each as the character `byte mod 128`. -/
theorem print_string_text (mem : Word → Byte) (a : Nat) (cs : List Char) :
    readStr mem a = .ok cs ↔
      ∃ k, dataBase ≤ a ∧ a + k < 4294967296 ∧ (∀ j, j < k → mem (BitVec.ofNat 32 (a + j)) ≠ 0) ∧
        mem (BitVec.ofNat 32 (a + k)) = 0 ∧
        cs = (List.range k).map (fun j => Char.ofNat ((mem (BitVec.ofNat 32 (a + j))).toNat % 128)) :=
  readStr_ok_iff mem a cs

/-- … and it faults iff the scan reaches an unmapped address `a + k` (below the data base, or `2^32`,
    which wraps to address 0) before any zero byte; the fault reports that address modulo 2^32. -/
theorem print_string_fault (mem : Word → Byte) (a : Nat) (f : SpecFault) :
    readStr mem a = .error f ↔
      ∃ k, (∀ j, j < k → dataBase ≤ a + j ∧ a + j < 4294967296 ∧ mem (BitVec.ofNat 32 (a + j)) ≠ 0) ∧
        (a + k < dataBase ∨ 4294967296 ≤ a + k) ∧ f = .access (BitVec.ofNat 32 (a + k)) :=
  readStr_error_iff mem a f

/-- a7 = 11: print the character `a0 mod 128`. -/
theorem ecall_print_char (i : Instr) (s : St) (hop : i.op = .ecall) (h : s.regs 17 = 11) :
    behavior i s =
      { st := { s with output := s.output ++ String.singleton (Char.ofNat (s.regs 10 % 128)) }, fault := none } := by
  simp only [behavior, hop, Op.ty, processEcall, h, String.singleton_eq_ofList]
  rfl

/-- a7 = 34: print `0x` followed by the upper-case hexadecimal digits of a0 (no leading zeros). -/
theorem ecall_print_hex (i : Instr) (s : St) (hop : i.op = .ecall) (h : s.regs 17 = 34) :
    behavior i s = { st := { s with output := s.output ++ ("0x" ++ upperHex (s.regs 10)) }, fault := none } := by
  simp only [behavior, hop, Op.ty, processEcall, h, natToBase16]
  rfl

/-- a7 = 35: print `0b` followed by the binary digits of a0. -/
theorem ecall_print_bin (i : Instr) (s : St) (hop : i.op = .ecall) (h : s.regs 17 = 35) :
    behavior i s = { st := { s with output := s.output ++ ("0b" ++ binary (s.regs 10)) }, fault := none } := by
  simp only [behavior, hop, Op.ty, processEcall, h, natToBase2]
  rfl

/-- a7 = 36: print a0 as an unsigned decimal number. -/
theorem ecall_print_uint (i : Instr) (s : St) (hop : i.op = .ecall) (h : s.regs 17 = 36) :
    behavior i s = { st := { s with output := s.output ++ toString (s.regs 10) }, fault := none } := by
  simp only [behavior, hop, Op.ty, processEcall, h, natToBase10]
  rfl

/-- a7 = 10: exit with code 0. -/
theorem ecall_exit0 (i : Instr) (s : St) (hop : i.op = .ecall) (h : s.regs 17 = 10) :
    behavior i s = { st := { s with exitCode := some 0 }, fault := none } := by
  simp only [behavior, hop, Op.ty, processEcall, h]
  rfl

/-- a7 = 93: exit with code a0. -/
theorem ecall_exit_a0 (i : Instr) (s : St) (hop : i.op = .ecall) (h : s.regs 17 = 93) :
    behavior i s = { st := { s with exitCode := some (s.regs 10 : Int) }, fault := none } := by
  simp only [behavior, hop, Op.ty, processEcall, h]
  rfl

/-- Any other value of a7: the "not a valid code for ECALL" fault, state unchanged. -/
theorem ecall_invalid (i : Instr) (s : St) (hop : i.op = .ecall)
    (h : s.regs 17 ∉ [1, 2, 4, 11, 34, 35, 36, 10, 93]) :
    behavior i s = { st := s, fault := some (.ecallCode (s.regs 17)) } := by
  simp only [List.mem_cons, List.not_mem_nil, or_false, not_or] at h
  obtain ⟨h1, h2, h4, h11, h34, h35, h36, h10, h93⟩ := h
  simp only [behavior, hop, Op.ty, processEcall, h1, h2, h4, h11, h34, h35, h36, h10, h93, if_false]
  rfl

/-- The exit code changes only when an exit ecall is executed (a7 = 10: code 0; a7 = 93: code a0) —
    for EVERY instruction and EVERY state.  Together with `done_iff`: execution ends exactly when the
    pc holds no instruction or an exit ecall has been executed. -/
theorem exit_only_by_ecall (i : Instr) (s : St) :
    (behavior i s).st.exitCode = s.exitCode ∨
      (i.op = .ecall ∧ ((s.regs 17 = 10 ∧ (behavior i s).st.exitCode = some 0) ∨
        (s.regs 17 = 93 ∧ (behavior i s).st.exitCode = some (s.regs 10 : Int)))) :=
  behavior_exit i s

/-- The print-string loop with fuel `2^32 + 1` never runs out of fuel on a flat RISC-V memory — for
    EVERY memory content, EVERY start address (any integer) and accumulator: it meets a zero byte, or
    the address wraps into the unmapped range below 16384 and the read raises.  (Measure: distance of
    the wrapped address to `2^32`.) -/
theorem print_string_terminates (m : Mem.Mem) (hc : m.cfg = Mem.riscvCfg) (a : Int) (acc : List Char) :
    (printStrLoop printStrFuel (.flat m) a acc).2 ≠ .error .policy :=
  printStr_fuel m hc printStrFuel a acc (by simp only [printStrFuel]; omega)

/-! ## Non-vacuity (the concrete state `exSt`, program `exProg`, initial state `exInit` and the observer
`observe` are defined in `Lemmas/C01Defs.lean`) -/

example : StOK exSt where
  flat := ⟨_, rfl, rfl, ArchSim.Lemmas.C18.WF_empty _⟩
  regs_lt := by intro r; simp only [exSt]; (repeat' split) <;> omega
  x0 := rfl
  pc_lo := by decide
  pc_hi := by decide

-- hypotheses of `exec_refines` for instructions of different families
example : InstrWF { op := .mulhsu, rd := 1, rs1 := 6, rs2 := 5 } ∧ Supported Op.mulhsu := by decide
example : InstrWF { op := .sw, rs1 := 7, rs2 := 6, imm := -2 } ∧ Supported Op.sw := by decide
example : InstrWF { op := .jalr, rd := 1, rs1 := 6, imm := 2047 } ∧ Supported Op.jalr := by decide
-- … and `InstrWF` excludes an out-of-range immediate, `Supported` excludes the CSR forms
example : ¬ InstrWF { op := .addi, rd := 1, rs1 := 6, imm := 2048 } ∧ ¬ Supported Op.csrrw := by decide

-- the reference semantics computes: mulhsu (-3) * 7 = -21, high word = 0xFFFFFFFF, pc = 12
example : observe 1 0 (exec { op := .mulhsu, rd := 1, rs1 := 6, rs2 := 5 } (α exSt)) =
    .inr (0xFFFFFFFF#32, 12#32, none, 0#8) := by decide
-- jalr x1, 2047(x6): target (2^32 - 3 + 2047) mod 2^32 = 2044 with bit 0 cleared, link = 12
example : observe 1 0 (exec { op := .jalr, rd := 1, rs1 := 6, imm := 2047 } (α exSt)) =
    .inr (12#32, 2044#32, none, 0#8) := by decide
-- div by zero gives -1, rem by zero the dividend
example : observe 1 0 (exec { op := .div, rd := 1, rs1 := 5, rs2 := 0 } (α exSt)) =
    .inr (0xFFFFFFFF#32, 12#32, none, 0#8) := by decide
-- sw x6, -2(x7): byte 0 would go to 0x3FFE, below the data base: access fault at 0x3FFE
example : observe 0 0 (exec { op := .sw, rs1 := 7, rs2 := 6, imm := -2 } (α exSt)) =
    .inl (.access 0x3FFE#32) := by decide
-- … and the model agrees (instance of `exec_refines`)
example : (execOne { op := .sw, rs1 := 7, rs2 := 6, imm := -2 } exSt).fault = some (.mem (.addr 16382)) := by
  decide
-- sh x6, 0(x7) stores 0xFD at 0x4000 and 0xFF at 0x4001 (little endian)
example : observe 0 0x4000 (exec { op := .sh, rs1 := 7, rs2 := 6, imm := 0 } (α exSt)) = .inr (0#32, 12#32, none, 0xFD#8)
    ∧ observe 0 0x4001 (exec { op := .sh, rs1 := 7, rs2 := 6, imm := 0 } (α exSt)) = .inr (0#32, 12#32, none, 0xFF#8)
    ∧ observe 0 0x4002 (exec { op := .sh, rs1 := 7, rs2 := 6, imm := 0 } (α exSt)) = .inr (0#32, 12#32, none, 0#8) :=
  ⟨by decide, by decide, by decide⟩
-- an invalid ecall code (a7 = 0) is a fault on both sides
example : observe 0 0 (exec { op := .ecall } (α exSt)) = .inl (.ecall 0#32) ∧
    (execOne { op := .ecall } exSt).fault = some (.ecallCode 0) := by decide

-- hypotheses of `step_refines`, `run_refines`, `sim_refines`
example : ProgOK exProg := ⟨by decide, by decide⟩
example : StOK exInit :=
  ⟨⟨_, rfl, rfl, ArchSim.Lemmas.C18.WF_empty _⟩, fun _ => by show (0 : Nat) < 4294967296; decide, rfl,
    by decide, by decide⟩
example : exInit.imem = { prog := exProg, cache := none } := rfl
-- the model run: done after 8 steps with exit code 15 + (-1) = 14, the last instruction not executed
example : (simN 100 exInit).st.exitCode = some 14 ∧ (simN 100 exInit).st.pc = 32 ∧
    (simN 100 exInit).st.instrs = 8 ∧ (simN 100 exInit).fault = none ∧
    singleDone (simN 100 exInit).st = true := by decide
-- the reference run: same exit code, pc, x4 = sign-extended byte, memory byte (instance of `sim_refines`)
example : observe 4 0x4001 (run exProg 100 (α exInit)) = .inr (0xFFFFFFFF#32, 32#32, some 14, 0xFF#8) := by
  decide

end ArchSim.Props.C01
